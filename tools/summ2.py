#!/usr/bin/env python3
# compact: group by (kind, rule, normalised method), list details and count
import sys,re,collections
g=collections.OrderedDict()
for l in sys.stdin:
    m=re.match(r'(VIOLATED|UNDECIDED) (\S*) \[(\S+)\] (.+?) (uses \S+|[^:]*?): (.*)$',l.rstrip('\n'))
    if not m: continue
    kind,pos,rule,cons,detail,msg=m.groups()
    meth=re.sub(r'(Real|Float|Int)(8|16|32|64)?','#',cons)
    k=(kind,rule,meth)
    d=g.setdefault(k,{'n':0,'details':collections.OrderedDict(),'pos':pos,'msg':msg})
    d['n']+=1; d['details'][detail]=1
for (kind,rule,meth),d in g.items():
    print(f"{kind[:4]} [{rule}] {meth} x{d['n']} @{d['pos']} | {'; '.join(list(d['details'])[:6])}")
