#!/bin/bash
# usage: confirm_seed.sh <seed-dir> -> prints RESULT line; exit 0 iff: patch applies, builds, existing tests pass with it,
# demo fails with it and passes without it. The demo test file is dropped into the package named by its 'package' clause.
S="$1"
export GOFLAGS=-mod=mod GOPROXY=off GOSUMDB=off GOTOOLCHAIN=local
DEMO=$(ls "$S"/demo_test.go "$S"/*_test.go 2>/dev/null | head -1)
[ -n "$DEMO" ] || { echo "RESULT $S no-demo"; exit 2; }
for BASE in HEAD $(git -C /repo log --format=%h | tail -n +2); do
  W=$(mktemp -d /tmp/cs.XXXXXX); rmdir "$W"
  git -C /repo worktree add --detach "$W" "$BASE" >/dev/null 2>&1 || { echo "worktree failed"; exit 2; }
  if (cd "$W" && git apply --check "$S/patch.diff" 2>/dev/null); then break; fi
  git -C /repo worktree remove --force "$W" >/dev/null 2>&1; W=""
done
[ -n "$W" ] || { echo "RESULT $S patch-applies-nowhere"; exit 3; }
cleanup() { git -C /repo worktree remove --force "$W" >/dev/null 2>&1; rm -rf "$W"; }
trap cleanup EXIT
cd "$W"
# package dir of the demo: from notes (path mentioned) or by package clause
PK=$(grep -m1 '^package ' "$DEMO" | awk '{print $2}')
PKG=.
if [ "$PK" != "autodiff" ]; then
  PKG=$(grep -rl --include=*.go "^package ${PK%_test}\$" . | grep -v _test.go | head -1 | xargs dirname)
fi
RUN=$(grep -o 'func Test[A-Za-z0-9_]*' "$DEMO" | sed 's/func //' | paste -sd'|')
cp "$DEMO" "$PKG/zz_seed_demo_test.go"
RACE=""; grep -qi "race" "$S/notes.md" 2>/dev/null && RACE="-race"
if go test -vet=off -count=1 $RACE -timeout 10m -run "^($RUN)\$" "./$PKG" >"$W/.demo_clean.log" 2>&1; then CLEAN=pass; else CLEAN=fail; fi
git apply "$S/patch.diff"
if go build ./... >"$W/.build.log" 2>&1; then BUILD=ok; else BUILD=fail; fi
if go test -vet=off -count=1 $RACE -timeout 10m -run "^($RUN)\$" "./$PKG" >"$W/.demo_mut.log" 2>&1; then MUT=pass; else MUT=fail; fi
rm -f "$PKG/zz_seed_demo_test.go"
go test -vet=off -count=1 -timeout 25m ./... 2>&1 | grep -v "no test files" > "$W/.suite.log"
NFAIL=$(grep -v "algorithm/adam" "$W/.suite.log" | grep -c "^FAIL[[:space:]]\|^--- FAIL\|^panic")
NOK=$(grep -c "^ok" "$W/.suite.log")
echo "RESULT $S base=$BASE pkg=$PKG build=$BUILD demo_clean=$CLEAN demo_mutated=$MUT suite_ok_pkgs=$NOK suite_failures=$NFAIL"
[ "$BUILD" = ok ] && [ "$CLEAN" = pass ] && [ "$MUT" = fail ] && [ "$NFAIL" = 0 ] && [ "$NOK" -ge 31 ]
