#!/bin/bash
# usage: confirm_seed.sh <seed-dir> [demo-pkg-dir-relative]  -> prints a summary line; exit 0 iff all four outcomes hold
# seed-dir holds patch.diff and demo_test.go (dropped into the package dir, default: repo root)
S="$1"; PKG="${2:-.}"
export GOFLAGS=-mod=mod GOPROXY=off GOSUMDB=off GOTOOLCHAIN=local
W=$(mktemp -d /tmp/cs.XXXXXX); rmdir "$W"
git -C /repo worktree add --detach "$W" HEAD >/dev/null 2>&1 || { echo "worktree failed"; exit 2; }
cleanup() { git -C /repo worktree remove --force "$W" >/dev/null 2>&1; rm -rf "$W"; }
trap cleanup EXIT
cd "$W"
DEMO=$(ls "$S"/*_test.go 2>/dev/null | head -1)
[ -n "$DEMO" ] || { echo "RESULT $S no demo"; exit 2; }
RUN=$(grep -o 'func Test[A-Za-z0-9_]*' "$DEMO" | sed 's/func //' | paste -sd'|')
cp "$DEMO" "$PKG/zz_seed_demo_test.go"
if go test -vet=off -count=1 -timeout 10m -run "^($RUN)\$" "./$PKG" >"$W/.demo_clean.log" 2>&1; then CLEAN=pass; else CLEAN=fail; fi
if ! git apply "$S/patch.diff" 2>"$W/.apply.log"; then
  if ! patch -p1 -s --no-backup-if-mismatch < "$S/patch.diff" >"$W/.apply.log" 2>&1; then echo "RESULT $S patch-does-not-apply"; exit 3; fi
fi
if go build ./... >"$W/.build.log" 2>&1; then BUILD=ok; else BUILD=fail; fi
if go test -vet=off -count=1 -timeout 10m -run "^($RUN)\$" "./$PKG" >"$W/.demo_mut.log" 2>&1; then MUT=pass; else MUT=fail; fi
rm -f "$PKG/zz_seed_demo_test.go"
go test -vet=off -count=1 -timeout 25m ./... 2>&1 | grep -v "no test files" > "$W/.suite.log"
NFAIL=$(grep -v "^ok" "$W/.suite.log" | grep -v "algorithm/adam" | grep -c "^FAIL\|^---\|panic")
NOK=$(grep -c "^ok" "$W/.suite.log")
echo "RESULT $S build=$BUILD demo_clean=$CLEAN demo_mutated=$MUT suite_ok_pkgs=$NOK suite_failures=$NFAIL"
if [ "$NFAIL" != 0 ]; then grep -v "^ok" "$W/.suite.log" | grep -v adam | head -5; fi
[ "$BUILD" = ok ] && [ "$CLEAN" = pass ] && [ "$MUT" = fail ] && [ "$NFAIL" = 0 ] && [ "$NOK" -ge 31 ]
