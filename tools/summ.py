#!/usr/bin/env python3
# summarise checker output: group VIOLATED/UNDECIDED lines by (rule, method, detail) across types
import sys,re,collections
g=collections.OrderedDict()
tail=[]
for l in sys.stdin:
    l=l.rstrip('\n')
    m=re.match(r'(VIOLATED|UNDECIDED) (\S*) \[(\S+)\] (\S+) (.*?): (.*)$',l)
    if not m:
        if l.startswith('VIOLATION') or l.startswith('KNOWN'): continue
        tail.append(l); continue
    kind,pos,rule,cons,detail,msg=m.groups()
    meth=cons.split('.')[-1]
    k=(kind,rule,meth,detail)
    g.setdefault(k,[]).append((cons,pos,msg))
for (kind,rule,meth,detail),v in g.items():
    print(f"{kind} [{rule}] {meth} | {detail} | x{len(v)} e.g. {v[0][0]} {v[0][1]}: {v[0][2][:int(sys.argv[1]) if len(sys.argv)>1 else 220]}")
print('\n'.join(tail))
