#!/bin/bash
# dev-time helper: runs every claimed check against every archived seeded change (scratch copy of /repo, never /repo itself)
# usage: tools/seedmatrix.sh [seed-id ...]   -> writes /verif/seeded/<id>/detect.txt and prints a table
cd /verif
export GOFLAGS=-mod=mod GOPROXY=off GOSUMDB=off GOTOOLCHAIN=local
CHECKS=$(python3 -c "import json;print(' '.join(c['property_id'] for c in json.load(open('MANIFEST.json'))['checks']))")
SEEDS="$@"; [ -z "$SEEDS" ] && SEEDS=$(ls seeded)
run_one() {
  s=$1
  D=$(mktemp -d /tmp/seedmx.XXXXXX)
  rsync -a --exclude .git /repo/ "$D/"
  if ! (cd "$D" && patch -p1 -s --no-backup-if-mismatch < /verif/seeded/$s/patch.diff); then echo "$s PATCH-FAILED" ; rm -rf "$D"; return; fi
  hits=""
  V=$(mktemp -d /tmp/seedmv.XXXXXX); cp /verif/known_findings.json "$V/"; mkdir -p "$V/evidence"
  : > /verif/seeded/$s/detect.txt
  for ID in $CHECKS; do
    out=$(/verif/bin/adcheck -property $ID -tier quick -repo "$D" -verif "$V" 2>&1)
    rc=$?
    if [ $rc -ne 0 ]; then
      hits="$hits $ID"
      echo "== $ID exit=$rc" >> /verif/seeded/$s/detect.txt
      echo "$out" | grep "^VIOLATED\|^UNDECIDED" | cut -c1-400 | head -5 >> /verif/seeded/$s/detect.txt
    fi
  done
  echo "$s detected_by:${hits:- NONE}"
  rm -rf "$D" "$V"
}
export -f run_one; export CHECKS
printf "%s\n" $SEEDS | xargs -P 4 -I{} bash -c 'run_one {}'
