#!/bin/bash
# runs every claimed check on /repo (quick tier) and prints one status line each; regenerates all evidence files
cd /verif
for ID in $(python3 -c "import json;print(' '.join(c['property_id'] for c in json.load(open('MANIFEST.json'))['checks']))"); do
  out=$(./check $ID quick 2>&1); rc=$?
  echo "$ID exit=$rc $(echo "$out" | grep " quick: " | cut -c1-120)"
done
