#!/bin/bash
# dev-time helper: seed_setup.sh <workdir> <N> <ID>... : creates, per property, a detached scratch worktree of /repo, the
# property record and the prompt for a fresh sub-agent (which gets nothing from /verif but the property text)
W="$1"; N="$2"; shift 2
mkdir -p "$W"
for id in "$@"; do
  mkdir -p "$W/$id/out"; git -C /repo worktree add -q --detach "$W/$id/wt" HEAD
  python3 - "$W" "$N" "$id" <<'PY'
import json,sys
W,N,pid=sys.argv[1:4]
for l in open('/verif/properties.jsonl'):
    d=json.loads(l)
    if d['id']==pid:
        json.dump(d,open(f'{W}/{pid}/property.json','w'),indent=1)
        t=open('/verif/tools/seed_prompt.tmpl').read()
        t=t.replace('__WT__',f'{W}/{pid}/wt').replace('__OUT__',f'{W}/{pid}/out').replace('__PROP__',f'{W}/{pid}/property.json').replace('__PROPTEXT__',json.dumps(d,indent=1)).replace('__N__',N)
        open(f'{W}/{pid}/prompt.txt','w').write(t)
PY
done
git -C /repo worktree list | wc -l
