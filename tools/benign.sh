#!/bin/bash
# dev-time helper: applies a set of behaviour-preserving edits to a scratch copy of /repo and runs every claimed check:
# every check must stay silent (exit 0). Edits: shifted lines, nested constraint test, reordered/renamed locals in a
# log-density, delta variable in the EM driver, reordered accumulator merges, swapped only-child blocks, err := helper(...)
cd /verif
D=$(mktemp -d /tmp/benign.XXXX); rsync -a --exclude .git /repo/ $D/
python3 tools/benign_edits.py $D || { rm -rf $D; exit 2; }
(cd $D && GOFLAGS=-mod=mod GOPROXY=off GOSUMDB=off GOTOOLCHAIN=local go build ./... 2>&1 | head -5)
V=$(mktemp -d); cp known_findings.json $V/; mkdir $V/evidence
bad=0
for ID in $(python3 -c "import json;print(' '.join(c['property_id'] for c in json.load(open('MANIFEST.json'))['checks']))"); do
  out=$(${ADCHECK:-bin/adcheck} -property $ID -repo $D -verif $V 2>&1); rc=$?
  [ $rc -ne 0 ] && { bad=1; echo "$ID rc=$rc $(echo "$out" | grep '^VIOLATED\|^UNDECIDED\|^FATAL' | head -3 | cut -c1-260)"; }
done
rm -rf $D $V
[ $bad -eq 0 ] && echo "benign edits: all checks silent"
