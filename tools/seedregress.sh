#!/bin/bash
# dev-time helper: regression over the archived seeded changes against the current /repo and the current bin/adcheck.
# For each seed only the checks recorded in its meta.json (detected_by) are run; prints seeds whose recorded detection is lost
# (LOST), whose patch no longer applies to the current tree (STALE: /repo was repaired in that place), and a summary.
cd /verif
export GOFLAGS=-mod=mod GOPROXY=off GOSUMDB=off GOTOOLCHAIN=local
run_one() {
  s=$1
  IDS=$(python3 -c "import json;print(' '.join(json.load(open('/verif/seeded/$s/meta.json')).get('detected_by',[])))")
  [ -z "$IDS" ] && { echo "$s NORECORD"; return; }
  D=$(mktemp -d /tmp/seedrg.XXXXXX)
  rsync -a --exclude .git /repo/ "$D/"
  if ! (cd "$D" && patch -p1 -s --no-backup-if-mismatch < /verif/seeded/$s/patch.diff >/dev/null 2>&1); then echo "$s STALE"; rm -rf "$D"; return; fi
  V=$(mktemp -d /tmp/seedrv.XXXXXX); cp /verif/known_findings.json "$V/"; mkdir -p "$V/evidence"
  hit=""
  for ID in $IDS; do
    /verif/bin/adcheck -property $ID -tier quick -repo "$D" -verif "$V" >/dev/null 2>&1 || { hit="$ID"; break; }
  done
  [ -n "$hit" ] && echo "$s OK($hit)" || echo "$s LOST (recorded: $IDS)"
  rm -rf "$D" "$V"
}
export -f run_one
ls seeded | xargs -P ${PAR:-8} -I{} bash -c 'run_one {}'
