#!/usr/bin/env python3
# dev-time helper: archives confirmed seeded changes of one batch
# usage: archive_batch.py <workdir> <confirm.log> <batch letter> <first_shot.json>
import re,os,json,shutil,glob,sys
work,log,batch,fs=sys.argv[1:5]
first=json.load(open(fs))
conf={}
for l in open(log):
    if l.startswith('RESULT'):
        parts=l.split()
        conf[parts[1]]=' '.join(parts[2:])
def section(txt,pat):
    m=re.search(r'^## (?:'+pat+r')[^\n]*\n(.*?)(?=^## |\Z)',txt,flags=re.S|re.M|re.I)
    return m.groups()[-1].strip() if m else ''
for d in sorted(glob.glob(work+'/C*/out/*')):
    pid=d.split('/')[-3]; k=d.split('/')[-1]
    r=conf.get(d,'')
    if 'demo_clean=pass demo_mutated=fail' not in r or 'suite_failures=0' not in r or 'build=ok' not in r:
        print('SKIP',d,r); continue
    sid=f'{pid}-{batch}{k}'
    out=f'/verif/seeded/{sid}'
    os.makedirs(out,exist_ok=True)
    shutil.copy(d+'/patch.diff',out+'/patch.diff')
    for f in glob.glob(d+'/*_test.go'): shutil.copy(f,out+'/'+os.path.basename(f)+'.txt')
    notes=open(d+'/notes.md').read()
    open(out+'/notes.md','w').write(notes)
    title=notes.split('\n',1)[0].lstrip('# ').strip()
    files=sorted(set(re.findall(r'^\+\+\+ b/(\S+)',open(d+'/patch.diff').read(),flags=re.M)))
    meta={"property":pid,"seed":sid,"batch":batch,"title":title,"files_changed":files,
      "change":section(notes,'Change'),
      "clause_broken":section(notes,r'(?:Property )?Clause'),
      "needs_to_manifest":section(notes,r'(?:What it needs|Needs)'),
      "author":"fresh sub-agent given only the property text and a scratch worktree of /repo",
      "confirmed_by":"tools/confirm_seed.sh "+d+" (scratch git worktree of /repo under /tmp; patch applied with git apply; go build ./...; demo test run on the clean and on the changed tree; full pinned suite on the changed tree)",
      "confirmation_result":r,
      "demo":[os.path.basename(f)+'.txt' for f in glob.glob(d+'/*_test.go')],
      "demo_howto":"copy the demo file(s) without the .txt suffix into the package directory named in confirmation_result (pkg=...) of a scratch worktree and run go test -run <TestName> there, once on the clean tree (passes) and once with patch.diff applied (fails)",
      "detected_first_shot_by":first.get(f'{pid}-{k}',[])}
    json.dump(meta,open(out+'/meta.json','w'),indent=1)
    print('archived',out)
