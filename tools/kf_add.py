#!/usr/bin/env python3
# dev-time helper: kf_add.py <ID> <rule> <method-regex> <detail-regex> <what> [witness]
# collects the currently reported violations matching the filter into one known-finding entry (status open).
import sys,json,glob,re
pid,rule,mre,dre,what=sys.argv[1:6]
wit=sys.argv[6] if len(sys.argv)>6 else ""
groups={}
for f in sorted(glob.glob(f'evidence/{pid}.violations/*.json')):
    o=json.load(open(f)).get('obligation')
    if not o or o['rule']!=rule or o['verdict']!='violated': continue
    meth=o['construct'].split('.')[-1]
    if not re.fullmatch(mre,meth) or not re.fullmatch(dre,o.get('detail','')): continue
    groups.setdefault(o.get('detail',''),[]).append(o['construct'])
k=json.load(open('known_findings.json'))
for d,cs in groups.items():
    k.append({"property":pid,"rule":rule,"constructs":sorted(set(cs)),"detail":d,"status":"open","what":what,"witness":wit})
    print("added",rule,d,len(cs))
json.dump(k,open('known_findings.json','w'),indent=1)
