#!/bin/bash
# usage: seedrun.sh <patch.diff> <ID>... : applies the patch to a scratch copy of /repo and runs the given checks against it
P="$1"; shift
D=$(mktemp -d /tmp/seedrun.XXXXXX)
rsync -a --exclude .git /repo/ "$D/"
if ! (cd "$D" && patch -p1 -s --no-backup-if-mismatch < "$P"); then echo "SEEDRUN: patch does not apply"; rm -rf "$D"; exit 3; fi
(cd "$D" && GOFLAGS=-mod=mod GOPROXY=off GOSUMDB=off GOTOOLCHAIN=local go build ./... ) || echo "SEEDRUN: does not compile"
V=$(mktemp -d /tmp/seedv.XXXXXX); cp /verif/known_findings.json "$V/"; mkdir -p "$V/evidence"
for ID in "$@"; do
  ${ADCHECK:-/verif/bin/adcheck} -property "$ID" -tier quick -repo "$D" -verif "$V" 2>&1 | grep -v "^  C\|^KNOWN" | cut -c1-${SEED_COLS:-300} | head -${SEED_LINES:-6}
done
rm -rf "$D" "$V"
