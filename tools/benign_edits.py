import sys
D=sys.argv[1]
def sub(f,old,new,cnt=1):
    p=D+'/'+f; s=open(p).read()
    if s.count(old)<1:
        print('benign_edits: pattern not found in',f); sys.exit(2)
    s=s.replace(old,new,cnt); open(p,'w').write(s)
for f in ['algorithm/bfgs/bfgs.go','statistics/generic/mixture_em.go','avl-tree.go','scalar_real64.go','matrix_dense_float64.go','statistics/scalarDistribution/normal.go','algorithm/rprop/rprop.go','statistics/generic/hmm_baumWelch.go','vector_sparse_float64.go','algorithm/newton/newton.go','statistics/vectorEstimator/hmm.go']:
    p=D+'/'+f; s=open(p).read(); i=s.index('\npackage '); s=s[:i]+'\n// benign\n// edit\n// lines\n'+s[i:]; open(p,'w').write(s)
sub('algorithm/rprop/rprop.go','''  if constraints.Value != nil && !constraints.Value(x1) {
    return x1, fmt.Errorf("invalid initial value: %v", x1)
  }''','''  if constraints.Value != nil {
    if !constraints.Value(x1) {
      return x1, fmt.Errorf("invalid initial value: %v", x1)
    }
  }''')
sub('statistics/scalarDistribution/normal.go','''  // t1 = -log(sigma)
  t1 := obj.Sigma.CloneScalar()
  t1.Log(t1)
  t1.Neg(t1)
  // t1 = -1/2 log(2 pi) -log(sigma)
  t1.Add(t1, z)

  // t2 = (log(x) - mu)^2/(2 sigma^2)
  t2 := obj.Mu.CloneScalar()
  t2.Sub(x , t2)
  t2.Mul(t2, t2)
  t2.Div(t2, ConstFloat64(2.0))
  t2.Div(t2, obj.Sigma)
  t2.Div(t2, obj.Sigma)

  r.Sub(t1, t2)''','''  q := obj.Mu.CloneScalar()
  q.Sub(x , q)
  q.Mul(q, q)
  q.Div(q, obj.Sigma)
  q.Div(q, obj.Sigma)
  q.Div(q, ConstFloat64(2.0))

  u := obj.Sigma.CloneScalar()
  u.Log(u)
  u.Neg(u)
  u.Add(u, z)

  r.Sub(u, q)''')
sub('statistics/generic/mixture_em_generic.go','''      // check convergence (and cycles)
      if likelihood_new - likelihood_old < epsilon {''','''      // check convergence (and cycles)
      delta := likelihood_new - likelihood_old
      if delta < epsilon {''')
sub('statistics/scalarEstimator/exponential.go','''  for i := 0; i < len(obj.sum_m); i++ {
    sum_m = LogAdd(sum_m, obj.sum_m[i])
    sum_g = LogAdd(sum_g, obj.sum_g[i])
    sum_g = LogAdd(sum_g, math.Log(float64(obj.sum_c[i])))
  }''','''  for t := 0; t < len(obj.sum_m); t++ {
    sum_g = LogAdd(sum_g, obj.sum_g[t])
    sum_g = LogAdd(sum_g, math.Log(float64(obj.sum_c[t])))
    sum_m = LogAdd(sum_m, obj.sum_m[t])
  }''')
sub('avl-tree.go','''  if obj.Right == nil {
    obj.Left.Parent = nil
    return obj.Left, true, false
  }
  if obj.Left == nil {
    obj.Right.Parent = nil
    return obj.Right, true, false
  }''','''  if obj.Left == nil {
    obj.Right.Parent = nil
    return obj.Right, true, false
  }
  if obj.Right == nil {
    obj.Left.Parent = nil
    return obj.Left, true, false
  }''')
sub('vector_sparse_float64.go','''  if err := checkSparseIndices(r.Index, r.Length); err != nil {
    return fmt.Errorf("invalid sparse vector: %v", err)
  }''','''  err := checkSparseIndices(r.Index, r.Length)
  if err != nil {
    return fmt.Errorf("invalid sparse vector: %v", err)
  }''')
# gamma distribution: different but equivalent normalisation order in the constructor
sub('statistics/scalarDistribution/gamma.go','''  dist.Z.Sub(t1.Mul(alpha, t1.Log(beta)), t2.Lgamma(alpha))''','''  t2.Lgamma(alpha)
  t1.Log(beta)
  t1.Mul(t1, alpha)
  dist.Z.Sub(t1, t2)''')
# hmm emissions job: rename the job index
sub('statistics/vectorEstimator/hmm.go','''func(c int, p ThreadPool, erf func() error) error {
    // copy parameters for faster convergence
    p1 := hmm1.Edist[c].GetParameters()
    p2 := hmm2.Edist[c].GetParameters()''','''func(c int, p ThreadPool, erf func() error) error {
    // copy parameters for faster convergence
    p2 := hmm2.Edist[c].GetParameters()
    p1 := hmm1.Edist[c].GetParameters()''')
# newton_root: positive form of the constraint test rewritten with explicit else
sub('algorithm/newton/newton.go','''      if constraints.Value == nil || constraints.Value(x2) {
        // constraints are satisfied
        break
      }
      // decrease step size
      t1.VmulS(t1, c)
    }
    // evaluate objective function
    y, J, err = f(x2)''','''      if constraints.Value == nil || constraints.Value(x2) {
        // constraints are satisfied
        break
      } else {
        // decrease step size
        t1.VmulS(t1, c)
      }
    }
    // evaluate objective function
    y, J, err = f(x2)''')
# --- root package (generated instances edited directly, as a maintainer patching one instance would)
# dense MdotM: merge the two-step accumulation into one statement and rename the scratch variable (one twin only)
sub('matrix_dense_float64_math.go','''        t2 = float64(0)
        for k := 0; k < m1; k++ {
          t1 = a.ConstAt(i, k).GetFloat64()*b.ConstAt(k, j).GetFloat64()
          t2 = t2 + t1
        }
        t3[j] = t2''','''        t2 = float64(0)
        for k := 0; k < m1; k++ {
          t2 = t2 + a.ConstAt(i, k).GetFloat64()*b.ConstAt(k, j).GetFloat64()
        }
        t3[j] = t2''')
# scalar Sin: declare the lazies before the value
sub('scalar_real64_math.go','''  x := a.GetFloat64()
  v0 := math.Sin(x)
  f1 := func() float64 { return math.Cos(x) }
  f2 := func() float64 { return -math.Sin(x) }
  return c.monadicLazy(a, v0, f1, f2)''','''  x := a.GetFloat64()
  f2 := func() float64 { return -math.Sin(x) }
  f1 := func() float64 { return math.Cos(x) }
  v0 := math.Sin(x)
  return c.monadicLazy(a, v0, f1, f2)''')
# AVL insert: the two directions written in the other order
sub('avl-tree.go','''    case i  < parent.Value: parent.setLeft (NewAvlNode(i))
    case i  > parent.Value: parent.setRight(NewAvlNode(i))''','''    case i  > parent.Value: parent.setRight(NewAvlNode(i))
    case i  < parent.Value: parent.setLeft (NewAvlNode(i))''')
# dense vector Clone written with append instead of make+copy
sub('vector_dense_float64.go','''  r := make([]float64, v.Dim())
  copy(r, v)
  return r''','''  r := append([]float64(nil), v...)
  return r''')
# dense index(): the bounds test split into two statements and the branches written with an early return
sub('matrix_dense_float64.go','''  if i < 0 || j < 0 || i >= matrix.rows || j >= matrix.cols {
    panic(fmt.Errorf("index (%d,%d) out of bounds for matrix of dimension %dx%d", i, j, matrix.rows, matrix.cols))
  }
  if matrix.transposed {
    return (matrix.colOffset + j)*matrix.rowMax + (matrix.rowOffset + i)
  } else {
    return (matrix.rowOffset + i)*matrix.colMax + (matrix.colOffset + j)
  }''','''  if j < 0 || j >= matrix.cols || i >= matrix.rows || i < 0 {
    panic(fmt.Errorf("index (%d,%d) out of bounds for matrix of dimension %dx%d", i, j, matrix.rows, matrix.cols))
  }
  if !matrix.transposed {
    return (i + matrix.rowOffset)*matrix.colMax + j + matrix.colOffset
  }
  return (j + matrix.colOffset)*matrix.rowMax + i + matrix.rowOffset''')
# EM step job: thread id taken once into a local
sub('statistics/generic/mixture_em.go','''    gammaTmp   := tmp[p.GetThreadId()].gammaTmp
    gamma      := tmp[p.GetThreadId()].gamma
    logWeights := tmp[p.GetThreadId()].logWeights''','''    tid := p.GetThreadId()
    gammaTmp   := tmp[tid].gammaTmp
    gamma      := tmp[tid].gamma
    logWeights := tmp[tid].logWeights''')
# sparse vector JSON: field order of the wire struct changed consistently on both sides
sub('vector_sparse_float64.go','''  r := struct{
    Index []int
    Value []float64
    Length int}{}
  for it := obj.ConstIterator()''','''  r := struct{
    Length int
    Index []int
    Value []float64}{}
  for it := obj.ConstIterator()''')
# sparse vector VaddV (generic): iterate with a differently named iterator variable and hoist a declaration
import re as _re
p=D+'/vector_sparse_float64_math.go'; s=open(p).read()
m=_re.search(r'func \(r \*SparseFloat64Vector\) VaddV\(a, b ConstVector\) Vector \{.*?\n\}\n', s, _re.S)
if m:
    body=m.group(0)
    nb=body.replace('it.','jt.').replace('it :=','jt :=').replace('it;','jt;')
    s=s.replace(body,nb); open(p,'w').write(s)
# AVL Next: staleness test with the operands of || swapped
sub('avl-tree.go','obj.node.Deleted || obj.value != obj.node.Value','obj.value != obj.node.Value || obj.node.Deleted')
# Real64 Set: local for the order
# --- batch C robustness edits ---
# the bound test of the normal estimator in squared form (equivalent for SigmaMin >= 0)
sub('statistics/scalarEstimator/normal.go','''  mu    := NewScalar(obj.ScalarType(), s1)
  sigma := NewScalar(obj.ScalarType(), math.Sqrt(s2 - s1*s1))

  if math.IsNaN(sigma.GetFloat64()) || sigma.GetFloat64() < obj.SigmaMin {''','''  v     := s2 - s1*s1
  mu    := NewScalar(obj.ScalarType(), s1)
  sigma := NewScalar(obj.ScalarType(), math.Sqrt(v))

  if math.IsNaN(sigma.GetFloat64()) || v < obj.SigmaMin*obj.SigmaMin {''')
# MIN of the concrete variant delegates to the comparison of its own type
sub('scalar_real64_math_concrete.go','''func (r *Real64) MIN(a, b *Real64) Scalar {
  if a.GetFloat64() < b.GetFloat64() {''','''func (r *Real64) MIN(a, b *Real64) Scalar {
  if a.SMALLER(b) {''')
# a clone written as whole copy plus re-cloned references
sub('matrix_dense_real64.go','''  return &DenseReal64Matrix{
    values : matrix.values.Clone(),
    rows : matrix.rows,
    cols : matrix.cols,
    transposed: matrix.transposed,
    rowOffset : matrix.rowOffset,
    rowMax : matrix.rowMax,
    colOffset : matrix.colOffset,
    colMax : matrix.colMax,
    tmp1 : matrix.tmp1.Clone(),
    tmp2 : matrix.tmp2.Clone() }''','''  r := *matrix
  r.values = matrix.values.Clone()
  r.tmp1 = matrix.tmp1.Clone()
  r.tmp2 = matrix.tmp2.Clone()
  return &r''')
# decoder: header assignments in another order
sub('matrix_dense_float64.go','''  a.values = r.Values
  a.rows = r.Rows
  a.rowMax = r.Rows
  a.rowOffset = 0
  a.cols = r.Cols
  a.colMax = r.Cols
  a.colOffset = 0
  a.transposed = false
  return nil''','''  a.transposed = false
  a.rowOffset, a.colOffset = 0, 0
  a.rows, a.cols = r.Rows, r.Cols
  a.rowMax, a.colMax = r.Rows, r.Cols
  a.values = r.Values
  return nil''')
# named parameter read into a differently named local
sub('statistics/generic/hmm.go','''  finalStates, ok := config.GetNamedParametersAsInts("FinalStates"); if ! ok {''','''  fs, ok := config.GetNamedParametersAsInts("FinalStates"); if ! ok {''')
sub('statistics/generic/hmm.go','''  obj.SetFinalStates(finalStates)''','''  obj.SetFinalStates(fs)''')
# E-step: multiplicity added before the observation weight
sub('statistics/generic/mixture_em.go','''      if meta != nil {
        gammaTmp.AT(i).Add(gammaTmp.AT(i), meta.ConstAt(l))
      }
      if counts != nil {
        gammaTmp.AT(i).Add(gammaTmp.AT(i), ConstFloat64(math.Log(float64(counts[l]))))
      }''','''      if counts != nil {
        gammaTmp.AT(i).Add(gammaTmp.AT(i), ConstFloat64(math.Log(float64(counts[l]))))
      }
      if meta != nil {
        gammaTmp.AT(i).Add(gammaTmp.AT(i), meta.ConstAt(l))
      }''')
# decoder: header set by a helper function that receives the object
sub('matrix_dense_real64.go','''  obj.rows = r.Rows
  obj.rowMax = r.Rows
  obj.rowOffset = 0
  obj.cols = r.Cols
  obj.colMax = r.Cols
  obj.colOffset = 0
  obj.transposed = false
  obj.initTmp()
  return nil
}''','''  benignSetHeader(obj, r.Rows, r.Cols)
  obj.initTmp()
  return nil
}
func benignSetHeader(m *DenseReal64Matrix, rows, cols int) {
  m.rows, m.rowMax, m.rowOffset = rows, rows, 0
  m.cols, m.colMax, m.colOffset = cols, cols, 0
  m.transposed = false
}''')
# --- batch D robustness edits ---
# transposed view written as header copy plus swaps (scratch vectors swapped too)
sub('matrix_dense_real32.go','''  return &DenseReal32Matrix{
    values : matrix.values,
    rows : matrix.cols,
    cols : matrix.rows,
    transposed: !matrix.transposed,
    rowOffset : matrix.colOffset,
    rowMax : matrix.colMax,
    colOffset : matrix.rowOffset,
    colMax : matrix.rowMax,
    tmp1 : matrix.tmp2,
    tmp2 : matrix.tmp1 }''','''  m := *matrix
  m.rows, m.cols = matrix.cols, matrix.rows
  m.rowOffset, m.colOffset = matrix.colOffset, matrix.rowOffset
  m.rowMax, m.colMax = matrix.colMax, matrix.rowMax
  m.tmp1, m.tmp2 = matrix.tmp2, matrix.tmp1
  m.transposed = !matrix.transposed
  return &m''')
# raw storage sub-slice with a renamed offset variable
sub('matrix_dense_float32.go','''    i = matrix.index(i, 0)
    v = matrix.values[i:i + matrix.cols]''','''    first := matrix.index(i, 0)
    v = matrix.values[first:first + matrix.cols]''')
# SetN: the two plain stores in the other order
sub('statistics/scalarDistribution/binomial.go','''  dist.n  .SetFloat64(float64(n+0))
  dist.np1.SetFloat64(float64(n+1))
  dist.z  .Lgamma(dist.np1)''','''  dist.np1.SetFloat64(float64(n+1))
  dist.n  .SetFloat64(float64(n+0))
  dist.z  .Lgamma(dist.np1)''')
# --- batch E robustness edits ---
# Estimate: the estimator is initialised first, in a differently commented block, the rescaling follows (original order)
sub('statistics/vectorEstimator/normal.go','''  // initialize estimator
  obj.Initialize(p)
''','''  // reset the accumulators of every thread
  if err := obj.Initialize(p); err != nil {
    return err
  }
''')
# named parameter installed through its own setter, value held in a renamed local (already renamed above: fs)
# --- parameter renames (the symbolic checks bind parameters by position) ---
import re
def rename_in_func(f, header_re, old, new):
    p=D+'/'+f; s=open(p).read()
    m=re.search(header_re, s)
    if not m:
        print('benign_edits: function not found', f, header_re); sys.exit(2)
    a=m.start()
    # function ends at the next line that starts with "}" in column 0
    b=s.index('\n}\n', a)+3
    body=s[a:b]
    body2=re.sub(r'\b'+re.escape(old)+r'\b', new, body)
    if body2==body:
        print('benign_edits: nothing renamed', f, old); sys.exit(2)
    open(p,'w').write(s[:a]+body2+s[b:])
rename_in_func('statistics/generic/mixture_em.go', r'func \(obj \*Mixture\) EmStep\(', 'meta', 'obsWeights')
rename_in_func('statistics/scalarEstimator/normal.go', r'func \(obj \*NormalEstimator\) NewObservation\(', 'gamma', 'lw')
rename_in_func('statistics/scalarEstimator/normal.go', r'func NewNormalEstimator\(', 'sigmaMin', 'minSd')
rename_in_func('statistics/scalarDistribution/normal.go', r'func NewNormalDistribution\(', 'sigma', 'sd')
rename_in_func('algorithm/gaussJordan/gaussJordan.go', r'func gaussJordan\(', 'submatrix', 'active')
rename_in_func('statistics/generic/hmm.go', r'func \(obj \*Hmm\) Posterior\(', 'states', 'sets')
rename_in_func('algorithm/cholesky/cholesky_generic.go', r'func cholesky_ldl\(', 'D', 'Dg')
rename_in_func('algorithm/bfgs/bfgs.go', r'func bfgs\(', 'epsilon', 'tol')
rename_in_func('algorithm/newton/newton.go', r'func newton_root\(', 'constraints', 'feasible')
rename_in_func('vector_sparse_float64_math.go', r'func \(r \*SparseFloat64Vector\) VADDV\(', 'a', 'u')
rename_in_func('matrix_dense_float64.go', r'func \(matrix \*DenseFloat64Matrix\) index\(', 'i', 'row')
rename_in_func('statistics/generic/hmm_baumWelch.go', r'func \(obj \*Hmm\) BaumWelchStep\(', 'tmp', 'scratch')
rename_in_func('scalar_real64_math.go', r'func \(c \*Real64\) Erfc\(', 'a', 'arg')
rename_in_func('avl-tree.go', r'func \(obj \*AvlNode\) rotateLL\(', 'obj', 'node')
rename_in_func('algorithm/rprop/rprop.go', r'func rprop\(', 'step_init', 'step0')
# SVD: the bound of the zero-diagonal scan held in a local
sub('algorithm/svd/svd.go','''      for k := p; k < n-q-1; k++ {
        if B.At(k,k).GetFloat64() == 0.0 {''','''      lastRow := n-q-1
      for k := p; k < lastRow; k++ {
        if B.At(k,k).GetFloat64() == 0.0 {''')
# --- C13: behaviour-preserving edits of the special functions ---
# locals of the log-domain recurrence renamed (loop twins are paired by order of first assignment, not by name)
rename_in_func('special/besselLog.go', r'func bessel_ik_log\(', 'prev', 'Kprev')
rename_in_func('special/besselLog.go', r'func bessel_ik_log\(', 'scale', 'logScale')
rename_in_func('special/besselLog.go', r'func CF1_ik_log\(', 'delta', 'ldelta')
rename_in_func('special/bessel.go', r'func bessel_i_imp\(', 'v', 'order')
# the asymptotic log expansion written with the factors regrouped
sub('special/besselLog.go','''  return x + math.Log(s) - 0.5*math.Log(2.0 * x * math.Pi)''','''  return math.Log(s) + (x - 0.5*(math.Log(2.0 * math.Pi) + math.Log(x)))''')
# LogAdd with the roles of the operands spelled out instead of swapped
sub('logarithmetic/logarithmetic.go','''  if a > b {
    // swap
    a, b = b, a
  }
  if math.IsInf(a, -1) {
    return b
  }
  return b + math.Log1p(math.Exp(a-b))''','''  lo, hi := a, b
  if a > b {
    lo, hi = b, a
  }
  if math.IsInf(lo, -1) {
    return hi
  }
  return hi + math.Log1p(math.Exp(lo-hi))''')
# a named constant truncated to 20 digits (same float64)
sub('special/constants.go','const M_SQRTPI      = 1.77245385090551602729816748334','const M_SQRTPI      = 1.7724538509055160273')
# the series coefficient table with one entry changed below float64 resolution of its contribution
sub('special/erfc.go','     0.000482040000000000 })','     0.000482040000000001 })')
# rotation generator: the magnitude test written the other way round
sub('algorithm/givensRotation/givensRotation.go','    if math.Abs(b.GetFloat64()) > math.Abs(a.GetFloat64()) {','    if math.Abs(a.GetFloat64()) < math.Abs(b.GetFloat64()) {')
# config accessor: the lookup result held in a differently named local
sub('statistics/config.go','''  if p, ok := config.GetNamedParameter(name); ok {
    if v, ok := config.getFloat(p); ok {
      return NewScalar(t, v), true
    }
  }''','''  if entry, found := config.GetNamedParameter(name); found {
    if v, ok := config.getFloat(entry); ok {
      return NewScalar(t, v), true
    }
  }''')
# table import: the exact integer parse written with an explicit flag
sub('vector_dense_int64.go','''      if value, err := strconv.ParseInt(fields[i], 10, 64); err == nil && value != 0 {
        *v = append(*v, int64(value))
        continue
      }''','''      exact, err := strconv.ParseInt(fields[i], 10, 64)
      if err == nil && exact != 0 {
        *v = append(*v, int64(exact))
        continue
      }''')
# incomplete gamma dispatcher: the start value of the inverted series renamed, the final inversion written as a negated difference
rename_in_func('special/gamma.go', r'func gamma_incomplete_imp\(', 'init_value', 'start')
sub('special/gamma.go','''    result = gam - result
''','''    result = -(result - gam)
''')
# Temme: phi written through the ratio
sub('special/gamma.go','''  phi   := sigma - math.Log1p(sigma)''','''  phi   := sigma - math.Log(x/a)''')
# BFGS update: the transposed factor held in a local; parameters renamed
sub('algorithm/bfgs/bfgs.go','''  H2.MdotM(t6, t5.T())''','''  right := t5.T()
  H2.MdotM(t6, right)''')
rename_in_func('algorithm/bfgs/bfgs.go', r'func bfgs_updateH\(', 'p2', 'step')
# line search interpolation with the model coefficients named differently
rename_in_func('algorithm/lineSearch/lineSearch.go', r'func quadraticMin\(', 'db', 'width')
# Householder vector: the sign test written from the other side
sub('algorithm/householder/householder.go','''    if x.At(0).GetFloat64() < 0.0 {''','''    if 0.0 > x.At(0).GetFloat64() {''')
# digamma: the upward shift written with a temporary
sub('special/digamma.go','''      result -= 1.0/x
      x      += 1.0''','''      inv := 1.0/x
      result -= inv
      x      += 1.0''')
# nullScalar scanning only the lower triangle including the diagonal (the Hessian is symmetric)
sub('scalar_real64.go','''    for i := 0; i < a.GetN(); i++ {
      for j := 0; j < a.GetN(); j++ {
        if v := a.GetHessian(i, j); v != 0.0 {''','''    for i := 0; i < a.GetN(); i++ {
      for j := 0; j <= i; j++ {
        if v := a.GetHessian(i, j); v != 0.0 {''')
# newton: the option held in a variable
sub('algorithm/newton/newton.go','''    h, u, _ := qrAlgorithm.Run(H, &inSitu.QR, qrAlgorithm.ComputeU{true})''','''    wantU := qrAlgorithm.ComputeU{true}
    h, u, _ := qrAlgorithm.Run(H, &inSitu.QR, wantU)''')
# svd: the left factor under another local name
rename_in_func('algorithm/svd/svd.go', r'func zeroRow\(', 'U', 'Uacc')
# registry factory: the element type held in a local
sub('statistics/distribution.go','''    return reflect.New(reflect.TypeOf(x).Elem()).Interface().(VectorPdf)''','''    et := reflect.TypeOf(x).Elem()
    return reflect.New(et).Interface().(VectorPdf)''')
# polygamma: the Bernoulli index held in a local
sub('special/polygamma.go','''    term = part_term * BernoulliNumber(2*k)''','''    b2k := 2*k
    term = part_term * BernoulliNumber(b2k)''')
# gamma Cdf: the support test written from the other side
sub('statistics/scalarDistribution/gamma.go','''  if x.GetFloat64() <= 0.0 {
    r.SetFloat64(0.0)
    return nil
  }
  r.Mul(x, dist.Beta)''','''  if !(x.GetFloat64() > 0.0) {
    r.SetFloat64(0.0)
    return nil
  }
  r.Mul(x, dist.Beta)''')
# --- batch L rules
# C19.R8: deleteRec restructured (result of balance2 still propagated)
sub('avl-tree.go','''    if v, balanced := obj.Right.deleteRec(obj); !balanced {
      balanced = obj.balance2(balanced)
      return v, balanced
    } else {
      return v, balanced
    }''','''    v, shrunk := obj.Right.deleteRec(obj)
    if shrunk {
      return v, true
    }
    still := obj.balance2(shrunk)
    return v, still''')
# C14.R10: running offset instead of re-slicing
sub('statistics/scalarDistribution/mixture.go','''    for i := 0; i < obj.NComponents(); i++ {
      n := obj.Edist[i].GetParameters().Dim()
      if err := obj.Edist[i].SetParameters(parameters.Slice(0,n)); err != nil {
        return err
      }
      parameters = parameters.Slice(n, parameters.Dim())
    }''','''    off := 0
    for i := 0; i < obj.NComponents(); i++ {
      m := obj.Edist[i].GetParameters().Dim()
      e := obj.Edist[i]
      if err := e.SetParameters(parameters.Slice(off, off+m)); err != nil {
        return err
      }
      off += m
    }''')
# C18.R16: scan through a local
sub('scalar_real64.go','''          if obj.GetHessian(i, j) != 0.0 {
            t2 = true
          }''','''          h := obj.GetHessian(i, j)
          if h != 0.0 {
            t2 = true
          }''')
# C13.R4 tail/head: reordered sums
sub('special/besselLog.go','''Iv = logScale + W - LogAdd(Kv + fv, Kv1)''','''den := LogAdd(fv + Kv, Kv1)
      Iv = W - den + logScale''')
sub('special/besselLog.go','''  K = Kv - logScale

  return I, K''','''  K = -logScale + Kv

  return I, K''')
# --- batch M rules
sub('algorithm/saga/saga.go','''    max_delta = math.Max(max_delta, math.Abs(v2 - v1))''','''    dv := v1 - v2
    max_delta = math.Max(math.Abs(dv), max_delta)''')
sub('algorithm/lineSearch/lineSearch.go','''    if yj > y0 + c1*alpha_j*g0 || yj >= ylo {''','''    if yj > g0*alpha_j*c1 + y0 || yj >= ylo {''')
sub('algorithm/householderBidiagonalization/householderBidiagonalization.go','''      if j > 0 {
        nu.At(j-1).SetFloat64(0.0)
      }''','''      if j >= 1 {
        prev := j-1
        nu.At(prev).SetFloat64(0.0)
      }''')
sub('algorithm/bfgs/bfgs.go','''      } else {
        first_update = true
        H2.Set(H0)
      }''','''      } else {
        H2.Set(H0)
        first_update = true
      }''')
# --- batch N rules
sub('utility.go','''  if err != nil {
    // ignore EOF errors if some bytes were read
    if len(l) > 0 && err == io.EOF {
      return l, nil
    }
    return l, err
  }
  // remove newline character
  return l[0:len(l)-1], err''','''  if err == nil {
    // remove newline character
    n := len(l)
    return l[0:n-1], nil
  }
  // ignore EOF errors if some bytes were read
  if err == io.EOF && len(l) > 0 {
    return l, nil
  }
  return l, err''')
sub('statistics/vectorEstimator/normal.go','''    obj.gamma_max = math.Inf(-1)
    for i := 0; i < gamma.Dim(); i++ {
      if g := gamma.ConstAt(i).GetFloat64(); obj.gamma_max < g {
        obj.gamma_max = g
      }''','''    obj.gamma_max = math.Inf(-1)
    for i := 0; i < gamma.Dim(); i++ {
      g := gamma.ConstAt(i).GetFloat64()
      if g > obj.gamma_max {
        obj.gamma_max = g
      }''')
# --- batch O rules
sub('algorithm/lineSearch/lineSearch.go','''    for !constraints(alpha_j) {
      alpha_j *= 0.5
    }''','''    for {
      if constraints(alpha_j) {
        break
      }
      alpha_j = alpha_j/2.0
    }''')
sub('algorithm/svd/svd.go','''        if B.At(k,k).GetFloat64() == 0.0 {
          zeroRow(B, U, V, k, inSitu); t = false
        }''','''        if d := B.At(k,k).GetFloat64(); d == 0.0 {
          t = false
          zeroRow(B, U, V, k, inSitu)
        }''')
# --- batch R rules
sub('algorithm/newton/newton.go','''      if Vequals(x1, x2) {
        return x1, fmt.Errorf("line search failed")
      }''','''      if unchanged := Vequals(x1, x2); unchanged {
        err := fmt.Errorf("line search failed")
        return x1, err
      }''')
