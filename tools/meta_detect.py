#!/usr/bin/env python3
# dev-time helper: reads "X detected_by: A B" lines (tools/seedmatrix.sh output) on stdin and records them in seeded/X/meta.json
import sys,json,os
for l in sys.stdin:
    if ' detected_by:' not in l: continue
    s,r=l.split(' detected_by:')
    hits=[x for x in r.split() if x!='NONE']
    p=f'/verif/seeded/{s.strip()}/meta.json'
    if not os.path.exists(p): continue
    m=json.load(open(p)); m['detected_by']=hits
    json.dump(m,open(p,'w'),indent=1)
    if not hits: print('MISS',s)
