#!/bin/bash
# usage: regen.sh <dir> <template.in> ... : re-runs the go:generate cpp lines of <dir> that mention the given templates
set -e
D="$1"; shift
cd "$D"
for T in "$@"; do
  grep -h "^//go:generate cpp .* $T " *.go | sed 's,^//go:generate ,,' | while read -r line; do eval "$line"; done
done
