// adcheck: repository-specific static checker for pbenner/autodiff.
package main

import (
	"flag"
	"fmt"
	"os"
	"runtime/debug"
	"strconv"

	"verif/internal/checks"
	"verif/internal/core"
)

func main() {
	prop := flag.String("property", "", "property id (C01..C20)")
	tier := flag.String("tier", "quick", "quick|thorough")
	repo := flag.String("repo", "/repo", "repository root")
	verif := flag.String("verif", "/verif", "verif root (evidence, known findings)")
	flag.Parse()
	if t := os.Getenv("VERIF_TIER"); t != "" && *tier == "" {
		*tier = t
	}
	f, ok := checks.Registry[*prop]
	if !ok {
		fmt.Fprintf(os.Stderr, "unknown property %q\n", *prop)
		os.Exit(2)
	}
	ctx := core.NewCtx(*prop, *tier, *repo, *verif)
	if s := os.Getenv("VERIF_SEED"); s != "" {
		if n, err := strconv.ParseInt(s, 10, 64); err == nil {
			ctx.Seed = n
		}
	}
	var fatal error
	func() {
		defer func() {
			if r := recover(); r != nil {
				fatal = fmt.Errorf("checker panic: %v\n%s", r, debug.Stack())
			}
		}()
		fatal = f(ctx)
	}()
	os.Exit(ctx.Finish(fatal))
}
