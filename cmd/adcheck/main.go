// adcheck: repository-specific static checker for pbenner/autodiff.
package main

import (
	"flag"
	"fmt"
	"os"
	"runtime/debug"
	"strconv"
	"time"

	"verif/internal/checks"
	"verif/internal/core"
)

func main() {
	prop := flag.String("property", "", "property id (C01..C20)")
	tier := flag.String("tier", "quick", "quick|thorough")
	repo := flag.String("repo", "/repo", "repository root")
	verif := flag.String("verif", "/verif", "verif root (evidence, known findings)")
	flag.Parse()
	if t := os.Getenv("VERIF_TIER"); t != "" && *tier == "" {
		*tier = t
	}
	f, ok := checks.Registry[*prop]
	if !ok {
		fmt.Fprintf(os.Stderr, "unknown property %q\n", *prop)
		os.Exit(2)
	}
	ctx := core.NewCtx(*prop, *tier, *repo, *verif)
	if s := os.Getenv("VERIF_SEED"); s != "" {
		if n, err := strconv.ParseInt(s, 10, 64); err == nil {
			ctx.Seed = n
		}
	}
	// a check that does not finish is not a verdict: it fails like any other undecided obligation
	limit := 45 * time.Minute
	if *tier == "thorough" {
		limit = 6 * time.Hour
	}
	if s := os.Getenv("ADCHECK_TIMEOUT_S"); s != "" {
		if n, err := strconv.ParseInt(s, 10, 64); err == nil && n > 0 {
			limit = time.Duration(n) * time.Second
		}
	}
	done := make(chan error, 1)
	go func() {
		var fatal error
		func() {
			defer func() {
				if r := recover(); r != nil {
					fatal = fmt.Errorf("checker panic: %v\n%s", r, debug.Stack())
				}
			}()
			fatal = f(ctx)
		}()
		done <- fatal
	}()
	select {
	case fatal := <-done:
		os.Exit(ctx.Finish(fatal))
	case <-time.After(limit):
		fmt.Printf("UNDECIDED the check did not finish within %s: the analysed code drives an interpretation that does not terminate in reasonable time\n", limit)
		_ = os.MkdirAll(*verif+"/evidence", 0o755)
		_ = os.WriteFile(fmt.Sprintf("%s/evidence/%s.timeout", *verif, *prop), []byte(fmt.Sprintf("{\"property_id\": %q, \"tier\": %q, \"undecided\": \"check did not finish within %s\"}\n", *prop, *tier, limit)), 0o644)
		fmt.Printf("VIOLATION property=%s replay=%s/evidence/%s.timeout\n", *prop, *verif, *prop)
		os.Exit(1)
	}
}
