// effdump prints the may-write summary of functions whose name contains the argument (debug aid).
package main

import (
	"fmt"
	"os"
	"strings"

	"golang.org/x/tools/go/packages"

	"verif/internal/core"
	"verif/internal/eff"
)

func main() {
	c := core.NewCtx("dbg", "quick", "/repo", "/tmp")
	if err := c.Load(packages.LoadSyntax); err != nil {
		fmt.Println(err)
		os.Exit(1)
	}
	e := eff.New(c.LibPkgs(), c.Fset)
	for _, f := range e.All {
		if !strings.Contains(f.Name, os.Args[1]) {
			continue
		}
		fmt.Println("==", f.Name)
		for _, p := range f.Params {
			if p == nil {
				continue
			}
			for _, w := range f.WritesOf(p) {
				fmt.Printf("   %s: hops=%d target=%s %s via %v @%s\n", p.Name(), w.Hops, w.Target, w.Path, w.Via, c.PosStr(w.Pos))
			}
		}
		for r, ws := range f.Writes {
			isP := false
			for _, p := range f.Params {
				if p == r {
					isP = true
				}
			}
			if !isP && len(ws) > 0 {
				for _, w := range ws { fmt.Printf("   free %s: hops=%d %s via %v @%s\n", r.Name(), w.Hops, w.Path, w.Via, c.PosStr(w.Pos)) }
			}
		}
		fmt.Println("   returns:", f.Returns)
	}
}
