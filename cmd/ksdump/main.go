// ksdump prints the symbolic kernel summary of a container method (debug aid).
package main

import (
	"fmt"
	"os"

	"golang.org/x/tools/go/packages"

	"verif/internal/checks"
	"verif/internal/core"
)

func main() {
	repo := "/repo"
	if len(os.Args) > 3 {
		repo = os.Args[3]
	}
	c := core.NewCtx("dbg", "quick", repo, "/tmp")
	if err := c.Load(packages.LoadSyntax); err != nil {
		fmt.Println(err)
		os.Exit(1)
	}
	fmt.Println(checks.DebugKernelSummary(c.Root, os.Args[1], os.Args[2]))
}
