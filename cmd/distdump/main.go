// distdump prints the symbolic summary of a distribution: constructor paths and LogPdf paths (debug aid).
package main

import (
	"fmt"
	"os"

	"golang.org/x/tools/go/packages"

	"verif/internal/checks"
	"verif/internal/core"
)

func main() {
	c := core.NewCtx("dbg", "quick", "/repo", "/tmp")
	if err := c.Load(packages.LoadSyntax); err != nil {
		fmt.Println(err)
		os.Exit(1)
	}
	method := "LogPdf"
	if len(os.Args) > 3 {
		method = os.Args[3]
	}
	fmt.Println(checks.DebugDistribution(c, os.Args[1], os.Args[2], method))
}
