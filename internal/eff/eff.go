// Package eff is engine E5: interprocedural may-write summaries over the typed AST.
// For every function (declared or literal) it computes which of its parameters (receiver
// included) and captured variables it may write through, following local aliases, derived
// references (At, Slice, T, element pointers), struct copies, static callees and, for interface
// calls, the library's const/mutable interface stratification.
package eff

import (
	"fmt"
	"go/ast"
	"go/token"
	"go/types"
	"sort"
	"strings"

	"golang.org/x/tools/go/packages"
)

// Write is one may-write of a root (parameter or captured variable).
type Write struct {
	Root types.Object
	Pos  token.Pos
	// Path: the expression through which the write happens (normalised text), for ownership tagging
	Path string
	// Via: call chain (callee names) when the write happens in a callee
	Via []string
	// Idx: index expressions met on the access path in this function (for ownership tags)
	Idx []ast.Expr
	// Node is the statement/call performing the write in this function
	Node ast.Node
	// Hops: number of references crossed between the root variable and the written location
	// (1 = the pointee/backing array of the root itself; >= 2 = through a reference stored inside it)
	Hops int
	// Target: type of the object whose field/element is written at the innermost write site
	Target string
	// Field: first field selected on the root variable on the way to the written location ("" if unknown)
	Field string
	// Expr: the expression through which the write happens in this function (store target, receiver or argument)
	Expr ast.Expr
	// Call / Callee / CalleeParam: for writes performed by a callee, the call, the analysed callee and its parameter
	Call        *ast.CallExpr
	Callee      *Func
	CalleeParam types.Object
	BaseHops int // reference crossings already contained in the expression whose roots the write was attributed to
}

// firstField returns the name of the selector applied directly to the base identifier of e.
func firstField(e ast.Expr) string {
	last := ""
	for {
		switch v := ast.Unparen(e).(type) {
		case *ast.SelectorExpr:
			last = v.Sel.Name
			e = v.X
		case *ast.IndexExpr:
			e = v.X
		case *ast.StarExpr:
			e = v.X
		case *ast.SliceExpr:
			e = v.X
		case *ast.CallExpr:
			s, ok := v.Fun.(*ast.SelectorExpr)
			if !ok {
				return ""
			}
			last = ""
			e = s.X
		case *ast.TypeAssertExpr:
			e = v.X
		case *ast.UnaryExpr:
			e = v.X
		case *ast.Ident:
			return last
		default:
			return ""
		}
	}
}

func targetOf(info *types.Info, lhs ast.Expr) string {
	var base ast.Expr
	switch v := ast.Unparen(lhs).(type) {
	case *ast.SelectorExpr:
		base = v.X
	case *ast.IndexExpr:
		base = v.X
	case *ast.StarExpr:
		base = v.X
	default:
		base = lhs
	}
	if tv, ok := info.Types[base]; ok {
		return typeName(tv.Type)
	}
	return "?"
}

func TypeName(t types.Type) string { return typeName(t) }

func typeName(t types.Type) string {
	for {
		switch x := t.(type) {
		case *types.Pointer:
			t = x.Elem()
			continue
		case *types.Named:
			return x.Obj().Name()
		case *types.Slice:
			return "[]" + typeName(x.Elem())
		case *types.Map:
			return "map[" + typeName(x.Key()) + "]" + typeName(x.Elem())
		case *types.Array:
			return "[]" + typeName(x.Elem())
		case *types.Basic:
			return x.Name()
		}
		return t.String()
	}
}

// Func is an analysed function.
type Func struct {
	Pkg    *packages.Package
	Decl   *ast.FuncDecl
	Lit    *ast.FuncLit
	Obj    *types.Func
	Name   string
	Params []types.Object // receiver first (if any)
	Body   *ast.BlockStmt
	// summaries
	Writes  map[types.Object][]Write // root -> writes (roots: params and free variables)
	Returns map[types.Object]int     // roots the results may alias, with distance
	alias   map[types.Object]map[types.Object]int
	store   map[types.Object]map[string]map[types.Object]int // local -> field ("" = element) -> roots of references stored there
	parent  *Func
}

// Engine holds all functions.
type Engine struct {
	Pkgs     []*packages.Package
	Funcs    map[*types.Func]*Func
	Lits     map[*ast.FuncLit]*Func
	All      []*Func
	constSet map[string]bool // method names of the const strata
	implCache map[*types.Func][]*Func
	// mutating method names of mutable interfaces (not in const strata)
	Fset *token.FileSet
}

func refKind(t types.Type) bool {
	switch u := t.Underlying().(type) {
	case *types.Pointer, *types.Slice, *types.Map, *types.Interface, *types.Chan, *types.Signature:
		return true
	case *types.Struct:
		for i := 0; i < u.NumFields(); i++ {
			if refKind(u.Field(i).Type()) {
				return true
			}
		}
	case *types.Array:
		return refKind(u.Elem())
	}
	return false
}

// New builds the engine and computes summaries to a fixpoint.
func New(pkgs []*packages.Package, fset *token.FileSet) *Engine {
	e := &Engine{Pkgs: pkgs, Funcs: map[*types.Func]*Func{}, Lits: map[*ast.FuncLit]*Func{}, constSet: map[string]bool{}, Fset: fset}
	// const strata: method sets of ConstScalar, ConstVector, ConstMatrix and const iterators
	for _, p := range pkgs {
		if p.PkgPath != "github.com/pbenner/autodiff" {
			continue
		}
		for _, n := range []string{"ConstScalar", "ConstVector", "ConstMatrix", "VectorConstIterator", "VectorConstJointIterator", "MatrixConstIterator", "MatrixConstJointIterator"} {
			if o := p.Types.Scope().Lookup(n); o != nil {
				if it, ok := o.Type().Underlying().(*types.Interface); ok {
					for i := 0; i < it.NumMethods(); i++ {
						e.constSet[it.Method(i).Name()] = true
					}
				}
			}
		}
	}
	for _, p := range pkgs {
		for _, file := range p.Syntax {
			for _, d := range file.Decls {
				fd, ok := d.(*ast.FuncDecl)
				if !ok || fd.Body == nil {
					continue
				}
				obj, _ := p.TypesInfo.Defs[fd.Name].(*types.Func)
				f := &Func{Pkg: p, Decl: fd, Obj: obj, Body: fd.Body, Name: funcName(p, fd)}
				if fd.Recv != nil {
					for _, fl := range fd.Recv.List {
						for _, n := range fl.Names {
							f.Params = append(f.Params, p.TypesInfo.Defs[n])
						}
						if len(fl.Names) == 0 {
							f.Params = append(f.Params, nil)
						}
					}
				}
				for _, fl := range fd.Type.Params.List {
					for _, n := range fl.Names {
						f.Params = append(f.Params, p.TypesInfo.Defs[n])
					}
					if len(fl.Names) == 0 {
						f.Params = append(f.Params, nil)
					}
				}
				if obj != nil {
					e.Funcs[obj] = f
				}
				e.All = append(e.All, f)
				e.collectLits(f, fd.Body)
			}
		}
	}
	for _, f := range e.All {
		f.Writes = map[types.Object][]Write{}
		f.Returns = map[types.Object]int{}
	}
	// fixpoint
	for iter := 0; iter < 12; iter++ {
		changed := false
		for _, f := range e.All {
			if e.analyse(f) {
				changed = true
			}
		}
		if !changed {
			break
		}
	}
	return e
}

func funcName(p *packages.Package, fd *ast.FuncDecl) string {
	rel := strings.TrimPrefix(strings.TrimPrefix(p.PkgPath, "github.com/pbenner/autodiff"), "/")
	if rel != "" {
		rel += "."
	}
	if fd.Recv != nil && len(fd.Recv.List) > 0 {
		t := fd.Recv.List[0].Type
		star := ""
		if s, ok := t.(*ast.StarExpr); ok {
			star = "*"
			t = s.X
		}
		if id, ok := t.(*ast.Ident); ok {
			return rel + "(" + star + id.Name + ")." + fd.Name.Name
		}
	}
	return rel + fd.Name.Name
}

func (e *Engine) collectLits(parent *Func, body ast.Node) {
	n := 0
	ast.Inspect(body, func(x ast.Node) bool {
		lit, ok := x.(*ast.FuncLit)
		if !ok {
			return true
		}
		n++
		f := &Func{Pkg: parent.Pkg, Lit: lit, Body: lit.Body, Name: fmt.Sprintf("%s$%d", parent.Name, n), parent: parent}
		for _, fl := range lit.Type.Params.List {
			for _, nm := range fl.Names {
				f.Params = append(f.Params, parent.Pkg.TypesInfo.Defs[nm])
			}
		}
		e.Lits[lit] = f
		e.All = append(e.All, f)
		// nested literals are found by the continued inspection; they get this literal's parent chain lazily
		return true
	})
}

// isLocalTo reports whether object o is declared inside f's body or is one of its parameters.
func (f *Func) declares(o types.Object) bool {
	if o == nil {
		return false
	}
	for _, p := range f.Params {
		if p == o {
			return true
		}
	}
	pos := o.Pos()
	var lo, hi token.Pos
	if f.Lit != nil {
		lo, hi = f.Lit.Pos(), f.Lit.End()
	} else {
		lo, hi = f.Decl.Pos(), f.Decl.End()
	}
	return pos >= lo && pos < hi
}

func (f *Func) isParam(o types.Object) bool {
	for _, p := range f.Params {
		if p == o && o != nil {
			return true
		}
	}
	return false
}

// deriving interface methods: the result refers to the receiver's storage
var derivingMethods = map[string]bool{
	"At": true, "AT": true, "AT_": true, "MagicAt": true, "ConstAt": true, "Slice": true, "SLICE": true, "ConstSlice": true, "MagicSlice": true,
	"T": true, "MagicT": true, "Row": true, "Col": true, "Diag": true, "ConstRow": true, "ConstCol": true, "ConstDiag": true,
	"AsVector": true, "AsConstVector": true, "AsMagicVector": true, "AsMatrix": true, "AsConstMatrix": true, "AsMagicMatrix": true,
	"Iterator": true, "ConstIterator": true, "MagicIterator": true, "IteratorFrom": true, "ConstIteratorFrom": true, "JointIterator": true, "ConstJointIterator": true,
	"ITERATOR": true, "ITERATOR_FROM": true, "JOINT_ITERATOR": true, "JOINT_ITERATOR_": true, "JOINT3_ITERATOR": true, "JOINT3_ITERATOR_": true,
	"Get": true, "GET": true, "GetConst": true, "GetMagic": true, "GetMatrix": true, "GetRecord": true, "GetMappedData": true, "GetData": true,
}

var freshPrefixes = []string{"Clone", "New", "Null", "nil", "AsDense", "AsSparse", "Unsafe"}

func isFreshName(n string) bool {
	for _, p := range freshPrefixes {
		if strings.HasPrefix(n, p) {
			return true
		}
	}
	return n == "make" || n == "new" || n == "Convert" || strings.HasPrefix(n, "Convert")
}

type fnCtx struct {
	e    *Engine
	f    *Func
	info *types.Info
	noStore bool
}

// roots returns the root objects (parameters of f, captured and package-level variables) that expression x
// may refer to, each with a distance: 0 = x refers into the root's own reachable storage; d >= 1 = x refers to a
// fresh object that holds a reference chain of length d to the root (an iterator over it, a struct wrapping it).
func (c *fnCtx) roots(x ast.Expr, depth int) map[types.Object]int {
	res := map[types.Object]int{}
	if x == nil || depth > 12 {
		return res
	}
	add := func(m map[types.Object]int, delta int) {
		for k, d := range m {
			d += delta
			if d < 0 {
				d = 0
			}
			if old, ok := res[k]; !ok || d < old {
				res[k] = d
			}
		}
	}
	crossesRef := func(e ast.Expr) bool {
		if tv, ok := c.info.Types[e]; ok {
			switch tv.Type.Underlying().(type) {
			case *types.Pointer, *types.Slice, *types.Map, *types.Interface:
				return true
			}
		}
		return false
	}
	switch v := ast.Unparen(x).(type) {
	case *ast.Ident:
		o := c.info.Uses[v]
		if o == nil {
			o = c.info.Defs[v]
		}
		vo, ok := o.(*types.Var)
		if !ok {
			return res
		}
		if c.f.isParam(vo) || !c.f.declares(vo) {
			res[vo] = 0
			return res
		}
		if a, ok := c.f.alias[vo]; ok {
			add(a, 0)
		}
		if !c.noStore {
			for _, m := range c.f.store[vo] {
				add(m, 0)
			}
		}
	case *ast.SelectorExpr:
		if _, isPkg := c.info.Uses[identOf(v.X)].(*types.PkgName); isPkg {
			if vo, ok := c.info.Uses[v.Sel].(*types.Var); ok {
				res[vo] = 0
			}
			return res
		}
		delta := 0
		if crossesRef(v.X) {
			delta = -1
		}
		if bo := c.storeBase(v.X); bo != nil {
			// field-sensitive: only references stored under this field (or as elements) are reachable through x.f
			saved := c.noStore
			c.noStore = true
			add(c.roots(v.X, depth+1), delta)
			c.noStore = saved
			add(c.f.store[bo][v.Sel.Name], delta)
			add(c.f.store[bo][""], delta)
		} else {
			add(c.roots(v.X, depth+1), delta)
		}
	case *ast.IndexExpr:
		add(c.roots(v.X, depth+1), -1)
	case *ast.SliceExpr:
		add(c.roots(v.X, depth+1), 0)
	case *ast.StarExpr:
		add(c.roots(v.X, depth+1), -1)
	case *ast.UnaryExpr:
		if v.Op == token.AND {
			// address of a local value / literal: a fresh object holding what the value holds
			if _, isLit := ast.Unparen(v.X).(*ast.CompositeLit); isLit || c.localValue(v.X) {
				add(c.roots(v.X, depth+1), 1)
			} else {
				add(c.roots(v.X, depth+1), 0)
			}
		} else {
			add(c.roots(v.X, depth+1), 0)
		}
	case *ast.TypeAssertExpr:
		add(c.roots(v.X, depth+1), 0)
	case *ast.CompositeLit:
		for _, el := range v.Elts {
			if kv, ok := el.(*ast.KeyValueExpr); ok {
				el = kv.Value
			}
			if tv, ok := c.info.Types[el]; ok && refKind(tv.Type) {
				add(c.roots(el, depth+1), 0)
			}
		}
	case *ast.CallExpr:
		if tv, ok := c.info.Types[v.Fun]; ok && tv.IsType() {
			if len(v.Args) == 1 {
				add(c.roots(v.Args[0], depth+1), 0)
			}
			return res
		}
		name, callee, recvExpr := c.callee(v)
		if id, ok := v.Fun.(*ast.Ident); ok {
			if _, isB := c.info.Uses[id].(*types.Builtin); isB {
				if id.Name == "append" && len(v.Args) > 0 {
					add(c.roots(v.Args[0], depth+1), 0)
					for i, a := range v.Args[1:] {
						tv, ok := c.info.Types[a]
						if !ok || !refKind(tv.Type) {
							continue
						}
						// append(x, y...) copies the elements of y: only reference-kind elements carry an alias
						if v.Ellipsis.IsValid() && i == len(v.Args)-2 {
							if sl, isSlice := tv.Type.Underlying().(*types.Slice); isSlice && !refKind(sl.Elem()) {
								continue
							}
						}
						add(c.roots(a, depth+1), 1)
					}
				}
				return res
			}
		}
		if callee != nil {
			if g, ok := c.e.Funcs[callee]; ok {
				if pure[g.Name] {
					return res
				}
				k := 0
				if recvExpr != nil {
					if len(g.Params) > 0 && g.Params[0] != nil {
						if d, ok := g.Returns[g.Params[0]]; ok {
							add(c.roots(recvExpr, depth+1), d)
						}
					}
					k = 1
				}
				for i, a := range v.Args {
					if k+i < len(g.Params) && g.Params[k+i] != nil {
						if d, ok := g.Returns[g.Params[k+i]]; ok {
							add(c.roots(a, depth+1), d)
						}
					}
				}
				return res
			}
		}
		if recvExpr != nil {
			if isFreshName(name) {
				return res
			}
			if iteratorMethods[name] {
				add(c.roots(recvExpr, depth+1), 1)
			} else if derivingMethods[name] {
				add(c.roots(recvExpr, depth+1), 0)
			}
			return res
		}
	}
	return res
}

// reviewed summaries: functions whose result is fresh and that do not write their receiver, decided elsewhere
var pure = map[string]bool{
	"(*AvlNode).clone": true, // C19.R5: returns a fresh node whose children are re-parented recursive clones
	"(*AvlTree).Clone": true,
}

var iteratorMethods = map[string]bool{
	"Iterator": true, "ConstIterator": true, "MagicIterator": true, "IteratorFrom": true, "ConstIteratorFrom": true, "JointIterator": true, "ConstJointIterator": true,
	"ITERATOR": true, "ITERATOR_FROM": true, "JOINT_ITERATOR": true, "JOINT_ITERATOR_": true, "JOINT3_ITERATOR": true, "JOINT3_ITERATOR_": true,
	"CloneIterator": true, "CloneConstIterator": true, "CloneJointIterator": true, "CloneConstJointIterator": true,
}

func identOf(e ast.Expr) *ast.Ident {
	id, _ := ast.Unparen(e).(*ast.Ident)
	return id
}

// callee resolves a call: name, static *types.Func (may lack a body), receiver expression (nil for functions).
func (c *fnCtx) callee(call *ast.CallExpr) (string, *types.Func, ast.Expr) {
	switch fn := ast.Unparen(call.Fun).(type) {
	case *ast.Ident:
		if o, ok := c.info.Uses[fn].(*types.Func); ok {
			return fn.Name, o, nil
		}
		return fn.Name, nil, nil
	case *ast.SelectorExpr:
		if o, ok := c.info.Uses[fn.Sel].(*types.Func); ok {
			if sig := o.Type().(*types.Signature); sig.Recv() != nil {
				return fn.Sel.Name, o, fn.X
			}
			return fn.Sel.Name, o, nil
		}
		return fn.Sel.Name, nil, nil
	}
	return "", nil, nil
}

// hops counts the references (pointer deref, slice/map index) crossed between the base variable of
// a store target and the stored location; 0 = a field of a local struct value (a local write).
func (c *fnCtx) hops(lhs ast.Expr) int {
	switch v := ast.Unparen(lhs).(type) {
	case *ast.Ident:
		return 0
	case *ast.SelectorExpr:
		h := c.hops(v.X)
		if tv, ok := c.info.Types[v.X]; ok {
			if _, isPtr := tv.Type.Underlying().(*types.Pointer); isPtr {
				h++
			}
		}
		return h
	case *ast.IndexExpr:
		h := c.hops(v.X)
		if tv, ok := c.info.Types[v.X]; ok {
			switch tv.Type.Underlying().(type) {
			case *types.Slice, *types.Map, *types.Pointer:
				h++
			}
		}
		return h
	case *ast.StarExpr:
		return c.hops(v.X) + 1
	case *ast.CallExpr:
		// store through a derived reference: X.At(i).ptr etc.
		return 1
	}
	return 1
}

func (c *fnCtx) throughRef(lhs ast.Expr) bool { return c.hops(lhs) > 0 }

// localValue reports whether x is an addressable local variable of non-reference (struct/array) type,
// so that a pointer-receiver call x.m() or &x hands out the address of local storage.
func (c *fnCtx) localValue(x ast.Expr) bool {
	if ue, ok := ast.Unparen(x).(*ast.UnaryExpr); ok && ue.Op == token.AND {
		x = ue.X
	} 
	id := identOf(x)
	if id == nil {
		return false
	}
	o, ok := c.info.Uses[id].(*types.Var)
	if !ok || !c.f.declares(o) || c.f.isParam(o) {
		return false
	}
	switch o.Type().Underlying().(type) {
	case *types.Struct, *types.Array:
		return true
	}
	return false
}

func indexExprs(e ast.Expr) []ast.Expr {
	var r []ast.Expr
	for {
		switch v := ast.Unparen(e).(type) {
		case *ast.IndexExpr:
			r = append(r, v.Index)
			e = v.X
			continue
		case *ast.SelectorExpr:
			e = v.X
			continue
		case *ast.StarExpr:
			e = v.X
			continue
		case *ast.CallExpr:
			r = append(r, v.Args...)
			if s, ok := v.Fun.(*ast.SelectorExpr); ok {
				e = s.X
				continue
			}
		case *ast.TypeAssertExpr:
			e = v.X
			continue
		}
		return r
	}
}

func (e *Engine) analyse(f *Func) bool {
	c := &fnCtx{e: e, f: f, info: f.Pkg.TypesInfo}
	// alias map fixpoint (flow-insensitive)
	f.alias = map[types.Object]map[types.Object]int{}
	f.store = map[types.Object]map[string]map[types.Object]int{}
	addAlias := func(v types.Object, rs map[types.Object]int) bool {
		if v == nil || len(rs) == 0 {
			return false
		}
		m := f.alias[v]
		if m == nil {
			m = map[types.Object]int{}
			f.alias[v] = m
		}
		ch := false
		for r, d := range rs {
			if old, ok := m[r]; !ok || d < old {
				m[r] = d
				ch = true
			}
		}
		return ch
	}
	inOwnBody := func(n ast.Node) bool { return true }
	_ = inOwnBody
	for it := 0; it < 8; it++ {
		ch := false
		inspectOwn(f.Body, func(n ast.Node) {
			switch s := n.(type) {
			case *ast.AssignStmt:
				for i, l := range s.Lhs {
					id := identOf(l)
					if id == nil {
						// store of a reference into (an object reachable from) a local variable: x.f = y, x[i] = y, x.f.g = y.
						// The local then holds a reference chain to y's roots, one level deeper per reference crossed on the way.
						if bid := identOf(baseOf(l)); bid != nil && i < len(s.Rhs) && len(s.Rhs) == len(s.Lhs) {
							if bo, ok := c.info.Uses[bid].(*types.Var); ok && f.declares(bo) && !f.isParam(bo) {
								if tv, ok := c.info.Types[s.Rhs[i]]; ok && refKind(tv.Type) {
									rs := map[types.Object]int{}
									h := c.hops(l)
									for k, d := range c.roots(s.Rhs[i], 0) {
										rs[k] = d + h
									}
									if f.addStore(bo, firstField(l), rs) {
										ch = true
									}
								}
							}
						}
						continue
					}
					o := c.info.Defs[id]
					if o == nil {
						o = c.info.Uses[id]
					}
					if o == nil || !f.declares(o) || f.isParam(o) && false {
						continue
					}
					var r ast.Expr
					if len(s.Rhs) == len(s.Lhs) {
						r = s.Rhs[i]
					} else if len(s.Rhs) == 1 {
						r = s.Rhs[0]
					}
					if r == nil {
						continue
					}
					if !refKind(o.Type()) {
						continue
					}
					if addAlias(o, c.roots(r, 0)) {
						ch = true
					}
				}
			case *ast.RangeStmt:
				for _, kv := range []ast.Expr{s.Key, s.Value} {
					if id := identOf(kv); id != nil {
						if o := c.info.Defs[id]; o != nil && refKind(o.Type()) {
							if addAlias(o, c.roots(s.X, 0)) {
								ch = true
							}
						}
					}
				}
			case *ast.ValueSpec:
				for i, nme := range s.Names {
					if i < len(s.Values) {
						if o := c.info.Defs[nme]; o != nil && refKind(o.Type()) {
							if addAlias(o, c.roots(s.Values[i], 0)) {
								ch = true
							}
						}
					}
				}
			case *ast.TypeSwitchStmt:
				// v := x.(type): implicit objects per clause
				if as, ok := s.Assign.(*ast.AssignStmt); ok && len(as.Rhs) == 1 {
					if ta, ok := as.Rhs[0].(*ast.TypeAssertExpr); ok {
						rs := c.roots(ta.X, 0)
						for _, cl := range s.Body.List {
							if o := c.info.Implicits[cl]; o != nil {
								if addAlias(o, rs) {
									ch = true
								}
							}
						}
					}
				}
			}
		})
		if !ch {
			break
		}
	}
	// writes and returns
	newW := map[types.Object][]Write{}
	addW := func(rs map[types.Object]int, w Write) {
		for r, d := range rs {
			if r == nil {
				continue
			}
			if w.Hops-w.BaseHops < d+1 {
				continue // the write lands in a fresh object that merely refers to the root
			}
			// only parameters and non-local variables are roots of interest
			if f.declares(r) && !f.isParam(r) {
				continue
			}
			w2 := w
			w2.Root = r
			newW[r] = append(newW[r], w2)
		}
	}
	text := func(x ast.Expr) string { return types.ExprString(x) }
	inspectOwn(f.Body, func(n ast.Node) {
		switch s := n.(type) {
		case *ast.AssignStmt:
			for _, l := range s.Lhs {
				if identOf(l) != nil {
					// assignment to a captured variable itself is a write of that variable
					o := c.info.Uses[identOf(l)]
					if vo, ok := o.(*types.Var); ok && !f.declares(vo) {
						addW(map[types.Object]int{vo: 0}, Write{Pos: l.Pos(), Path: text(l), Node: s, Hops: 1})
					}
					continue
				}
				if c.throughRef(l) {
					addW(c.rootsAt(baseOfStore(l), l.Pos()), Write{Pos: l.Pos(), Path: text(l), Expr: l, Idx: indexExprs(l), Node: s, Hops: c.hops(l), BaseHops: c.storeBaseHops(l), Target: targetOf(c.info, l), Field: firstField(l)})
				} else {
					// field of a captured struct variable
					if id := identOf(baseOf(l)); id != nil {
						if vo, ok := c.info.Uses[id].(*types.Var); ok && !f.declares(vo) {
							addW(map[types.Object]int{vo: 0}, Write{Pos: l.Pos(), Path: text(l), Idx: indexExprs(l), Node: s, Hops: 1})
						}
					}
				}
			}
		case *ast.IncDecStmt:
			if identOf(s.X) == nil && c.throughRef(s.X) {
				addW(c.rootsAt(baseOfStore(s.X), s.Pos()), Write{Pos: s.Pos(), Path: text(s.X), Expr: s.X, Idx: indexExprs(s.X), Node: s, Hops: c.hops(s.X), BaseHops: c.storeBaseHops(s.X), Target: targetOf(c.info, s.X), Field: firstField(s.X)})
			} else if id := identOf(s.X); id != nil {
				if vo, ok := c.info.Uses[id].(*types.Var); ok && !f.declares(vo) {
					addW(map[types.Object]int{vo: 0}, Write{Pos: s.Pos(), Path: text(s.X), Node: s, Hops: 1})
				}
			}
		case *ast.CallExpr:
			c.callWrites(s, addW)
		case *ast.ReturnStmt:
			for _, r := range s.Results {
				if tv, ok := c.info.Types[r]; ok && refKind(tv.Type) {
					for o, d := range c.roots(r, 0) {
						if f.isParam(o) {
							if old, ok := f.Returns[o]; !ok || d < old {
								f.Returns[o] = d
							}
						}
					}
				}
			}
		}
	})
	// named results: assignments to them alias params
	changed := false
	for r, ws := range newW {
		if len(ws) != len(f.Writes[r]) {
			changed = true
		}
	}
	if len(newW) != len(f.Writes) {
		changed = true
	}
	nret := len(f.Returns)
	f.Writes = newW
	_ = nret
	return changed
}

func isAddrOf(e ast.Expr) bool {
	ue, ok := ast.Unparen(e).(*ast.UnaryExpr)
	return ok && ue.Op == token.AND
}

// baseOfStore returns the sub-expression of a store target whose aliases are written: the part before the last
// reference crossing is kept (x.f[i] -> x.f) so that field-sensitive aliases of local structs apply.
func baseOfStore(e ast.Expr) ast.Expr {
	switch v := ast.Unparen(e).(type) {
	case *ast.IndexExpr:
		return v.X
	case *ast.StarExpr:
		return v.X
	case *ast.SelectorExpr:
		return v.X
	}
	return e
}

// rootsAt is roots with field-sensitive strong updates for local struct values: x.f read at pos refers to the
// value most recently assigned to x.f before pos (if x was not re-assigned as a whole in between).
func (c *fnCtx) rootsAt(x ast.Expr, pos token.Pos) map[types.Object]int {
	if id := identOf(x); id != nil {
		if o, ok := c.info.Uses[id].(*types.Var); ok && c.f.declares(o) && !c.f.isParam(o) {
			// latest assignment before pos, plus assignments inside loops that also contain pos (they may reach back)
			var latest ast.Expr
			var latestPos token.Pos
			var others []ast.Expr
			n := 0
			var loops []ast.Node
			inspectOwn(c.f.Body, func(nd ast.Node) {
				switch l := nd.(type) {
				case *ast.ForStmt, *ast.RangeStmt:
					if l.Pos() <= pos && pos < l.End() {
						loops = append(loops, l)
					}
				}
			})
			inLoopWithPos := func(p token.Pos) bool {
				for _, l := range loops {
					if l.Pos() <= p && p < l.End() {
						return true
					}
				}
				return false
			}
			simple := true
			inspectOwn(c.f.Body, func(nd ast.Node) {
				switch as := nd.(type) {
				case *ast.AssignStmt:
					for i, l := range as.Lhs {
						lid := identOf(l)
						if lid == nil || (c.info.Uses[lid] != o && c.info.Defs[lid] != o) {
							continue
						}
						n++
						var r ast.Expr
						if len(as.Rhs) == len(as.Lhs) {
							r = as.Rhs[i]
						} else if len(as.Rhs) == 1 {
							r = as.Rhs[0]
						}
						if r == nil {
							simple = false
							continue
						}
						if as.Pos() < pos {
							if as.Pos() > latestPos {
								latest, latestPos = r, as.Pos()
							}
						} else if inLoopWithPos(as.Pos()) {
							others = append(others, r)
						}
					}
				case *ast.RangeStmt:
					for _, kv := range []ast.Expr{as.Key, as.Value} {
						if lid := identOf(kv); lid != nil && c.info.Defs[lid] == o {
							simple = false
						}
					}
				case *ast.TypeSwitchStmt:
					simple = false
				}
			})
			if simple && latest != nil && n >= 2 {
				res := c.roots(latest, 0)
				if !c.noStore {
					for _, m := range c.f.store[o] {
						for k, d := range m {
							if old, ok := res[k]; !ok || d < old {
								res[k] = d
							}
						}
					}
				}
				for _, r := range others {
					for k, d := range c.roots(r, 0) {
						if old, ok := res[k]; !ok || d < old {
							res[k] = d
						}
					}
				}
				return res
			}
		}
	}
	if sel, ok := ast.Unparen(x).(*ast.SelectorExpr); ok {
		if id := identOf(sel.X); id != nil && (c.localValue(sel.X) || c.topLevelFieldAssign(id, sel.Sel.Name, pos)) {
			o := c.info.Uses[id]
			var best ast.Expr
			var bestPos, wholePos token.Pos
			inspectOwn(c.f.Body, func(n ast.Node) {
				as, ok := n.(*ast.AssignStmt)
				if !ok || as.Pos() >= pos {
					return
				}
				for i, l := range as.Lhs {
					if s2, ok := ast.Unparen(l).(*ast.SelectorExpr); ok && s2.Sel.Name == sel.Sel.Name {
						if id2 := identOf(s2.X); id2 != nil && c.info.Uses[id2] == o && i < len(as.Rhs) && as.Pos() > bestPos {
							best, bestPos = as.Rhs[i], as.Pos()
						}
					}
					if id2 := identOf(l); id2 != nil && (c.info.Uses[id2] == o || c.info.Defs[id2] == o) && as.Pos() > wholePos {
						wholePos = as.Pos()
					}
				}
			})
			if best != nil && bestPos > wholePos {
				return c.roots(best, 0)
			}
		}
	}
	return c.roots(x, 0)
}

func baseOf(e ast.Expr) ast.Expr {
	for {
		switch v := ast.Unparen(e).(type) {
		case *ast.SelectorExpr:
			e = v.X
		case *ast.IndexExpr:
			e = v.X
		case *ast.StarExpr:
			e = v.X
		case *ast.SliceExpr:
			e = v.X
		default:
			return e
		}
	}
}

// inspectOwn visits the nodes of body without descending into nested function literals.
func inspectOwn(body ast.Node, visit func(ast.Node)) {
	ast.Inspect(body, func(n ast.Node) bool {
		if n == nil {
			return true
		}
		if _, ok := n.(*ast.FuncLit); ok && n != body {
			return false
		}
		visit(n)
		return true
	})
}

// external functions that write through arguments: name -> argument indices written
var externalWrites = map[string][]int{
	"encoding/json.Unmarshal": {1}, "sort.Sort": {0}, "sort.Stable": {0}, "sort.Slice": {0}, "sort.Ints": {0}, "sort.Float64s": {0},
	"fmt.Sscanf": {2, 3, 4, 5}, "fmt.Fscanf": {2, 3, 4, 5}, "fmt.Sscan": {1, 2, 3}, "io.ReadFull": {1},
}

func (c *fnCtx) callWrites(call *ast.CallExpr, addW func(map[types.Object]int, Write)) {
	name, callee, recvExpr := c.callee(call)
	text := func(x ast.Expr) string { return types.ExprString(x) }
	// builtins
	if id, ok := call.Fun.(*ast.Ident); ok {
		if _, isB := c.info.Uses[id].(*types.Builtin); isB {
			switch id.Name {
			case "copy":
				if len(call.Args) == 2 {
					addW(c.rootsAt(call.Args[0], call.Pos()), Write{Pos: call.Pos(), Path: "copy(" + text(call.Args[0]) + ", …)", Expr: call.Args[0], Idx: indexExprs(call.Args[0]), Node: call, Hops: c.hops(call.Args[0]) + 1, BaseHops: c.hops(call.Args[0]), Target: exprTypeName(c.info, call.Args[0])})
				}
			case "delete":
				if len(call.Args) == 2 {
					addW(c.rootsAt(call.Args[0], call.Pos()), Write{Pos: call.Pos(), Path: "delete(" + text(call.Args[0]) + ", …)", Expr: call.Args[0], Idx: append(indexExprs(call.Args[0]), call.Args[1]), Node: call, Hops: c.hops(call.Args[0]) + 1, BaseHops: c.hops(call.Args[0]), Target: exprTypeName(c.info, call.Args[0])})
				}
			}
			return
		}
	}
	// X.Map(func(x Scalar) { ... writes x ... }): the callback is applied to references to the elements of X
	if recvExpr != nil && name == "Map" && len(call.Args) == 1 {
		if lit, ok := ast.Unparen(call.Args[0]).(*ast.FuncLit); ok {
			if g, ok := c.e.Lits[lit]; ok && len(g.Params) > 0 && g.Params[0] != nil && len(g.Writes[g.Params[0]]) > 0 {
				addW(c.rootsAt(recvExpr, call.Pos()), Write{Pos: call.Pos(), Path: text(recvExpr) + ".Map(callback writing its argument)", Expr: recvExpr, Call: call, Idx: indexExprs(recvExpr), Node: call, Hops: 1 + c.hops(recvExpr), BaseHops: c.hops(recvExpr), Target: exprTypeName(c.info, recvExpr), Field: firstField(recvExpr)})
			}
		}
	}
	if callee != nil {
		if g, ok := c.e.Funcs[callee]; ok {
			if pure[g.Name] {
				return
			}
			k := 0
			// deepest write of the callee on a parameter
			// one representative (deepest) write of the callee per distinct target type
			pickAll := func(ws []Write, localAddr bool) []*Write {
				best := map[string]*Write{}
				var order []string
				for i := range ws {
					h := ws[i].Hops
					if localAddr {
						h-- // the first hop lands in local storage whose address was taken for the call
					}
					if h < 1 {
						continue
					}
					t := ws[i].Target
					if b, ok := best[t]; !ok {
						best[t] = &ws[i]
						order = append(order, t)
					} else if ws[i].Hops > b.Hops {
						best[t] = &ws[i]
					}
				}
				var r []*Write
				for _, t := range order {
					r = append(r, best[t])
				}
				return r
			}
			if recvExpr != nil {
				if len(g.Params) > 0 && g.Params[0] != nil {
					la := false
					if sig := callee.Type().(*types.Signature); sig.Recv() != nil {
						if _, ptrRecv := sig.Recv().Type().(*types.Pointer); ptrRecv && c.localValue(recvExpr) {
							la = true
						}
					}
					for _, w := range pickAll(g.Writes[g.Params[0]], la) {
						h := w.Hops
						if la {
							h--
						}
						addW(c.rootsField(recvExpr, call.Pos(), w.Field), Write{Pos: call.Pos(), Path: text(recvExpr) + "." + name + "()", Expr: recvExpr, Call: call, Callee: g, CalleeParam: g.Params[0], Via: append([]string{g.Name}, w.Via...), Idx: indexExprs(recvExpr), Node: call, Hops: h + c.hops(recvExpr), BaseHops: c.hops(recvExpr), Target: w.Target, Field: fieldThrough(recvExpr, w.Field)})
					}
				}
				k = 1
			}
			for i, a := range call.Args {
				if k+i < len(g.Params) && g.Params[k+i] != nil {
					la := c.localValue(a) && isAddrOf(a)
					for _, w := range pickAll(g.Writes[g.Params[k+i]], la) {
						h := w.Hops
						if la {
							h--
						}
						addW(c.rootsField(a, call.Pos(), w.Field), Write{Pos: call.Pos(), Path: text(a) + " passed to " + name, Expr: a, Call: call, Callee: g, CalleeParam: g.Params[k+i], Via: append([]string{g.Name}, w.Via...), Idx: indexExprs(a), Node: call, Hops: h + c.hops(a), BaseHops: c.hops(a), Target: w.Target, Field: fieldThrough(a, w.Field)})
					}
				}
			}
			// variadic tail: last param covers remaining args
			if sig := callee.Type().(*types.Signature); sig.Variadic() && len(g.Params) > 0 {
				last := g.Params[len(g.Params)-1]
				if last != nil && len(g.Writes[last]) > 0 {
					for i := len(g.Params) - 1 - k; i >= 0 && i < len(call.Args); i++ {
						addW(c.roots(call.Args[i], 0), Write{Pos: call.Pos(), Path: text(call.Args[i]) + " passed to " + name, Via: []string{g.Name}, Node: call, Hops: 1})
					}
				}
			}
			// free variables written by g (package-level variables)
			for r, ws := range g.Writes {
				if vo, ok := r.(*types.Var); ok && vo.Pkg() != nil && vo.Parent() == vo.Pkg().Scope() && len(ws) > 0 {
					addW(map[types.Object]int{r: 0}, Write{Pos: call.Pos(), Path: "global " + vo.Name() + " via " + name, Via: append([]string{g.Name}, ws[0].Via...), Node: call, Hops: 1})
				}
			}
			return
		}
		// external function with a table entry
		if callee.Pkg() != nil {
			if idxs, ok := externalWrites[callee.Pkg().Path()+"."+callee.Name()]; ok {
				for _, i := range idxs {
					if i < len(call.Args) {
						addW(c.roots(call.Args[i], 0), Write{Pos: call.Pos(), Path: text(call.Args[i]) + " passed to " + callee.Pkg().Name() + "." + name, Node: call, Hops: 1})
					}
				}
			}
		}
	}
	// closure called through a local variable
	if id, ok := call.Fun.(*ast.Ident); ok && callee == nil {
		if lit := c.localLit(id); lit != nil {
			if g, ok := c.e.Lits[lit]; ok {
				for r, ws := range g.Writes {
					if len(ws) > 0 && !g.declares(r) {
						addW(map[types.Object]int{r: 0}, Write{Pos: call.Pos(), Path: "via closure " + id.Name, Via: append([]string{g.Name}, ws[0].Via...), Idx: ws[0].Idx, Node: call, Hops: 1})
					}
				}
			}
		}
		return
	}
	// interface method (no body)
	if recvExpr != nil && callee != nil {
		if _, hasBody := c.e.Funcs[callee]; hasBody {
			return
		}
		// interfaces declared outside the container/scalar strata: union over the implementations in the repository
		if impls := c.e.implementations(callee); impls != nil {
			for _, g := range impls {
				if len(g.Params) > 0 && g.Params[0] != nil {
					seenT := map[string]bool{}
					for _, w := range g.Writes[g.Params[0]] {
						if w.Hops >= 1 && !seenT[w.Target] {
							seenT[w.Target] = true
							addW(c.rootsField(recvExpr, call.Pos(), w.Field), Write{Pos: call.Pos(), Path: text(recvExpr) + "." + name + "()", Expr: recvExpr, Call: call, Callee: g, CalleeParam: g.Params[0], Via: append([]string{g.Name}, w.Via...), Idx: indexExprs(recvExpr), Node: call, Hops: w.Hops + c.hops(recvExpr), BaseHops: c.hops(recvExpr), Target: w.Target, Field: fieldThrough(recvExpr, w.Field)})
						}
					}
				}
				for i, a := range call.Args {
					if 1+i < len(g.Params) && g.Params[1+i] != nil {
						seenT := map[string]bool{}
						for _, w := range g.Writes[g.Params[1+i]] {
							if w.Hops >= 1 && !seenT[w.Target] {
								seenT[w.Target] = true
								addW(c.rootsField(a, call.Pos(), w.Field), Write{Pos: call.Pos(), Path: text(a) + " passed to " + name, Expr: a, Call: call, Callee: g, CalleeParam: g.Params[1+i], Via: append([]string{g.Name}, w.Via...), Idx: indexExprs(a), Node: call, Hops: w.Hops + c.hops(a), BaseHops: c.hops(a), Target: w.Target, Field: fieldThrough(a, w.Field)})
							}
						}
					}
				}
			}
			return
		}
		if callee.Pkg() == nil || !strings.HasPrefix(callee.Pkg().Path(), "github.com/pbenner/") {
			return // external method: assumed not to write (stated assumption), except table above
		}
		if !c.e.constSet[name] && !isFreshName(name) && !derivingMethods[name] && !readOnlyIfaceMethods[name] {
			addW(c.rootsAt(recvExpr, call.Pos()), Write{Pos: call.Pos(), Path: text(recvExpr) + "." + name + "() [interface]", Expr: recvExpr, Call: call, Idx: indexExprs(recvExpr), Node: call, Hops: 1 + c.hops(recvExpr), BaseHops: c.hops(recvExpr), Target: exprTypeName(c.info, recvExpr), Field: firstField(recvExpr)})
		}
		// arguments received by a mutable interface type are written (temporaries)
		sig := callee.Type().(*types.Signature)
		for i, a := range call.Args {
			if i < sig.Params().Len() {
				if n := namedName(sig.Params().At(i).Type()); n == "Scalar" || n == "Vector" || n == "Matrix" || n == "MagicScalar" || n == "MagicVector" || n == "MagicMatrix" {
					addW(c.rootsAt(a, call.Pos()), Write{Pos: call.Pos(), Path: text(a) + " passed as mutable " + n + " to " + name, Expr: a, Call: call, Idx: indexExprs(a), Node: call, Hops: 1 + c.hops(a), BaseHops: c.hops(a), Target: n, Field: firstField(a)})
				}
			}
		}
	}
}

// interface methods outside the const strata that do not write their receiver
var readOnlyIfaceMethods = map[string]bool{
	"Dim": true, "Dims": true, "String": true, "Table": true, "ElementType": true, "Type": true, "Export": true, "MarshalJSON": true, "storageLocation": true,
	"LogPdf": false, "GetParameters": true, "ScalarType": true, "ExportConfig": true, "NumberOfThreads": true, "GetThreadId": true,
	"Ok": true, "Index": true, "CloneIterator": true, "CloneConstIterator": true, "CloneJointIterator": true, "CloneConstJointIterator": true,
	"GetN": true, "GetNMapped": true, "GetNRecords": true, "GetNObservations": true, "IsSymmetric": true, "Error": true,
	"NComponents": true, "NStates": true, "NEDists": true, "GetEstimate": false, "Wait": true, "AddJob": true, "AddRangeJob": true, "NewJobGroup": true,
}

func namedName(t types.Type) string {
	for {
		switch x := t.(type) {
		case *types.Pointer:
			t = x.Elem()
			continue
		case *types.Named:
			return x.Obj().Name()
		}
		return ""
	}
}

func (c *fnCtx) localLit(id *ast.Ident) *ast.FuncLit {
	o := c.info.Uses[id]
	if o == nil {
		return nil
	}
	var lit *ast.FuncLit
	root := ast.Node(c.f.Body)
	if c.f.parent != nil {
		root = c.f.parent.Body
	}
	ast.Inspect(root, func(n ast.Node) bool {
		if as, ok := n.(*ast.AssignStmt); ok {
			for i, l := range as.Lhs {
				if lid := identOf(l); lid != nil && (c.info.Defs[lid] == o || c.info.Uses[lid] == o) && i < len(as.Rhs) {
					if fl, ok := as.Rhs[i].(*ast.FuncLit); ok {
						lit = fl
					}
				}
			}
		}
		return true
	})
	return lit
}

// WritesOf returns the writes of f to root o, sorted by position.
func (f *Func) WritesOf(o types.Object) []Write {
	ws := append([]Write{}, f.Writes[o]...)
	sort.Slice(ws, func(i, j int) bool { return ws[i].Pos < ws[j].Pos })
	return ws
}

// ByName finds a declared function by its display name.
func (e *Engine) ByName(name string) *Func {
	for _, f := range e.All {
		if f.Name == name {
			return f
		}
	}
	return nil
}

// implementations returns the repository methods that may be the target of an interface method call, for interfaces
// other than the scalar/vector/matrix strata (those follow the const/mutable naming convention). nil = use the convention.
func (e *Engine) implementations(m *types.Func) []*Func {
	sig := m.Type().(*types.Signature)
	if sig.Recv() == nil {
		return nil
	}
	it, ok := sig.Recv().Type().Underlying().(*types.Interface)
	if !ok {
		return nil
	}
	if n := namedName(sig.Recv().Type()); strataIfaces[n] {
		return nil
	}
	if m.Pkg() == nil || !strings.HasPrefix(m.Pkg().Path(), "github.com/pbenner/autodiff") {
		return nil
	}
	if e.implCache == nil {
		e.implCache = map[*types.Func][]*Func{}
	}
	if r, ok := e.implCache[m]; ok {
		return r
	}
	res := []*Func{}
	for _, f := range e.All {
		if f.Decl == nil || f.Decl.Recv == nil || f.Decl.Name.Name != m.Name() || f.Obj == nil {
			continue
		}
		rt := f.Obj.Type().(*types.Signature).Recv().Type()
		if types.Implements(rt, it) || types.Implements(types.NewPointer(rt), it) {
			res = append(res, f)
		}
	}
	e.implCache[m] = res
	return res
}

var strataIfaces = map[string]bool{
	"ConstScalar": true, "Scalar": true, "MagicScalar": true, "ConstVector": true, "Vector": true, "MagicVector": true,
	"ConstMatrix": true, "Matrix": true, "MagicMatrix": true, "constVector": true, "vector": true, "constMatrix": true, "matrix": true,
	"VectorConstIterator": true, "VectorIterator": true, "VectorMagicIterator": true, "VectorConstJointIterator": true, "VectorJointIterator": true,
	"MatrixConstIterator": true, "MatrixIterator": true, "MatrixMagicIterator": true, "MatrixConstJointIterator": true, "MatrixJointIterator": true,
}

func exprTypeName(info *types.Info, e ast.Expr) string {
	if tv, ok := info.Types[e]; ok {
		return typeName(tv.Type)
	}
	return "?"
}

// fieldThrough: the first field on the caller's root for a write that, in the callee, starts at field f of the parameter:
// if the argument expression already selects a field of its base variable that one is the first field; otherwise f itself.
func fieldThrough(arg ast.Expr, f string) string {
	if ff := firstField(arg); ff != "" {
		return ff
	}
	if _, ok := ast.Unparen(arg).(*ast.Ident); ok {
		return f
	}
	return ""
}

// rootsField: roots of an argument for a callee write that starts at field `field` of the parameter. When the argument is
// a keyed composite literal (directly or as the single definition of a local), only the element stored in that field counts.
func (c *fnCtx) rootsField(x ast.Expr, pos token.Pos, field string) map[types.Object]int {
	if field == "" {
		return c.rootsAt(x, pos)
	}
	lit := c.literalOf(x)
	if lit == nil {
		if bo := c.storeBase(x); bo != nil && field != "" {
			saved := c.noStore
			c.noStore = true
			res := c.rootsAt(x, pos)
			c.noStore = saved
			for _, key := range []string{field, ""} {
				for k, d := range c.f.store[bo][key] {
					if old, ok := res[k]; !ok || d < old {
						res[k] = d
					}
				}
			}
			return res
		}
		return c.rootsAt(x, pos)
	}
	keyed := false
	for _, el := range lit.Elts {
		if kv, ok := el.(*ast.KeyValueExpr); ok {
			keyed = true
			if k, ok := kv.Key.(*ast.Ident); ok && k.Name == field {
				return c.rootsAt(kv.Value, pos)
			}
		}
	}
	if keyed {
		return map[types.Object]int{} // field left at its zero value
	}
	// positional literal: map by struct field order
	if tv, ok := c.info.Types[lit]; ok {
		if st, ok := tv.Type.Underlying().(*types.Struct); ok {
			for i := 0; i < st.NumFields() && i < len(lit.Elts); i++ {
				if st.Field(i).Name() == field {
					return c.rootsAt(lit.Elts[i], pos)
				}
			}
		}
	}
	return c.rootsAt(x, pos)
}

func (c *fnCtx) literalOf(x ast.Expr) *ast.CompositeLit {
	switch v := ast.Unparen(x).(type) {
	case *ast.CompositeLit:
		return v
	case *ast.UnaryExpr:
		if v.Op == token.AND {
			return c.literalOf(v.X)
		}
	case *ast.Ident:
		o, ok := c.info.Uses[v].(*types.Var)
		if !ok || !c.f.declares(o) || c.f.isParam(o) {
			return nil
		}
		var lit *ast.CompositeLit
		n := 0
		inspectOwn(c.f.Body, func(nd ast.Node) {
			if as, ok := nd.(*ast.AssignStmt); ok {
				for i, l := range as.Lhs {
					if lid := identOf(l); lid != nil && (c.info.Defs[lid] == o || c.info.Uses[lid] == o) {
						n++
						if i < len(as.Rhs) && len(as.Rhs) == len(as.Lhs) {
							lit = c.literalOf(as.Rhs[i])
						}
					}
				}
			}
		})
		if n == 1 {
			return lit
		}
	}
	return nil
}

// topLevelFieldAssign: the latest assignment x.f = ... before pos is an unconditional top-level statement of the
// function body (so it reaches pos on every path); then a pointer parameter's field gets the same strong update as a
// local struct value's.
func (c *fnCtx) topLevelFieldAssign(id *ast.Ident, field string, pos token.Pos) bool {
	o := c.info.Uses[id]
	body := c.f.Body
	if body == nil || o == nil {
		return false
	}
	var latest token.Pos
	top := false
	inspectOwn(body, func(n ast.Node) {
		as, ok := n.(*ast.AssignStmt)
		if !ok || as.Pos() >= pos {
			return
		}
		for _, l := range as.Lhs {
			if s2, ok := ast.Unparen(l).(*ast.SelectorExpr); ok && s2.Sel.Name == field {
				if id2 := identOf(s2.X); id2 != nil && c.info.Uses[id2] == o && as.Pos() > latest {
					latest = as.Pos()
					top = false
					for _, st := range body.List {
						if st == ast.Stmt(as) {
							top = true
						}
					}
				}
			}
		}
	})
	return top
}

func (f *Func) addStore(bo types.Object, field string, rs map[types.Object]int) bool {
	if len(rs) == 0 {
		return false
	}
	if f.store[bo] == nil {
		f.store[bo] = map[string]map[types.Object]int{}
	}
	m := f.store[bo][field]
	if m == nil {
		m = map[types.Object]int{}
		f.store[bo][field] = m
	}
	ch := false
	for r, d := range rs {
		if old, ok := m[r]; !ok || d < old {
			m[r] = d
			ch = true
		}
	}
	return ch
}

// storeBase: x (or &x) is a local variable with recorded reference stores.
func (c *fnCtx) storeBase(x ast.Expr) types.Object {
	if ue, ok := ast.Unparen(x).(*ast.UnaryExpr); ok && ue.Op == token.AND {
		x = ue.X
	}
	id := identOf(x)
	if id == nil {
		return nil
	}
	o := c.info.Uses[id]
	if o == nil {
		return nil
	}
	if _, ok := c.f.store[o]; ok {
		return o
	}
	return nil
}

// ConstSet returns the method names of the const interface strata.
func (e *Engine) ConstSet() map[string]bool { return e.constSet }

// CalleeWrites reports whether the callee of call may write through its receiver (k = -1) or its k-th argument.
// known is false when the callee cannot be resolved to analysed bodies (external function, dynamic call).
func (e *Engine) CalleeWrites(info *types.Info, call *ast.CallExpr, k int) (known, writes bool) {
	var callee *types.Func
	hasRecv := false
	switch fn := ast.Unparen(call.Fun).(type) {
	case *ast.Ident:
		callee, _ = info.Uses[fn].(*types.Func)
	case *ast.SelectorExpr:
		if s, ok := info.Selections[fn]; ok {
			callee, _ = s.Obj().(*types.Func)
			hasRecv = true
		} else {
			callee, _ = info.Uses[fn.Sel].(*types.Func)
		}
	}
	if callee == nil {
		return false, false
	}
	if callee.Pkg() != nil && !strings.HasPrefix(callee.Pkg().Path(), "github.com/pbenner/") {
		// external function: assumed not to write through its arguments, except the table of known writers
		if idxs, ok := externalWrites[callee.Pkg().Path()+"."+callee.Name()]; ok {
			for _, i := range idxs {
				if i == k {
					return true, true
				}
			}
		}
		return true, false
	}
	idx := k
	if hasRecv {
		idx = k + 1
	}
	check := func(g *Func) bool {
		if idx < 0 || idx >= len(g.Params) {
			if sig := callee.Type().(*types.Signature); sig.Variadic() && len(g.Params) > 0 {
				return len(g.Writes[g.Params[len(g.Params)-1]]) > 0
			}
			return false
		}
		if g.Params[idx] == nil {
			return false
		}
		if len(g.Writes[g.Params[idx]]) > 0 {
			return true
		}
		_, ret := g.Returns[g.Params[idx]]
		return ret // handing the reference on counts as a possible write
	}
	if g, ok := e.Funcs[callee]; ok {
		return true, check(g)
	}
	if impls := e.implementations(callee); impls != nil {
		for _, g := range impls {
			if check(g) {
				return true, true
			}
		}
		return true, false
	}
	return false, false
}

// Parent returns the function a literal is nested in (nil for declared functions).
func (f *Func) Parent() *Func { return f.parent }

// RootsOf evaluates the may-alias roots of an expression of f.
func (f *Func) RootsOf(e *Engine, x ast.Expr) map[types.Object]int {
	c := &fnCtx{e: e, f: f, info: f.Pkg.TypesInfo}
	return c.rootsAt(x, x.Pos())
}

// Declares reports whether o is declared inside f (parameters included).
func (f *Func) Declares(o types.Object) bool { return f.declares(o) }

// IsParam reports whether o is a parameter (or receiver) of f.
func (f *Func) IsParam(o types.Object) bool { return f.isParam(o) }

// storeBaseHops: reference crossings contained in the base of a store target, as far as they are already reflected in
// the distance of the base's roots. A base of value type (a struct element tmp[k], a dereferenced struct) is itself a
// location inside the storage its last crossing leads to, so that crossing still counts for the store.
func (c *fnCtx) storeBaseHops(l ast.Expr) int {
	b := baseOfStore(l)
	h := c.hops(b)
	if h > 0 {
		if tv, ok := c.info.Types[b]; ok {
			switch tv.Type.Underlying().(type) {
			case *types.Pointer, *types.Slice, *types.Map, *types.Interface, *types.Chan:
			default:
				h--
			}
		}
	}
	return h
}
