// Package core holds the loader (E1) and the obligation/evidence/known-finding
// plumbing (E7) shared by all property checks.
package core

import (
	"encoding/json"
	"fmt"
	"go/ast"
	"go/token"
	"go/types"
	"os"
	"path/filepath"
	"sort"
	"strings"
	"time"

	"golang.org/x/tools/go/packages"
)

const RootPkg = "github.com/pbenner/autodiff"

// Verdict of one obligation.
type Verdict int

const (
	Discharged Verdict = iota
	Violated
	Undecided
)

func (v Verdict) String() string {
	switch v {
	case Discharged:
		return "discharged"
	case Violated:
		return "violated"
	}
	return "undecided"
}

// Obligation is one rule instance. Key = property/rule/construct/detail.
type Obligation struct {
	Rule      string  `json:"rule"`
	Construct string  `json:"construct"`
	Detail    string  `json:"detail,omitempty"`
	Verdict   Verdict `json:"-"`
	VerdictS  string  `json:"verdict"`
	Pos       string  `json:"pos,omitempty"`
	Msg       string  `json:"msg,omitempty"`
}

func (o *Obligation) Key() string { return o.Rule + "|" + o.Construct + "|" + o.Detail }

// KnownFinding is one entry of /verif/known_findings.json.
type KnownFinding struct {
	Property   string   `json:"property"`
	Rule       string   `json:"rule"`
	Constructs []string `json:"constructs"`
	Detail     string   `json:"detail,omitempty"`
	What       string   `json:"what"`
	Witness    string   `json:"witness,omitempty"`
	Status     string   `json:"status"` // open | fixed
	Commit     string   `json:"commit,omitempty"`
}

// Ctx is the per-run context handed to a property check.
type Ctx struct {
	Property string
	Tier     string
	Seed     int64
	Repo     string
	VerifDir string
	Level    string

	Fset *token.FileSet
	Pkgs []*packages.Package
	// Root is the root package (github.com/pbenner/autodiff).
	Root *packages.Package

	Obls        []*Obligation
	Assumptions []string
	RuleText    map[string]string
	Floors      map[string]int // rule -> minimum number of obligations
	Analysed    map[string]int // free counters (functions, loops, sites...)
	Explanation string
	Trusted     []string
	Extra       map[string]interface{}
	start       time.Time
}

func NewCtx(property, tier, repo, verif string) *Ctx {
	return &Ctx{Property: property, Tier: tier, Repo: repo, VerifDir: verif, Level: "other",
		RuleText: map[string]string{}, Floors: map[string]int{}, Analysed: map[string]int{},
		Extra: map[string]interface{}{}, start: time.Now()}
}

// Load type-checks the repository. mode: packages.LoadSyntax or LoadAllSyntax.
func (c *Ctx) Load(mode packages.LoadMode) error {
	env := os.Environ()
	var env2 []string
	for _, e := range env {
		if strings.HasPrefix(e, "GOWORK=") || strings.HasPrefix(e, "GOFLAGS=") || strings.HasPrefix(e, "GOPROXY=") ||
			strings.HasPrefix(e, "GOSUMDB=") || strings.HasPrefix(e, "GOTOOLCHAIN=") {
			continue
		}
		env2 = append(env2, e)
	}
	env2 = append(env2, "GOWORK=off", "GOFLAGS=-mod=mod", "GOPROXY=off", "GOSUMDB=off", "GOTOOLCHAIN=local")
	c.Fset = token.NewFileSet()
	cfg := &packages.Config{Mode: mode, Dir: c.Repo, Env: env2, Fset: c.Fset, Tests: false}
	pkgs, err := packages.Load(cfg, "./...")
	if err != nil {
		return err
	}
	nerr := 0
	var first string
	packages.Visit(pkgs, nil, func(p *packages.Package) {
		if !strings.HasPrefix(p.PkgPath, RootPkg) {
			return
		}
		for _, e := range p.Errors {
			nerr++
			if first == "" {
				first = e.Error()
			}
		}
	})
	if nerr > 0 {
		return fmt.Errorf("%d load/type errors in repository packages, first: %s", nerr, first)
	}
	if len(pkgs) < 40 {
		return fmt.Errorf("only %d packages loaded (expected >= 40)", len(pkgs))
	}
	sort.Slice(pkgs, func(i, j int) bool { return pkgs[i].PkgPath < pkgs[j].PkgPath })
	c.Pkgs = pkgs
	for _, p := range pkgs {
		if p.PkgPath == RootPkg {
			c.Root = p
		}
	}
	if c.Root == nil {
		return fmt.Errorf("root package %s not loaded", RootPkg)
	}
	c.Analysed["packages"] = len(pkgs)
	return nil
}

// Pkg returns the loaded package with the given path suffix relative to the root module ("" = root).
func (c *Ctx) Pkg(rel string) *packages.Package {
	want := RootPkg
	if rel != "" {
		want += "/" + rel
	}
	for _, p := range c.Pkgs {
		if p.PkgPath == want {
			return p
		}
	}
	return nil
}

// LibPkgs returns the library packages (no demo programs).
func (c *Ctx) LibPkgs() []*packages.Package {
	var r []*packages.Package
	for _, p := range c.Pkgs {
		if strings.Contains(p.PkgPath, "/demo") || p.Name == "main" {
			continue
		}
		r = append(r, p)
	}
	return r
}

func (c *Ctx) PosStr(p token.Pos) string {
	if !p.IsValid() {
		return ""
	}
	ps := c.Fset.Position(p)
	f := ps.Filename
	if rel, err := filepath.Rel(c.Repo, f); err == nil {
		f = rel
	}
	return fmt.Sprintf("%s:%d", f, ps.Line)
}

func (c *Ctx) Rule(id, text string, floor int) {
	c.RuleText[id] = text
	c.Floors[id] = floor
}

func (c *Ctx) add(rule, construct, detail string, v Verdict, pos token.Pos, msg string) *Obligation {
	o := &Obligation{Rule: rule, Construct: construct, Detail: detail, Verdict: v, VerdictS: v.String(), Pos: c.PosStr(pos), Msg: msg}
	c.Obls = append(c.Obls, o)
	return o
}

func (c *Ctx) OK(rule, construct, detail string, pos token.Pos, msg string) {
	c.add(rule, construct, detail, Discharged, pos, msg)
}
func (c *Ctx) Fail(rule, construct, detail string, pos token.Pos, msg string) {
	c.add(rule, construct, detail, Violated, pos, msg)
}
func (c *Ctx) Unknown(rule, construct, detail string, pos token.Pos, msg string) {
	c.add(rule, construct, detail, Undecided, pos, "undecided: "+msg)
}

// Check records Discharged when ok, Violated otherwise.
func (c *Ctx) Check(ok bool, rule, construct, detail string, pos token.Pos, msg string) {
	if ok {
		c.OK(rule, construct, detail, pos, "")
	} else {
		c.Fail(rule, construct, detail, pos, msg)
	}
}

func (c *Ctx) Assume(s string) { c.Assumptions = append(c.Assumptions, s) }

// ---------------------------------------------------------------------------

func loadKnown(path string) ([]KnownFinding, error) {
	b, err := os.ReadFile(path)
	if err != nil {
		if os.IsNotExist(err) {
			return nil, nil
		}
		return nil, err
	}
	var k []KnownFinding
	if err := json.Unmarshal(b, &k); err != nil {
		return nil, fmt.Errorf("known_findings.json: %v", err)
	}
	return k, nil
}

func matchKnown(k *KnownFinding, prop string, o *Obligation) bool {
	if k.Property != prop || k.Rule != o.Rule || k.Status != "open" {
		return false
	}
	if k.Detail != "" && k.Detail != o.Detail {
		return false
	}
	for _, cs := range k.Constructs {
		if cs == o.Construct {
			return true
		}
	}
	return false
}

// Finish writes evidence, prints the verdict lines and returns the exit code.
func (c *Ctx) Finish(fatal error) int {
	evDir := filepath.Join(c.VerifDir, "evidence")
	os.MkdirAll(evDir, 0o755)
	violDir := filepath.Join(evDir, c.Property+".violations")
	os.RemoveAll(violDir)

	known, kerr := loadKnown(filepath.Join(c.VerifDir, "known_findings.json"))
	if kerr != nil && fatal == nil {
		fatal = kerr
	}
	// floors
	perRule := map[string][2]int{}
	for _, o := range c.Obls {
		x := perRule[o.Rule]
		x[0]++
		if o.Verdict == Discharged {
			x[1]++
		}
		perRule[o.Rule] = x
	}
	var rules []string
	for r := range c.RuleText {
		rules = append(rules, r)
	}
	sort.Strings(rules)
	for _, r := range rules {
		if perRule[r][0] < c.Floors[r] {
			c.add(r, "<floor>", "", Undecided, token.NoPos,
				fmt.Sprintf("undecided: anchor vanished: rule matched %d instances, floor is %d", perRule[r][0], c.Floors[r]))
			x := perRule[r]
			x[0]++
			perRule[r] = x
		}
	}
	sort.SliceStable(c.Obls, func(i, j int) bool { return c.Obls[i].Key() < c.Obls[j].Key() })

	exit := 0
	nviol := 0
	nknown := 0
	discharged := 0
	var knownLines []string
	usedKnown := map[int]bool{}
	var violSamples []*Obligation
	printedKnown := map[string]bool{}
	for _, o := range c.Obls {
		if o.Verdict == Discharged {
			discharged++
			continue
		}
		matched := false
		if o.Verdict == Violated {
			for i := range known {
				if matchKnown(&known[i], c.Property, o) {
					matched = true
					usedKnown[i] = true
					nknown++
					line := fmt.Sprintf("KNOWN-FINDING: property=%s %s %s: %s", c.Property, o.Rule, o.Construct, known[i].What)
					if !printedKnown[line] {
						printedKnown[line] = true
						knownLines = append(knownLines, line)
					}
					o.VerdictS = "known-finding"
					break
				}
			}
		}
		if matched {
			continue
		}
		nviol++
		os.MkdirAll(violDir, 0o755)
		rp := filepath.Join(violDir, fmt.Sprintf("%d.json", nviol))
		b, _ := json.MarshalIndent(map[string]interface{}{"property": c.Property, "obligation": o, "rule_text": c.RuleText[o.Rule]}, "", " ")
		os.WriteFile(rp, b, 0o644)
		fmt.Printf("%s %s [%s] %s %s: %s\n", strings.ToUpper(o.VerdictS), o.Pos, o.Rule, o.Construct, o.Detail, o.Msg)
		fmt.Printf("VIOLATION property=%s replay=%s\n", c.Property, rp)
		violSamples = append(violSamples, o)
		exit = 1
	}
	for _, l := range knownLines {
		fmt.Println(l)
	}
	var stale []string
	for i := range known {
		if known[i].Property == c.Property && known[i].Status == "open" && !usedKnown[i] {
			stale = append(stale, known[i].Rule+" "+strings.Join(known[i].Constructs, ",")+" "+known[i].Detail)
		}
	}
	if fatal != nil {
		os.MkdirAll(violDir, 0o755)
		rp := filepath.Join(violDir, "fatal.json")
		b, _ := json.MarshalIndent(map[string]string{"property": c.Property, "fatal": fatal.Error()}, "", " ")
		os.WriteFile(rp, b, 0o644)
		fmt.Printf("FATAL %s\nVIOLATION property=%s replay=%s\n", fatal, c.Property, rp)
		exit = 1
		nviol++
	}

	// samples: first few obligations per rule
	type sample struct {
		Rule      string `json:"rule"`
		Construct string `json:"construct"`
		Detail    string `json:"detail,omitempty"`
		Verdict   string `json:"verdict"`
		Pos       string `json:"pos,omitempty"`
		Msg       string `json:"msg,omitempty"`
	}
	var samples []sample
	cnt := map[string]int{}
	for _, o := range c.Obls {
		lim := 3
		if o.Verdict != Discharged {
			lim = 40
		}
		k := o.Rule + o.VerdictS
		if cnt[k] >= lim {
			continue
		}
		cnt[k]++
		samples = append(samples, sample{o.Rule, o.Construct, o.Detail, o.VerdictS, o.Pos, o.Msg})
	}
	ruleStats := map[string]interface{}{}
	for _, r := range rules {
		ruleStats[r] = map[string]interface{}{"text": c.RuleText[r], "obligations": perRule[r][0], "discharged": perRule[r][1], "floor": c.Floors[r]}
	}
	distinct := map[string]bool{}
	for _, o := range c.Obls {
		distinct[o.Key()] = true
	}
	cov := map[string]interface{}{
		"explanation":         c.Explanation,
		"obligations":         len(c.Obls),
		"discharged":          discharged,
		"known_findings":      nknown,
		"evaluations":         len(c.Obls),
		"distinct_nontrivial": len(distinct),
		"rule":                "one obligation per (rule, construct, detail) instance found in the type-checked source of /repo; distinct = distinct keys",
		"samples":             samples,
		"rules":               ruleStats,
		"analysed":            c.Analysed,
		"checker_cmd":         fmt.Sprintf("./check %s %s", c.Property, c.Tier),
		"trusted_base":        append([]string{"go/types, go/packages, x/tools v0.29.0"}, c.Trusted...),
		"stale_known_findings": stale,
		"exhaustive":          true,
	}
	for k, v := range c.Extra {
		cov[k] = v
	}
	if cov["explanation"] == "" {
		cov["explanation"] = "static analysis of the type-checked source; see rules"
	}
	ev := map[string]interface{}{
		"property_id": c.Property,
		"tier":        c.Tier,
		"seed":        c.Seed,
		"level":       c.Level,
		"coverage":    cov,
		"assumptions": c.Assumptions,
		"wall_s":      time.Since(c.start).Seconds(),
		"violations":  nviol,
	}
	if c.Assumptions == nil {
		ev["assumptions"] = []string{}
	}
	b, _ := json.MarshalIndent(ev, "", " ")
	if err := os.WriteFile(filepath.Join(evDir, c.Property+".json"), b, 0o644); err != nil {
		fmt.Println("cannot write evidence:", err)
		return 1
	}
	fmt.Printf("%s %s: %d obligations, %d discharged, %d known findings, %d violations/undecided, %.1fs\n",
		c.Property, c.Tier, len(c.Obls), discharged, nknown, nviol, time.Since(c.start).Seconds())
	for _, r := range rules {
		fmt.Printf("  %-10s %4d/%-4d (floor %d) %s\n", r, perRule[r][1], perRule[r][0], c.Floors[r], firstLine(c.RuleText[r]))
	}
	return exit
}

func firstLine(s string) string {
	if len(s) > 100 {
		return s[:100] + "…"
	}
	return s
}

// ---------------------------------------------------------------------------
// helpers over the typed AST

// FuncName returns a stable construct name for a function declaration:
// "(*T).M", "(T).M" or "pkg.F" (pkg relative to the module root).
func (c *Ctx) FuncName(pkg *packages.Package, fd *ast.FuncDecl) string {
	if fd.Recv != nil && len(fd.Recv.List) > 0 {
		t := fd.Recv.List[0].Type
		star := ""
		if s, ok := t.(*ast.StarExpr); ok {
			star = "*"
			t = s.X
		}
		if id, ok := t.(*ast.Ident); ok {
			return RelPkg(pkg.PkgPath) + "(" + star + id.Name + ")." + fd.Name.Name
		}
	}
	return RelPkg(pkg.PkgPath) + fd.Name.Name
}

// RelPkg returns "" for the root package and "algorithm/bfgs." etc. for subpackages.
func RelPkg(path string) string {
	if path == RootPkg {
		return ""
	}
	return strings.TrimPrefix(path, RootPkg+"/") + "."
}

// RecvTypeName returns the receiver's named type name ("" if none).
func RecvTypeName(fd *ast.FuncDecl) string {
	if fd.Recv == nil || len(fd.Recv.List) == 0 {
		return ""
	}
	t := fd.Recv.List[0].Type
	if s, ok := t.(*ast.StarExpr); ok {
		t = s.X
	}
	if id, ok := t.(*ast.Ident); ok {
		return id.Name
	}
	return ""
}

// EachFunc calls f for every function declaration with a body in pkg.
func EachFunc(pkg *packages.Package, f func(file *ast.File, fd *ast.FuncDecl)) {
	for _, file := range pkg.Syntax {
		for _, d := range file.Decls {
			if fd, ok := d.(*ast.FuncDecl); ok && fd.Body != nil {
				f(file, fd)
			}
		}
	}
}

// FindMethod returns the declaration of method name on type tname in pkg.
func FindMethod(pkg *packages.Package, tname, name string) *ast.FuncDecl {
	var r *ast.FuncDecl
	EachFunc(pkg, func(_ *ast.File, fd *ast.FuncDecl) {
		if fd.Name.Name == name && RecvTypeName(fd) == tname {
			r = fd
		}
	})
	return r
}

// FindFunc returns the top-level function name in pkg.
func FindFunc(pkg *packages.Package, name string) *ast.FuncDecl {
	var r *ast.FuncDecl
	EachFunc(pkg, func(_ *ast.File, fd *ast.FuncDecl) {
		if fd.Name.Name == name && fd.Recv == nil {
			r = fd
		}
	})
	return r
}

// Callee resolves the called function/method object of a call, or nil.
func Callee(info *types.Info, call *ast.CallExpr) *types.Func {
	var id *ast.Ident
	switch f := ast.Unparen(call.Fun).(type) {
	case *ast.Ident:
		id = f
	case *ast.SelectorExpr:
		id = f.Sel
	default:
		return nil
	}
	if fn, ok := info.Uses[id].(*types.Func); ok {
		return fn
	}
	return nil
}

// FileOf returns the base file name of a position.
func (c *Ctx) FileOf(p token.Pos) string {
	return filepath.Base(c.Fset.Position(p).Filename)
}
