package core

import (
	"go/ast"
	"go/constant"
	"go/token"
	"go/types"

	"golang.org/x/tools/go/cfg"
)

// FuncCFG is a control-flow graph of one function body with dominator sets.
type FuncCFG struct {
	G     *cfg.CFG
	Info  *types.Info
	dom   [][]bool // dom[b][d] : d dominates b
	pdom  [][]bool // pdom[b][d]: d post-dominates b (w.r.t. a virtual exit)
	reach []bool
}

// mayReturn: calls to panic and os.Exit / log.Fatal do not return.
func mayReturn(info *types.Info) func(*ast.CallExpr) bool {
	return func(call *ast.CallExpr) bool {
		if id, ok := ast.Unparen(call.Fun).(*ast.Ident); ok {
			if b, ok := info.Uses[id].(*types.Builtin); ok && b.Name() == "panic" {
				return false
			}
		}
		if fn := Callee(info, call); fn != nil && fn.Pkg() != nil {
			full := fn.Pkg().Path() + "." + fn.Name()
			switch full {
			case "os.Exit", "log.Fatal", "log.Fatalf", "log.Fatalln", "log.Panic", "log.Panicf":
				return false
			}
		}
		return true
	}
}

// NewFuncCFG builds the CFG of body.
func NewFuncCFG(body *ast.BlockStmt, info *types.Info) *FuncCFG {
	g := cfg.New(body, mayReturn(info))
	f := &FuncCFG{G: g, Info: info}
	f.computeDom()
	return f
}

func (f *FuncCFG) computeDom() {
	n := len(f.G.Blocks)
	preds := make([][]int, n)
	for _, b := range f.G.Blocks {
		for _, s := range b.Succs {
			preds[s.Index] = append(preds[s.Index], int(b.Index))
		}
	}
	// reachability from entry
	f.reach = make([]bool, n)
	var st []int
	if n > 0 {
		st = append(st, 0)
		f.reach[0] = true
	}
	for len(st) > 0 {
		b := st[len(st)-1]
		st = st[:len(st)-1]
		for _, s := range f.G.Blocks[b].Succs {
			if !f.reach[s.Index] {
				f.reach[s.Index] = true
				st = append(st, int(s.Index))
			}
		}
	}
	f.dom = make([][]bool, n)
	for i := range f.dom {
		f.dom[i] = make([]bool, n)
		for j := range f.dom[i] {
			f.dom[i][j] = true
		}
	}
	if n == 0 {
		return
	}
	for j := range f.dom[0] {
		f.dom[0][j] = j == 0
	}
	changed := true
	for changed {
		changed = false
		for b := 1; b < n; b++ {
			if !f.reach[b] {
				continue
			}
			nd := make([]bool, n)
			first := true
			for _, p := range preds[b] {
				if !f.reach[p] {
					continue
				}
				if first {
					copy(nd, f.dom[p])
					first = false
				} else {
					for j := range nd {
						nd[j] = nd[j] && f.dom[p][j]
					}
				}
			}
			if first {
				for j := range nd {
					nd[j] = false
				}
			}
			nd[b] = true
			for j := range nd {
				if nd[j] != f.dom[b][j] {
					changed = true
					f.dom[b] = nd
					break
				}
			}
		}
	}
	// post-dominators with virtual exit = any block without successors
	f.pdom = make([][]bool, n)
	for i := range f.pdom {
		f.pdom[i] = make([]bool, n)
		for j := range f.pdom[i] {
			f.pdom[i][j] = true
		}
	}
	for b := 0; b < n; b++ {
		if len(f.G.Blocks[b].Succs) == 0 {
			for j := range f.pdom[b] {
				f.pdom[b][j] = j == b
			}
		}
	}
	changed = true
	for changed {
		changed = false
		for b := n - 1; b >= 0; b-- {
			blk := f.G.Blocks[b]
			if len(blk.Succs) == 0 || !f.reach[b] {
				continue
			}
			nd := make([]bool, n)
			first := true
			for _, s := range blk.Succs {
				if first {
					copy(nd, f.pdom[s.Index])
					first = false
				} else {
					for j := range nd {
						nd[j] = nd[j] && f.pdom[s.Index][j]
					}
				}
			}
			nd[b] = true
			for j := range nd {
				if nd[j] != f.pdom[b][j] {
					changed = true
					f.pdom[b] = nd
					break
				}
			}
		}
	}
}

// Reachable reports whether block b is reachable from entry.
func (f *FuncCFG) Reachable(b *cfg.Block) bool { return f.reach[b.Index] }

// Dominates: block d dominates block b.
func (f *FuncCFG) Dominates(d, b *cfg.Block) bool { return f.dom[b.Index][d.Index] }

// PostDominates: block d post-dominates block b (every path from b to a function exit passes d).
// Blocks ending in panic count as exits.
func (f *FuncCFG) PostDominates(d, b *cfg.Block) bool { return f.pdom[b.Index][d.Index] }

// BlockOf returns the block and node index whose node list contains (an ancestor of) pos.
func (f *FuncCFG) BlockOf(pos token.Pos) (*cfg.Block, int) {
	for _, b := range f.G.Blocks {
		for i, n := range b.Nodes {
			if n.Pos() <= pos && pos < n.End() {
				return b, i
			}
		}
	}
	return nil, -1
}

// NodeDominates: program point of node at posD dominates that of posB
// (same block: earlier index; different blocks: block dominance).
func (f *FuncCFG) NodeDominates(posD, posB token.Pos) bool {
	bd, id := f.BlockOf(posD)
	bb, ib := f.BlockOf(posB)
	if bd == nil || bb == nil {
		return false
	}
	if bd == bb {
		return id <= ib
	}
	return f.Dominates(bd, bb)
}

// CondEdge finds the block whose last node is the condition expression cond
// and returns its true and false successors.
func (f *FuncCFG) CondEdge(cond ast.Expr) (t, e *cfg.Block) {
	for _, b := range f.G.Blocks {
		if len(b.Nodes) == 0 || len(b.Succs) != 2 {
			continue
		}
		last := b.Nodes[len(b.Nodes)-1]
		if last.Pos() == cond.Pos() && last.End() == cond.End() {
			return b.Succs[0], b.Succs[1]
		}
	}
	return nil, nil
}

// ReturnBlocks returns the blocks ending in a return statement, with the statement.
func (f *FuncCFG) ReturnBlocks() map[*cfg.Block]*ast.ReturnStmt {
	r := map[*cfg.Block]*ast.ReturnStmt{}
	for _, b := range f.G.Blocks {
		if !f.reach[b.Index] {
			continue
		}
		for _, n := range b.Nodes {
			if rs, ok := n.(*ast.ReturnStmt); ok {
				r[b] = rs
			}
		}
	}
	return r
}

// ---------------------------------------------------------------------------

// FieldOf resolves a selector expression to the struct field it denotes,
// returning the field and the named type that declares it (by embedding-free lookup).
func FieldOf(info *types.Info, sel *ast.SelectorExpr) *types.Var {
	if s, ok := info.Selections[sel]; ok && s.Kind() == types.FieldVal {
		if v, ok := s.Obj().(*types.Var); ok {
			return v
		}
	}
	return nil
}

// NamedOf strips pointers and returns the named type (or nil).
func NamedOf(t types.Type) *types.Named {
	for {
		switch x := t.(type) {
		case *types.Pointer:
			t = x.Elem()
			continue
		case *types.Named:
			return x
		case *types.Alias:
			t = types.Unalias(x)
			continue
		}
		return nil
	}
}

// SelRecvNamed returns the named type of the expression a field is selected from.
func SelRecvNamed(info *types.Info, sel *ast.SelectorExpr) *types.Named {
	if tv, ok := info.Types[sel.X]; ok {
		return NamedOf(tv.Type)
	}
	return nil
}

// IsFieldSel reports whether sel selects field fname of struct type named tname (declared in any package).
func IsFieldSel(info *types.Info, sel *ast.SelectorExpr, tname, fname string) bool {
	v := FieldOf(info, sel)
	if v == nil || v.Name() != fname {
		return false
	}
	n := SelRecvNamed(info, sel)
	return n != nil && n.Obj().Name() == tname
}

// AssignedExprs lists all expressions that are assigned to (LHS of =, :=, op=, ++/--, range key/value) under n.
func AssignedExprs(n ast.Node, f func(lhs ast.Expr, rhs ast.Expr, stmt ast.Stmt)) {
	ast.Inspect(n, func(x ast.Node) bool {
		switch s := x.(type) {
		case *ast.AssignStmt:
			for i, l := range s.Lhs {
				var r ast.Expr
				if len(s.Rhs) == len(s.Lhs) {
					r = s.Rhs[i]
				} else if len(s.Rhs) == 1 {
					r = s.Rhs[0]
				}
				f(l, r, s)
			}
		case *ast.IncDecStmt:
			f(s.X, nil, s)
		case *ast.RangeStmt:
			if s.Key != nil {
				f(s.Key, nil, s)
			}
			if s.Value != nil {
				f(s.Value, nil, s)
			}
		}
		return true
	})
}


// ConstInt returns the value of a constant integer expression.
func ConstInt(info *types.Info, e ast.Expr) (int64, bool) {
	tv, ok := info.Types[e]
	if !ok || tv.Value == nil {
		return 0, false
	}
	return constant.Int64Val(constant.ToInt(tv.Value))
}
