package checks

import (
	"go/ast"
	"go/token"
	"go/types"
	"sort"
	"strings"
	"unicode"

	"golang.org/x/tools/go/packages"

	"verif/internal/core"
	"verif/internal/vn"
)

func init() { Registry["C09"] = checkC09 }

func isCapitalName(n string) bool {
	hasLetter := false
	for _, r := range n {
		if unicode.IsLetter(r) {
			hasLetter = true
			if !unicode.IsUpper(r) {
				return false
			}
		} else if r != '_' && !unicode.IsDigit(r) {
			return false
		}
	}
	return hasLetter && len(n) > 1
}

func foldName(n string) string {
	return strings.ToLower(strings.ReplaceAll(n, "_", ""))
}

// reviewed CAPITAL methods without a generic twin of the same (folded) name: typed helpers of the iterator layer
var capitalNoTwin = map[string]string{
	"append":         "generic counterpart is AppendVector/AppendScalar, which dispatch to APPEND for operands of the same type",
	"at_":            "typed read without creating the entry (no interface counterpart)",
	"joint3iterator": "typed three-way iterator (generic code uses JOINT3_ITERATOR internally only)",
}

func methodsOf(pkg *packages.Package, T string) map[string]*ast.FuncDecl {
	r := map[string]*ast.FuncDecl{}
	core.EachFunc(pkg, func(_ *ast.File, fd *ast.FuncDecl) {
		if core.RecvTypeName(fd) == T {
			r[fd.Name.Name] = fd
		}
	})
	return r
}

func concreteContainerTypes(pkg *packages.Package) []string {
	var r []string
	for _, n := range pkg.Types.Scope().Names() {
		if !(strings.HasPrefix(n, "Dense") || strings.HasPrefix(n, "Sparse")) || strings.Contains(n, "Iterator") || strings.Contains(n, "Const") {
			continue
		}
		if !(strings.HasSuffix(n, "Vector") || strings.HasSuffix(n, "Matrix")) {
			continue
		}
		if _, ok := pkg.Types.Scope().Lookup(n).(*types.TypeName); ok {
			r = append(r, n)
		}
	}
	sort.Strings(r)
	return r
}

func checkC09(c *core.Ctx) error {
	if err := c.Load(packages.LoadSyntax); err != nil {
		return err
	}
	c.Explanation = "Every capital-letter method is paired with the generic method of the same case-folded name on the same type and the two are compared by semantic summaries extracted from both bodies: " +
		"scalars by the symbolic (guards => value, derivative coefficients) summaries of engine E3; dense vector/matrix methods by normalised kernels (engine E6: loop nests, element accesses and operations with the API pairing AT~At~ConstAt, ADD~Add applied, variables named by first use); " +
		"sparse arithmetic by the presence-case tables (each twin must realise op(a,b) with absent = 0 in every case, so the tables are equal)."
	c.Rule("C09.R1", "every capital-letter method has a generic twin of the same case-folded name on the same type (reviewed typed helpers excepted)", 300)
	c.Rule("C09.R2", "scalar twins: identical (guards => value) summaries and identical derivative coefficients", 120)
	c.Rule("C09.R3", "dense container twins: identical normalised kernels (guards, loop nests, element accesses, operations)", 300)
	c.Rule("C09.R4", "sparse container twins: every presence case of both twins yields op(a,b) with absent = 0 (equal presence tables); SET/EQUALS kernels identical to Set/Equals", 300)
	pkg := c.Root
	posStr := func(p token.Pos) string { return c.PosStr(p) }

	// ---- scalars
	for _, T := range mutableTypes {
		ms := methodsOf(pkg, T)
		var names []string
		for n := range ms {
			names = append(names, n)
		}
		sort.Strings(names)
		for _, n := range names {
			if !isCapitalName(n) {
				continue
			}
			cons := recvStar(pkg, T) + "." + n
			var twin *ast.FuncDecl
			for g, fd := range ms {
				if !isCapitalName(g) && foldName(g) == foldName(n) && ast.IsExported(g) {
					twin = fd
				}
			}
			if twin == nil {
				if why, ok := capitalNoTwin[foldName(n)]; ok {
					c.OK("C09.R1", cons, "reviewed: "+why, ms[n].Pos(), "")
				} else {
					c.Fail("C09.R1", cons, "has a generic twin", ms[n].Pos(), "capital-letter method without a generic method of the same name")
				}
				continue
			}
			c.OK("C09.R1", cons, "paired with "+twin.Name.Name, ms[n].Pos(), "")
			// summaries: values always; derivative coefficients when both twins call a combinator directly
			sum := func(fd *ast.FuncDecl, withD bool) (string, bool, *vn.Undecided) {
				paths, und := vn.Run(vn.Config{Pkg: pkg, TypeName: T, Spec: scalarSpec, InlineOps: inlineOps}, fd)
				if und != nil {
					return "", false, und
				}
				hasPrim := false
				str := pathSummary(paths, func(p *vn.Path) string {
					s := ""
					if p.Recv != nil && p.Recv.Written {
						s = p.Recv.Val.String()
					} else {
						s = "ret:" + retString(p.Ret)
					}
					for _, e := range p.Events {
						if e.Kind == "prim" {
							hasPrim = true
							if withD {
								s += " d["
								for _, v := range e.V[1:] {
									s += v.String() + ";"
								}
								s += "]"
							}
						}
					}
					return s
				})
				return str, hasPrim, nil
			}
			if n == "SET" {
				// state copy: compared as kernels (C01.R4 decides what each copies)
				a := normKernel(pkg, ms[n], twinOpts{})
				b := normKernel(pkg, twin, twinOpts{})
				d := twinDiff(a, b, posStr)
				c.Check(d == "", "C09.R2", cons, "same kernel as "+twin.Name.Name, ms[n].Pos(), d)
				continue
			}
			_, p1, u1 := sum(ms[n], false)
			_, p2, u2 := sum(twin, false)
			s1, _, _ := sum(ms[n], p1 && p2)
			s2, _, _ := sum(twin, p1 && p2)
			if u1 != nil || u2 != nil {
				msg := ""
				if u1 != nil {
					msg = u1.Msg
				} else {
					msg = u2.Msg
				}
				c.Unknown("C09.R2", cons, "summary", ms[n].Pos(), msg)
				continue
			}
			c.Check(s1 == s2, "C09.R2", cons, "same summary as "+twin.Name.Name, ms[n].Pos(), "capital: "+s1+"  |  generic: "+s2)
		}
	}
	// ---- combinators: the concrete chain-rule kernels are twins of the generic ones
	for _, T := range magicTypes {
		for _, pr := range [][2]string{{"realMonadic", "monadic"}, {"realMonadicLazy", "monadicLazy"}, {"realDyadic", "dyadic"}, {"realDyadicLazy", "dyadicLazy"}} {
			f1, f2 := core.FindMethod(pkg, T, pr[0]), core.FindMethod(pkg, T, pr[1])
			cons := "(*" + T + ")." + pr[0]
			if f1 == nil || f2 == nil {
				c.Unknown("C09.R2", cons, "present", token.NoPos, "combinator pair not found")
				continue
			}
			d := twinDiff(normKernel(pkg, f1, twinOpts{}), normKernel(pkg, f2, twinOpts{}), posStr)
			if d != "" {
				// the kernels are written differently: they are still interchangeable if each of them, interpreted on its own,
				// implements the second-order chain rule (the rule of C01.R1/R2), so a restructuring of one twin is not a defect
				// for every input, including a receiver that is one of the operands: both must also follow the alias-safe write schedule (C08.R1)
				bad := shadowCombinatorFailures(c, pkg, T)
				sched := shadowScheduleFailures(c, pkg, T)
				n1, n2 := "(*"+T+")."+pr[0], "(*"+T+")."+pr[1]
				if len(bad[n1]) == 0 && len(bad[n2]) == 0 && len(sched[n1]) == len(sched[n2]) {
					c.OK("C09.R2", cons, "same kernel as "+pr[1], f1.Pos(), "kernels differ textually; both satisfy the chain-rule identity (C01.R1/R2) and follow the same write schedule (C08.R1)")
					continue
				}
				if len(bad[n1]) == 0 && len(bad[n2]) == 0 {
					d = "kernels differ and only one of them keeps the alias-safe write schedule (receiver = operand gives different results): " + strings.Join(append(sched[n1], sched[n2]...), "; ")
				}
			}
			c.Check(d == "", "C09.R2", cons, "same kernel as "+pr[1], f1.Pos(), d)
		}
	}
	// ---- the typed joint iterators the concrete sparse methods run on merge index streams like the generic ones
	for _, jt := range jointIteratorTypes(pkg) {
		if strings.HasPrefix(jt.name, "Sparse") && !strings.Contains(jt.name, "Const") {
			checkMergeStep(c, pkg, "C09.R4", jt)
		}
	}
	// ---- containers
	for _, T := range concreteContainerTypes(pkg) {
		ms := methodsOf(pkg, T)
		var names []string
		for n := range ms {
			names = append(names, n)
		}
		sort.Strings(names)
		sparse := strings.HasPrefix(T, "Sparse")
		for _, n := range names {
			if !isCapitalName(n) {
				continue
			}
			cons := "(*" + T + ")." + n
			var twin *ast.FuncDecl
			for g, fd := range ms {
				if !isCapitalName(g) && foldName(g) == foldName(n) && ast.IsExported(g) {
					twin = fd
				}
			}
			if twin == nil {
				if why, ok := capitalNoTwin[foldName(n)]; ok {
					c.OK("C09.R1", cons, "reviewed: "+why, ms[n].Pos(), "")
				} else {
					c.Fail("C09.R1", cons, "has a generic twin", ms[n].Pos(), "capital-letter method without a generic method of the same name")
				}
				continue
			}
			c.OK("C09.R1", cons, "paired with "+twin.Name.Name, ms[n].Pos(), "")
			// generic delegates to capital (At -> AT, Slice -> SLICE) or vice versa: trivially equal
			if tgt, ok := kernelDelegates(pkg.TypesInfo, twin); ok && strings.EqualFold(foldName(tgt), foldName(n)) {
				c.OK(ruleFor(sparse), cons, "generic twin delegates to it", twin.Pos(), "")
				continue
			}
			if tgt, ok := kernelDelegates(pkg.TypesInfo, ms[n]); ok && strings.EqualFold(foldName(tgt), foldName(n)) {
				c.OK(ruleFor(sparse), cons, "delegates to its generic twin", ms[n].Pos(), "")
				continue
			}
			if delegatesTo(twin, n) || singleReturnCall(twin, n) {
				c.OK(ruleFor(sparse), cons, "generic twin delegates to it", twin.Pos(), "")
				continue
			}
			if op, scalarB, ok := kernelOp(n); ok && sparse {
				checkSparseKernel(c, pkg, "C09.R4", ms[n], cons, op, scalarB)
				checkSparseKernel(c, pkg, "C09.R4", twin, "(*"+T+")."+twin.Name.Name, op, scalarB)
				continue
			}
			a := normKernel(pkg, ms[n], twinOpts{})
			b := normKernel(pkg, twin, twinOpts{})
			d := twinDiff(a, b, posStr)
			if d != "" && !sparse {
				// not statement-parallel: compare the symbolic kernels (what each element of the receiver receives)
				s1, u1 := kernelSummary(pkg, elemScalarType(T), ms[n])
				s2, u2 := kernelSummary(pkg, elemScalarType(T), twin)
				if u1 == nil && u2 == nil {
					c.Check(s1 == s2, ruleFor(sparse), cons, "same symbolic kernel as "+twin.Name.Name, ms[n].Pos(), "capital: "+s1+"  |  generic: "+s2)
					continue
				}
			}
			c.Check(d == "", ruleFor(sparse), cons, "same kernel as "+twin.Name.Name, ms[n].Pos(), d)
		}
	}
	return nil
}

// elemScalarType: DenseFloat64Vector -> Float64
func elemScalarType(T string) string {
	t := strings.TrimPrefix(strings.TrimPrefix(T, "Dense"), "Sparse")
	t = strings.TrimSuffix(strings.TrimSuffix(t, "Vector"), "Matrix")
	return t
}

// kernelSummary interprets a container method in kernel mode and renders, per non-panicking path, the element facts.
func kernelSummary(pkg *packages.Package, T string, fd *ast.FuncDecl) (string, *vn.Undecided) {
	paths, und := vn.Run(vn.Config{Pkg: pkg, TypeName: T, Spec: scalarSpec, InlineOps: inlineOps, KernelMode: true}, fd)
	if und != nil {
		return "", und
	}
	return pathSummary(paths, func(p *vn.Path) string {
		var fs []string
		for _, f := range p.Facts {
			fs = append(fs, f.String())
		}
		sort.Strings(fs)
		return strings.Join(fs, " & ")
	}), nil
}

func ruleFor(sparse bool) string {
	if sparse {
		return "C09.R4"
	}
	return "C09.R3"
}

// singleReturnCall: body is `return recv.<target>(...)` (arguments may be converted).
func singleReturnCall(fd *ast.FuncDecl, target string) bool {
	if len(fd.Body.List) != 1 {
		return false
	}
	rs, ok := fd.Body.List[0].(*ast.ReturnStmt)
	if !ok || len(rs.Results) != 1 {
		return false
	}
	ce, ok := ast.Unparen(rs.Results[0]).(*ast.CallExpr)
	return ok && calleeName(ce) == target
}

// DebugKernelSummary is used by cmd/ksdump.
func DebugKernelSummary(pkg *packages.Package, T, method string) string {
	fd := core.FindMethod(pkg, T, method)
	if fd == nil {
		return "not found"
	}
	s, u := kernelSummary(pkg, elemScalarType(T), fd)
	if u != nil {
		return "undecided: " + u.Msg
	}
	return s
}

var shadowCombCache = map[string]map[string][]string{}

// shadowCombinatorFailures runs the chain-rule rule of C01 on all combinators of T in a scratch context and returns the
// violated or undecided obligations per combinator.
var shadowSchedCache = map[string]map[string][]string{}

// shadowScheduleFailures runs the write-schedule rule of C08 (derivatives of the receiver are overwritten only after
// every read that needs the old values) on the combinators of T and returns the failures per combinator.
func shadowScheduleFailures(c *core.Ctx, pkg *packages.Package, T string) map[string][]string {
	if r, ok := shadowSchedCache[T]; ok {
		return r
	}
	sh := core.NewCtx("C08", c.Tier, c.Repo, c.VerifDir)
	sh.Fset, sh.Pkgs, sh.Root = c.Fset, c.Pkgs, c.Root
	checkCombinatorSchedule(sh, pkg, T)
	r := map[string][]string{}
	for _, o := range sh.Obls {
		if o.Verdict != core.Discharged {
			r[o.Construct] = append(r[o.Construct], o.Detail+": "+o.Msg)
		}
	}
	shadowSchedCache[T] = r
	return r
}

func shadowCombinatorFailures(c *core.Ctx, pkg *packages.Package, T string) map[string][]string {
	if r, ok := shadowCombCache[T]; ok {
		return r
	}
	sh := core.NewCtx("C01", c.Tier, c.Repo, c.VerifDir)
	sh.Fset, sh.Pkgs, sh.Root = c.Fset, c.Pkgs, c.Root
	checkCombinators(sh, pkg, T)
	r := map[string][]string{}
	for _, o := range sh.Obls {
		if o.Verdict != core.Discharged {
			r[o.Construct] = append(r[o.Construct], o.Detail+": "+o.Msg)
		}
	}
	shadowCombCache[T] = r
	return r
}
