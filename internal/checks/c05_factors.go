package checks

import (
	"fmt"
	"go/ast"
	"go/token"
	"go/types"
	"os"
	"strings"

	"verif/internal/core"
	"verif/internal/sym"
	"verif/internal/vn"
)

// checkFactorAccumulation (C05.R7): A = U T V' is maintained by T <- G' T, U <- U G and T <- T G, V <- V G: an optional
// orthogonal factor (one that is only updated under a test `X != nil`) is accumulated by right-multiplication, whether the
// rotation/reflection was applied to the working matrix from the left or from the right.
//
// checkStructuredRotations (C05.R8): the rotations that exploit Hessenberg/tridiagonal/bidiagonal structure skip the part
// of the rows/columns that is zero in such a matrix; they may only be applied to the whole working matrix or to a diagonal
// block X.Slice(r0, r1, r0, r1) of it, not to an off-diagonal block, which is full.
func checkFactorAccumulation(c *core.Ctx) {
	c.Rule("C05.R7", "optional orthogonal factors (updated under `X != nil`) are accumulated by right-multiplication (ApplyRight), so that A = U T V' is maintained", 10)
	c.Rule("C05.R8", "structure-exploiting rotations (ApplyHessenberg*/ApplyTridiag*/ApplyBidiag*) are applied to the working matrix or a diagonal block of it, never to an off-diagonal block", 6)
	for _, p := range c.LibPkgs() {
		if !strings.Contains(p.PkgPath, "/algorithm/") {
			continue
		}
		info := p.TypesInfo
		pkg := p
		core.EachFunc(p, func(_ *ast.File, fd *ast.FuncDecl) {
			// local definitions X := Y.Slice(...)
			sliceOf := map[types.Object]*ast.CallExpr{}
			ast.Inspect(fd.Body, func(n ast.Node) bool {
				as, ok := n.(*ast.AssignStmt)
				if !ok || len(as.Lhs) != 1 || len(as.Rhs) != 1 {
					return true
				}
				id, ok := as.Lhs[0].(*ast.Ident)
				if !ok {
					return true
				}
				if ce, ok := ast.Unparen(as.Rhs[0]).(*ast.CallExpr); ok {
					if sel, ok := ce.Fun.(*ast.SelectorExpr); ok && (sel.Sel.Name == "Slice" || sel.Sel.Name == "ConstSlice") && len(ce.Args) == 4 {
						o := info.Defs[id]
						if o == nil {
							o = info.Uses[id]
						}
						if o != nil {
							sliceOf[o] = ce
						}
					}
				}
				return true
			})
			baseOf := func(e ast.Expr) (types.Object, *ast.CallExpr) {
				e = ast.Unparen(e)
				if ce, ok := e.(*ast.CallExpr); ok {
					if sel, ok := ce.Fun.(*ast.SelectorExpr); ok && (sel.Sel.Name == "Slice" || sel.Sel.Name == "ConstSlice") {
						if id, ok := ast.Unparen(sel.X).(*ast.Ident); ok {
							return info.Uses[id], ce
						}
					}
					return nil, nil
				}
				if id, ok := e.(*ast.Ident); ok {
					o := info.Uses[id]
					if sl, ok := sliceOf[o]; ok {
						if sel, ok := sl.Fun.(*ast.SelectorExpr); ok {
							if b, ok := ast.Unparen(sel.X).(*ast.Ident); ok {
								return info.Uses[b], sl
							}
						}
					}
					return o, nil
				}
				return nil, nil
			}
			var stack []ast.Node
			ast.Inspect(fd.Body, func(n ast.Node) bool {
				if n == nil {
					stack = stack[:len(stack)-1]
					return true
				}
				stack = append(stack, n)
				ce, ok := n.(*ast.CallExpr)
				if !ok || len(ce.Args) < 3 {
					return true
				}
				fn := core.Callee(info, ce)
				if fn == nil || fn.Pkg() == nil || !(strings.HasSuffix(fn.Pkg().Path(), "/givensRotation") || strings.HasSuffix(fn.Pkg().Path(), "/householder")) {
					return true
				}
				name := fn.Name()
				if !strings.HasPrefix(name, "Apply") {
					return true
				}
				cons := c.FuncName(pkg, fd)
				argText := types.ExprString(ce.Args[0])
				if name == "ApplyLeft" || name == "ApplyRight" {
					// optional factor: the call is inside `if B != nil` for the argument or its slice base
					argObj, _ := baseOf(ce.Args[0])
					var direct types.Object
					if id, ok := ast.Unparen(ce.Args[0]).(*ast.Ident); ok {
						direct = info.Uses[id]
					}
					optional := false
					for _, anc := range stack {
						is, ok := anc.(*ast.IfStmt)
						if !ok || !(is.Body.Pos() <= ce.Pos() && ce.End() <= is.Body.End()) {
							continue
						}
						be, ok := ast.Unparen(is.Cond).(*ast.BinaryExpr)
						if !ok || be.Op != token.NEQ || types.ExprString(be.Y) != "nil" {
							continue
						}
						if id, ok := ast.Unparen(be.X).(*ast.Ident); ok {
							o := info.Uses[id]
							if o != nil && (o == argObj || o == direct) {
								optional = true
							}
						}
					}
					if !optional {
						return true
					}
					c.Check(name == "ApplyRight", "C05.R7", cons, "factor "+argText+" accumulated by right-multiplication", ce.Pos(),
						"the optional orthogonal factor "+argText+" is updated by "+name+": with T <- G' T (or T <- T G) the factorisation A = U T V' is kept only by U <- U G (V <- V G); multiplying from the left returns a factor that does not reproduce A (it is right only when the factor accumulated so far is symmetric, e.g. the identity)")
					return true
				}
				// structured variants
				if strings.HasPrefix(name, "ApplyHessenberg") || strings.HasPrefix(name, "ApplyTridiag") || strings.HasPrefix(name, "ApplyBidiag") {
					_, sl := baseOf(ce.Args[0])
					ok := true
					if sl != nil {
						ok = types.ExprString(sl.Args[0]) == types.ExprString(sl.Args[2]) && types.ExprString(sl.Args[1]) == types.ExprString(sl.Args[3])
					}
					c.Check(ok, "C05.R8", cons, name+" on "+argText, ce.Pos(),
						name+" skips the rows/columns that are zero in a structured matrix, but "+argText+" is an off-diagonal block ("+func() string {
							if sl != nil {
								return types.ExprString(sl)
							}
							return ""
						}()+"), which is full: part of the block is not rotated and U H U' no longer equals the input")
				}
				return true
			})
		})
	}
}

// checkEigenvectorStale (C05.R9): getEigenvector writes components 0..k of the eigenvector of the triangular factor; the
// result must not depend on what the caller's buffers held before (reused InSitu).
func checkEigenvectorStale(c *core.Ctx) {
	c.Rule("C05.R9", "eigensystem.getEigenvector: the returned vector does not depend on the previous contents of the eigenvector and scratch buffers (generic upper triangular 3x3 factor, every k)", 3)
	p := c.Pkg("algorithm/eigensystem")
	cons := "algorithm/eigensystem.getEigenvector"
	if p == nil {
		c.Unknown("C05.R9", cons, "package loaded", token.NoPos, "not loaded")
		return
	}
	fd := findFuncDecl(p, "getEigenvector")
	if fd == nil {
		c.Unknown("C05.R9", cons, "function found", token.NoPos, "not found")
		return
	}
	d := newDeclIndex(c)
	n := 3
	for k := 0; k < n; k++ {
		detail := fmt.Sprintf("k = %d", k)
		var ev, b []*sym.Term
		for i := 0; i < n; i++ {
			ev = append(ev, symf("stale_ev_%d", i))
			b = append(b, symf("stale_b_%d", i))
		}
		h := vn.NewLocalMat(n, n, func(i, j int) *sym.Term {
			if j >= i {
				return symf("h_%d_%d", i, j)
			}
			return sym.Zero()
		})
		u := vn.NewLocalMat(n, n, func(i, j int) *sym.Term { return symf("u_%d_%d", i, j) })
		lam := &vn.Loc{Name: "lambda", Val: symf("h_%d_%d", k, k), Consistent: true}
		params := []vn.Value{vn.NewLocalVec(ev...), lam, h, u, vn.NewLocalVec(b...), sym.Int(int64(k))}
		cfg := vn.Config{Pkg: p, TypeName: "Real64", Spec: distSpec, InlineOps: inlineOps, Decl: d.find, MaxDepth: 10, UnrollConst: true, FiniteSyms: true,
			Borrow: c04Borrow(c.Root), ParamList: params, ParamFresh: true}
		paths, und := vn.Run(cfg, fd)
		if und != nil {
			c.Unknown("C05.R9", cons, detail, und.Pos, "getEigenvector left the interpreter's idiom set: "+und.Msg)
			continue
		}
		bad := ""
		nret := 0
		for _, pa := range paths {
			if pa.Panic {
				if os.Getenv("C05_DEBUG") != "" {
					for _, ev := range pa.Events {
						fmt.Println("DEBUG panic path:", pa.CondString(), ev.Kind, ev.Msg, c.PosStr(ev.Pos))
					}
				}
				continue
			}
			rv, _ := pa.Ret.(*vn.LocalVec)
			if rv == nil {
				rv, _ = pa.Params[0].(*vn.LocalVec)
			}
			if rv == nil {
				bad = "no vector returned"
				break
			}
			nret++
			for i := 0; i < n; i++ {
				cell := rv.Cells[sym.Int(int64(i)).String()]
				if cell == nil || !staleFree(cell.Val) {
					bad = fmt.Sprintf("component %d of the result depends on what the eigenvector or scratch buffer held before the call", i)
					break
				}
			}
			if bad != "" {
				break
			}
		}
		if nret == 0 && bad == "" {
			bad = "no path returns"
		}
		c.Check(bad == "", "C05.R9", cons, detail, fd.Pos(), bad+": with a reused InSitu the eigenvectors of the second call are wrong")
	}
}
