package checks

import (
	"fmt"
	"go/ast"
	"go/token"
	"go/types"
	"strings"

	"verif/internal/core"
)

// checkRotationDivisors (C20.R9): the rotation generator divides by its inputs. A zero divisor yields NaN cosines/sines, and
// every deflation test of the QR/SVD iterations is false for NaN, so the iteration never ends. Every division whose divisor
// is a parameter must be dominated by guards that entail the divisor is non-zero:
//
//	q != 0                       (else-branch of q == 0, or then-branch of q != 0)
//	|q| > |r|                    (then-branch; |r| >= 0)
//	not (|r| > |q|) and r != 0   (else-branch: |q| >= |r| > 0)
func checkRotationDivisors(c *core.Ctx) {
	c.Rule("C20.R9", "rotation generator: every division by an input is guarded so that the divisor is non-zero (a NaN rotation defeats every deflation test and the QR/SVD iterations never end)", 2)
	p := c.Pkg("algorithm/givensRotation")
	if p == nil {
		c.Unknown("C20.R9", "algorithm/givensRotation", "package loaded", token.NoPos, "not loaded")
		return
	}
	fd := findFuncDecl(p, "Run")
	if fd == nil {
		c.Unknown("C20.R9", "algorithm/givensRotation.Run", "function found", token.NoPos, "not found")
		return
	}
	info := p.TypesInfo
	params := map[types.Object]bool{}
	for _, f := range fd.Type.Params.List {
		for _, n := range f.Names {
			params[info.Defs[n]] = true
		}
	}
	// parameters that are written are results, not inputs
	written := map[types.Object]bool{}
	ast.Inspect(fd.Body, func(n ast.Node) bool {
		if ce, ok := n.(*ast.CallExpr); ok {
			if sel, ok := ce.Fun.(*ast.SelectorExpr); ok {
				if id, ok := ast.Unparen(sel.X).(*ast.Ident); ok && params[info.Uses[id]] {
					switch sel.Sel.Name {
					case "GetFloat64", "GetFloat32", "GetInt":
					default:
						written[info.Uses[id]] = true
					}
				}
			}
		}
		return true
	})
	objOf := func(e ast.Expr) types.Object {
		if id, ok := ast.Unparen(e).(*ast.Ident); ok {
			return info.Uses[id]
		}
		return nil
	}
	// value(e): e is X.GetFloat64() of parameter X -> X
	value := func(e ast.Expr) types.Object {
		if ce, ok := ast.Unparen(e).(*ast.CallExpr); ok && len(ce.Args) == 0 {
			if sel, ok := ce.Fun.(*ast.SelectorExpr); ok && sel.Sel.Name == "GetFloat64" {
				return objOf(sel.X)
			}
		}
		return nil
	}
	absOf := func(e ast.Expr) types.Object {
		if ce, ok := ast.Unparen(e).(*ast.CallExpr); ok && len(ce.Args) == 1 {
			if fn := core.Callee(info, ce); fn != nil && fn.Pkg() != nil && fn.Pkg().Path() == "math" && fn.Name() == "Abs" {
				return value(ce.Args[0])
			}
		}
		return nil
	}
	isZero := func(e ast.Expr) bool {
		tv, ok := info.Types[e]
		return ok && tv.Value != nil && tv.Value.String() == "0"
	}
	type fact struct {
		cond ast.Expr
		pos  bool
	}
	var nonZero func(q types.Object, facts []fact, depth int) bool
	nonZero = func(q types.Object, facts []fact, depth int) bool {
		if depth > 3 {
			return false
		}
		for _, f := range facts {
			be, ok := ast.Unparen(f.cond).(*ast.BinaryExpr)
			if !ok {
				continue
			}
			switch be.Op {
			case token.EQL, token.NEQ:
				var o types.Object
				if isZero(be.Y) {
					o = value(be.X)
				} else if isZero(be.X) {
					o = value(be.Y)
				}
				if o == q && ((be.Op == token.EQL && !f.pos) || (be.Op == token.NEQ && f.pos)) {
					return true
				}
			case token.GTR, token.LSS, token.GEQ, token.LEQ:
				big, small := absOf(be.X), absOf(be.Y)
				strict := be.Op == token.GTR || be.Op == token.LSS
				if be.Op == token.LSS || be.Op == token.LEQ {
					big, small = small, big
				}
				if big == nil || small == nil {
					continue
				}
				// the condition reads |big| > |small| (strict) or |big| >= |small|
				if f.pos {
					if big == q && (strict || nonZero(small, facts, depth+1)) {
						return true
					}
				} else {
					// not(|big| > |small|): |small| >= |big|;  not(|big| >= |small|): |small| > |big|
					if small == q && (!strict || nonZero(big, facts, depth+1)) {
						return true
					}
				}
			}
		}
		return false
	}
	n := 0
	var walk func(list []ast.Stmt, facts []fact)
	walk = func(list []ast.Stmt, facts []fact) {
		for _, st := range list {
			switch v := st.(type) {
			case *ast.IfStmt:
				walk(v.Body.List, append(append([]fact{}, facts...), fact{v.Cond, true}))
				switch e := v.Else.(type) {
				case *ast.BlockStmt:
					walk(e.List, append(append([]fact{}, facts...), fact{v.Cond, false}))
				case *ast.IfStmt:
					walk([]ast.Stmt{e}, append(append([]fact{}, facts...), fact{v.Cond, false}))
				}
			case *ast.BlockStmt:
				walk(v.List, facts)
			default:
				ast.Inspect(st, func(m ast.Node) bool {
					ce, ok := m.(*ast.CallExpr)
					if !ok || len(ce.Args) != 2 {
						return true
					}
					sel, ok := ce.Fun.(*ast.SelectorExpr)
					if !ok || sel.Sel.Name != "Div" {
						return true
					}
					q := objOf(ce.Args[1])
					if q == nil || !params[q] || written[q] {
						return true
					}
					n++
					c.Check(nonZero(q, facts, 0), "C20.R9", "algorithm/givensRotation.Run", "division by input "+q.Name()+" is guarded non-zero", ce.Pos(),
						"the guards on the way to this division do not entail that "+q.Name()+" is non-zero: a zero "+q.Name()+" gives a NaN rotation, every deflation test of the QR and SVD iterations is false for NaN, and the iteration does not terminate")
					return true
				})
			}
		}
	}
	walk(fd.Body.List, nil)
	if n == 0 {
		c.Unknown("C20.R9", "algorithm/givensRotation.Run", "divisions by inputs found", fd.Pos(), "the rotation generator no longer divides by its inputs: the rule has nothing to check")
	}
}

// checkRequestedResults (C20.R10): the reductions and iterations return their orthogonal factor only when the caller asks for
// it (option ComputeU{true}); otherwise the second result is nil. A caller that uses that result (calls a method on it or
// passes it on) must have requested it, or forward its own option list: otherwise the first use dereferences nil.
func checkRequestedResults(c *core.Ctx) {
	c.Rule("C20.R10", "a caller that uses the optional factor returned by a Run routine (second result) passes ComputeU{...} or forwards its options", 3)
	for _, p := range c.LibPkgs() {
		info := p.TypesInfo
		pkg := p
		core.EachFunc(p, func(_ *ast.File, fd *ast.FuncDecl) {
			ast.Inspect(fd.Body, func(n ast.Node) bool {
				as, ok := n.(*ast.AssignStmt)
				if !ok || len(as.Rhs) != 1 || len(as.Lhs) < 3 {
					return true
				}
				ce, ok := ast.Unparen(as.Rhs[0]).(*ast.CallExpr)
				if !ok {
					return true
				}
				fn := core.Callee(info, ce)
				if fn == nil || fn.Name() != "Run" || fn.Pkg() == nil || fn.Pkg() == pkg.Types {
					return true
				}
				if fn.Pkg().Scope().Lookup("ComputeU") == nil {
					return true
				}
				uid, ok := as.Lhs[1].(*ast.Ident)
				if !ok || uid.Name == "_" {
					return true
				}
				uobj := info.Defs[uid]
				if uobj == nil {
					uobj = info.Uses[uid]
				}
				// is the factor used other than in a nil test?
				used := false
				ast.Inspect(fd.Body, func(m ast.Node) bool {
					if be, ok := m.(*ast.BinaryExpr); ok && (be.Op == token.EQL || be.Op == token.NEQ) {
						if types.ExprString(be.Y) == "nil" || types.ExprString(be.X) == "nil" {
							return false
						}
					}
					if id, ok := m.(*ast.Ident); ok && id != uid && info.Uses[id] == uobj {
						used = true
					}
					return true
				})
				if !used {
					return true
				}
				requested := ce.Ellipsis.IsValid()
				for _, a := range ce.Args {
					if tv, ok := info.Types[a]; ok {
						if nt, ok := tv.Type.(*types.Named); ok && nt.Obj().Name() == "ComputeU" {
							requested = true
						}
					}
				}
				c.Check(requested, "C20.R10", c.FuncName(pkg, fd), "factor "+uid.Name+" of "+fn.Pkg().Name()+".Run is requested", ce.Pos(),
					"the second result of "+fn.Pkg().Name()+".Run is used but the call passes no ComputeU option: the routine returns nil for it and the first use panics")
				return true
			})
		})
	}
}

// checkErrorBranches (C20.R11): a branch that is taken because an error value is non-nil (`if err != nil`, `if err := f();
// err != nil`) and leaves the function returns an error: its last result is not the literal nil. A swallowed error hands
// the caller a zero value with a nil error, and the failure surfaces later as a nil dereference far from its cause
// (NewHmmProbabilityVector: a config with "Pi": null crashed the importers).
func checkErrorBranches(c *core.Ctx) {
	c.Rule("C20.R11", "a branch taken on a non-nil error that returns from a function with an error result does not return a nil error", 400)
	for _, p := range c.LibPkgs() {
		info := p.TypesInfo
		pkg := p
		core.EachFunc(p, func(_ *ast.File, fd *ast.FuncDecl) {
			if fd.Type.Results == nil || len(fd.Type.Results.List) == 0 {
				return
			}
			last := fd.Type.Results.List[len(fd.Type.Results.List)-1]
			if types.ExprString(last.Type) != "error" {
				return
			}
			k := 0
			ast.Inspect(fd.Body, func(n ast.Node) bool {
				if _, isLit := n.(*ast.FuncLit); isLit {
					return false
				}
				is, ok := n.(*ast.IfStmt)
				if !ok {
					return true
				}
				be, ok := ast.Unparen(is.Cond).(*ast.BinaryExpr)
				if !ok || be.Op != token.NEQ || types.ExprString(be.Y) != "nil" {
					return true
				}
				tv, ok := info.Types[be.X]
				if !ok || types.TypeString(tv.Type, nil) != "error" {
					return true
				}
				// the branch's own return (last statement)
				if len(is.Body.List) == 0 {
					return true
				}
				rs, ok := is.Body.List[len(is.Body.List)-1].(*ast.ReturnStmt)
				if !ok || len(rs.Results) == 0 {
					return true
				}
				k++
				res := rs.Results[len(rs.Results)-1]
				bad := types.ExprString(res) == "nil"
				c.Check(!bad, "C20.R11", c.FuncName(pkg, fd), fmt.Sprintf("error branch #%d returns an error", k), rs.Pos(),
					"the branch is taken because "+types.ExprString(be.X)+" is non-nil, but it returns a nil error: the caller continues with a zero value and fails later, far from the cause")
				return true
			})
		})
	}
}

// checkInterfaceComparisons (C20.R12): `a == b` on two values of an interface type panics at run time when their dynamic
// type is not comparable (a struct with a slice or map field). For every == / != between two operands of the same
// library-declared interface type the rule lists the library types that implement the interface by value and requires all
// of them to be comparable (generic.Hmm.SetParameters compared two transition matrices; the constrained and hierarchical
// ones hold slices).
func checkInterfaceComparisons(c *core.Ctx) {
	c.Rule("C20.R12", "== / != between two interface values is used only where every type of the interface's own package that implements it by value is comparable", 5)
	// all named non-interface types of the library
	var named []*types.Named
	for _, p := range c.LibPkgs() {
		sc := p.Types.Scope()
		for _, nm := range sc.Names() {
			if tn, ok := sc.Lookup(nm).(*types.TypeName); ok {
				if nt, ok := tn.Type().(*types.Named); ok {
					if _, isIface := nt.Underlying().(*types.Interface); !isIface {
						named = append(named, nt)
					}
				}
			}
		}
	}
	for _, p := range c.LibPkgs() {
		info := p.TypesInfo
		pkg := p
		core.EachFunc(p, func(_ *ast.File, fd *ast.FuncDecl) {
			k := 0
			ast.Inspect(fd.Body, func(n ast.Node) bool {
				be, ok := n.(*ast.BinaryExpr)
				if !ok || (be.Op != token.EQL && be.Op != token.NEQ) {
					return true
				}
				tx, ok1 := info.Types[be.X]
				ty, ok2 := info.Types[be.Y]
				if !ok1 || !ok2 || tx.IsNil() || ty.IsNil() {
					return true
				}
				ix, okx := tx.Type.Underlying().(*types.Interface)
				_, oky := ty.Type.Underlying().(*types.Interface)
				if !okx || !oky || ix.NumMethods() == 0 {
					return true
				}
				if nt, ok := tx.Type.(*types.Named); !ok || nt.Obj().Pkg() == nil || !strings.HasPrefix(nt.Obj().Pkg().Path(), core.RootPkg) {
					return true
				}
				k++
				bad := ""
				ipkg := tx.Type.(*types.Named).Obj().Pkg()
				for _, nt := range named {
					// intended inhabitants: implementors declared next to the interface (a type that merely embeds a value of a
					// foreign interface type is not what the comparing code expects to meet)
					if nt.Obj().Pkg() != ipkg {
						continue
					}
					if types.Implements(nt, ix) && !types.Comparable(nt) {
						bad = nt.Obj().Pkg().Name() + "." + nt.Obj().Name()
						break
					}
				}
				c.Check(bad == "", "C20.R12", c.FuncName(pkg, fd), fmt.Sprintf("interface comparison #%d %s", k, types.ExprString(be)), be.Pos(),
					"the operands have interface type "+types.TypeString(tx.Type, nil)+", which "+bad+" implements by value although it is not comparable (it holds a slice or map): the comparison panics at run time when an operand has that dynamic type")
				return true
			})
		})
	}
}

// checkOptionalScratch (C20.R13): per-thread scratch structures of the EM drivers allocate some of their fields only when an
// option asks for them (the transition accumulators tr and xi only when transitions are optimised). Such a field is nil
// otherwise, so every use of it (or of a local copy of it) has to sit under a nil test of a field allocated together with
// it. (Baum-Welch with OptimizeTransitions = false reset `tr` unconditionally and dereferenced nil.)
func checkOptionalScratch(c *core.Ctx) {
	c.Rule("C20.R13", "scratch fields that are allocated only under an option are used only under a nil test of a field allocated with them", 4)
	p := c.Pkg("statistics/generic")
	if p == nil {
		c.Unknown("C20.R13", "statistics/generic", "package loaded", token.NoPos, "not loaded")
		return
	}
	info := p.TypesInfo
	// 1. optional fields: assigned a non-nil value only inside if-bodies; grouped by that if statement
	type fieldKey struct{ f *types.Var }
	group := map[*types.Var]*ast.IfStmt{}
	uncond := map[*types.Var]bool{}
	core.EachFunc(p, func(_ *ast.File, fd *ast.FuncDecl) {
		var stack []ast.Node
		ast.Inspect(fd.Body, func(n ast.Node) bool {
			if n == nil {
				stack = stack[:len(stack)-1]
				return true
			}
			stack = append(stack, n)
			as, ok := n.(*ast.AssignStmt)
			if !ok {
				return true
			}
			for i, l := range as.Lhs {
				sel, ok := ast.Unparen(l).(*ast.SelectorExpr)
				if !ok || i >= len(as.Rhs) {
					continue
				}
				fv, ok := info.Uses[sel.Sel].(*types.Var)
				if !ok || !fv.IsField() || fv.Exported() {
					continue
				}
				switch fv.Type().Underlying().(type) {
				case *types.Pointer, *types.Interface:
				default:
					continue
				}
				if types.ExprString(as.Rhs[i]) == "nil" {
					continue
				}
				var enclosing *ast.IfStmt
				for k := len(stack) - 1; k >= 0; k-- {
					if is, ok := stack[k].(*ast.IfStmt); ok && is.Body.Pos() <= as.Pos() && as.End() <= is.Body.End() {
						enclosing = is
						break
					}
				}
				if enclosing == nil {
					uncond[fv] = true
				} else if _, has := group[fv]; !has {
					group[fv] = enclosing
				}
			}
			return true
		})
	})
	optional := map[*types.Var]*ast.IfStmt{}
	for f, g := range group {
		if !uncond[f] {
			optional[f] = g
		}
	}
	if len(optional) == 0 {
		c.Unknown("C20.R13", "statistics/generic", "optional scratch fields found", token.NoPos, "no field is allocated only under a condition")
		return
	}
	// 2. uses
	core.EachFunc(p, func(_ *ast.File, fd *ast.FuncDecl) {
		alias := map[types.Object]*types.Var{}
		ast.Inspect(fd.Body, func(n ast.Node) bool {
			as, ok := n.(*ast.AssignStmt)
			if !ok || len(as.Lhs) != len(as.Rhs) {
				return true
			}
			for i, r := range as.Rhs {
				if sel, ok := ast.Unparen(r).(*ast.SelectorExpr); ok {
					if fv, ok := info.Uses[sel.Sel].(*types.Var); ok && optional[fv] != nil {
						if id, ok := as.Lhs[i].(*ast.Ident); ok {
							o := info.Defs[id]
							if o == nil {
								o = info.Uses[id]
							}
							if o != nil {
								alias[o] = fv
							}
						}
					}
				}
			}
			return true
		})
		fieldOf := func(e ast.Expr) *types.Var {
			e = ast.Unparen(e)
			if id, ok := e.(*ast.Ident); ok {
				return alias[info.Uses[id]]
			}
			if sel, ok := e.(*ast.SelectorExpr); ok {
				if fv, ok := info.Uses[sel.Sel].(*types.Var); ok && optional[fv] != nil {
					return fv
				}
			}
			return nil
		}
		var stack []ast.Node
		k := 0
		ast.Inspect(fd.Body, func(n ast.Node) bool {
			if n == nil {
				stack = stack[:len(stack)-1]
				return true
			}
			stack = append(stack, n)
			ce, ok := n.(*ast.CallExpr)
			if !ok {
				return true
			}
			sel, ok := ce.Fun.(*ast.SelectorExpr)
			if !ok {
				return true
			}
			fv := fieldOf(sel.X)
			if fv == nil {
				return true
			}
			// the allocation site itself
			if is := optional[fv]; is.Body.Pos() <= ce.Pos() && ce.End() <= is.Body.End() {
				return true
			}
			k++
			guarded := false
			for _, anc := range stack {
				is, ok := anc.(*ast.IfStmt)
				if !ok || !(is.Body.Pos() <= ce.Pos() && ce.End() <= is.Body.End()) {
					continue
				}
				ast.Inspect(is.Cond, func(m ast.Node) bool {
					be, ok := m.(*ast.BinaryExpr)
					if !ok || be.Op != token.NEQ || types.ExprString(be.Y) != "nil" {
						return true
					}
					if g := fieldOf(be.X); g != nil && optional[g] == optional[fv] {
						guarded = true
					}
					return true
				})
			}
			c.Check(guarded, "C20.R13", c.FuncName(p, fd), fmt.Sprintf("use #%d of optional field %s is under a nil test", k, fv.Name()), ce.Pos(),
				"the field "+fv.Name()+" is allocated only when an option requests it, but "+types.ExprString(ce.Fun)+" is called without a nil test of it (or of a field allocated with it): with the option switched off this dereferences nil")
			return true
		})
	})
}

// C20.R14 — restart protocol of the quasi-Newton loop. The loop gives up ("line search failed") when a step fails while
// a flag says that the inverse Hessian is still the initial one. Every statement that re-initialises the loop's matrix
// from the initial matrix (a parameter of the routine) therefore has to set that flag in the same block; otherwise two
// failures in a row restart for ever instead of ending the run (the default iteration limit is astronomically large).
func checkRestartProtocol(c *core.Ctx) {
	c.Rule("C20.R14", "optimizer loops: a block that re-initialises the iteration matrix from the initial matrix also sets the flag that guards the give-up exit", 2)
	for _, p := range c.LibPkgs() {
		if !strings.Contains(p.PkgPath, "/algorithm/") {
			continue
		}
		info := p.TypesInfo
		pkg := p
		core.EachFunc(p, func(_ *ast.File, fd *ast.FuncDecl) {
			if fd.Body == nil {
				return
			}
			params := map[types.Object]bool{}
			for _, f := range fd.Type.Params.List {
				for _, n := range f.Names {
					params[info.Defs[n]] = true
				}
			}
			// give-up flags: local booleans tested (positively) by an if inside a loop whose body returns a non-nil error
			flags := map[types.Object]bool{}
			var loops []*ast.ForStmt
			ast.Inspect(fd.Body, func(n ast.Node) bool {
				if l, ok := n.(*ast.ForStmt); ok {
					loops = append(loops, l)
				}
				return true
			})
			for _, l := range loops {
				ast.Inspect(l.Body, func(n ast.Node) bool {
					is, ok := n.(*ast.IfStmt)
					if !ok {
						return true
					}
					id, ok := ast.Unparen(is.Cond).(*ast.Ident)
					if !ok {
						return true
					}
					v, ok := info.Uses[id].(*types.Var)
					if !ok || params[v] {
						return true
					}
					if b, ok := v.Type().Underlying().(*types.Basic); !ok || b.Kind() != types.Bool {
						return true
					}
					if len(is.Body.List) > 0 {
						if r, ok := is.Body.List[len(is.Body.List)-1].(*ast.ReturnStmt); ok && len(r.Results) > 0 {
							if lastId, isId := ast.Unparen(r.Results[len(r.Results)-1]).(*ast.Ident); !isId || lastId.Name != "nil" {
								flags[v] = true
							}
						}
					}
					return true
				})
			}
			if len(flags) == 0 {
				return
			}
			cons := c.FuncName(pkg, fd)
			for _, l := range loops {
				ast.Inspect(l.Body, func(n ast.Node) bool {
					blk, ok := n.(*ast.BlockStmt)
					if !ok {
						return true
					}
					for _, st := range blk.List {
						es, ok := st.(*ast.ExprStmt)
						if !ok {
							continue
						}
						ce, ok := es.X.(*ast.CallExpr)
						if !ok || len(ce.Args) != 1 {
							continue
						}
						sel, ok := ast.Unparen(ce.Fun).(*ast.SelectorExpr)
						if !ok || sel.Sel.Name != "Set" {
							continue
						}
						arg, ok := ast.Unparen(ce.Args[0]).(*ast.Ident)
						if !ok || !params[info.Uses[arg]] {
							continue
						}
						if tv, ok := info.Types[ce.Args[0]]; !ok || !strings.Contains(tv.Type.String(), "Matrix") {
							continue
						}
						// the same block sets a give-up flag to true
						set := false
						for _, s2 := range blk.List {
							if as, ok := s2.(*ast.AssignStmt); ok && len(as.Lhs) == 1 && len(as.Rhs) == 1 {
								if li, ok := ast.Unparen(as.Lhs[0]).(*ast.Ident); ok && flags[info.Uses[li]] {
									if ri, ok := ast.Unparen(as.Rhs[0]).(*ast.Ident); ok && ri.Name == "true" {
										set = true
									}
								}
							}
						}
						c.Check(set, "C20.R14", cons, "restart "+types.ExprString(ce), ce.Pos(),
							"the iteration matrix is re-initialised from "+arg.Name+" without setting the flag that guards the give-up exit: repeated failures restart for ever")
					}
					return true
				})
			}
		})
	}
}

// C20.R15 — in-place transposition. Tip() follows the cycles of k -> rows*k mod (mn-1) over the raw storage; the walk
// returns to its start only if that map is a bijection, i.e. if the receiver owns its whole storage (mn = rows*cols)
// in untransposed row-major order. On a sub-matrix view the walk can fall into the fixed point 0 and never return
// (3x3 storage, 2x3 view: 1 -> 2 -> 4 -> 0 -> 0 ...). Every Tip() therefore rejects views before the walk (a panic
// guard that reads both offsets and both storage extents), and the dense ones, which carry a transposed flag, handle
// that flag before the walk as well.
func checkTipGuard(c *core.Ctx) {
	c.Rule("C20.R15", "Tip(): the cycle walk over the raw storage is preceded by a guard that panics for sub-matrix views (offsets and storage extents) and, for dense matrices, by the handling of the transposed flag", 18)
	pkg := c.Root
	info := pkg.TypesInfo
	core.EachFunc(pkg, func(_ *ast.File, fd *ast.FuncDecl) {
		if fd.Name.Name != "Tip" || fd.Recv == nil || fd.Body == nil {
			return
		}
		cons := c.FuncName(pkg, fd)
		// the walk: a for statement without condition inside a counted loop
		var walk *ast.ForStmt
		ast.Inspect(fd.Body, func(n ast.Node) bool {
			if fs, ok := n.(*ast.ForStmt); ok && fs.Cond == nil && fs.Init == nil && walk == nil {
				walk = fs
			}
			return true
		})
		if walk == nil {
			c.OK("C20.R15", cons, "no cycle walk", fd.Pos(), "")
			return
		}
		fieldsRead := func(e ast.Node) map[string]bool {
			r := map[string]bool{}
			ast.Inspect(e, func(n ast.Node) bool {
				if sel, ok := n.(*ast.SelectorExpr); ok {
					if fv, ok := info.Uses[sel.Sel].(*types.Var); ok && fv.IsField() {
						r[fv.Name()] = true
					}
				}
				return true
			})
			return r
		}
		guard, flag := false, false
		hasFlag := false
		if st, ok := info.TypeOf(fd.Recv.List[0].Type).(*types.Pointer); ok {
			if s, ok := st.Elem().Underlying().(*types.Struct); ok {
				for i := 0; i < s.NumFields(); i++ {
					if s.Field(i).Name() == "transposed" {
						hasFlag = true
					}
				}
			}
		}
		for _, st := range fd.Body.List {
			if st.Pos() >= walk.Pos() {
				break
			}
			is, ok := st.(*ast.IfStmt)
			if !ok {
				continue
			}
			fr := fieldsRead(is.Cond)
			if blockPanics(info, is.Body) && fr["rowOffset"] && fr["colOffset"] && fr["rowMax"] && fr["colMax"] {
				guard = true
			}
			if fr["transposed"] && len(is.Body.List) > 0 {
				if _, isRet := is.Body.List[len(is.Body.List)-1].(*ast.ReturnStmt); isRet || blockPanics(info, is.Body) {
					flag = true
				}
			}
		}
		c.Check(guard, "C20.R15", cons, "views rejected before the cycle walk", fd.Pos(),
			"Tip() walks the cycles of the raw storage without first rejecting sub-matrix views: on a view the walk need not return to its start (3x3 storage, 2x3 view: does not terminate)")
		if hasFlag {
			c.Check(flag, "C20.R15", cons, "transposed flag handled before the cycle walk", fd.Pos(),
				"Tip() permutes the raw storage as if it were untransposed: on m.T() the elements end up in the wrong places")
		}
	})
}

// C20.R16 — shift strategy of the unsymmetric QR iteration. Shifted QR steps have fixed points: the single-shift
// step with the last diagonal element as shift leaves [[2,1],[1,2]] unchanged, the Francis double-shift step leaves
// [[2,1,0],[1,2,1],[0,1,2]] and cyclic permutation matrices unchanged; the deflation loops then never end. Two
// structural conditions break the fixed points: (a) the shift that the single-shift step subtracts from the diagonal
// is computed from all four entries of the trailing 2x2 block (Wilkinson shift), not from the last diagonal entry
// alone; (b) the driver counts the steps for which the active block (p, q) did not change and hands the double-shift
// step a flag derived from that count (ad hoc shifts).
func checkQRShiftStrategy(c *core.Ctx) {
	c.Rule("C20.R16", "unsymmetric QR iteration: the single-shift step computes its shift from the whole trailing 2x2 block, and the driver passes a stagnation-dependent flag to the double-shift step", 2)
	p := c.Pkg("algorithm/qrAlgorithm")
	if p == nil {
		c.Unknown("C20.R16", "algorithm/qrAlgorithm", "package loaded", token.NoPos, "not loaded")
		return
	}
	info := p.TypesInfo
	// (a) QRstep
	if fd := core.FindFunc(p, "QRstep"); fd == nil {
		c.Unknown("C20.R16", "algorithm/qrAlgorithm.QRstep", "present", token.NoPos, "not found")
	} else {
		// the shift: second argument of <diag element>.Sub(<diag element>, shift) inside a loop
		var shift types.Object
		ast.Inspect(fd.Body, func(n ast.Node) bool {
			fs, ok := n.(*ast.ForStmt)
			if !ok || shift != nil {
				return true
			}
			ast.Inspect(fs.Body, func(m ast.Node) bool {
				ce, ok := m.(*ast.CallExpr)
				if !ok || len(ce.Args) != 2 || calleeName(ce) != "Sub" {
					return true
				}
				if id, ok := ast.Unparen(ce.Args[1]).(*ast.Ident); ok && shift == nil {
					shift = info.Uses[id]
				}
				return true
			})
			return true
		})
		if shift == nil {
			c.Unknown("C20.R16", "algorithm/qrAlgorithm.QRstep", "shift found", fd.Pos(), "no diagonal shift g.Sub(g, shift) found")
		} else {
			// element reads that reach the shift: transitive closure over `x.Op(args...)` statements writing x
			deps := map[types.Object]bool{shift: true}
			offdiag := map[string]bool{}
			for changed := true; changed; {
				changed = false
				ast.Inspect(fd.Body, func(n ast.Node) bool {
					ce, ok := n.(*ast.CallExpr)
					if !ok {
						return true
					}
					sel, ok := ast.Unparen(ce.Fun).(*ast.SelectorExpr)
					if !ok {
						return true
					}
					rid, ok := ast.Unparen(sel.X).(*ast.Ident)
					if !ok || !deps[info.Uses[rid]] {
						return true
					}
					for _, a := range ce.Args {
						ast.Inspect(a, func(m ast.Node) bool {
							switch x := m.(type) {
							case *ast.Ident:
								if o, ok := info.Uses[x].(*types.Var); ok && !deps[o] {
									deps[o] = true
									changed = true
								}
							case *ast.CallExpr:
								if len(x.Args) == 2 && strings.HasSuffix(calleeName(x), "At") {
									i, j := types.ExprString(x.Args[0]), types.ExprString(x.Args[1])
									if i != j {
										offdiag[i+","+j] = true
									}
								}
							}
							return true
						})
					}
					return true
				})
				// locals defined from element reads: h12 := H22.ConstAt(n-2, n-1)
				ast.Inspect(fd.Body, func(n ast.Node) bool {
					as, ok := n.(*ast.AssignStmt)
					if !ok || len(as.Lhs) != 1 || len(as.Rhs) != 1 {
						return true
					}
					lid, ok := as.Lhs[0].(*ast.Ident)
					if !ok {
						return true
					}
					o := info.Defs[lid]
					if o == nil {
						o = info.Uses[lid]
					}
					if !deps[o] {
						return true
					}
					if x, ok := ast.Unparen(as.Rhs[0]).(*ast.CallExpr); ok && len(x.Args) == 2 && strings.HasSuffix(calleeName(x), "At") {
						i, j := types.ExprString(x.Args[0]), types.ExprString(x.Args[1])
						if i != j && !offdiag[i+","+j] {
							offdiag[i+","+j] = true
							changed = true
						}
					}
					return true
				})
			}
			c.Check(len(offdiag) >= 2, "C20.R16", "algorithm/qrAlgorithm.QRstep", "shift computed from the trailing 2x2 block", fd.Pos(),
				fmt.Sprintf("the shift %s is computed without the off-diagonal entries of the trailing 2x2 block (%d read): with the last diagonal entry alone as shift the step leaves blocks such as [[2,1],[1,2]] unchanged and the deflation loop never ends", shift.Name(), len(offdiag)))
		}
	}
	// (b) driver
	if fd := core.FindFunc(p, "qrAlgorithm"); fd == nil {
		c.Unknown("C20.R16", "algorithm/qrAlgorithm.qrAlgorithm", "present", token.NoPos, "not found")
	} else {
		ok := false
		var pos token.Pos = fd.Pos()
		ast.Inspect(fd.Body, func(n ast.Node) bool {
			fs, isFor := n.(*ast.ForStmt)
			if !isFor {
				return true
			}
			// counters incremented in this loop
			counters := map[types.Object]bool{}
			ast.Inspect(fs.Body, func(m ast.Node) bool {
				switch x := m.(type) {
				case *ast.IncDecStmt:
					if id, ok := ast.Unparen(x.X).(*ast.Ident); ok && x.Tok == token.INC {
						counters[info.Uses[id]] = true
					}
				case *ast.AssignStmt:
					if x.Tok == token.ADD_ASSIGN && len(x.Lhs) == 1 {
						if id, ok := ast.Unparen(x.Lhs[0]).(*ast.Ident); ok {
							counters[info.Uses[id]] = true
						}
					}
				}
				return true
			})
			ast.Inspect(fs.Body, func(m ast.Node) bool {
				ce, isCall := m.(*ast.CallExpr)
				if !isCall || calleeName(ce) != "francisQRstep" {
					return true
				}
				pos = ce.Pos()
				for _, a := range ce.Args {
					ast.Inspect(a, func(k ast.Node) bool {
						if id, isId := k.(*ast.Ident); isId && counters[info.Uses[id]] {
							ok = true // counters are collected from the body only: the loop's own step counter does not count
						}
						return true
					})
				}
				return true
			})
			return true
		})
		c.Check(ok, "C20.R16", "algorithm/qrAlgorithm.qrAlgorithm", "stagnation flag handed to the double-shift step", pos,
			"the driver calls francisQRstep without an argument that depends on a counter of unproductive steps: the double-shift step has fixed points ([[2,1,0],[1,2,1],[0,1,2]], cyclic permutations) on which the driver never ends")
	}
}

// C20.R17 — progress test of the Newton back-tracking loops. The inner loop shortens the step until the constraint
// holds; it is left by `break` (step accepted) or by an error when the trial point no longer differs from the current
// one. The outer iteration makes progress only if an accepted step is non-zero, so the "x did not change" test has to be
// passed (false edge) on every path to the accepting break; otherwise a zero step is accepted and the outer loop, whose
// default limit is MaxInt, repeats the same iterate for ever.
func checkBacktrackingProgress(c *core.Ctx) {
	c.Rule("C20.R17", "Newton back-tracking: in the step-halving loop the test that the trial point equals the current one (a top-level if that returns) precedes the statement with the accepting break", 2)
	p := c.Pkg("algorithm/newton")
	if p == nil {
		c.Unknown("C20.R17", "algorithm/newton", "package loaded", token.NoPos, "not loaded")
		return
	}
	_ = p.TypesInfo
	for _, name := range []string{"newton_root", "newton_min"} {
		fd := core.FindFunc(p, name)
		cons := "algorithm/newton." + name
		if fd == nil {
			c.Unknown("C20.R17", cons, "present", token.NoPos, "not found")
			continue
		}
		found := false
		ast.Inspect(fd.Body, func(n ast.Node) bool {
			fs, ok := n.(*ast.ForStmt)
			if !ok || fs.Cond != nil || fs.Init != nil || found {
				return true
			}
			// top-level statements of the loop body: the unchanged-point test (an if whose body leaves the function) has to
			// come before the statement that contains the accepting break
			eqIdx, brkIdx := -1, -1
			var eq ast.Expr
			var brk *ast.BranchStmt
			for k, st := range fs.Body.List {
				if is, ok := st.(*ast.IfStmt); ok && eqIdx < 0 {
					if ifTestsEquality(is) && len(is.Body.List) > 0 {
						if _, isRet := is.Body.List[len(is.Body.List)-1].(*ast.ReturnStmt); isRet {
							eqIdx, eq = k, is.Cond
						}
					}
				}
				ast.Inspect(st, func(m ast.Node) bool {
					if inner, ok := m.(*ast.ForStmt); ok && inner != fs {
						return false
					}
					if b, ok := m.(*ast.BranchStmt); ok && b.Tok == token.BREAK && b.Label == nil && brkIdx < 0 {
						brkIdx, brk = k, b
					}
					return true
				})
			}
			if brk == nil {
				return true
			}
			// the equality test may also exist but not as a top-level returning if
			if eq == nil {
				ast.Inspect(fs.Body, func(m ast.Node) bool {
					if is, ok := m.(*ast.IfStmt); ok && ifTestsEquality(is) {
						eq = is.Cond
					}
					return true
				})
				if eq == nil {
					return true
				}
			}
			found = true
			ok2 := eqIdx >= 0 && eqIdx < brkIdx
			c.Check(ok2, "C20.R17", cons, "accepted step differs from the current point", brk.Pos(),
				"the step-halving loop can be left through `break` without having passed the test "+types.ExprString(eq)+": a zero step is accepted and the outer iteration repeats the same point until MaxIterations (MaxInt by default)")
			return true
		})
		if !found {
			c.Unknown("C20.R17", cons, "back-tracking loop found", fd.Pos(), "no `for { ... }` loop with an equality test and a break found")
		}
	}
}

// ifTestsEquality: the condition (or the init statement) of the if calls an ...Equals... function.
func ifTestsEquality(is *ast.IfStmt) bool {
	found := false
	look := func(n ast.Node) {
		if n == nil {
			return
		}
		ast.Inspect(n, func(m ast.Node) bool {
			if ce, ok := m.(*ast.CallExpr); ok && strings.Contains(strings.ToLower(calleeName(ce)), "equals") {
				found = true
			}
			return true
		})
	}
	look(is.Cond)
	if is.Init != nil {
		look(is.Init)
	}
	return found
}
