package checks

import (
	"fmt"
	"go/ast"
	"go/token"
	"go/types"
	"strings"

	"golang.org/x/tools/go/packages"

	"verif/internal/core"
)

func init() { Registry["C06"] = checkC06; Registry["C15"] = checkC15 }

type twinPair struct {
	pkg        string // relative package path
	generic    string
	special    string
	recvG      string // receiver type of generic ("" function)
	recvS      string
	why        string
	nameMap    map[string]string
	dropParams []string
}

func findFuncOrMethod(pkg *packages.Package, recv, name string) *ast.FuncDecl {
	if recv == "" {
		return core.FindFunc(pkg, name)
	}
	return core.FindMethod(pkg, recv, name)
}

func checkTwinPairs(c *core.Ctx, rule string, pairs []twinPair) {
	for _, tp := range pairs {
		pkg := c.Pkg(tp.pkg)
		cons := tp.pkg + "." + tp.special
		if pkg == nil {
			c.Unknown(rule, cons, "package", token.NoPos, "package not loaded")
			continue
		}
		g := findFuncOrMethod(pkg, tp.recvG, tp.generic)
		s := findFuncOrMethod(pkg, tp.recvS, tp.special)
		if g == nil || s == nil {
			c.Unknown(rule, cons, "present", token.NoPos, "twin pair "+tp.generic+"/"+tp.special+" not found")
			continue
		}
		d := twinDiff(normKernel(pkg, s, twinOpts{nameMap: tp.nameMap, dropParams: tp.dropParams}), normKernel(pkg, g, twinOpts{nameMap: tp.nameMap, dropParams: tp.dropParams}), func(p token.Pos) string { return c.PosStr(p) })
		c.Check(d == "", rule, cons, "same kernel as "+tp.generic+" ("+tp.why+")", s.Pos(), d)
	}
}

var c06Pairs = []twinPair{
	{pkg: "algorithm/gaussJordan", generic: "gaussJordan", special: "gaussJordan_DenseFloat64", why: "hand-specialised copy selected by type assertion in Run"},
	{pkg: "algorithm/gaussJordan", generic: "gaussJordanUpperTriangular", special: "gaussJordanUpperTriangular_DenseFloat64", why: "hand-specialised copy selected by type assertion in Run"},
	{pkg: "algorithm/cholesky", generic: "cholesky", special: "cholesky_float64", why: "instances of one cpp template"},
	{pkg: "algorithm/cholesky", generic: "cholesky", special: "cholesky_float32", why: "instances of one cpp template"},
	{pkg: "algorithm/cholesky", generic: "cholesky_ldl", special: "cholesky_ldl_float64", why: "instances of one cpp template"},
	{pkg: "algorithm/cholesky", generic: "cholesky_ldl", special: "cholesky_ldl_float32", why: "instances of one cpp template"},
	{pkg: "algorithm/cholesky", generic: "cholesky_ldl_forcepd", special: "cholesky_ldl_forcepd_float64", why: "instances of one cpp template"},
	{pkg: "algorithm/cholesky", generic: "cholesky_ldl_forcepd", special: "cholesky_ldl_forcepd_float32", why: "instances of one cpp template"},
}

var c15Pairs = []twinPair{
	{pkg: "statistics/generic", generic: "forward", special: "float64Forward", recvG: "Hmm", recvS: "Hmm", why: "float64 copy of the forward recursion used by Baum-Welch"},
	{pkg: "statistics/generic", generic: "backward", special: "float64Backward", recvG: "Hmm", recvS: "Hmm", why: "float64 copy of the backward recursion"},
	{pkg: "statistics/generic", generic: "forwardBackward", special: "float64ForwardBackward", recvG: "Hmm", recvS: "Hmm", why: "driver of the float64 copies",
		nameMap: map[string]string{"float64forward": "forward", "float64backward": "backward"}, dropParams: []string{"t1", "t2"}},
}

func checkC06(c *core.Ctx) error {
	if err := c.Load(packages.LoadSyntax); err != nil {
		return err
	}
	c.Rule("C06.R1", "specialised and generic implementations of an algorithm have identical normalised kernels; Run selects the specialised one only under type assertions on all buffers and passes the same arguments", 8)
	c.Rule("C06.R2", "generic linear-algebra code never writes a value obtained with GetFloat64/Float64At back through SetFloat64/New*/Const* (derivative laundering); constants are fine", 30)
	c.Rule("C06.R3", "scratch scalars/vectors/matrices of generic algorithms are created with the element type of an input (ElementType()), never with a fixed type", 40)
	c.Rule("C06.R4", "Jacobian/Hessian helpers clone and activate their argument (order 1 resp. 2) and store y_i.GetDerivative(j) resp. y.GetHessian(i,j) at (i,j)", 36)
	checkValueGuardedWrites(c)
	checkTwinPairs(c, "C06.R1", c06Pairs)
	checkDispatch(c, "algorithm/gaussJordan")
	checkDispatch(c, "algorithm/cholesky")
	checkLaundering(c)
	checkScratchTyping(c)
	checkJacobianHessian(c)
	return nil
}

func checkC15(c *core.Ctx) error {
	if err := c.Load(packages.LoadSyntax); err != nil {
		return err
	}
	c.Explanation = "Structural rules (R1 twin kernels of the float64 and generic recursions, R2 interior/final transition matrix discipline, R3 predecessor sets of the restricted recursion) and enumeration rules decided by abstract interpretation: (R4) LogPdf, forward-backward (generic and float64), PosteriorMarginals, Posterior of state-set sequences and the mixture densities are interpreted on models with symbolic parameters (m = 2..3 states, n = 1..4 positions) and compared, as normal forms, with the explicit sum over all hidden paths; (R5) on every branch of the Viterbi dynamic programme the decided comparisons, read as order facts between complete hidden paths, place the returned path above every other path."
	c.Rule("C15.R1", "the float64-specialised forward/backward recursions have the same normalised kernel as the generic ones", 3)
	checkTwinPairs(c, "C15.R1", c15Pairs)
	checkHmmEnumeration(c)
	checkViterbi(c)
	c.Rule("C15.R2", "every recursion over a sequence uses the interior transition matrix Tr only inside its loop over interior positions and the final-step matrix Tf only outside it (sibling agreement of forward, backward, their float64 copies, Viterbi and the posterior recursions)", 7)
	pkg := c.Pkg("statistics/generic")
	if pkg == nil {
		c.Unknown("C15.R2", "statistics/generic", "package", token.NoPos, "not loaded")
		return nil
	}
	core.EachFunc(pkg, func(_ *ast.File, fd *ast.FuncDecl) {
		// element reads of obj.Tr / obj.Tf
		type use struct {
			field string
			pos   token.Pos
			inK   bool
		}
		var uses []use
		var walk func(n ast.Node, inK bool)
		isInterior := func(fs *ast.ForStmt) bool {
			// for k := 1; k < n-1; k++   |   for k := n-3; k >= 0; k--
			init, _ := fs.Init.(*ast.AssignStmt)
			if init == nil || len(init.Rhs) != 1 || fs.Cond == nil {
				return false
			}
			i, c0 := exprStr(init.Rhs[0]), exprStr(fs.Cond)
			fwd := i == "1" && strings.HasSuffix(c0, "<n-1")
			bwd := i == "n-3" && strings.HasSuffix(c0, ">=0")
			return fwd || bwd
		}
		walk = func(n ast.Node, inK bool) {
			ast.Inspect(n, func(x ast.Node) bool {
				switch st := x.(type) {
				case *ast.ForStmt:
					if st != n {
						walk(st.Body, inK || isInterior(st))
						return false
					}
				case *ast.CallExpr:
					if se, ok := st.Fun.(*ast.SelectorExpr); ok && (se.Sel.Name == "At" || se.Sel.Name == "ConstAt" || se.Sel.Name == "AT") {
						if fs, ok := ast.Unparen(se.X).(*ast.SelectorExpr); ok && (fs.Sel.Name == "Tr" || fs.Sel.Name == "Tf") {
							if nm := core.SelRecvNamed(pkg.TypesInfo, fs); nm != nil && nm.Obj().Name() == "Hmm" {
								uses = append(uses, use{fs.Sel.Name, st.Pos(), inK})
							}
						}
					}
				}
				return true
			})
		}
		walk(fd.Body, false)
		hasTr, hasTf := false, false
		for _, u := range uses {
			if u.field == "Tr" {
				hasTr = true
			} else {
				hasTf = true
			}
		}
		anyInterior := false
		ast.Inspect(fd.Body, func(x ast.Node) bool {
			if fs, ok := x.(*ast.ForStmt); ok && isInterior(fs) {
				anyInterior = true
			}
			return true
		})
		if (!hasTr && !hasTf) || !anyInterior {
			return
		}
		cons := c.FuncName(pkg, fd)
		bad := ""
		var pos token.Pos
		for _, u := range uses {
			if u.field == "Tr" && !u.inK {
				bad, pos = "the interior transition matrix Tr is read outside the loop over interior positions (the final step must use Tf, which encodes the final-state restriction)", u.pos
			}
			if u.field == "Tf" && u.inK {
				bad, pos = "the final-step matrix Tf is read inside the loop over interior positions (interior transitions must use Tr)", u.pos
			}
		}
		c.Check(bad == "", "C15.R2", cons, "Tr inside / Tf outside the interior loop", pos, bad)
	})
	// ---- R3 restricted recursions read the previous vector over the index set it was written over
	c.Rule("C15.R3", "in the restricted forward recursion (Posterior of state-set sequences) the predecessor loop ranges over the state set of the previous position: range states[e-1] inside range states[e]; the recursion starts on states[0] and the final sum ranges over the set last written", 3)
	if fd := findMethodDecl(pkg, "Hmm", "Posterior"); fd == nil {
		c.Unknown("C15.R3", "statistics/generic.(*Hmm).Posterior", "method found", token.NoPos, "method Posterior not found")
	} else {
		info := pkg.TypesInfo
		// roles, not names: the state-set sequence is the parameter of type [][]int, n the local bound to GetN(), k any
		// induction variable of a for loop of the method
		var statesObj, nObj types.Object
		loopVars := map[types.Object]bool{}
		for _, f := range fd.Type.Params.List {
			for _, nm := range f.Names {
				if o := info.Defs[nm]; o != nil && o.Type().String() == "[][]int" {
					statesObj = o
				}
			}
		}
		ast.Inspect(fd.Body, func(x ast.Node) bool {
			switch v := x.(type) {
			case *ast.AssignStmt:
				if len(v.Lhs) == 1 && len(v.Rhs) == 1 {
					if ce, ok := ast.Unparen(v.Rhs[0]).(*ast.CallExpr); ok && calleeName(ce) == "GetN" {
						if id, ok := v.Lhs[0].(*ast.Ident); ok && nObj == nil {
							nObj = info.Defs[id]
						}
					}
				}
			case *ast.ForStmt:
				if as, ok := v.Init.(*ast.AssignStmt); ok && len(as.Lhs) == 1 {
					if id, ok := as.Lhs[0].(*ast.Ident); ok {
						if o := info.Defs[id]; o != nil {
							loopVars[o] = true
						}
					}
				}
			}
			return true
		})
		statesIdx := func(e ast.Expr) ast.Expr {
			ix, ok := ast.Unparen(e).(*ast.IndexExpr)
			if !ok {
				return nil
			}
			id, ok := ast.Unparen(ix.X).(*ast.Ident)
			if !ok || statesObj == nil || info.Uses[id] != statesObj {
				return nil
			}
			return ix.Index
		}
		// linear form of an index expression over the symbols k and n: (ck, cn, c0)
		type lin struct{ k, n, c int }
		var linOf func(e ast.Expr) (lin, bool)
		linOf = func(e ast.Expr) (lin, bool) {
			switch v := ast.Unparen(e).(type) {
			case *ast.Ident:
				o := info.Uses[v]
				switch {
				case o != nil && loopVars[o]:
					return lin{1, 0, 0}, true
				case o != nil && o == nObj:
					return lin{0, 1, 0}, true
				}
			case *ast.BasicLit:
				var x int
				if _, err := fmt.Sscanf(v.Value, "%d", &x); err == nil {
					return lin{0, 0, x}, true
				}
			case *ast.BinaryExpr:
				a, ok1 := linOf(v.X)
				b, ok2 := linOf(v.Y)
				if ok1 && ok2 {
					switch v.Op {
					case token.ADD:
						return lin{a.k + b.k, a.n + b.n, a.c + b.c}, true
					case token.SUB:
						return lin{a.k - b.k, a.n - b.n, a.c - b.c}, true
					}
				}
			}
			return lin{}, false
		}
		nPairs := 0
		var lastWrite ast.Expr
		ast.Inspect(fd.Body, func(n ast.Node) bool {
			outer, ok := n.(*ast.RangeStmt)
			if !ok {
				return true
			}
			wi := statesIdx(outer.X)
			if wi == nil {
				return true
			}
			// a write loop contains a nested range over states[...] reading the previous vector
			found := false
			ast.Inspect(outer.Body, func(m ast.Node) bool {
				inner, ok := m.(*ast.RangeStmt)
				if !ok {
					return true
				}
				ri := statesIdx(inner.X)
				if ri == nil {
					return true
				}
				found = true
				nPairs++
				lw, ok1 := linOf(wi)
				lr, ok2 := linOf(ri)
				cons := fmt.Sprintf("statistics/generic.(*Hmm).Posterior range states[%s]", exprStr(wi))
				if !ok1 || !ok2 {
					c.Unknown("C15.R3", cons, "predecessor set is states[e-1]", inner.Pos(), "index expressions are not linear in k and n")
					return false
				}
				okPrev := lr.k == lw.k && lr.n == lw.n && lr.c == lw.c-1
				c.Check(okPrev, "C15.R3", cons, "predecessor set is states[e-1]", inner.Pos(),
					fmt.Sprintf("the recursion writes the entries of states[%s] but sums over the predecessors in states[%s] instead of states[%s-1]: entries of the previous vector that were never written for that position are read, and admissible predecessors are dropped", exprStr(wi), exprStr(ri), exprStr(wi)))
				return false
			})
			if found {
				lastWrite = wi
			}
			return true
		})
		c.Check(nPairs >= 2, "C15.R3", "statistics/generic.(*Hmm).Posterior", "restricted recursion found (interior and final step)", fd.Pos(), fmt.Sprintf("found %d restricted recursion steps", nPairs))
		// the final sum ranges over the set written by the last step
		if lastWrite != nil {
			var sumIdx ast.Expr
			for _, st := range fd.Body.List {
				if rg, ok := st.(*ast.RangeStmt); ok {
					if si := statesIdx(rg.X); si != nil {
						sumIdx = si
					}
				}
			}
			if sumIdx != nil {
				a, ok1 := linOf(sumIdx)
				b, ok2 := linOf(lastWrite)
				c.Check(ok1 && ok2 && a == b, "C15.R3", "statistics/generic.(*Hmm).Posterior", "final sum ranges over the set written last", sumIdx.Pos(),
					fmt.Sprintf("the final sum ranges over states[%s] but the last step wrote states[%s]", exprStr(sumIdx), exprStr(lastWrite)))
			}
		}
	}
	return nil
}

var _ = strings.ToLower

// ---------------------------------------------------------------------------
// dispatch, taint, scratch typing, Jacobian/Hessian helpers

var genericAlgoPkgs = []string{"backSubstitution", "cholesky", "determinant", "eigensystem", "gaussJordan", "givensRotation", "gramSchmidt",
	"hessenbergReduction", "householder", "householderBidiagonalization", "householderTridiagonalization", "matrixInverse", "msqrt", "msqrtInv", "qrAlgorithm", "svd"}

func isSpecialisedFunc(name string) bool {
	l := strings.ToLower(name)
	return strings.HasSuffix(l, "_float32") || strings.HasSuffix(l, "_float64") || strings.HasSuffix(l, "_densefloat64") || strings.HasPrefix(l, "float64")
}

func specialisedBase(name string) string {
	for _, suf := range []string{"_float32", "_float64", "_DenseFloat64"} {
		if strings.HasSuffix(name, suf) {
			return strings.TrimSuffix(name, suf)
		}
	}
	return ""
}

func checkDispatch(c *core.Ctx, rel string) {
	pkg := c.Pkg(rel)
	if pkg == nil {
		c.Unknown("C06.R1", rel+".Run", "package", token.NoPos, "not loaded")
		return
	}
	fd := core.FindFunc(pkg, "Run")
	if fd == nil {
		c.Unknown("C06.R1", rel+".Run", "present", token.NoPos, "Run not found")
		return
	}
	info := pkg.TypesInfo
	// asserted idents: X, ok := SRC.(T)
	type asrt struct {
		src string
		ok  string
		typ string
	}
	asserted := map[string]asrt{} // keyed by ident object string (pos-unique)
	key := func(id *ast.Ident) string {
		o := info.Uses[id]
		if o == nil {
			o = info.Defs[id]
		}
		if o == nil {
			return id.Name
		}
		return id.Name + "@" + c.PosStr(o.Pos())
	}
	ast.Inspect(fd.Body, func(n ast.Node) bool {
		as, ok := n.(*ast.AssignStmt)
		if !ok || len(as.Lhs) != 2 || len(as.Rhs) != 1 {
			return true
		}
		ta, ok := ast.Unparen(as.Rhs[0]).(*ast.TypeAssertExpr)
		if !ok || ta.Type == nil {
			return true
		}
		v, ok1 := as.Lhs[0].(*ast.Ident)
		okid, ok2 := as.Lhs[1].(*ast.Ident)
		if ok1 && ok2 {
			asserted[key(v)] = asrt{src: exprStr(ta.X), ok: key(okid), typ: exprStr(ta.Type)}
		}
		return true
	})
	// generic calls by name
	generic := map[string][][]string{}
	ast.Inspect(fd.Body, func(n ast.Node) bool {
		ce, ok := n.(*ast.CallExpr)
		if !ok {
			return true
		}
		id, ok := ce.Fun.(*ast.Ident)
		if !ok || specialisedBase(id.Name) != "" {
			return true
		}
		var args []string
		for _, a := range ce.Args {
			args = append(args, exprStr(a))
		}
		generic[id.Name] = append(generic[id.Name], args)
		return true
	})
	nspec := 0
	var walk func(n ast.Node, oks map[string]bool)
	walk = func(n ast.Node, oks map[string]bool) {
		ast.Inspect(n, func(x ast.Node) bool {
			switch s := x.(type) {
			case *ast.IfStmt:
				if s != n {
					o2 := map[string]bool{}
					for k := range oks {
						o2[k] = true
					}
					var conj func(e ast.Expr)
					conj = func(e ast.Expr) {
						switch y := ast.Unparen(e).(type) {
						case *ast.BinaryExpr:
							if y.Op == token.LAND {
								conj(y.X)
								conj(y.Y)
							}
						case *ast.Ident:
							o2[key(y)] = true
						}
					}
					conj(s.Cond)
					walk(s.Body, o2)
					if s.Else != nil {
						walk(s.Else, oks)
					}
					return false
				}
			case *ast.CallExpr:
				id, ok := s.Fun.(*ast.Ident)
				if !ok {
					return true
				}
				base := specialisedBase(id.Name)
				if base == "" {
					return true
				}
				nspec++
				cons := rel + ".Run -> " + id.Name
				var mapped []string
				missing := ""
				for _, a := range s.Args {
					if aid, ok := ast.Unparen(a).(*ast.Ident); ok {
						if as, ok := asserted[key(aid)]; ok {
							mapped = append(mapped, as.src)
							if !oks[as.ok] {
								missing = aid.Name
							}
							continue
						}
					}
					mapped = append(mapped, exprStr(a))
				}
				c.Check(missing == "", "C06.R1", cons, "called only under the type assertions of all its buffers", s.Pos(),
					"argument "+missing+" comes from a type assertion whose ok flag is not part of the guarding condition (a nil typed buffer would be passed)")
				match := false
				for _, g := range generic[base] {
					if strings.Join(g, "|") == strings.Join(mapped, "|") {
						match = true
					}
				}
				c.Check(match, "C06.R1", cons, "receives the same arguments in the same roles as "+base, s.Pos(),
					"the specialised call passes ("+strings.Join(mapped, ", ")+"), no call of the generic "+base+" in Run passes the same objects in the same positions")
			}
			return true
		})
	}
	walk(fd.Body, map[string]bool{})
	if nspec == 0 {
		c.Fail("C06.R1", rel+".Run", "dispatch present", fd.Pos(), "Run does not call any specialised implementation")
	}
}

func exprStr(e ast.Expr) string {
	return strings.Join(strings.Fields(types.ExprString(e)), "")
}

// checkLaundering: value read with GetFloat64/Float64At flowing into SetFloat64 / New*Float64 / ConstFloat64 in generic algorithm code.
func checkLaundering(c *core.Ctx) {
	for _, name := range genericAlgoPkgs {
		pkg := c.Pkg("algorithm/" + name)
		if pkg == nil {
			c.Unknown("C06.R2", "algorithm/"+name, "package", token.NoPos, "not loaded")
			continue
		}
		info := pkg.TypesInfo
		core.EachFunc(pkg, func(file *ast.File, fd *ast.FuncDecl) {
			fn := c.FileOf(fd.Pos())
			if isSpecialisedFunc(fd.Name.Name) || strings.HasSuffix(fn, "_float64.go") || strings.HasSuffix(fn, "_float32.go") || strings.HasSuffix(fn, "_optimized.go") {
				return
			}
			cons := c.FuncName(pkg, fd)
			// tainted float locals (fixpoint)
			tainted := map[interface{}]bool{}
			isSource := func(e ast.Expr) bool {
				found := false
				ast.Inspect(e, func(n ast.Node) bool {
					switch x := n.(type) {
					case *ast.CallExpr:
						nm := calleeName(x)
						if strings.HasPrefix(nm, "GetFloat") || strings.HasPrefix(nm, "Float64At") || strings.HasPrefix(nm, "Float32At") || strings.HasPrefix(nm, "GetInt") {
							found = true
						}
					case *ast.Ident:
						if o := info.Uses[x]; o != nil && tainted[o] {
							found = true
						}
					}
					return true
				})
				return found
			}
			for changed := true; changed; {
				changed = false
				ast.Inspect(fd.Body, func(n ast.Node) bool {
					as, ok := n.(*ast.AssignStmt)
					if !ok {
						return true
					}
					for i, l := range as.Lhs {
						id, ok := l.(*ast.Ident)
						if !ok || i >= len(as.Rhs) && len(as.Rhs) != 1 {
							continue
						}
						r := as.Rhs[0]
						if i < len(as.Rhs) {
							r = as.Rhs[i]
						}
						o := info.Defs[id]
						if o == nil {
							o = info.Uses[id]
						}
						if o == nil || tainted[o] {
							continue
						}
						if b, ok := o.Type().Underlying().(*types.Basic); ok && b.Info()&types.IsNumeric != 0 && isSource(r) {
							tainted[o] = true
							changed = true
						}
					}
					return true
				})
			}
			// value-dependent term dropping: continue/break guarded by an exact-zero test of an element value
			var ifStack []*ast.IfStmt
			var loopStack []*ast.ForStmt
			var visit func(n ast.Node)
			visit = func(n ast.Node) {
				ast.Inspect(n, func(x ast.Node) bool {
					switch st := x.(type) {
					case *ast.ForStmt:
						if st != n {
							loopStack = append(loopStack, st)
							saved := ifStack
							ifStack = nil
							visit(st.Body)
							ifStack = saved
							loopStack = loopStack[:len(loopStack)-1]
							return false
						}
					case *ast.IfStmt:
						if st != n {
							// the wrapped form of the same shortcut: `if x != 0 { ...in-place updates... }` inside a counted loop
							if len(loopStack) > 0 && st.Else == nil {
								if cl, _ := classifyLoop(info, loopStack[len(loopStack)-1]); cl == "counted" {
									zt := ""
									if be, ok := ast.Unparen(st.Cond).(*ast.BinaryExpr); ok && be.Op == token.NEQ {
										if (isZeroLit(info, be.X) && isSource(be.Y)) || (isZeroLit(info, be.Y) && isSource(be.X)) {
											zt = exprStr(st.Cond)
										}
									}
									if zt != "" {
										upd := false
										ast.Inspect(st.Body, func(y ast.Node) bool {
											if ce, ok := y.(*ast.CallExpr); ok && len(ce.Args) >= 1 {
												nm := strings.ToLower(calleeName(ce))
												if nm == "add" || nm == "sub" || nm == "logadd" {
													if se, ok := ce.Fun.(*ast.SelectorExpr); ok && exprStr(se.X) == exprStr(ce.Args[0]) {
														upd = true
													}
												}
											}
											return true
										})
										if upd {
											c.Fail("C06.R2", cons, "updates guarded by "+zt, st.Pos(),
												"the updates of a loop cycle are carried out only if an element's value is not exactly zero ("+zt+"): the skipped terms still contribute derivatives when that element is an activated variable")
										}
									}
								}
							}
							ifStack = append(ifStack, st)
							visit(st.Body)
							ifStack = ifStack[:len(ifStack)-1]
							if st.Else != nil {
								visit(st.Else)
							}
							return false
						}
					case *ast.BranchStmt:
						// only 'continue' in a counted loop skips one index of a sum/expansion; breaks and
						// convergence loops are search/deflation decisions
						if st.Tok != token.CONTINUE || len(loopStack) == 0 {
							return true
						}
						if cl, _ := classifyLoop(info, loopStack[len(loopStack)-1]); cl != "counted" {
							return true
						}
						// the loop accumulates into a scalar (X.Add(X, t) / X.Sub(X, t)): skipping a cycle drops a term
						accum := false
						ast.Inspect(loopStack[len(loopStack)-1].Body, func(y ast.Node) bool {
							if ce, ok := y.(*ast.CallExpr); ok && len(ce.Args) >= 1 {
								nm := strings.ToLower(calleeName(ce))
								if nm == "add" || nm == "sub" || nm == "logadd" {
									if se, ok := ce.Fun.(*ast.SelectorExpr); ok && exprStr(se.X) == exprStr(ce.Args[0]) {
										// X.Add(X, t) with X a local accumulator, or an in-place update of a container element
										// a.At(i,k).Sub(a.At(i,k), t): either way the cycle contributes a term to a result
										accum = true
									}
								}
							}
							return true
						})
						if !accum {
							return true
						}
						zeroTest := ""
						if len(ifStack) > 0 {
							cond := ifStack[len(ifStack)-1].Cond
							ast.Inspect(cond, func(y ast.Node) bool {
								be, ok := y.(*ast.BinaryExpr)
								if !ok || (be.Op != token.EQL && be.Op != token.NEQ) {
									return true
								}
								isZ := func(e ast.Expr) bool { return isZeroLit(info, e) }
								if (isZ(be.X) && isSource(be.Y)) || (isZ(be.Y) && isSource(be.X)) {
									zeroTest = exprStr(cond)
								}
								return true
							})
						}
						c.Check(zeroTest == "", "C06.R2", cons, st.Tok.String()+" at "+fmt.Sprint(len(ifStack))+" nested ifs", st.Pos(),
							"a loop cycle is skipped because an element's value is exactly zero ("+zeroTest+"): the skipped term still contributes derivatives when that element is an activated variable")
					}
					return true
				})
			}
			visit(fd.Body)
			nsinks := 0
			ast.Inspect(fd.Body, func(n ast.Node) bool {
				ce, ok := n.(*ast.CallExpr)
				if !ok {
					return true
				}
				nm := calleeName(ce)
				var arg ast.Expr
				switch {
				case strings.HasPrefix(strings.ToLower(nm), "setfloat") && len(ce.Args) == 1:
					arg = ce.Args[0]
				case (nm == "NewFloat64" || nm == "NewFloat32" || nm == "NewReal64" || nm == "NewReal32" || nm == "ConstFloat64" || nm == "ConstFloat32") && len(ce.Args) == 1:
					arg = ce.Args[0]
				case nm == "NewScalar" && len(ce.Args) == 2:
					arg = ce.Args[1]
				default:
					return true
				}
				nsinks++
				detail := nm + "(" + exprStr(arg) + ")"
				if len(detail) > 90 {
					detail = detail[:90] + "…"
				}
				c.Check(!isSource(arg), "C06.R2", cons, detail, ce.Pos(),
					"a value read from a scalar with GetFloat64/Float64At is written back as a plain number: on matrices of magic scalars the derivatives of this output are cut (SetFloat64 resets them)")
				return true
			})
			_ = nsinks
		})
	}
}

func checkScratchTyping(c *core.Ctx) {
	for _, name := range genericAlgoPkgs {
		pkg := c.Pkg("algorithm/" + name)
		if pkg == nil {
			continue
		}
		info := pkg.TypesInfo
		core.EachFunc(pkg, func(file *ast.File, fd *ast.FuncDecl) {
			fn := c.FileOf(fd.Pos())
			if isSpecialisedFunc(fd.Name.Name) || strings.HasSuffix(fn, "_float64.go") || strings.HasSuffix(fn, "_float32.go") || strings.HasSuffix(fn, "_optimized.go") {
				return
			}
			cons := c.FuncName(pkg, fd)
			// variables holding an element type: assigned from X.ElementType()
			etVars := map[types.Object]bool{}
			ast.Inspect(fd.Body, func(n ast.Node) bool {
				if as, ok := n.(*ast.AssignStmt); ok && len(as.Lhs) == 1 && len(as.Rhs) == 1 {
					if ce, ok := ast.Unparen(as.Rhs[0]).(*ast.CallExpr); ok && (calleeName(ce) == "ElementType" || calleeName(ce) == "Type") {
						if id, ok := as.Lhs[0].(*ast.Ident); ok {
							o := info.Defs[id]
							if o == nil {
								o = info.Uses[id]
							}
							etVars[o] = true
						}
					}
				}
				return true
			})
			ast.Inspect(fd.Body, func(n ast.Node) bool {
				ce, ok := n.(*ast.CallExpr)
				if !ok {
					return true
				}
				nm := calleeName(ce)
				switch nm {
				case "NewScalar", "NullScalar", "NullDenseVector", "NullDenseMatrix", "NullVector", "NullMatrix", "NullSparseVector", "NullSparseMatrix", "NewDenseVector", "NewDenseMatrix":
					if len(ce.Args) == 0 {
						return true
					}
					t := ast.Unparen(ce.Args[0])
					ok := false
					switch x := t.(type) {
					case *ast.CallExpr:
						ok = calleeName(x) == "ElementType" || calleeName(x) == "Type"
					case *ast.Ident:
						o := info.Uses[x]
						ok = etVars[o]
						if v, isVar := o.(*types.Var); isVar && isParamOf(info, fd, v) {
							ok = true // element type handed in by the caller
						}
					case *ast.SelectorExpr:
						ok = true // field holding an element type (inSitu buffers)
					}
					c.Check(ok, "C06.R3", cons, nm+"("+exprStr(t)+", …)", ce.Pos(),
						"scratch object created with the fixed type "+exprStr(t)+" instead of the element type of an input: on magic inputs it cannot carry derivatives")
				default:
					// fixed-type mutable constructors
					if strings.HasPrefix(nm, "NullFloat") || strings.HasPrefix(nm, "NewFloat") || strings.HasPrefix(nm, "NullDenseFloat") || strings.HasPrefix(nm, "NewDenseFloat") || strings.HasPrefix(nm, "NullInt") {
						c.Fail("C06.R3", cons, nm+"(…)", ce.Pos(), "generic algorithm code constructs a scratch object of a fixed non-magic type")
					}
				}
				return true
			})
		})
	}
}

func checkJacobianHessian(c *core.Ctx) {
	pkg := c.Root
	core.EachFunc(pkg, func(_ *ast.File, fd *ast.FuncDecl) {
		T := core.RecvTypeName(fd)
		if !strings.HasSuffix(T, "Matrix") || (fd.Name.Name != "Jacobian" && fd.Name.Name != "Hessian") {
			return
		}
		cons := "(*" + T + ")." + fd.Name.Name
		f := newFnCtx(pkg, fd)
		order := "1"
		if fd.Name.Name == "Hessian" {
			order = "2"
		}
		// clone := P1.CloneMagicVector(); clone.Variables(order); y := P0(clone)
		var clone, yv types.Object
		activated, applied := false, false
		ast.Inspect(fd.Body, func(n ast.Node) bool {
			switch x := n.(type) {
			case *ast.AssignStmt:
				if len(x.Lhs) == 1 && len(x.Rhs) == 1 {
					id, _ := x.Lhs[0].(*ast.Ident)
					if id == nil {
						return true
					}
					o := f.info.Defs[id]
					if o == nil {
						o = f.info.Uses[id]
					}
					r := f.norm(x.Rhs[0])
					if r == "P1.CloneMagicVector()" {
						clone = o
					}
					if ce, ok := x.Rhs[0].(*ast.CallExpr); ok && f.norm(ce.Fun) == "P0" && len(ce.Args) == 1 {
						if a, ok := ce.Args[0].(*ast.Ident); ok && clone != nil && f.info.Uses[a] == clone {
							yv = o
							applied = true
						}
					}
				}
			case *ast.CallExpr:
				if calleeName(x) == "Variables" && len(x.Args) == 1 && f.norm(x.Args[0]) == order {
					if s, ok := x.Fun.(*ast.SelectorExpr); ok {
						if id, ok := s.X.(*ast.Ident); ok && clone != nil && f.info.Uses[id] == clone {
							activated = true
						}
					}
				}
			}
			return true
		})
		c.Check(clone != nil && activated && applied, "C06.R4", cons, "argument cloned, activated with order "+order+", function applied to the clone", fd.Pos(),
			"the helper must work on x_.CloneMagicVector() activated with Variables("+order+") and evaluate f on that clone")
		// store
		condStore := ""
		var condPos token.Pos
		okStore := false
		msg := "no store of the derivative into r"
		ast.Inspect(fd.Body, func(n ast.Node) bool {
			ce, ok := n.(*ast.CallExpr)
			if !ok || len(ce.Args) != 1 || !strings.HasPrefix(calleeName(ce), "Set") {
				return true
			}
			s, ok := ce.Fun.(*ast.SelectorExpr)
			if !ok {
				return true
			}
			at, ok := ast.Unparen(s.X).(*ast.CallExpr)
			if !ok || len(at.Args) != 2 {
				return true
			}
			if r, _ := f.baseOf(at); !r {
				return true
			}
			i, j := exprStr(at.Args[0]), exprStr(at.Args[1])
			arg := exprStr(ce.Args[0])
			// s := <expr> in the init of an enclosing if
			if aid, ok := ast.Unparen(ce.Args[0]).(*ast.Ident); ok {
				ast.Inspect(fd.Body, func(m ast.Node) bool {
					if is, ok := m.(*ast.IfStmt); ok && is.Init != nil {
						if as, ok := is.Init.(*ast.AssignStmt); ok && len(as.Lhs) == 1 && len(as.Rhs) == 1 {
							if l, ok := as.Lhs[0].(*ast.Ident); ok && f.info.Defs[l] == f.info.Uses[aid] {
								arg = exprStr(as.Rhs[0])
								// conditional store: zero derivatives must clear the receiver's old entry
								if is.Else == nil {
									condStore = exprStr(is.Cond)
									condPos = is.Pos()
								}
							}
						}
					}
					return true
				})
			}
			yname := ""
			if yv != nil {
				yname = yv.Name()
			}
			var want []string
			if fd.Name.Name == "Jacobian" {
				want = []string{yname + ".ConstAt(" + i + ").GetDerivative(" + j + ")", yname + ".At(" + i + ").GetDerivative(" + j + ")"}
			} else {
				want = []string{yname + ".GetHessian(" + i + "," + j + ")"}
			}
			for _, w := range want {
				if arg == w {
					okStore = true
				}
			}
			if !okStore {
				msg = "r(" + i + "," + j + ") receives " + arg + ", expected " + want[0]
			}
			return true
		})
		c.Check(okStore, "C06.R4", cons, "r(i,j) = d y_i/d x_j resp. d2 y/dx_i dx_j", fd.Pos(), msg)
		if condStore != "" {
			// a conditional store is complete when the receiver is reset unconditionally (a top-level statement) before the loops
			for _, st := range fd.Body.List {
				es, ok := st.(*ast.ExprStmt)
				if !ok {
					continue
				}
				ce, ok := es.X.(*ast.CallExpr)
				if !ok || len(ce.Args) != 0 {
					continue
				}
				sel, ok := ce.Fun.(*ast.SelectorExpr)
				if !ok || sel.Sel.Name != "Reset" {
					continue
				}
				if id, ok := ast.Unparen(sel.X).(*ast.Ident); ok && fd.Recv != nil && len(fd.Recv.List[0].Names) > 0 && f.info.Uses[id] == f.info.Defs[fd.Recv.List[0].Names[0]] && es.Pos() < condPos {
					condStore = ""
				}
			}
		}
		if okStore {
			c.Check(condStore == "", "C06.R4", cons, "every cell of r is written", fd.Pos(),
				"the derivative is stored only if "+condStore+" and nothing clears the cell otherwise: entries the result matrix held before the call survive where the derivative is zero")
		}
	})
}

// checkValueGuardedWrites (C06.R5): generic algorithm code runs on AD scalars, whose state is value plus derivatives. A
// write that is skipped because the element already HOLDS THE VALUE (`if x.GetFloat64() != v { x.SetFloat64(v) }`) leaves
// the element's derivatives in place: a recycled buffer entry that is exactly 0 or 1 but carries derivatives of an earlier
// result then feeds them into the next computation. (Re)initialisations must be unconditional.
func checkValueGuardedWrites(c *core.Ctx) {
	c.Rule("C06.R5", "algorithm packages: no (re)initialising write to a scalar is skipped because the scalar already holds the value", 0)
	n := 0
	for _, p := range c.LibPkgs() {
		if !strings.Contains(p.PkgPath, "/algorithm/") {
			continue
		}
		info := p.TypesInfo
		pkg := p
		core.EachFunc(p, func(_ *ast.File, fd *ast.FuncDecl) {
			ast.Inspect(fd.Body, func(nd ast.Node) bool {
				is, ok := nd.(*ast.IfStmt)
				if !ok || is.Else != nil || len(is.Body.List) == 0 {
					return true
				}
				be, ok := ast.Unparen(is.Cond).(*ast.BinaryExpr)
				if !ok || (be.Op != token.NEQ && be.Op != token.EQL) {
					return true
				}
				// the scalar whose value is read
				readOf := func(e ast.Expr) string {
					ce, ok := ast.Unparen(e).(*ast.CallExpr)
					if !ok || len(ce.Args) != 0 {
						return ""
					}
					sel, ok := ce.Fun.(*ast.SelectorExpr)
					if !ok || !strings.HasPrefix(sel.Sel.Name, "Get") {
						return ""
					}
					if tv, ok := info.Types[sel.X]; !ok || !strings.Contains(types.TypeString(tv.Type, nil), "Scalar") {
						return ""
					}
					return types.ExprString(sel.X)
				}
				target := readOf(be.X)
				if target == "" {
					target = readOf(be.Y)
				}
				if target == "" || be.Op != token.NEQ {
					return true
				}
				// resolve a local bound in the init statement: if x := M.At(i,j); x.GetFloat64() != v
				n++
				only := true
				for _, st := range is.Body.List {
					es, ok := st.(*ast.ExprStmt)
					if !ok {
						only = false
						break
					}
					ce, ok := es.X.(*ast.CallExpr)
					if !ok {
						only = false
						break
					}
					sel, ok := ce.Fun.(*ast.SelectorExpr)
					if !ok || types.ExprString(sel.X) != target {
						only = false
						break
					}
					switch sel.Sel.Name {
					case "SetFloat64", "SetFloat32", "SetInt", "Reset", "Set":
					default:
						only = false
					}
				}
				if only {
					c.Fail("C06.R5", c.FuncName(pkg, fd), "write to "+target+" not guarded by its own value", is.Pos(),
						"the scalar "+target+" is (re)initialised only if its value differs from the new one: an entry that already holds the value keeps the derivatives of an earlier result, which then enter the next computation (values stay right, first and second derivatives are wrong)")
				}
				return true
			})
		})
	}
	c.Analysed["value_tests_inspected"] = n
	c.OK("C06.R5", "algorithm", "value-guarded writes inspected", token.NoPos, "")
}
