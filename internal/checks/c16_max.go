package checks

import (
	"go/ast"
	"go/token"
	"go/types"
	"strings"

	"verif/internal/core"
)

// checkRunningMaxInit (C16.R1e): a maximum search `if obj.F < g { obj.F = g }` over the log-weights accumulates into
// a receiver field, which survives from one call of Estimate to the next (and Initialize sets it to 0). The search is
// only the maximum of this call's weights if the field is set to -Inf (or to an element of the sequence) in the same
// function on every path to the loop. Otherwise max(0, previous, weights) is used: all weights below e^-745 underflow.
func checkRunningMaxInit(c *core.Ctx) {
	c.Rule("C16.R1e", "a maximum search that accumulates into a receiver field is preceded, in the same function and on every path, by an assignment of -Inf (or of an element of the searched sequence) to that field", 2)
	for _, rel := range []string{"statistics/scalarEstimator", "statistics/vectorEstimator", "statistics/matrixEstimator", "statistics/generic"} {
		p := c.Pkg(rel)
		if p == nil {
			continue
		}
		info := p.TypesInfo
		pkg := p
		core.EachFunc(p, func(_ *ast.File, fd *ast.FuncDecl) {
			if fd.Body == nil || fd.Recv == nil || len(fd.Recv.List[0].Names) == 0 {
				return
			}
			recv := info.Defs[fd.Recv.List[0].Names[0]]
			cons := c.FuncName(pkg, fd)
			var cf *core.FuncCFG
			ast.Inspect(fd.Body, func(n ast.Node) bool {
				fs, ok := n.(*ast.ForStmt)
				if !ok {
					return true
				}
				ast.Inspect(fs.Body, func(m ast.Node) bool {
					is, ok := m.(*ast.IfStmt)
					if !ok || len(is.Body.List) != 1 {
						return true
					}
					be, ok := ast.Unparen(is.Cond).(*ast.BinaryExpr)
					if !ok {
						return true
					}
					as, ok := is.Body.List[0].(*ast.AssignStmt)
					if !ok || len(as.Lhs) != 1 || len(as.Rhs) != 1 || as.Tok != token.ASSIGN {
						return true
					}
					fsel, ok := ast.Unparen(as.Lhs[0]).(*ast.SelectorExpr)
					if !ok {
						return true
					}
					if id, ok := ast.Unparen(fsel.X).(*ast.Ident); !ok || info.Uses[id] != recv {
						return true
					}
					F := fsel.Sel.Name
					isF := func(e ast.Expr) bool {
						s, ok := ast.Unparen(e).(*ast.SelectorExpr)
						if !ok || s.Sel.Name != F {
							return false
						}
						id, ok := ast.Unparen(s.X).(*ast.Ident)
						return ok && info.Uses[id] == recv
					}
					g := types.ExprString(as.Rhs[0])
					// obj.F < g  or  g > obj.F  (maximum search)
					isMax := (be.Op == token.LSS || be.Op == token.LEQ) && isF(be.X) && types.ExprString(be.Y) == g ||
						(be.Op == token.GTR || be.Op == token.GEQ) && isF(be.Y) && types.ExprString(be.X) == g
					if !isMax {
						return true
					}
					// an initialising assignment dominating the loop
					if cf == nil {
						cf = core.NewFuncCFG(fd.Body, info)
					}
					good := false
					ast.Inspect(fd.Body, func(k ast.Node) bool {
						a2, ok := k.(*ast.AssignStmt)
						if !ok || a2 == as || len(a2.Lhs) != 1 || len(a2.Rhs) != 1 || !isF(a2.Lhs[0]) || a2.Pos() >= fs.Pos() {
							return true
						}
						okVal := false
						switch r := ast.Unparen(a2.Rhs[0]).(type) {
						case *ast.CallExpr:
							if fn := core.Callee(info, r); fn != nil && fn.Pkg() != nil && fn.Pkg().Path() == "math" && fn.Name() == "Inf" && len(r.Args) == 1 {
								if tv, ok := info.Types[r.Args[0]]; ok && tv.Value != nil && strings.HasPrefix(tv.Value.ExactString(), "-") {
									okVal = true
								}
							}
							// an element of the sequence: the same accessor chain as g with another index
							if !okVal && strings.Contains(g, "(") && strings.Split(types.ExprString(r), "(")[0] == strings.Split(g, "(")[0] {
								okVal = true
							}
						case *ast.UnaryExpr:
							if r.Op == token.SUB && strings.Contains(types.ExprString(r.X), "MaxFloat64") {
								okVal = true
							}
						}
						if okVal && cf.NodeDominates(a2.Pos(), is.Cond.Pos()) {
							good = true
						}
						return true
					})
					c.Check(good, "C16.R1e", cons, "maximum search into "+F, is.Pos(),
						"the maximum of the sequence is accumulated into the receiver field "+F+" without setting it to -Inf first in this function: the value left by an earlier call (or the 0 of Initialize) takes part in the maximum")
					return true
				})
				return true
			})
		})
	}
}
