package checks

import (
	"fmt"
	"go/ast"
	"go/types"
	"os"
	"strings"

	"golang.org/x/tools/go/packages"

	"verif/internal/core"
	"verif/internal/sym"
	"verif/internal/vn"
)

// ---------------------------------------------------------------------------
// The mixture EM step, interpreted symbolically (C16.R3, C17.R9)
// ---------------------------------------------------------------------------
//
// (*Mixture).EmStep is interpreted by the abstract interpreter for a mixture of m = 2 components and N = 2 (quick) or 3
// (thorough) observations. The data set is opaque: the log-density of component c at observation l is the atom lp_c_l;
// the log-weights of the model of the iteration are the atoms lw_c; optional observation weights (nested EM) are meta_l,
// optional multiplicities (summarised data) are n_l. The thread pool is modelled by a schedule: a map from job index to
// thread id; jobs are run one after the other (freedom from races between them is the business of the other C17 rules).
// Every slot of the per-thread temporaries starts out holding "stale" atoms, as it does when the buffers are reused.
//
// The results — returned likelihood, responsibilities gamma[c][l] handed to the component estimators, new log-weights —
// are terms over these atoms. They are compared with the textbook E-step/M-step:
//
//     Z_l         = sum_c exp(lw_c + lp_c_l)
//     likelihood  = sum_l n_l log Z_l
//     gamma[c][l] = lw_c + lp_c_l - log Z_l + meta_l + log n_l
//     lw'_c       = log( sum_l exp(gamma[c][l]) / sum_c' sum_l exp(gamma[c'][l]) )
//
// (C16.R3), and across schedules (C17.R9): all jobs on thread 0, all on thread 1 of a pool of two (thread 0 never runs a
// job: its stale slot must not leak into the result), and split over both threads.

type emVariant struct {
	name      string
	n         int   // observations
	threads   int   // pool size
	schedule  []int // job -> thread
	meta      bool
	counts    bool
	withGamma bool
}

type emResult struct {
	lik   *sym.Term
	gamma [][]*sym.Term // [component][observation]; nil if gamma is not kept
	lw    []*sym.Term
}

const emM = 2

func namedType(p *packages.Package, name string) types.Type {
	o := p.Types.Scope().Lookup(name)
	if o == nil {
		return nil
	}
	return o.Type()
}

func runEmStep(p *packages.Package, d *declIndex, v emVariant) (*emResult, string) {
	fd := findMethodDecl(p, "Mixture", "EmStep")
	if fd == nil {
		return nil, "(*Mixture).EmStep not found"
	}
	tMix, tTmp := namedType(p, "Mixture"), namedType(p, "EmTmp")
	if tMix == nil || tTmp == nil {
		return nil, "types Mixture/EmTmp not found"
	}
	S := func(f string, a ...interface{}) *sym.Term { return sym.Sym(fmt.Sprintf(f, a...)) }
	loc := func(t *sym.Term) *vn.Loc { return &vn.Loc{Name: "tmp", Val: t, Consistent: true} }
	mixture := func(tag string) *vn.StructVal {
		var ws []*sym.Term
		for c := 0; c < emM; c++ {
			ws = append(ws, S("%s_%d", tag, c))
		}
		return &vn.StructVal{T: tMix, Fields: map[string]vn.Value{"LogWeights": vn.NewLocalVec(ws...),
			"t1": loc(S("stale_t1")), "t2": loc(S("stale_t2")), "t3": loc(S("stale_t3"))}}
	}
	m1 := mixture("stale_lw")
	m2 := mixture("lw")
	var tmp vn.ListVal
	for t := 0; t < v.threads; t++ {
		var g []*sym.Term
		var w []*sym.Term
		for c := 0; c < emM; c++ {
			g = append(g, S("stale_gt_%d_%d", t, c))
			w = append(w, S("stale_w_%d_%d", t, c))
		}
		st := &vn.StructVal{T: tTmp, Fields: map[string]vn.Value{
			"gammaTmp": vn.NewLocalVec(g...), "logWeights": vn.NewLocalVec(w...),
			"likelihood": S("stale_l_%d", t), "init": &vn.BoolVal{Known: true, V: true}}}
		if v.withGamma {
			gl := &vn.ListVal{}
			for c := 0; c < emM; c++ {
				var cells []*sym.Term
				for l := 0; l < v.n; l++ {
					cells = append(cells, S("stale_g_%d_%d_%d", t, c, l))
				}
				gl.Elems = append(gl.Elems, vn.NewLocalVec(cells...))
			}
			st.Fields["gamma"] = gl
		} else {
			st.Fields["gamma"] = vn.NilVal{}
		}
		tmp.Elems = append(tmp.Elems, st)
	}
	var meta vn.Value = vn.NilVal{}
	if v.meta {
		var ms []*sym.Term
		for l := 0; l < v.n; l++ {
			ms = append(ms, S("meta_%d", l))
		}
		meta = vn.NewLocalVec(ms...)
	}
	cur := 0 // thread executing the current job
	hook := func(it *vn.Interp, o *vn.OpaqueVal, name string, args []vn.Value, call *ast.CallExpr) (vn.Value, bool) {
		switch o.What {
		case "dataset":
			switch name {
			case "LogPdf":
				r, ok := args[0].(*vn.Loc)
				c, ok1 := args[1].(*sym.Term)
				l, ok2 := args[2].(*sym.Term)
				if !ok || !ok1 || !ok2 {
					it.Undecide(call.Pos(), "data.LogPdf arguments")
				}
				r.Val = S("lp_%s_%s", c, l)
				r.Written = true
				return vn.NilVal{}, true
			case "GetCounts":
				if !v.counts {
					return vn.NilVal{}, true
				}
				sl := &vn.SliceVal{Len: sym.Int(int64(v.n)), Cells: map[string]*sym.Term{}}
				for l := 0; l < v.n; l++ {
					sl.Cells[sym.Int(int64(l)).String()] = S("n_%d", l)
				}
				return sl, true
			case "GetN":
				return sym.Int(int64(v.n)), true
			}
		case "pool":
			switch name {
			case "NewJobGroup":
				return &vn.OpaqueVal{What: "jobgroup"}, true
			case "NumberOfThreads":
				return sym.Int(int64(v.threads)), true
			case "GetThreadId":
				return sym.Int(int64(cur)), true
			case "Wait":
				return vn.NilVal{}, true
			case "AddRangeJob":
				lo, ok1 := args[0].(*sym.Term)
				hi, ok2 := args[1].(*sym.Term)
				cl, ok3 := args[3].(*vn.Closure)
				if !ok1 || !ok2 || !ok3 {
					it.Undecide(call.Pos(), "AddRangeJob arguments")
				}
				a, okA := lo.IsConst()
				b, okB := hi.IsConst()
				if !okA || !okB {
					it.Undecide(call.Pos(), "AddRangeJob range is not constant")
				}
				for l := a.Num().Int64(); l < b.Num().Int64(); l++ {
					cur = 0
					if int(l) < len(v.schedule) {
						cur = v.schedule[l]
					}
					r := it.Apply(cl, []vn.Value{sym.Int(l), o, vn.NilVal{}}, call.Pos())
					if _, isErr := r.(*vn.ErrVal); isErr {
						cur = 0
						return r, true
					}
				}
				cur = 0
				return vn.NilVal{}, true
			}
		}
		return nil, false
	}
	cfg := vn.Config{Pkg: p, TypeName: "Real64", Spec: distSpec, InlineOps: inlineOps, Decl: d.find, ParamNames: true, MaxDepth: 6, UnrollConst: true,
		RecvStruct: m1, Opaque: hook,
		ParamList: []vn.Value{m1, m2, &vn.OpaqueVal{What: "dataset"}, meta, &tmp, &vn.OpaqueVal{What: "pool"}}}
	paths, und := vn.Run(cfg, fd)
	if und != nil {
		return nil, "EmStep left the interpreter's idiom set: " + und.Msg
	}
	if len(paths) != 1 {
		return nil, fmt.Sprintf("EmStep has %d paths on a fully determined input (expected 1)", len(paths))
	}
	pa := paths[0]
	if pa.Panic {
		return nil, "EmStep panics"
	}
	ret, ok := pa.Ret.(vn.Tuple)
	if !ok || len(ret) != 2 {
		return nil, "EmStep result is not (likelihood, error)"
	}
	if _, isErr := ret[1].(*vn.ErrVal); isErr {
		return nil, "EmStep returns an error on a well-formed input"
	}
	res := &emResult{}
	res.lik, _ = ret[0].(*sym.Term)
	if res.lik == nil {
		return nil, "EmStep likelihood is not a number"
	}
	lw, _ := m1.Fields["LogWeights"].(*vn.LocalVec)
	for c := 0; c < emM; c++ {
		res.lw = append(res.lw, lw.Cell(c))
	}
	if v.withGamma {
		g0, _ := tmp.Elems[0].(*vn.StructVal).Fields["gamma"].(*vn.ListVal)
		if g0 == nil {
			return nil, "tmp[0].gamma is not a list after the step"
		}
		for c := 0; c < emM; c++ {
			var row []*sym.Term
			gv, _ := g0.Elems[c].(*vn.LocalVec)
			for l := 0; l < v.n; l++ {
				row = append(row, gv.Cell(l))
			}
			res.gamma = append(res.gamma, row)
		}
	}
	return res, ""
}

// emReference: the textbook step for the variant.
func emReference(v emVariant) *emResult {
	S := func(f string, a ...interface{}) *sym.Term { return sym.Sym(fmt.Sprintf(f, a...)) }
	res := &emResult{lik: sym.Zero()}
	gam := make([][]*sym.Term, emM)
	for l := 0; l < v.n; l++ {
		Z := sym.Zero()
		for c := 0; c < emM; c++ {
			Z = sym.Add(Z, sym.Fn("exp", sym.Add(S("lw_%d", c), S("lp_%d_%d", c, l))))
		}
		lz := sym.Fn("log", Z)
		if v.counts {
			res.lik = sym.Add(res.lik, sym.Mul(S("n_%d", l), lz))
		} else {
			res.lik = sym.Add(res.lik, lz)
		}
		for c := 0; c < emM; c++ {
			g := sym.Sub(sym.Add(S("lw_%d", c), S("lp_%d_%d", c, l)), lz)
			if v.meta {
				g = sym.Add(g, S("meta_%d", l))
			}
			if v.counts {
				g = sym.Add(g, sym.Fn("log", S("n_%d", l)))
			}
			gam[c] = append(gam[c], g)
		}
	}
	res.gamma = gam
	tot := sym.Zero()
	sums := make([]*sym.Term, emM)
	for c := 0; c < emM; c++ {
		sums[c] = sym.Zero()
		for l := 0; l < v.n; l++ {
			sums[c] = sym.Add(sums[c], sym.Fn("exp", gam[c][l]))
		}
		tot = sym.Add(tot, sums[c])
	}
	for c := 0; c < emM; c++ {
		res.lw = append(res.lw, sym.Fn("log", sym.Div(sums[c], tot)))
	}
	return res
}

func sameTerm(a, b *sym.Term) bool {
	if a == nil || b == nil {
		return false
	}
	if sym.Equal(a, b) {
		return true
	}
	// log-domain results: compare after exponentiation (log(u/v) vs log u - log v)
	return sym.Equal(sym.Fn("exp", a), sym.Fn("exp", b)) || sym.Equal(sym.LogExpand(a), sym.LogExpand(b))
}

func staleFree(t *sym.Term) bool {
	return t != nil && !strings.Contains(t.String(), "stale")
}

func emVariants(thorough bool) []emVariant {
	vs := []emVariant{
		{name: "plain, one thread", n: 2, threads: 1, schedule: []int{0, 0}, withGamma: true},
		{name: "observation weights (nested EM), one thread", n: 2, threads: 1, schedule: []int{0, 0}, meta: true, withGamma: true},
		{name: "summarised data (counts), one thread", n: 2, threads: 1, schedule: []int{0, 0}, counts: true, withGamma: true},
		{name: "plain, two threads, all jobs on thread 1", n: 2, threads: 2, schedule: []int{1, 1}, withGamma: true},
		{name: "plain, two threads, all jobs on thread 0 (thread 1 idle)", n: 2, threads: 2, schedule: []int{0, 0}, withGamma: true},
		{name: "plain, two threads, one job each", n: 2, threads: 2, schedule: []int{0, 1}, withGamma: true},
		{name: "plain, two threads, one job each (reversed)", n: 2, threads: 2, schedule: []int{1, 0}, withGamma: true},
		{name: "weights only (no gamma kept), two threads, all jobs on thread 1", n: 2, threads: 2, schedule: []int{1, 1}},
	}
	if thorough {
		vs = append(vs,
			emVariant{name: "plain, three observations, three threads, thread 0 idle", n: 3, threads: 3, schedule: []int{1, 2, 1}, withGamma: true},
			emVariant{name: "counts and observation weights, two threads split", n: 2, threads: 2, schedule: []int{1, 0}, meta: true, counts: true, withGamma: true},
			emVariant{name: "plain, three observations, one thread", n: 3, threads: 1, schedule: []int{0, 0, 0}, withGamma: true})
	}
	return vs
}

// checkEmStep registers the obligations of rule (C16.R3 or C17.R9) — both rules read the same interpretation; C16 keeps
// the comparison with the textbook step, C17 the independence of schedule and stale slots.
func checkEmStep(c *core.Ctx, forC17 bool) {
	p := c.Pkg("statistics/generic")
	rule := "C16.R3"
	if forC17 {
		rule = "C17.R9"
	}
	cons := "statistics/generic.(*Mixture).EmStep"
	if p == nil {
		c.Unknown(rule, cons, "package loaded", 0, "statistics/generic not loaded")
		return
	}
	d := newDeclIndex(c)
	for _, v := range emVariants(c.Tier == "thorough") {
		if forC17 && v.threads == 1 {
			continue
		}
		res, msg := runEmStep(p, d, v)
		if res == nil {
			c.Unknown(rule, cons, "interpreted ["+v.name+"]", 0, msg)
			continue
		}
		ref := emReference(v)
		if os.Getenv("EMDEBUG") != "" {
			fmt.Fprintln(os.Stderr, v.name, "\n lik", res.lik, "\n ref", ref.lik, "\n lw0", res.lw[0], "\n ref", ref.lw[0])
		}
		pos := findMethodDecl(p, "Mixture", "EmStep").Pos()
		if forC17 {
			ok := staleFree(res.lik) && sameTerm(res.lik, ref.lik)
			for i := range res.lw {
				ok = ok && staleFree(res.lw[i]) && sameTerm(res.lw[i], ref.lw[i])
			}
			for i := range res.gamma {
				for l := range res.gamma[i] {
					ok = ok && staleFree(res.gamma[i][l]) && sameTerm(res.gamma[i][l], ref.gamma[i][l])
				}
			}
			c.Check(ok, rule, cons, "result independent of schedule and of stale thread slots ["+v.name+"]", pos,
				"with the jobs distributed as in this schedule the likelihood, responsibilities or weights differ from those of the sequential run or depend on what an idle thread's slot held before the step: a contribution is lost, counted twice, or a slot that ran no job is merged")
			continue
		}
		c.Check(staleFree(res.lik) && sameTerm(res.lik, ref.lik), rule, cons, "returned likelihood is the log-likelihood of the model of this iteration ["+v.name+"]", pos,
			"EmStep returns "+shortTerm(res.lik)+" where the data log-likelihood under the weights and component densities of this iteration is "+shortTerm(ref.lik))
		for i := range res.lw {
			c.Check(staleFree(res.lw[i]) && sameTerm(res.lw[i], ref.lw[i]), rule, cons, fmt.Sprintf("new weight of component %d is the normalised sum of its responsibilities [%s]", i, v.name), pos,
				"the M-step sets the log-weight to "+shortTerm(res.lw[i])+" where the maximiser of the expected complete-data log-likelihood is "+shortTerm(ref.lw[i]))
		}
		for i := range res.gamma {
			for l := range res.gamma[i] {
				c.Check(staleFree(res.gamma[i][l]) && sameTerm(res.gamma[i][l], ref.gamma[i][l]), rule, cons, fmt.Sprintf("responsibility of component %d for observation %d is its posterior (times observation weight and multiplicity) [%s]", i, l, v.name), pos,
					"the E-step hands the component estimator the log-weight "+shortTerm(res.gamma[i][l])+" where the posterior responsibility is "+shortTerm(ref.gamma[i][l])+": with other weights the M-step of the component does not maximise the expected log-likelihood and the EM likelihood can decrease")
			}
		}
	}
}
