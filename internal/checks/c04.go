package checks

import (
	"fmt"
	"go/ast"
	"go/token"
	"go/types"
	"strings"

	"golang.org/x/tools/go/packages"

	"verif/internal/core"
	"verif/internal/sym"
	"verif/internal/vn"
)

func init() { Registry["C04"] = checkC04 }

// ---------------------------------------------------------------------------
// C04 (exact-arithmetic clause) — solves, inverses and determinants satisfy their defining equations
// ---------------------------------------------------------------------------
//
// The property is stated with a backward-error tolerance; what is decided here is its exact-arithmetic core, a
// necessary condition: interpreted over the field of rational functions in the entries of a generic n x n matrix
// (n = 2, 3; all entries independent symbols), the routines return results that satisfy the defining equations
// identically, on every branch of the data-dependent pivot search. If that fails for some pivot order, the routine
// returns a wrong answer for all matrices with that pivot order, however well conditioned. Nothing about rounding is
// decided.
//
//   gaussJordan(a, x, b)                 on every pivot branch:  A0 * x_out = x_in (so x_out = inv(A0) for x_in = I),
//                                                                A0 * b_out = b_in, a_out = I
//   gaussJordanUpperTriangular(r, x, b)  R * x_out = x_in for upper-triangular x_in (the identity), R * b_out = b_in
//   backSubstitution(R, b)               R * x = b
//   determinantNaive(a)                  equals the Leibniz sum over permutations (n = 2, 3; 4 in the thorough tier)
//
// The permutation methods the solver calls on its operands (PermuteRows, Permute) are not modelled: their bodies are
// taken from the dense real container types and interpreted on the local objects.

func c04Borrow(root *packages.Package) func(kind, name string) (*ast.FuncDecl, *types.Info) {
	return func(kind, name string) (*ast.FuncDecl, *types.Info) {
		T := "DenseReal64Matrix"
		if kind == "vector" {
			T = "DenseReal64Vector"
		}
		fd := core.FindMethod(root, T, name)
		if fd == nil {
			return nil, nil
		}
		return fd, root.TypesInfo
	}
}

func symMat(n int, tag string, upper bool) *vn.LocalMat {
	return vn.NewLocalMat(n, n, func(i, j int) *sym.Term {
		if upper && j < i {
			return sym.Zero()
		}
		return symf("%s_%d_%d", tag, i, j)
	})
}

func leibniz(n int, a func(i, j int) *sym.Term) *sym.Term {
	perm := make([]int, n)
	used := make([]bool, n)
	total := sym.Zero()
	var rec func(k int)
	rec = func(k int) {
		if k == n {
			inv := 0
			for i := 0; i < n; i++ {
				for j := i + 1; j < n; j++ {
					if perm[i] > perm[j] {
						inv++
					}
				}
			}
			t := sym.One()
			for i := 0; i < n; i++ {
				t = sym.Mul(t, a(i, perm[i]))
			}
			if inv%2 == 1 {
				t = sym.Neg(t)
			}
			total = sym.Add(total, t)
			return
		}
		for v := 0; v < n; v++ {
			if !used[v] {
				used[v] = true
				perm[k] = v
				rec(k + 1)
				used[v] = false
			}
		}
	}
	rec(0)
	return total
}

func checkC04(c *core.Ctx) error {
	if err := c.Load(packages.LoadSyntax); err != nil {
		return err
	}
	c.Explanation = "The exact-arithmetic core of C04 is decided by abstract interpretation: Gauss-Jordan elimination (general and upper-triangular), back substitution and the cofactor determinant are interpreted on generic n x n matrices whose entries are independent symbols (n = 2, 3), forking at every comparison of the pivot search; on every branch the results must satisfy the defining equations (A*X = I, A*x = b, R*x = b, Leibniz formula) as identities of rational functions. The permutation methods applied to the operands are interpreted from the container source, not modelled. Rounding, conditioning and the option dispatch of the Run functions are not decided."
	c.Rule("C04.R1", "Gauss-Jordan elimination on a generic symbolic matrix returns, on every pivot branch, X with A*X = X_in, b with A*b = b_in and reduces A to the identity", 6)
	c.Rule("C04.R2", "the upper-triangular variant and back substitution solve R*x = b exactly for a generic upper-triangular R", 4)
	c.Rule("C04.R3", "the cofactor determinant equals the Leibniz sum over permutations", 2)
	root := c.Root
	d := newDeclIndex(c)
	sizes := []int{2, 3}
	// (n = 4 has 64 pivot branches over 4x4 rational functions and does not finish in ten minutes)
	// ---- R1 / R2: Gauss-Jordan
	if p := c.Pkg("algorithm/gaussJordan"); p == nil {
		c.Unknown("C04.R1", "algorithm/gaussJordan", "package loaded", token.NoPos, "not loaded")
	} else {
		for _, variant := range []struct {
			fn    string
			upper bool
			rule  string
		}{{"gaussJordan", false, "C04.R1"}, {"gaussJordanUpperTriangular", true, "C04.R2"}} {
			fd := findFuncDecl(p, variant.fn)
			cons := "algorithm/gaussJordan." + variant.fn
			if fd == nil {
				c.Unknown(variant.rule, cons, "function found", token.NoPos, "not found")
				continue
			}
			type sizeMask struct {
				n    int
				mask []bool
			}
			var cases []sizeMask
			for _, n := range sizes {
				all := make([]bool, n)
				for i := range all {
					all[i] = true
				}
				cases = append(cases, sizeMask{n, all})
			}
			cases = append(cases, sizeMask{3, []bool{true, false, true}}) // Submatrix option: rows/columns 0 and 2 only
			for _, sm := range cases {
				n := sm.n
				act := func(i int) bool { return sm.mask[i] }
				tag := fmt.Sprintf("[n=%d]", n)
				if !act(1) {
					tag = "[n=3, submatrix {0,2}]"
				}
				sub := &vn.ListVal{}
				for i := 0; i < n; i++ {
					sub.Elems = append(sub.Elems, &vn.BoolVal{Known: true, V: sm.mask[i]})
				}
				var bs []*sym.Term
				for i := 0; i < n; i++ {
					bs = append(bs, symf("b_%d", i))
				}
				cfg := vn.Config{Pkg: p, TypeName: "Real64", Spec: distSpec, InlineOps: inlineOps, Decl: d.find, ParamNames: true, MaxDepth: 8, UnrollConst: true, FiniteSyms: true,
					Borrow: c04Borrow(root), ParamFresh: true,
					ParamList: []vn.Value{symMat(n, "a", variant.upper), symMat(n, "x", variant.upper), vn.NewLocalVec(bs...), sub}}
				paths, und := vn.Run(cfg, fd)
				if und != nil {
					c.Unknown(variant.rule, cons, "interpreted "+tag, und.Pos, variant.fn+" left the interpreter's idiom set: "+und.Msg)
					continue
				}
				A0 := func(i, j int) *sym.Term {
					if variant.upper && j < i {
						return sym.Zero()
					}
					return symf("a_%d_%d", i, j)
				}
				nGood, nDegenerate := 0, 0
				for _, pa := range paths {
					if _, isErr := pa.Ret.(*vn.ErrVal); isErr {
						continue
					}
					// a branch that assumes an equality between entries (x == 0 shortcuts) is not a generic input: the identities
					// are claimed for branches made of strict inequalities only
					degenerate := false
					for _, cv := range pa.Conds {
						if cv.C.Op == "eq" && cv.V {
							degenerate = true
						}
					}
					if degenerate {
						nDegenerate++
						continue
					}
					if pa.Panic {
						c.Fail(variant.rule, cons, "no panic on a generic matrix "+tag+" ["+shortConds(pa.CondString())+"]", fd.Pos(), "a branch of the elimination panics on a generic (non-singular) input")
						continue
					}
					nGood++
					if !variant.upper {
						// partial pivoting: every comparison of the pivot search is between the magnitudes of two candidate entries
						badCmp := ""
						for _, cv := range pa.Conds {
							if cv.C.Op != "lt" || cv.C.A == nil || cv.C.B == nil {
								continue
							}
							isAbs := func(t *sym.Term) bool {
								as := t.Atoms()
								return len(as) == 1 && as[0].Kind == "fabs" && len(as[0].Args) == 1 && sym.Equal(t, sym.Fn("fabs", as[0].Args[0]))
							}
							if !isAbs(cv.C.A) || !isAbs(cv.C.B) {
								badCmp = cv.C.String()
							}
						}
						c.Check(badCmp == "", "C04.R1", cons, "pivot search compares magnitudes "+tag+"["+shortConds(pa.CondString())+"]", fd.Pos(),
							"the pivot search decides on "+shortTerm(sym.Sym(badCmp))+", which is not a comparison between the absolute values of two candidate entries: a signed or stale value can make the search pick a tiny or zero pivot (a regular matrix is then reported singular, or accuracy is lost)")
					}
					am, _ := pa.Params[0].(*vn.LocalMat)
					xm, _ := pa.Params[1].(*vn.LocalMat)
					bv, _ := pa.Params[2].(*vn.LocalVec)
					br := "[" + shortConds(pa.CondString()) + "]"
					if am == nil || xm == nil || bv == nil {
						c.Unknown(variant.rule, cons, "operands tracked "+tag+br, fd.Pos(), "operands are not local objects")
						continue
					}
					bad := ""
					for i := 0; i < n && bad == ""; i++ {
						for j := 0; j < n && bad == ""; j++ {
							if !act(i) || !act(j) {
								// entries outside the selected sub-matrix are not part of the defining equations (the final row
								// permutation moves whole physical rows, so they may be exchanged between selected rows)
								continue
							}
							s := sym.Zero()
							for k := 0; k < n; k++ {
								if !act(k) {
									continue
								}
								if xm.Cell(k, j) == nil {
									bad = "x has an unset cell"
									break
								}
								s = sym.Add(s, sym.Mul(A0(i, k), xm.Cell(k, j)))
							}
							xin := symf("x_%d_%d", i, j)
							if variant.upper && j < i {
								xin = sym.Zero() // the triangular variant is specified for an upper-triangular right-hand side (the identity)
							}
							if bad == "" && !sym.Equal(s, xin) {
								bad = fmt.Sprintf("(A*X)[%d,%d] = %s, expected the entry x_%d_%d of the right-hand side", i, j, shortTerm(s), i, j)
							}
						}
					}
					c.Check(bad == "", variant.rule, cons, "A*X_out = X_in "+tag+br, fd.Pos(), bad+": on this pivot branch the routine does not return the solution of the matrix equation (for X_in = I: not the inverse)")
					bad = ""
					for i := 0; i < n && bad == ""; i++ {
						if !act(i) {
							continue
						}
						s := sym.Zero()
						for k := 0; k < n; k++ {
							if !act(k) {
								continue
							}
							if bv.Cell(k) == nil {
								bad = "b has an unset cell"
								break
							}
							s = sym.Add(s, sym.Mul(A0(i, k), bv.Cell(k)))
						}
						if bad == "" && !sym.Equal(s, symf("b_%d", i)) {
							bad = fmt.Sprintf("(A*b_out)[%d] = %s, expected b_%d", i, shortTerm(s), i)
						}
					}
					c.Check(bad == "", variant.rule, cons, "A*b_out = b_in "+tag+br, fd.Pos(), bad+": on this pivot branch the routine does not return the solution of the linear system")
					if !variant.upper {
						bad = ""
						for i := 0; i < n; i++ {
							for j := 0; j < n; j++ {
								want := sym.Zero()
								if i == j {
									want = sym.One()
								}
								if !act(i) || !act(j) {
									continue
								}
								if t := am.Cell(i, j); t == nil || !sym.Equal(t, want) {
									bad = fmt.Sprintf("a_out[%d,%d] = %s", i, j, shortTerm(t))
								}
							}
						}
						c.Check(bad == "", variant.rule, cons, "A is reduced to the identity "+tag+br, fd.Pos(), bad)
					}
				}
				c.Check(nGood >= 1, variant.rule, cons, "has a successful branch "+tag, fd.Pos(), "no successful branch")
				c.Analysed[fmt.Sprintf("%s_branches_%s", variant.fn, tag)] = nGood
				if nDegenerate > 0 {
					c.Analysed[fmt.Sprintf("%s_degenerate_branches_skipped_%s", variant.fn, tag)] = nDegenerate
				}
			}
		}
	}
	// ---- R2: back substitution
	if p := c.Pkg("algorithm/backSubstitution"); p == nil {
		c.Unknown("C04.R2", "algorithm/backSubstitution", "package loaded", token.NoPos, "not loaded")
	} else if fd := findFuncDecl(p, "backSubstitution"); fd == nil {
		c.Unknown("C04.R2", "algorithm/backSubstitution.backSubstitution", "function found", token.NoPos, "not found")
	} else {
		cons := "algorithm/backSubstitution.backSubstitution"
		for _, n := range sizes {
			tag := fmt.Sprintf("[n=%d]", n)
			var bs, xs []*sym.Term
			for i := 0; i < n; i++ {
				bs = append(bs, symf("b_%d", i))
				xs = append(xs, symf("stale_x_%d", i))
			}
			X := vn.NewLocalVec(xs...)
			in := &vn.StructVal{T: namedType(p, "InSitu"), Fields: map[string]vn.Value{"A": symMat(n, "a", true), "X": X, "T": &vn.Loc{Name: "t", Val: symf("stale_t"), Consistent: true}}}
			cfg := vn.Config{Pkg: p, TypeName: "Real64", Spec: distSpec, InlineOps: inlineOps, Decl: d.find, ParamNames: true, MaxDepth: 8, UnrollConst: true, FiniteSyms: true,
				Borrow: c04Borrow(root), ParamList: []vn.Value{in, vn.NewLocalVec(bs...)}}
			paths, und := vn.Run(cfg, fd)
			if und != nil {
				c.Unknown("C04.R2", cons, "interpreted "+tag, und.Pos, "backSubstitution left the interpreter's idiom set: "+und.Msg)
				continue
			}
			if len(paths) != 1 || paths[0].Panic {
				c.Unknown("C04.R2", cons, "single path "+tag, fd.Pos(), fmt.Sprintf("%d paths", len(paths)))
				continue
			}
			bad := ""
			for i := 0; i < n && bad == ""; i++ {
				s := sym.Zero()
				for k := i; k < n; k++ {
					if X.Cell(k) == nil || !staleFree(X.Cell(k)) {
						bad = fmt.Sprintf("x[%d] is not computed", k)
						break
					}
					s = sym.Add(s, sym.Mul(symf("a_%d_%d", i, k), X.Cell(k)))
				}
				if bad == "" && !sym.Equal(s, symf("b_%d", i)) {
					bad = fmt.Sprintf("(R*x)[%d] = %s, expected b_%d", i, shortTerm(s), i)
				}
			}
			c.Check(bad == "", "C04.R2", cons, "R*x = b "+tag, fd.Pos(), bad)
		}
	}
	// ---- R3: determinant
	if p := c.Pkg("algorithm/determinant"); p == nil {
		c.Unknown("C04.R3", "algorithm/determinant", "package loaded", token.NoPos, "not loaded")
	} else if fd := findFuncDecl(p, "determinantNaive"); fd == nil {
		c.Unknown("C04.R3", "algorithm/determinant.determinantNaive", "function found", token.NoPos, "not found")
	} else {
		cons := "algorithm/determinant.determinantNaive"
		ds := []int{1, 2, 3}
		if c.Tier == "thorough" {
			ds = append(ds, 4)
		}
		for _, n := range ds {
			tag := fmt.Sprintf("[n=%d]", n)
			cfg := vn.Config{Pkg: p, TypeName: "Real64", Spec: distSpec, InlineOps: inlineOps, Decl: d.find, ParamNames: true, MaxDepth: 10, UnrollConst: true, FiniteSyms: true,
				Borrow: c04Borrow(root), ParamList: []vn.Value{symMat(n, "a", false)}}
			paths, und := vn.Run(cfg, fd)
			if und != nil {
				c.Unknown("C04.R3", cons, "interpreted "+tag, und.Pos, "determinantNaive left the interpreter's idiom set: "+und.Msg)
				continue
			}
			var got *sym.Term
			nGeneric := 0
			for _, pa := range paths {
				// branches that assume an entry to be exactly zero are not generic inputs
				degenerate := false
				for _, cv := range pa.Conds {
					if cv.C.Op == "eq" && cv.V {
						degenerate = true
					}
				}
				if degenerate {
					continue
				}
				nGeneric++
				if l, ok := pa.Ret.(*vn.Loc); ok {
					got = l.Val
				}
			}
			if nGeneric != 1 {
				got = nil
			}
			want := leibniz(n, func(i, j int) *sym.Term { return symf("a_%d_%d", i, j) })
			c.Check(got != nil && sym.Equal(got, want), "C04.R3", cons, "equals the Leibniz formula "+tag, fd.Pos(),
				"the cofactor expansion yields "+shortTerm(got)+", the determinant is "+shortTerm(want))
		}
	}
	checkInverseRun(c, d)
	checkDeterminantRun(c, d)
	checkPermutedRows(c)
	checkRunningMaximum(c)
	return nil
}

// checkDeterminantRun (C04.R5): determinant.Run with its options on a generic symmetric 2x2 matrix: the default route
// (cofactors), PositiveDefinite (product of the squared Cholesky diagonal) and PositiveDefinite+LogScale (its logarithm)
// all equal a_00*a_11 - a_10^2 (resp. its logarithm).
func checkDeterminantRun(c *core.Ctx, d *declIndex) {
	c.Rule("C04.R5", "determinant.Run: the default, PositiveDefinite and PositiveDefinite+LogScale routes agree with the Leibniz determinant (log-determinant equal to its logarithm) on a generic symmetric 2x2 matrix", 3)
	p := c.Pkg("algorithm/determinant")
	cons := "algorithm/determinant.Run"
	if p == nil {
		c.Unknown("C04.R5", cons, "package loaded", token.NoPos, "not loaded")
		return
	}
	fd := findFuncDecl(p, "Run")
	tPD, tLS := namedType(p, "PositiveDefinite"), namedType(p, "LogScale")
	if fd == nil || tPD == nil || tLS == nil {
		c.Unknown("C04.R5", cons, "function and option types found", token.NoPos, "not found")
		return
	}
	const n = 2
	A := func(i, j int) *sym.Term {
		if j > i {
			i, j = j, i
		}
		return symf("a_%d_%d", i, j)
	}
	det := leibniz(n, A)
	opt := func(t types.Type) vn.Value {
		return &vn.StructVal{T: t, Fields: map[string]vn.Value{"Value": &vn.BoolVal{Known: true, V: true}}}
	}
	for _, md := range []struct {
		name string
		args []vn.Value
		log  bool
	}{{"default", nil, false}, {"PositiveDefinite", []vn.Value{opt(tPD)}, false}, {"PositiveDefinite, LogScale", []vn.Value{opt(tPD), opt(tLS)}, true}} {
		tag := "[" + md.name + "]"
		cfg := vn.Config{Pkg: p, TypeName: "Real64", Spec: distSpec, InlineOps: inlineOps, Decl: d.find, ParamNames: true, MaxDepth: 10, UnrollConst: true, FiniteSyms: true,
			Borrow: c04Borrow(c.Root), ParamFresh: true, ParamList: []vn.Value{vn.NewLocalMat(n, n, A), &vn.ListVal{Elems: md.args}}}
		paths, und := vn.Run(cfg, fd)
		if und != nil {
			c.Unknown("C04.R5", cons, "interpreted "+tag, und.Pos, "Run left the interpreter's idiom set: "+und.Msg)
			continue
		}
		nGood := 0
		for _, pa := range paths {
			ret, _ := pa.Ret.(vn.Tuple)
			if len(ret) != 2 || pa.Panic {
				continue
			}
			if _, isErr := ret[1].(*vn.ErrVal); isErr {
				continue
			}
			l, _ := ret[0].(*vn.Loc)
			if l == nil {
				continue
			}
			nGood++
			got := l.Val
			ok := false
			if md.log {
				e := foldRoots(sym.Fn("exp", got))
				ok = sym.Equal(e, det) || sym.Equal(foldRoots(sym.Fn("exp", sym.LogExpand(got))), det)
			} else {
				ok = sym.Equal(got, det) || sym.Equal(foldRoots(got), det)
			}
			c.Check(ok, "C04.R5", cons, "equals the determinant "+tag, fd.Pos(),
				"Run returns "+shortTerm(foldRoots(got))+" where the determinant is "+det.String()+" (its logarithm on the log scale)")
		}
		c.Check(nGood == 1, "C04.R5", cons, "exactly one successful path "+tag, fd.Pos(), fmt.Sprintf("%d successful paths", nGood))
	}
}

// checkInverseRun (C04.R4): matrixInverse.Run interpreted with its option dispatch: no option, UpperTriangular{true}
// and PositiveDefinite{true}, each with a fresh InSitu and with a caller-supplied InSitu whose buffers hold the stale
// contents of an earlier call. The result X must satisfy A*X = I (n = 2, 3 for the general and triangular routes, n = 2
// for the Cholesky route, whose radicals are eliminated by r^2 = radicand).
func checkInverseRun(c *core.Ctx, d *declIndex) {
	c.Rule("C04.R4", "matrixInverse.Run with its options (none, UpperTriangular, PositiveDefinite) and with fresh or reused in-situ buffers returns X with A*X = I", 8)
	p := c.Pkg("algorithm/matrixInverse")
	cons := "algorithm/matrixInverse.Run"
	if p == nil {
		c.Unknown("C04.R4", cons, "package loaded", token.NoPos, "not loaded")
		return
	}
	fd := findFuncDecl(p, "Run")
	if fd == nil {
		c.Unknown("C04.R4", cons, "function found", token.NoPos, "not found")
		return
	}
	tInSitu, tUT, tPD := namedType(p, "InSitu"), namedType(p, "UpperTriangular"), namedType(p, "PositiveDefinite")
	if tInSitu == nil || tUT == nil || tPD == nil {
		c.Unknown("C04.R4", cons, "option types found", fd.Pos(), "InSitu/UpperTriangular/PositiveDefinite not found")
		return
	}
	type mode struct {
		name  string
		upper bool
		pd    bool
		sizes []int
	}
	for _, md := range []mode{{"no option", false, false, []int{2, 3}}, {"UpperTriangular", true, false, []int{2, 3}}, {"PositiveDefinite", false, true, []int{2}}} {
		for _, n := range md.sizes {
			for _, reuse := range []bool{false, true} {
				tag := fmt.Sprintf("[%s, n=%d, fresh buffers]", md.name, n)
				if reuse {
					tag = fmt.Sprintf("[%s, n=%d, reused in-situ buffers]", md.name, n)
				}
				A := func(i, j int) *sym.Term {
					if md.upper && j < i {
						return sym.Zero()
					}
					if md.pd && j > i {
						i, j = j, i
					}
					return symf("a_%d_%d", i, j)
				}
				args := &vn.ListVal{}
				if md.upper {
					args.Elems = append(args.Elems, &vn.StructVal{T: tUT, Fields: map[string]vn.Value{"Value": &vn.BoolVal{Known: true, V: true}}})
				}
				if md.pd {
					args.Elems = append(args.Elems, &vn.StructVal{T: tPD, Fields: map[string]vn.Value{"Value": &vn.BoolVal{Known: true, V: true}}})
				}
				if reuse {
					var bs []*sym.Term
					for i := 0; i < n; i++ {
						bs = append(bs, symf("stale_b_%d", i))
					}
					in := &vn.StructVal{T: types.NewPointer(tInSitu), Fields: map[string]vn.Value{
						"Id": staleMat(n, n, "id"), "A": staleMat(n, n, "wa"), "B": vn.NewLocalVec(bs...)}}
					args.Elems = append(args.Elems, in)
				}
				cfg := vn.Config{Pkg: p, TypeName: "Real64", Spec: distSpec, InlineOps: inlineOps, Decl: d.find, ParamNames: true, MaxDepth: 10, UnrollConst: true, FiniteSyms: true,
					Borrow: c04Borrow(c.Root), ParamFresh: true, ParamList: []vn.Value{vn.NewLocalMat(n, n, A), args}}
				paths, und := vn.Run(cfg, fd)
				if und != nil {
					c.Unknown("C04.R4", cons, "interpreted "+tag, und.Pos, "Run left the interpreter's idiom set: "+und.Msg)
					continue
				}
				nGood := 0
				for _, pa := range paths {
					ret, _ := pa.Ret.(vn.Tuple)
					if len(ret) != 2 {
						continue
					}
					if _, isErr := ret[1].(*vn.ErrVal); isErr {
						continue
					}
					degenerate := false
					for _, cv := range pa.Conds {
						if cv.C.Op == "eq" && cv.V {
							degenerate = true
						}
					}
					if degenerate {
						continue
					}
					br := "[" + shortConds(pa.CondString()) + "]"
					if pa.Panic {
						c.Fail("C04.R4", cons, "no panic on a generic matrix "+tag+br, fd.Pos(), "a branch panics on a generic input")
						continue
					}
					X, _ := ret[0].(*vn.LocalMat)
					if X == nil {
						c.Unknown("C04.R4", cons, "result is a matrix "+tag+br, fd.Pos(), "result is not a local matrix")
						continue
					}
					nGood++
					bad := ""
					for i := 0; i < n && bad == ""; i++ {
						for j := 0; j < n && bad == ""; j++ {
							s := sym.Zero()
							for k := 0; k < n; k++ {
								if X.Cell(k, j) == nil {
									bad = "the result has an unset cell"
									break
								}
								s = sym.Add(s, sym.Mul(A(i, k), X.Cell(k, j)))
							}
							want := sym.Zero()
							if i == j {
								want = sym.One()
							}
							if bad == "" && (!staleFree(s) || !(sym.Equal(s, want) || sym.Equal(foldRoots(s), want))) {
								bad = fmt.Sprintf("(A*X)[%d,%d] = %s", i, j, shortTerm(foldRoots(s)))
							}
						}
					}
					c.Check(bad == "", "C04.R4", cons, "A*X = I "+tag+br, fd.Pos(), bad+": the returned matrix is not the inverse (a stale entry of a reused buffer, or a wrong route through the option dispatch)")
				}
				c.Check(nGood >= 1, "C04.R4", cons, "has a successful generic branch "+tag, fd.Pos(), "no successful branch")
			}
		}
	}
}

// checkPermutedRows (C04.R6): the pivoting routines never move rows; they keep a row permutation p and address row r of
// every operand as p[r]. In a function that swaps entries of such a permutation, every element access to the working
// matrices and the right-hand side therefore has a row index of the form p[...]: an access with a plain index reads the
// row that was at that position before the exchanges (the pivot search then compares against the wrong row and can keep
// a zero pivot although a non-zero candidate exists).
func checkPermutedRows(c *core.Ctx) {
	c.Rule("C04.R6", "pivoting Gauss-Jordan: every row index of an element access is taken through the row permutation", 40)
	p := c.Pkg("algorithm/gaussJordan")
	if p == nil {
		c.Unknown("C04.R6", "algorithm/gaussJordan", "package loaded", token.NoPos, "not loaded")
		return
	}
	info := p.TypesInfo
	core.EachFunc(p, func(_ *ast.File, fd *ast.FuncDecl) {
		// the permutation: a slice of ints whose entries are swapped
		var perm types.Object
		ast.Inspect(fd.Body, func(n ast.Node) bool {
			as, ok := n.(*ast.AssignStmt)
			if !ok || len(as.Lhs) != 2 || len(as.Rhs) != 2 {
				return true
			}
			l0, ok0 := as.Lhs[0].(*ast.IndexExpr)
			l1, ok1 := as.Lhs[1].(*ast.IndexExpr)
			if !ok0 || !ok1 {
				return true
			}
			if types.ExprString(l0) == types.ExprString(as.Rhs[1]) && types.ExprString(l1) == types.ExprString(as.Rhs[0]) {
				if id, ok := l0.X.(*ast.Ident); ok {
					if sl, ok := info.TypeOf(id).Underlying().(*types.Slice); ok {
						if b, ok := sl.Elem().Underlying().(*types.Basic); ok && b.Info()&types.IsInteger != 0 {
							perm = info.Uses[id]
						}
					}
				}
			}
			return true
		})
		if perm == nil {
			return
		}
		cons := c.FuncName(p, fd)
		// operands: parameters of matrix/vector type
		operands := map[types.Object]bool{}
		for _, f := range fd.Type.Params.List {
			for _, nm := range f.Names {
				o := info.Defs[nm]
				tn := namedOfType(o.Type())
				if strings.HasSuffix(tn, "Matrix") || strings.HasSuffix(tn, "Vector") {
					operands[o] = true
				}
			}
		}
		k := 0
		ast.Inspect(fd.Body, func(n ast.Node) bool {
			ce, ok := n.(*ast.CallExpr)
			if !ok || len(ce.Args) == 0 {
				return true
			}
			sel, ok := ce.Fun.(*ast.SelectorExpr)
			if !ok {
				return true
			}
			switch sel.Sel.Name {
			case "At", "AT", "ConstAt", "MagicAt":
			default:
				return true
			}
			id, ok := ast.Unparen(sel.X).(*ast.Ident)
			if !ok || !operands[info.Uses[id]] {
				return true
			}
			row := ast.Unparen(ce.Args[0])
			ok2 := false
			if ix, isIx := row.(*ast.IndexExpr); isIx {
				if b, isId := ast.Unparen(ix.X).(*ast.Ident); isId && info.Uses[b] == perm {
					ok2 = true
				}
			}
			k++
			c.Check(ok2, "C04.R6", cons, fmt.Sprintf("access #%d %s", k, types.ExprString(ce)), ce.Pos(),
				"the row index "+types.ExprString(row)+" is not taken through the row permutation "+perm.Name()+": after a row exchange this addresses a different row than every other access of the routine")
			return true
		})
	})
}

// checkRunningMaximum (C04.R7): the pivot search is an arg-max loop: `if candidate > reference { maxrow = j }`. The
// reference has to be the value at the row chosen so far: either it is an expression that reads the argmax variable, or
// it is a cached variable that the same branch updates together with the argmax. A cached reference that is never
// updated selects the last row that beats the first candidate, not the largest.
func checkRunningMaximum(c *core.Ctx) {
	c.Rule("C04.R7", "pivot search: the reference of the arg-max comparison reads the current arg-max, or is a cached value updated in the same branch", 2)
	p := c.Pkg("algorithm/gaussJordan")
	if p == nil {
		c.Unknown("C04.R7", "algorithm/gaussJordan", "package loaded", token.NoPos, "not loaded")
		return
	}
	info := p.TypesInfo
	pkg := p
	core.EachFunc(p, func(_ *ast.File, fd *ast.FuncDecl) {
		if fd.Body == nil {
			return
		}
		cons := c.FuncName(pkg, fd)
		ast.Inspect(fd.Body, func(n ast.Node) bool {
			fs, ok := n.(*ast.ForStmt)
			if !ok {
				return true
			}
			init, ok := fs.Init.(*ast.AssignStmt)
			if !ok || len(init.Lhs) != 1 {
				return true
			}
			lv, ok := init.Lhs[0].(*ast.Ident)
			if !ok {
				return true
			}
			loopVar := info.Defs[lv]
			ast.Inspect(fs.Body, func(m ast.Node) bool {
				is, ok := m.(*ast.IfStmt)
				if !ok {
					return true
				}
				be, ok := ast.Unparen(is.Cond).(*ast.BinaryExpr)
				if !ok || (be.Op != token.GTR && be.Op != token.LSS && be.Op != token.GEQ && be.Op != token.LEQ) {
					return true
				}
				// body assigns argmax = loop variable
				var argmax types.Object
				assigned := map[types.Object]bool{}
				for _, st := range is.Body.List {
					as, ok := st.(*ast.AssignStmt)
					if !ok {
						continue
					}
					for i, l := range as.Lhs {
						lid, ok := l.(*ast.Ident)
						if !ok {
							continue
						}
						o := info.Uses[lid]
						assigned[o] = true
						if i < len(as.Rhs) {
							if rid, ok := ast.Unparen(as.Rhs[i]).(*ast.Ident); ok && info.Uses[rid] == loopVar && loopVar != nil {
								argmax = o
							}
						}
					}
				}
				if argmax == nil {
					return true
				}
				// the side of the comparison that does not read the loop variable is the reference
				reads := func(e ast.Expr, o types.Object) bool {
					f := false
					ast.Inspect(e, func(k ast.Node) bool {
						if id, ok := k.(*ast.Ident); ok && info.Uses[id] == o {
							f = true
						}
						return true
					})
					return f
				}
				ref := be.Y
				if reads(be.Y, loopVar) && !reads(be.X, loopVar) {
					ref = be.X
				}
				good := reads(ref, argmax)
				if !good {
					// cached reference: every variable it reads must be updated in the branch
					good = true
					any := false
					ast.Inspect(ref, func(k ast.Node) bool {
						if id, ok := k.(*ast.Ident); ok {
							if v, ok := info.Uses[id].(*types.Var); ok && !v.IsField() && v.Parent() != v.Pkg().Scope() {
								if b, ok := v.Type().Underlying().(*types.Basic); ok && b.Info()&types.IsNumeric != 0 {
									any = true
									if !assigned[v] {
										good = false
									}
								}
							}
						}
						return true
					})
					good = good && any
				}
				c.Check(good, "C04.R7", cons, "arg-max "+argmax.Name(), is.Pos(),
					"the comparison "+types.ExprString(is.Cond)+" that selects "+argmax.Name()+" uses a reference that neither reads "+argmax.Name()+" nor is updated with it: the search keeps the last row that beats the first candidate instead of the largest")
				return true
			})
			return true
		})
	})
}
