package checks

import (
	"go/ast"
	"go/token"
	"go/types"
	"os"
	"sort"
	"strings"

	"golang.org/x/tools/go/packages"

	"verif/internal/core"
)

// C12.R6 — clone completeness: a Clone method that builds its result field by field (composite literal, or a zero
// value followed by field assignments) carries every field of the source over; a field that is left out holds the zero
// value in the clone, so the clone is not observably equal to its source (a transposed view cloned without its
// `transposed` flag reads its storage in the wrong order). A field counts as carried over when the expression stored
// into it mentions the same field of the source (`f: src.f`, `f: src.f.Clone()`, a loop that copies src.f) or the whole
// source is copied first (`r = *src`). Fields that are scratch space by review are listed with the reason.

// cloneScratchFields: fields a clone may leave at their zero value, by review.
var cloneScratchFields = map[string]string{}

func checkCloneComplete(c *core.Ctx) {
	c.Rule("C12.R6", "a Clone built field by field carries every field of the source over (no field of the clone is left at its zero value or taken from a different field)", 20)
	checkCloneLiteralAgreesWithConstructor(c)
	checkCloneUnconditional(c)
	checkEstimatorCloneData(c)
	n := 0
	for _, p := range c.LibPkgs() {
		pkg := p
		if pkg.PkgPath != "github.com/pbenner/autodiff" && !(os.Getenv("C12_SURVEY") != "" && strings.Contains(pkg.PkgPath, "Distribution")) {
			// the statistics packages build their clones through constructors and reset estimator state on purpose; the
			// rule is about the containers and scalars, whose clones the algorithms rely on
			continue
		}
		core.EachFunc(pkg, func(file *ast.File, fd *ast.FuncDecl) {
			if fd.Name.Name != "Clone" && fd.Name.Name != "clone" {
				return
			}
			if fd.Recv == nil || len(fd.Recv.List) == 0 || len(fd.Recv.List[0].Names) == 0 {
				return
			}
			info := pkg.TypesInfo
			recvObj := info.Defs[fd.Recv.List[0].Names[0]]
			if recvObj == nil {
				return
			}
			rt := recvObj.Type()
			if pt, ok := rt.(*types.Pointer); ok {
				rt = pt.Elem()
			}
			named, ok := rt.(*types.Named)
			if !ok {
				return
			}
			st, ok := named.Underlying().(*types.Struct)
			if !ok || st.NumFields() == 0 {
				return
			}
			T := named.Obj().Name()
			cons := pkgRel(pkg) + "(" + T + ")." + fd.Name.Name
			// covered[f] = expression stored into field f of the result ("*" = whole copy)
			covered := map[string][]ast.Expr{}
			whole := false
			constructed := false
			isRecv := func(e ast.Expr) bool {
				e = ast.Unparen(e)
				if s, ok := e.(*ast.StarExpr); ok {
					e = ast.Unparen(s.X)
				}
				id, ok := e.(*ast.Ident)
				return ok && info.Uses[id] == recvObj
			}
			sameType := func(t types.Type) bool {
				if pt, ok := t.(*types.Pointer); ok {
					t = pt.Elem()
				}
				return types.Identical(t, named)
			}
			var results []types.Object // locals that hold the result
			addLit := func(cl *ast.CompositeLit) {
				for i, el := range cl.Elts {
					if kv, ok := el.(*ast.KeyValueExpr); ok {
						if id, ok := kv.Key.(*ast.Ident); ok {
							covered[id.Name] = append(covered[id.Name], kv.Value)
						}
					} else if i < st.NumFields() {
						covered[st.Field(i).Name()] = append(covered[st.Field(i).Name()], el)
					}
				}
			}
			var fromExpr func(e ast.Expr)
			fromExpr = func(e ast.Expr) {
				e = ast.Unparen(e)
				if u, ok := e.(*ast.UnaryExpr); ok && u.Op == token.AND {
					e = ast.Unparen(u.X)
				}
				switch v := e.(type) {
				case *ast.CompositeLit:
					if tv, ok := info.Types[v]; ok && sameType(tv.Type) {
						addLit(v)
					}
				case *ast.StarExpr:
					if isRecv(v) {
						whole = true
					}
				case *ast.Ident:
					if info.Uses[v] == recvObj {
						whole = true
						return
					}
					o := info.Uses[v]
					for _, r := range results {
						if r == o {
							return
						}
					}
					if o != nil {
						results = append(results, o)
					}
				case *ast.CallExpr:
					constructed = true
				}
			}
			ast.Inspect(fd.Body, func(x ast.Node) bool {
				if _, isLit := x.(*ast.FuncLit); isLit {
					return false
				}
				if r, ok := x.(*ast.ReturnStmt); ok && len(r.Results) >= 1 {
					fromExpr(r.Results[0])
				}
				return true
			})
			// definitions of and field stores into the result locals (fixpoint over one level of locals is enough here)
			for pass := 0; pass < 2; pass++ {
				ast.Inspect(fd.Body, func(x ast.Node) bool {
					as, ok := x.(*ast.AssignStmt)
					if !ok {
						return true
					}
					for i, l := range as.Lhs {
						var rhs ast.Expr
						if len(as.Rhs) == len(as.Lhs) {
							rhs = as.Rhs[i]
						}
						switch lv := ast.Unparen(l).(type) {
						case *ast.Ident:
							o := info.Defs[lv]
							if o == nil {
								o = info.Uses[lv]
							}
							for _, r := range results {
								if r == o && rhs != nil && pass == 0 {
									fromExpr(rhs)
								}
							}
						case *ast.SelectorExpr:
							if id, ok := ast.Unparen(lv.X).(*ast.Ident); ok {
								for _, r := range results {
									if info.Uses[id] == r && rhs != nil && pass == 1 {
										covered[lv.Sel.Name] = append(covered[lv.Sel.Name], rhs)
									}
								}
							}
						}
					}
					return true
				})
			}
			if constructed && !whole && len(covered) == 0 {
				return // built by a constructor: R1 decides freshness, completeness is the constructor's business
			}
			n++
			mentionsField := func(e ast.Expr, f string) bool {
				found := false
				ast.Inspect(e, func(x ast.Node) bool {
					if s, ok := x.(*ast.SelectorExpr); ok && s.Sel.Name == f && isRecv(s.X) {
						found = true
					}
					return true
				})
				return found
			}
			mentionsRecv := func(e ast.Expr) bool {
				found := false
				ast.Inspect(e, func(x ast.Node) bool {
					if id, ok := x.(*ast.Ident); ok && info.Uses[id] == recvObj {
						found = true
					}
					return true
				})
				return found
			}
			var names []string
			for i := 0; i < st.NumFields(); i++ {
				names = append(names, st.Field(i).Name())
			}
			sort.Strings(names)
			for _, f := range names {
				detail := "field " + f + " carried over"
				key := pkgRel(pkg) + T + "." + f
				if why, ok := cloneScratchFields[key]; ok {
					c.OK("C12.R6", cons, detail, fd.Pos(), "scratch by review: "+why)
					continue
				}
				exprs := covered[f]
				if len(exprs) == 0 {
					if whole || (constructed && !whole && len(covered) > 0 && false) {
						c.OK("C12.R6", cons, detail, fd.Pos(), "")
						continue
					}
					if constructed {
						c.OK("C12.R6", cons, detail, fd.Pos(), "left to the constructor that builds the result")
						continue
					}
					c.Fail("C12.R6", cons, detail, fd.Pos(), "the clone is built field by field but field "+f+" of "+T+" is never set: it holds the zero value in the clone whatever the source holds, so the clone is not observably equal to its source")
					continue
				}
				ok := whole
				for _, e := range exprs {
					if mentionsField(e, f) {
						ok = true
					}
					// a method of the source that returns a value of the field's type (indexClone() for the embedded index)
					if call, isCall := ast.Unparen(e).(*ast.CallExpr); isCall {
						if sel, isSel := ast.Unparen(call.Fun).(*ast.SelectorExpr); isSel && isRecv(sel.X) {
							if tv, has := info.Types[e]; has {
								for i := 0; i < st.NumFields(); i++ {
									if st.Field(i).Name() == f && types.Identical(tv.Type, st.Field(i).Type()) && st.Field(i).Embedded() {
										ok = true
									}
								}
							}
						}
					}
				}
				if !ok {
					// an expression that does not read the source at all (a fresh scratch object) is a reset, not a mix-up
					reads := false
					for _, e := range exprs {
						reads = reads || mentionsRecv(e)
					}
					if !reads {
						c.Fail("C12.R6", cons, detail, exprs[0].Pos(), "field "+f+" of the clone is set to "+types.ExprString(exprs[0])+", which does not depend on the source: the clone does not carry the source's "+f)
						continue
					}
					c.Fail("C12.R6", cons, detail, exprs[0].Pos(), "field "+f+" of the clone is set from "+types.ExprString(exprs[0])+", which reads the source but not its field "+f)
					continue
				}
				c.OK("C12.R6", cons, detail, fd.Pos(), "")
			}
		})
	}
	c.Analysed["field_by_field_clones"] = n
}

func pkgRel(p *packages.Package) string {
	s := strings.TrimPrefix(p.PkgPath, "github.com/pbenner/autodiff")
	s = strings.TrimPrefix(s, "/")
	if s == "" {
		return ""
	}
	return s + "."
}

// checkCloneLiteralAgreesWithConstructor (C12.R6, distribution packages): a Clone written as a composite literal &T{...}
// sets every field that the constructor's composite literal of T sets. A field the constructor allocates and the clone
// leaves out is nil/zero in the clone, and the first method that uses it fails or computes with a zero.
func checkCloneLiteralAgreesWithConstructor(c *core.Ctx) {
	for _, p := range c.LibPkgs() {
		if !strings.Contains(p.PkgPath, "/statistics/") {
			continue
		}
		pkg := p
		info := pkg.TypesInfo
		litKeys := func(cl *ast.CompositeLit) map[string]bool {
			m := map[string]bool{}
			for _, e := range cl.Elts {
				if kv, ok := e.(*ast.KeyValueExpr); ok {
					if id, ok := kv.Key.(*ast.Ident); ok {
						m[id.Name] = true
					}
				}
			}
			return m
		}
		namedOfLit := func(cl *ast.CompositeLit) *types.Named {
			tv, ok := info.Types[cl]
			if !ok {
				return nil
			}
			n, _ := tv.Type.(*types.Named)
			return n
		}
		// constructor literals by type: composite literals of T inside functions named New*
		ctor := map[*types.Named]map[string]bool{}
		core.EachFunc(pkg, func(_ *ast.File, fd *ast.FuncDecl) {
			if fd.Recv != nil || !strings.HasPrefix(fd.Name.Name, "New") {
				return
			}
			ast.Inspect(fd.Body, func(n ast.Node) bool {
				cl, ok := n.(*ast.CompositeLit)
				if !ok {
					return true
				}
				if nt := namedOfLit(cl); nt != nil {
					if _, isStruct := nt.Underlying().(*types.Struct); isStruct {
						ks := litKeys(cl)
						if len(ks) > 0 {
							if ctor[nt] == nil {
								ctor[nt] = map[string]bool{}
							}
							for k := range ks {
								ctor[nt][k] = true
							}
						}
					}
				}
				return true
			})
		})
		core.EachFunc(pkg, func(_ *ast.File, fd *ast.FuncDecl) {
			if fd.Recv == nil || fd.Name.Name != "Clone" {
				return
			}
			// the clone is a single returned composite literal
			var lit *ast.CompositeLit
			for _, st := range fd.Body.List {
				if rs, ok := st.(*ast.ReturnStmt); ok && len(rs.Results) == 1 {
					e := ast.Unparen(rs.Results[0])
					if ue, ok := e.(*ast.UnaryExpr); ok && ue.Op == token.AND {
						e = ue.X
					}
					if cl, ok := e.(*ast.CompositeLit); ok {
						lit = cl
					}
				}
			}
			if lit == nil {
				return
			}
			nt := namedOfLit(lit)
			if nt == nil || ctor[nt] == nil {
				return
			}
			have := litKeys(lit)
			var missing []string
			for k := range ctor[nt] {
				if !have[k] {
					missing = append(missing, k)
				}
			}
			sort.Strings(missing)
			cons := pkgRel(pkg) + "(" + nt.Obj().Name() + ").Clone"
			c.Check(len(missing) == 0, "C12.R6", cons, "clone literal sets every field the constructor sets", lit.Pos(),
				"the constructor of "+nt.Obj().Name()+" sets "+strings.Join(missing, ", ")+", the composite literal of Clone does not: the field is nil/zero in the clone and the first method that uses it fails or computes with a zero")
		})
	}
}

// checkCloneUnconditional (C12.R8): a Clone of a sparse container copies every stored entry. A copy that is made only when
// a test on the entry's value holds drops entries whose value is zero but which carry derivatives (or were stored on
// purpose), so the clone is not observably equal to its source.
func checkCloneUnconditional(c *core.Ctx) {
	c.Rule("C12.R8", "Clone of the sparse containers copies every stored entry: no copy inside the loop over the stored values is guarded by a test on the entry", 8)
	pkg := c.Root
	info := pkg.TypesInfo
	core.EachFunc(pkg, func(_ *ast.File, fd *ast.FuncDecl) {
		if fd.Recv == nil || !strings.HasPrefix(fd.Name.Name, "Clone") || !strings.Contains(core.RecvTypeName(fd), "Sparse") {
			return
		}
		cons := "(" + core.RecvTypeName(fd) + ")." + fd.Name.Name
		ast.Inspect(fd.Body, func(n ast.Node) bool {
			rs, ok := n.(*ast.RangeStmt)
			if !ok {
				return true
			}
			if !strings.HasSuffix(types.ExprString(rs.X), ".values") && !strings.HasSuffix(types.ExprString(rs.X), ".indices") {
				return true
			}
			var vars []types.Object
			for _, e := range []ast.Expr{rs.Key, rs.Value} {
				if id, ok := e.(*ast.Ident); ok && id.Name != "_" {
					vars = append(vars, info.Defs[id])
				}
			}
			bad := token.NoPos
			ast.Inspect(rs.Body, func(m ast.Node) bool {
				is, ok := m.(*ast.IfStmt)
				if !ok {
					return true
				}
				ast.Inspect(is.Cond, func(k ast.Node) bool {
					if id, ok := k.(*ast.Ident); ok {
						for _, v := range vars {
							if v != nil && info.Uses[id] == v && bad == token.NoPos {
								bad = is.Pos()
							}
						}
					}
					return true
				})
				return true
			})
			c.Check(bad == token.NoPos, "C12.R8", cons, "every stored entry copied", func() token.Pos {
				if bad != token.NoPos {
					return bad
				}
				return rs.Pos()
			}(), "the loop over the stored entries copies an entry only under a test on that entry: entries that fail the test (value zero with non-zero derivatives, explicitly stored zeros) are missing from the clone")
			return true
		})
	})
}

// checkEstimatorCloneData (C12.R9): an estimator keeps the data set it was given by SetData in a field x; Estimate reads it.
// The mixture and HMM estimators clone their component estimators after SetData and call Estimate on the clones, so a
// Clone has to carry x over (7 of the 10 estimators with such a field do; the rule requires it of all).
func checkEstimatorCloneData(c *core.Ctx) {
	c.Rule("C12.R9", "Clone of every estimator that stores its data set in a field x copies that field", 8)
	for _, p := range c.LibPkgs() {
		if !strings.HasSuffix(p.PkgPath, "Estimator") {
			continue
		}
		pkg := p
		info := p.TypesInfo
		core.EachFunc(p, func(_ *ast.File, fd *ast.FuncDecl) {
			if fd.Recv == nil || fd.Name.Name != "Clone" || len(fd.Recv.List[0].Names) == 0 {
				return
			}
			robj := info.Defs[fd.Recv.List[0].Names[0]]
			rt := robj.Type()
			if pt, ok := rt.(*types.Pointer); ok {
				rt = pt.Elem()
			}
			nt, ok := rt.(*types.Named)
			if !ok {
				return
			}
			if _, ok := nt.Underlying().(*types.Struct); !ok {
				return
			}
			// a (possibly promoted) field x and a (possibly promoted) method SetData
			fo, _, _ := types.LookupFieldOrMethod(types.NewPointer(nt), true, pkg.Types, "x")
			if v, ok := fo.(*types.Var); !ok || !v.IsField() {
				return
			}
			mo, _, _ := types.LookupFieldOrMethod(types.NewPointer(nt), true, pkg.Types, "SetData")
			if _, ok := mo.(*types.Func); !ok {
				return
			}
			// some method of the type other than SetData/Clone reads the field
			reads := false
			core.EachFunc(pkg, func(_ *ast.File, md *ast.FuncDecl) {
				if md.Recv == nil || core.RecvTypeName(md) != nt.Obj().Name() || md.Name.Name == "SetData" || md.Name.Name == "Clone" {
					return
				}
				ast.Inspect(md.Body, func(n ast.Node) bool {
					if sel, ok := n.(*ast.SelectorExpr); ok && sel.Sel.Name == "x" {
						if info.Uses[sel.Sel] == fo {
							reads = true
						}
					}
					return true
				})
			})
			if !reads {
				return
			}
			copied := false
			ast.Inspect(fd.Body, func(n ast.Node) bool {
				switch v := n.(type) {
				case *ast.AssignStmt:
					for i, l := range v.Lhs {
						if sel, ok := l.(*ast.SelectorExpr); ok && sel.Sel.Name == "x" && i < len(v.Rhs) {
							if rs, ok := ast.Unparen(v.Rhs[i]).(*ast.SelectorExpr); ok && rs.Sel.Name == "x" {
								copied = true
							}
						}
						// whole-object copy: r := *obj
						if i < len(v.Rhs) {
							if st, ok := ast.Unparen(v.Rhs[i]).(*ast.StarExpr); ok {
								if id, ok := st.X.(*ast.Ident); ok && info.Uses[id] == robj {
									copied = true
								}
							}
						}
					}
				case *ast.KeyValueExpr:
					if id, ok := v.Key.(*ast.Ident); ok && id.Name == "x" {
						copied = true
					}
				}
				return true
			})
			c.Check(copied, "C12.R9", pkgRel(pkg)+"("+nt.Obj().Name()+").Clone", "data set field x copied", fd.Pos(),
				"the estimator keeps its data set in the field x, Estimate reads it, but Clone does not copy it: a clone taken after SetData (as the mixture and HMM estimators do with their components) fails in Estimate with a nil data set")
		})
	}
}
