package checks

import (
	"go/ast"
	"go/token"
	"go/types"
	"strings"

	"golang.org/x/tools/go/packages"

	"verif/internal/core"
)

// panicsIn reports whether the block's statements contain a direct panic call (or return of an error).
func blockPanics(info *types.Info, b *ast.BlockStmt) bool {
	found := false
	for _, st := range b.List {
		if es, ok := st.(*ast.ExprStmt); ok {
			if ce, ok := es.X.(*ast.CallExpr); ok {
				if id, ok := ce.Fun.(*ast.Ident); ok && id.Name == "panic" {
					if _, isB := info.Uses[id].(*types.Builtin); isB {
						found = true
					}
				}
			}
		}
	}
	return found
}

// recvAndParamOf: for a call X.m(...), returns whether X is the receiver or the k-th parameter (k, true).
func (f *fnCtx) baseOf(e ast.Expr) (isRecv bool, param int) {
	param = -1
	for {
		switch x := ast.Unparen(e).(type) {
		case *ast.CallExpr:
			s, ok := ast.Unparen(x.Fun).(*ast.SelectorExpr)
			if !ok {
				return false, -1
			}
			e = s.X
			continue
		case *ast.SelectorExpr:
			e = x.X
			continue
		case *ast.Ident:
			o := f.info.Uses[x]
			if o == f.recv {
				return true, -1
			}
			for k, p := range f.params {
				if o == p {
					return false, k
				}
			}
		}
		return false, -1
	}
}

func checkContainerAliasImpl(c *core.Ctx, pkg *packages.Package) {
	info := pkg.TypesInfo
	nElem := 0
	core.EachFunc(pkg, func(_ *ast.File, fd *ast.FuncDecl) {
		T := core.RecvTypeName(fd)
		if T == "" {
			return
		}
		name := fd.Name.Name
		lname := strings.ToLower(name)
		cons := c.FuncName(pkg, fd)
		isVec := strings.HasSuffix(T, "Vector") && !strings.Contains(T, "Const")
		isMat := strings.HasSuffix(T, "Matrix")
		f := newFnCtx(pkg, fd)
		switch {
		case isVec && (lname == "mdotv" || lname == "vdotm"):
			// the vector operand: MdotV(a matrix, b vector) -> 1 ; VdotM(a vector, b matrix) -> 0
			vecPar := 1
			if lname == "vdotm" {
				vecPar = 0
			}
			var guard *ast.IfStmt
			for _, st := range fd.Body.List {
				is, ok := st.(*ast.IfStmt)
				if !ok || !blockPanics(info, is.Body) {
					continue
				}
				be, ok := ast.Unparen(is.Cond).(*ast.BinaryExpr)
				if !ok || be.Op != token.EQL {
					continue
				}
				lr, lp := f.baseOf(be.X)
				rr, rp := f.baseOf(be.Y)
				if (lr && rp == vecPar) || (rr && lp == vecPar) {
					guard = is
				}
			}
			ok := guard != nil
			if ok {
				// guard precedes the first loop
				for _, st := range fd.Body.List {
					if _, isFor := st.(*ast.ForStmt); isFor && st.Pos() < guard.Pos() {
						ok = false
					}
				}
			}
			c.Check(ok, "C08.R4", cons, "result aliasing the vector operand is rejected before the first write", fd.Pos(),
				"no top-level 'if r.AT(0) == b.ConstAt(0) { panic }' style identity test between the receiver and the vector operand precedes the kernel; r.MdotV(a, r) would read elements it has already overwritten")
		case isMat && lname == "mdotm":
			if strings.HasPrefix(T, "Sparse") {
				// both operands rejected through storageLocation
				rejA, rejB := false, false
				for _, st := range fd.Body.List {
					is, ok := st.(*ast.IfStmt)
					if !ok || !blockPanics(info, is.Body) {
						continue
					}
					ast.Inspect(is.Cond, func(n ast.Node) bool {
						be, ok := n.(*ast.BinaryExpr)
						if !ok || be.Op != token.EQL {
							return true
						}
						if !isStorageLoc(be.X) || !isStorageLoc(be.Y) {
							return true
						}
						lr, lp := f.baseOf(be.X)
						rr, rp := f.baseOf(be.Y)
						p := -1
						if lr {
							p = rp
						} else if rr {
							p = lp
						}
						if p == 0 {
							rejA = true
						}
						if p == 1 {
							rejB = true
						}
						return true
					})
				}
				c.Check(rejA && rejB, "C08.R4", cons, "result aliasing either factor is rejected", fd.Pos(),
					"the accumulate-in-place sparse product must reject r sharing storage with a and with b (storageLocation identity)")
				return
			}
			checkDenseMdotM(c, pkg, f, cons)
		}
	})
	// element accessors return references to storage (needed by the identity tests above and by write-through)
	core.EachFunc(pkg, func(_ *ast.File, fd *ast.FuncDecl) {
		T := core.RecvTypeName(fd)
		if !strings.HasPrefix(T, "Dense") || !strings.HasSuffix(T, "Vector") {
			return
		}
		switch fd.Name.Name {
		case "AT", "At", "ConstAt", "MagicAt":
		default:
			return
		}
		nElem++
		cons := c.FuncName(pkg, fd)
		f := newFnCtx(pkg, fd)
		ok := false
		if len(fd.Body.List) == 1 {
			if rs, isR := fd.Body.List[0].(*ast.ReturnStmt); isR && len(rs.Results) == 1 {
				res := ast.Unparen(rs.Results[0])
				switch x := res.(type) {
				case *ast.CompositeLit:
					// T{&v[i]}
					if len(x.Elts) == 1 {
						if ue, isU := ast.Unparen(x.Elts[0]).(*ast.UnaryExpr); isU && ue.Op == token.AND {
							if ix, isI := ast.Unparen(ue.X).(*ast.IndexExpr); isI {
								r, _ := f.baseOf(ix.X)
								ok = r && mentionsParam(f, ix.Index, 0)
							}
						}
					}
				case *ast.IndexExpr:
					// v[i] where elements are pointers
					r, _ := f.baseOf(x.X)
					if tv, has := info.Types[x]; has {
						_, isPtr := tv.Type.(*types.Pointer)
						ok = r && isPtr && mentionsParam(f, x.Index, 0)
					}
				case *ast.CallExpr:
					// delegates to AT/At
					if r, _ := f.baseOf(x); r && (calleeName(x) == "AT" || calleeName(x) == "At") {
						ok = true
					}
				}
			}
		}
		c.Check(ok, "C08.R4", cons, "returns a reference to the stored element", fd.Pos(),
			"element accessor does not return a reference to v[i] (T{&v[i]} or the stored pointer): identity-based alias rejection (r.AT(0) == b.ConstAt(0)) and write-through would silently stop working")
	})
	c.Analysed["dense_vector_element_accessors"] = nElem
}

func isStorageLoc(e ast.Expr) bool {
	ce, ok := ast.Unparen(e).(*ast.CallExpr)
	return ok && calleeName(ce) == "storageLocation"
}

// checkDenseMdotM: if r.storageLocation()==b.storageLocation() { column-buffered } else { row-buffered }
func checkDenseMdotM(c *core.Ctx, pkg *packages.Package, f *fnCtx, cons string) {
	fd := f.fd
	var sel *ast.IfStmt
	for _, st := range fd.Body.List {
		if is, ok := st.(*ast.IfStmt); ok && is.Else != nil {
			sel = is
		}
	}
	if sel == nil {
		c.Fail("C08.R4", cons, "schedule selection", fd.Pos(), "no if/else selecting the buffering schedule from the aliasing of r")
		return
	}
	// condition: r.storageLocation() == <param>.storageLocation()
	be, ok := ast.Unparen(sel.Cond).(*ast.BinaryExpr)
	aliasPar := -1
	if ok && be.Op == token.EQL && isStorageLoc(be.X) && isStorageLoc(be.Y) {
		lr, lp := f.baseOf(be.X)
		rr, rp := f.baseOf(be.Y)
		if lr {
			aliasPar = rp
		} else if rr {
			aliasPar = lp
		}
	}
	c.Check(aliasPar >= 0, "C08.R4", cons, "alias test compares storage locations", sel.Cond.Pos(),
		"the schedule is not selected by r.storageLocation() == x.storageLocation(): object identity misses views (slices, second headers) that share the receiver's storage")
	if aliasPar < 0 {
		return
	}
	elseBlk, _ := sel.Else.(*ast.BlockStmt)
	thenSched := mdotmSchedule(f, sel.Body)
	elseSched := ""
	if elseBlk != nil {
		elseSched = mdotmSchedule(f, elseBlk)
	}
	// r == b  => column-buffered needed ; r == a => row-buffered needed
	need := map[int]string{0: "row", 1: "col"}
	other := map[int]string{0: "col", 1: "row"}
	c.Check(thenSched == need[aliasPar], "C08.R4", cons, "aliased branch buffers the direction still to be read", sel.Body.Pos(),
		"under r sharing storage with factor "+[]string{"a", "b"}[aliasPar]+" the kernel must buffer a whole "+need[aliasPar]+" of r before flushing it (found: "+thenSched+"-buffered)")
	c.Check(elseSched == other[aliasPar], "C08.R4", cons, "other branch buffers for the other factor", sel.Else.Pos(),
		"when r does not share storage with "+[]string{"a", "b"}[aliasPar]+" it may still share it with the other factor, which needs "+other[aliasPar]+"-buffering (found: "+elseSched+")")
	// r aliasing both factors: the aliased branch is safe for one factor only
	otherPar := 1 - aliasPar
	rejected := false
	ast.Inspect(sel.Body, func(n ast.Node) bool {
		if is, ok := n.(*ast.IfStmt); ok && blockPanics(f.info, is.Body) {
			ast.Inspect(is.Cond, func(m ast.Node) bool {
				if b2, ok := m.(*ast.BinaryExpr); ok && b2.Op == token.EQL && isStorageLoc(b2.X) && isStorageLoc(b2.Y) {
					_, lp := f.baseOf(b2.X)
					_, rp := f.baseOf(b2.Y)
					if lp == otherPar || rp == otherPar {
						rejected = true
					}
				}
				return true
			})
		}
		return true
	})
	// or a full buffer: t3 sized n*m -- recognised by make([]T, n*m)
	fullBuf := false
	ast.Inspect(sel.Body, func(n ast.Node) bool {
		if ce, ok := n.(*ast.CallExpr); ok && calleeName(ce) == "make" && len(ce.Args) == 2 {
			if b2, ok := ast.Unparen(ce.Args[1]).(*ast.BinaryExpr); ok && b2.Op == token.MUL {
				fullBuf = true
			}
		}
		return true
	})
	// or the other factor is replaced by a private copy when r shares storage with both (a top-level statement before the
	// schedule selection): if r.loc == a.loc && r.loc == b.loc { <other> = <other>.Clone...() }
	copied := false
	for _, st := range fd.Body.List {
		is, ok := st.(*ast.IfStmt)
		if !ok || is == sel || is.Else != nil || is.Pos() > sel.Pos() {
			continue
		}
		covers := map[int]bool{}
		conj := true
		var walk func(e ast.Expr)
		walk = func(e ast.Expr) {
			b2, ok := ast.Unparen(e).(*ast.BinaryExpr)
			if !ok {
				conj = false
				return
			}
			if b2.Op == token.LAND {
				walk(b2.X)
				walk(b2.Y)
				return
			}
			if b2.Op == token.EQL && isStorageLoc(b2.X) && isStorageLoc(b2.Y) {
				lr, lp := f.baseOf(b2.X)
				rr, rp := f.baseOf(b2.Y)
				if lr && rp >= 0 {
					covers[rp] = true
					return
				}
				if rr && lp >= 0 {
					covers[lp] = true
					return
				}
			}
			conj = false
		}
		walk(is.Cond)
		if !conj || !covers[0] || !covers[1] {
			continue
		}
		for _, bs := range is.Body.List {
			as, ok := bs.(*ast.AssignStmt)
			if !ok || as.Tok != token.ASSIGN || len(as.Lhs) != 1 || len(as.Rhs) != 1 {
				continue
			}
			_, lp := f.baseOf(as.Lhs[0])
			ce, ok := ast.Unparen(as.Rhs[0]).(*ast.CallExpr)
			if !ok || lp != otherPar || !strings.HasPrefix(calleeName(ce), "Clone") {
				continue
			}
			if selx, ok := ast.Unparen(ce.Fun).(*ast.SelectorExpr); ok {
				if _, rp := f.baseOf(selx.X); rp == otherPar {
					copied = true
				}
			}
		}
	}
	c.Check(rejected || fullBuf || copied, "C08.R4", cons, "result aliasing both factors", sel.Body.Pos(),
		"with r sharing storage with both factors (r.MdotM(r, r)) the "+need[aliasPar]+"-buffered schedule re-reads elements of the other factor that were already overwritten; the case is neither rejected nor fully buffered")
}

// mdotmSchedule classifies a triple loop nest writing r: "col" if the outermost loop variable is the
// column index of the write to r, "row" if it is the row index.
func mdotmSchedule(f *fnCtx, blk *ast.BlockStmt) string {
	var outer *ast.ForStmt
	for _, st := range blk.List {
		if fs, ok := st.(*ast.ForStmt); ok {
			outer = fs
			break
		}
	}
	if outer == nil {
		return "none"
	}
	as, ok := outer.Init.(*ast.AssignStmt)
	if !ok || len(as.Lhs) != 1 {
		return "unknown"
	}
	id, ok := as.Lhs[0].(*ast.Ident)
	if !ok {
		return "unknown"
	}
	ov := f.info.Defs[id]
	// find writes to r: r.At(i,j).X(...) / r.AT(i,j).X(...) where X is not a getter, inside 'outer' but not inside the innermost k loop
	res := "unknown"
	ast.Inspect(outer.Body, func(n ast.Node) bool {
		ce, ok := n.(*ast.CallExpr)
		if !ok {
			return true
		}
		s, ok := ast.Unparen(ce.Fun).(*ast.SelectorExpr)
		if !ok || strings.HasPrefix(s.Sel.Name, "Get") {
			return true
		}
		inner, ok := ast.Unparen(s.X).(*ast.CallExpr)
		if !ok || len(inner.Args) != 2 {
			return true
		}
		nm := calleeName(inner)
		if nm != "At" && nm != "AT" {
			return true
		}
		if r, _ := f.baseOf(inner); !r {
			return true
		}
		isOuter := func(e ast.Expr) bool {
			x, ok := ast.Unparen(e).(*ast.Ident)
			return ok && f.info.Uses[x] == ov
		}
		switch {
		case isOuter(inner.Args[0]):
			res = "row"
		case isOuter(inner.Args[1]):
			res = "col"
		}
		return true
	})
	// the flush must happen after the whole inner nest: the write statement is in a loop that is a sibling of the compute loop
	return res
}
