package checks

import (
	"fmt"
	"go/token"
	"go/types"
	"math/big"

	"golang.org/x/tools/go/packages"

	"verif/internal/core"
	"verif/internal/sym"
	"verif/internal/vn"
)

func init() { Registry["C05"] = checkC05 }

// ---------------------------------------------------------------------------
// C05 (exact-arithmetic clause for the Cholesky family)
// ---------------------------------------------------------------------------
//
// cholesky and cholesky_ldl (generic instances) are interpreted on a generic symmetric n x n matrix (n = 2, 3; the
// entries a_i_j, i >= j, are independent symbols). On the success path (all positivity tests passed) the factors must
// have the promised structure (L lower triangular, unit diagonal for LDL, D diagonal) and multiply back to A: L*L' = A
// resp. L*D*L' = A, as identities of terms. Square roots are eliminated by r^2 = radicand. The float32/float64 instances
// are tied to the generic one by C06.R1 (twin kernels). Everything else of C05 (QR, Householder reductions, QR
// algorithm, eigensystem, SVD, matrix square roots, the forced-positive-definite variant) involves data-dependent
// reflections, shifts or iteration to convergence and is not decided.

// foldRoots eliminates square roots whose squares occur: every atom pow(V, 1/2) with a non-symbol radicand is renamed to
// pow(q, 1/2) for a fresh symbol q (squares of that fold to q), then q is replaced by V.
func foldRoots(t *sym.Term) *sym.Term {
	for round := 0; round < 6; round++ {
		sub1 := map[*sym.Atom]*sym.Term{}
		sub2 := map[*sym.Atom]*sym.Term{}
		n := 0
		var visit func(u *sym.Term)
		seen := map[*sym.Atom]bool{}
		visit = func(u *sym.Term) {
			for _, a := range u.Atoms() {
				if seen[a] {
					continue
				}
				seen[a] = true
				for _, arg := range a.Args {
					visit(arg)
				}
				if a.Kind == "pow" && len(a.Args) == 2 {
					if e, ok := a.Args[1].IsConst(); ok && e.Cmp(big.NewRat(1, 2)) == 0 {
						if len(a.Args[0].Atoms()) == 1 && a.Args[0].String() == a.Args[0].Atoms()[0].Name {
							continue // already a plain symbol
						}
						q := fmt.Sprintf("$q%d_%d", round, n)
						n++
						sub1[a] = sym.Fn("pow", sym.Sym(q), sym.Rat(1, 2))
						sub2[sym.SymAtom(q)] = a.Args[0]
					}
				}
			}
		}
		visit(t)
		if n == 0 {
			return t
		}
		t = sym.Subst(sym.Subst(t, sub1), sub2)
	}
	return t
}

func checkC05(c *core.Ctx) error {
	if err := c.Load(packages.LoadSyntax); err != nil {
		return err
	}
	c.Explanation = "One clause of C05 is decided, by abstract interpretation over symbolic terms: the generic Cholesky and LDL factorisations, interpreted on a generic symmetric matrix (n = 2, 3), return on their success path factors with the promised structure (lower triangular L, unit diagonal and diagonal D for LDL) that multiply back to the input as term identities (square roots eliminated through r^2 = radicand). The other factorisations of C05 are not decided."
	c.Rule("C05.R1", "Cholesky: L lower triangular and L*L' = A for a generic symmetric matrix (n = 2, 3)", 2)
	c.Rule("C05.R2", "LDL: L unit lower triangular, D diagonal and L*D*L' = A for a generic symmetric matrix (n = 2, 3)", 2)
	p := c.Pkg("algorithm/cholesky")
	if p == nil {
		c.Unknown("C05.R1", "algorithm/cholesky", "package loaded", token.NoPos, "not loaded")
		return nil
	}
	d := newDeclIndex(c)
	A := func(i, j int) *sym.Term {
		if j > i {
			i, j = j, i
		}
		return symf("a_%d_%d", i, j)
	}
	for _, variant := range []struct {
		fn, rule string
		ldl      bool
	}{{"cholesky", "C05.R1", false}, {"cholesky_ldl", "C05.R2", true}} {
		fd := findFuncDecl(p, variant.fn)
		cons := "algorithm/cholesky." + variant.fn
		if fd == nil {
			c.Unknown(variant.rule, cons, "function found", token.NoPos, "not found")
			continue
		}
		for _, n := range []int{2, 3} {
			tag := fmt.Sprintf("[n=%d]", n)
			Am := vn.NewLocalMat(n, n, func(i, j int) *sym.Term { return A(i, j) })
			zero := func() *vn.LocalMat { return vn.NewLocalMat(n, n, func(i, j int) *sym.Term { return sym.Zero() }) }
			sLoc := &vn.Loc{Name: "s", Val: symf("stale_s"), Consistent: true}
			tLoc := &vn.Loc{Name: "t", Val: symf("stale_t"), Consistent: true}
			params := []vn.Value{Am, zero(), sLoc, tLoc} // cholesky(A, L, s, t)
			if variant.ldl {
				params = []vn.Value{Am, zero(), zero(), sLoc, tLoc} // cholesky_ldl(A, L, D, s, t)
			}
			cfg := vn.Config{Pkg: p, TypeName: "Real64", Spec: distSpec, InlineOps: inlineOps, Decl: d.find, ParamNames: true, MaxDepth: 8, UnrollConst: true, FiniteSyms: true,
				ParamList: params, ParamFresh: true}
			paths, und := vn.Run(cfg, fd)
			if und != nil {
				c.Unknown(variant.rule, cons, "interpreted "+tag, und.Pos, variant.fn+" left the interpreter's idiom set: "+und.Msg)
				continue
			}
			nGood := 0
			for _, pa := range paths {
				ret, _ := pa.Ret.(vn.Tuple)
				if len(ret) != 3 || pa.Panic {
					continue
				}
				if _, isErr := ret[2].(*vn.ErrVal); isErr {
					continue
				}
				L, _ := ret[0].(*vn.LocalMat)
				var D *vn.LocalMat
				if variant.ldl {
					D, _ = ret[1].(*vn.LocalMat)
				}
				if L == nil || (variant.ldl && D == nil) {
					c.Unknown(variant.rule, cons, "factors returned "+tag, fd.Pos(), "result is not a pair of local matrices")
					continue
				}
				nGood++
				bad := ""
				for i := 0; i < n && bad == ""; i++ {
					for j := 0; j < n && bad == ""; j++ {
						if j > i && !L.Cell(i, j).IsZero() {
							bad = fmt.Sprintf("L[%d,%d] = %s above the diagonal", i, j, shortTerm(L.Cell(i, j)))
						}
						if variant.ldl && i == j && !sym.Equal(L.Cell(i, i), sym.One()) {
							bad = fmt.Sprintf("L[%d,%d] = %s, expected a unit diagonal", i, i, shortTerm(L.Cell(i, i)))
						}
						if variant.ldl && i != j && !D.Cell(i, j).IsZero() {
							bad = fmt.Sprintf("D[%d,%d] = %s off the diagonal", i, j, shortTerm(D.Cell(i, j)))
						}
					}
				}
				c.Check(bad == "", variant.rule, cons, "factors have the promised structure "+tag, fd.Pos(), bad)
				bad = ""
				for i := 0; i < n && bad == ""; i++ {
					for j := 0; j < n && bad == ""; j++ {
						s := sym.Zero()
						for k := 0; k < n; k++ {
							t := sym.Mul(L.Cell(i, k), L.Cell(j, k))
							if variant.ldl {
								t = sym.Mul(t, D.Cell(k, k))
							}
							s = sym.Add(s, t)
						}
						if !staleFree(s) || !(sym.Equal(s, A(i, j)) || sym.Equal(foldRoots(s), A(i, j))) {
							bad = fmt.Sprintf("the product of the factors has entry (%d,%d) = %s, the input has %s", i, j, shortTerm(foldRoots(s)), A(i, j))
						}
					}
				}
				c.Check(bad == "", variant.rule, cons, "factors multiply back to the input "+tag, fd.Pos(), bad)
			}
			c.Check(nGood == 1, variant.rule, cons, "exactly one success path "+tag, fd.Pos(), fmt.Sprintf("%d success paths", nGood))
		}
	}
	checkCholeskyRun(c, d)
	return nil
}

// checkCholeskyRun (C05.R3): cholesky.Run with its option dispatch (plain, LDL{true}) and with in-situ buffers that hold
// the factors of an earlier call (stale lower triangle of L, stale diagonal of D): the returned factors multiply back to
// the input and contain nothing of the earlier call.
func checkCholeskyRun(c *core.Ctx, d *declIndex) {
	c.Rule("C05.R3", "cholesky.Run (plain and LDL, fresh and reused in-situ buffers) returns factors that multiply back to the input and do not depend on the buffers' previous contents", 4)
	p := c.Pkg("algorithm/cholesky")
	cons := "algorithm/cholesky.Run"
	fd := findFuncDecl(p, "Run")
	tIn, tLDL := namedType(p, "InSitu"), namedType(p, "LDL")
	if fd == nil || tIn == nil || tLDL == nil {
		c.Unknown("C05.R3", cons, "function and option types found", token.NoPos, "not found")
		return
	}
	const n = 2
	A := func(i, j int) *sym.Term {
		if j > i {
			i, j = j, i
		}
		return symf("a_%d_%d", i, j)
	}
	for _, ldl := range []bool{false, true} {
		for _, reuse := range []bool{false, true} {
			tag := fmt.Sprintf("[ldl=%v, reused buffers=%v]", ldl, reuse)
			args := &vn.ListVal{}
			if ldl {
				args.Elems = append(args.Elems, &vn.StructVal{T: tLDL, Fields: map[string]vn.Value{"Value": &vn.BoolVal{Known: true, V: true}}})
			}
			if reuse {
				prevL := vn.NewLocalMat(n, n, func(i, j int) *sym.Term {
					if j > i {
						return sym.Zero()
					}
					return symf("stale_l_%d_%d", i, j)
				})
				prevD := vn.NewLocalMat(n, n, func(i, j int) *sym.Term {
					if i != j {
						return sym.Zero()
					}
					return symf("stale_d_%d", i)
				})
				args.Elems = append(args.Elems, &vn.StructVal{T: types.NewPointer(tIn), Fields: map[string]vn.Value{"L": prevL, "D": prevD,
					"S": &vn.Loc{Name: "s", Val: symf("stale_s"), Consistent: true}, "T": &vn.Loc{Name: "t", Val: symf("stale_t"), Consistent: true}}})
			}
			cfg := vn.Config{Pkg: p, TypeName: "Real64", Spec: distSpec, InlineOps: inlineOps, Decl: d.find, ParamNames: true, MaxDepth: 10, UnrollConst: true, FiniteSyms: true,
				ParamFresh: true, ParamList: []vn.Value{vn.NewLocalMat(n, n, A), args}}
			paths, und := vn.Run(cfg, fd)
			if und != nil {
				c.Unknown("C05.R3", cons, "interpreted "+tag, und.Pos, "Run left the interpreter's idiom set: "+und.Msg)
				continue
			}
			nGood := 0
			for _, pa := range paths {
				ret, _ := pa.Ret.(vn.Tuple)
				if len(ret) != 3 || pa.Panic {
					continue
				}
				if _, isErr := ret[2].(*vn.ErrVal); isErr {
					continue
				}
				L, _ := ret[0].(*vn.LocalMat)
				D, _ := ret[1].(*vn.LocalMat)
				if L == nil || (ldl && D == nil) {
					continue
				}
				nGood++
				bad := ""
				for i := 0; i < n && bad == ""; i++ {
					for j := 0; j < n && bad == ""; j++ {
						s := sym.Zero()
						for k := 0; k < n; k++ {
							t := sym.Mul(L.Cell(i, k), L.Cell(j, k))
							if ldl {
								t = sym.Mul(t, D.Cell(k, k))
							}
							s = sym.Add(s, t)
						}
						if !staleFree(s) || !(sym.Equal(s, A(i, j)) || sym.Equal(foldRoots(s), A(i, j))) {
							bad = fmt.Sprintf("the product of the factors has entry (%d,%d) = %s, the input has %s", i, j, shortTerm(foldRoots(s)), A(i, j))
						}
					}
				}
				c.Check(bad == "", "C05.R3", cons, "factors multiply back to the input "+tag, fd.Pos(), bad)
			}
			c.Check(nGood == 1, "C05.R3", cons, "exactly one success path "+tag, fd.Pos(), fmt.Sprintf("%d success paths", nGood))
		}
	}
}
