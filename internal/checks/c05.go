package checks

import (
	"fmt"
	"go/ast"
	"go/token"
	"go/types"
	"math/big"
	"strings"

	"golang.org/x/tools/go/packages"

	"verif/internal/core"
	"verif/internal/sym"
	"verif/internal/vn"
)

func init() { Registry["C05"] = checkC05 }

// ---------------------------------------------------------------------------
// C05 (exact-arithmetic clause for the Cholesky family)
// ---------------------------------------------------------------------------
//
// cholesky and cholesky_ldl (generic instances) are interpreted on a generic symmetric n x n matrix (n = 2, 3; the
// entries a_i_j, i >= j, are independent symbols). On the success path (all positivity tests passed) the factors must
// have the promised structure (L lower triangular, unit diagonal for LDL, D diagonal) and multiply back to A: L*L' = A
// resp. L*D*L' = A, as identities of terms. Square roots are eliminated by r^2 = radicand. The float32/float64 instances
// are tied to the generic one by C06.R1 (twin kernels). Everything else of C05 (QR, Householder reductions, QR
// algorithm, eigensystem, SVD, matrix square roots, the forced-positive-definite variant) involves data-dependent
// reflections, shifts or iteration to convergence and is not decided.

// foldRoots eliminates square roots whose squares occur: every atom pow(V, 1/2) with a non-symbol radicand is renamed to
// pow(q, 1/2) for a fresh symbol q (squares of that fold to q), then q is replaced by V.
func foldRoots(t *sym.Term) *sym.Term {
	for round := 0; round < 6; round++ {
		sub1 := map[*sym.Atom]*sym.Term{}
		sub2 := map[*sym.Atom]*sym.Term{}
		n := 0
		var visit func(u *sym.Term)
		seen := map[*sym.Atom]bool{}
		visit = func(u *sym.Term) {
			for _, a := range u.Atoms() {
				if seen[a] {
					continue
				}
				seen[a] = true
				for _, arg := range a.Args {
					visit(arg)
				}
				if a.Kind == "pow" && len(a.Args) == 2 {
					if e, ok := a.Args[1].IsConst(); ok && e.Cmp(big.NewRat(1, 2)) == 0 {
						if len(a.Args[0].Atoms()) == 1 && a.Args[0].String() == a.Args[0].Atoms()[0].Name {
							continue // already a plain symbol
						}
						q := fmt.Sprintf("$q%d_%d", round, n)
						n++
						sub1[a] = sym.Fn("pow", sym.Sym(q), sym.Rat(1, 2))
						sub2[sym.SymAtom(q)] = a.Args[0]
					}
				}
			}
		}
		visit(t)
		if n == 0 {
			return t
		}
		t = sym.Subst(sym.Subst(t, sub1), sub2)
	}
	return t
}

func checkC05(c *core.Ctx) error {
	if err := c.Load(packages.LoadSyntax); err != nil {
		return err
	}
	c.Explanation = "One clause of C05 is decided, by abstract interpretation over symbolic terms: the generic Cholesky and LDL factorisations, interpreted on a generic symmetric matrix (n = 2, 3), return on their success path factors with the promised structure (lower triangular L, unit diagonal and diagonal D for LDL) that multiply back to the input as term identities (square roots eliminated through r^2 = radicand). The other factorisations of C05 are not decided."
	c.Rule("C05.R1", "Cholesky: L lower triangular and L*L' = A for a generic symmetric matrix (n = 2, 3)", 2)
	c.Rule("C05.R2", "LDL: L unit lower triangular, D diagonal and L*D*L' = A for a generic symmetric matrix (n = 2, 3)", 2)
	p := c.Pkg("algorithm/cholesky")
	if p == nil {
		c.Unknown("C05.R1", "algorithm/cholesky", "package loaded", token.NoPos, "not loaded")
		return nil
	}
	d := newDeclIndex(c)
	A := func(i, j int) *sym.Term {
		if j > i {
			i, j = j, i
		}
		return symf("a_%d_%d", i, j)
	}
	for _, variant := range []struct {
		fn, rule string
		ldl      bool
	}{{"cholesky", "C05.R1", false}, {"cholesky_ldl", "C05.R2", true}} {
		fd := findFuncDecl(p, variant.fn)
		cons := "algorithm/cholesky." + variant.fn
		if fd == nil {
			c.Unknown(variant.rule, cons, "function found", token.NoPos, "not found")
			continue
		}
		for _, n := range []int{2, 3} {
			tag := fmt.Sprintf("[n=%d]", n)
			Am := vn.NewLocalMat(n, n, func(i, j int) *sym.Term { return A(i, j) })
			zero := func() *vn.LocalMat { return vn.NewLocalMat(n, n, func(i, j int) *sym.Term { return sym.Zero() }) }
			sLoc := &vn.Loc{Name: "s", Val: symf("stale_s"), Consistent: true}
			tLoc := &vn.Loc{Name: "t", Val: symf("stale_t"), Consistent: true}
			params := []vn.Value{Am, zero(), sLoc, tLoc} // cholesky(A, L, s, t)
			if variant.ldl {
				params = []vn.Value{Am, zero(), zero(), sLoc, tLoc} // cholesky_ldl(A, L, D, s, t)
			}
			cfg := vn.Config{Pkg: p, TypeName: "Real64", Spec: distSpec, InlineOps: inlineOps, Decl: d.find, ParamNames: true, MaxDepth: 8, UnrollConst: true, FiniteSyms: true,
				ParamList: params, ParamFresh: true}
			paths, und := vn.Run(cfg, fd)
			if und != nil {
				c.Unknown(variant.rule, cons, "interpreted "+tag, und.Pos, variant.fn+" left the interpreter's idiom set: "+und.Msg)
				continue
			}
			nGood := 0
			for _, pa := range paths {
				ret, _ := pa.Ret.(vn.Tuple)
				if len(ret) != 3 || pa.Panic {
					continue
				}
				if _, isErr := ret[2].(*vn.ErrVal); isErr {
					continue
				}
				L, _ := ret[0].(*vn.LocalMat)
				var D *vn.LocalMat
				if variant.ldl {
					D, _ = ret[1].(*vn.LocalMat)
				}
				if L == nil || (variant.ldl && D == nil) {
					c.Unknown(variant.rule, cons, "factors returned "+tag, fd.Pos(), "result is not a pair of local matrices")
					continue
				}
				nGood++
				bad := ""
				for i := 0; i < n && bad == ""; i++ {
					for j := 0; j < n && bad == ""; j++ {
						if j > i && !L.Cell(i, j).IsZero() {
							bad = fmt.Sprintf("L[%d,%d] = %s above the diagonal", i, j, shortTerm(L.Cell(i, j)))
						}
						if variant.ldl && i == j && !sym.Equal(L.Cell(i, i), sym.One()) {
							bad = fmt.Sprintf("L[%d,%d] = %s, expected a unit diagonal", i, i, shortTerm(L.Cell(i, i)))
						}
						if variant.ldl && i != j && !D.Cell(i, j).IsZero() {
							bad = fmt.Sprintf("D[%d,%d] = %s off the diagonal", i, j, shortTerm(D.Cell(i, j)))
						}
					}
				}
				c.Check(bad == "", variant.rule, cons, "factors have the promised structure "+tag, fd.Pos(), bad)
				bad = ""
				for i := 0; i < n && bad == ""; i++ {
					for j := 0; j < n && bad == ""; j++ {
						s := sym.Zero()
						for k := 0; k < n; k++ {
							t := sym.Mul(L.Cell(i, k), L.Cell(j, k))
							if variant.ldl {
								t = sym.Mul(t, D.Cell(k, k))
							}
							s = sym.Add(s, t)
						}
						if !staleFree(s) || !(sym.Equal(s, A(i, j)) || sym.Equal(foldRoots(s), A(i, j))) {
							bad = fmt.Sprintf("the product of the factors has entry (%d,%d) = %s, the input has %s", i, j, shortTerm(foldRoots(s)), A(i, j))
						}
					}
				}
				c.Check(bad == "", variant.rule, cons, "factors multiply back to the input "+tag, fd.Pos(), bad)
			}
			c.Check(nGood == 1, variant.rule, cons, "exactly one success path "+tag, fd.Pos(), fmt.Sprintf("%d success paths", nGood))
		}
	}
	checkCholeskyRun(c, d)
	checkRotationOffsets(c)
	checkPerIterationAccumulators(c)
	checkHouseholderVector(c)
	checkFactorAccumulation(c)
	checkEigenvectorStale(c)
	checkScratchSupport(c)
	return nil
}

// checkCholeskyRun (C05.R3): cholesky.Run with its option dispatch (plain, LDL{true}) and with in-situ buffers that hold
// the factors of an earlier call (stale lower triangle of L, stale diagonal of D): the returned factors multiply back to
// the input and contain nothing of the earlier call.
func checkCholeskyRun(c *core.Ctx, d *declIndex) {
	c.Rule("C05.R3", "cholesky.Run (plain and LDL, fresh and reused in-situ buffers) returns factors that multiply back to the input and do not depend on the buffers' previous contents", 4)
	p := c.Pkg("algorithm/cholesky")
	cons := "algorithm/cholesky.Run"
	fd := findFuncDecl(p, "Run")
	tIn, tLDL := namedType(p, "InSitu"), namedType(p, "LDL")
	if fd == nil || tIn == nil || tLDL == nil {
		c.Unknown("C05.R3", cons, "function and option types found", token.NoPos, "not found")
		return
	}
	const n = 2
	A := func(i, j int) *sym.Term {
		if j > i {
			i, j = j, i
		}
		return symf("a_%d_%d", i, j)
	}
	for _, ldl := range []bool{false, true} {
		for _, reuse := range []bool{false, true} {
			tag := fmt.Sprintf("[ldl=%v, reused buffers=%v]", ldl, reuse)
			args := &vn.ListVal{}
			if ldl {
				args.Elems = append(args.Elems, &vn.StructVal{T: tLDL, Fields: map[string]vn.Value{"Value": &vn.BoolVal{Known: true, V: true}}})
			}
			if reuse {
				prevL := vn.NewLocalMat(n, n, func(i, j int) *sym.Term {
					if j > i {
						return sym.Zero()
					}
					return symf("stale_l_%d_%d", i, j)
				})
				prevD := vn.NewLocalMat(n, n, func(i, j int) *sym.Term {
					if i != j {
						return sym.Zero()
					}
					return symf("stale_d_%d", i)
				})
				args.Elems = append(args.Elems, &vn.StructVal{T: types.NewPointer(tIn), Fields: map[string]vn.Value{"L": prevL, "D": prevD,
					"S": &vn.Loc{Name: "s", Val: symf("stale_s"), Consistent: true}, "T": &vn.Loc{Name: "t", Val: symf("stale_t"), Consistent: true}}})
			}
			cfg := vn.Config{Pkg: p, TypeName: "Real64", Spec: distSpec, InlineOps: inlineOps, Decl: d.find, ParamNames: true, MaxDepth: 10, UnrollConst: true, FiniteSyms: true,
				ParamFresh: true, ParamList: []vn.Value{vn.NewLocalMat(n, n, A), args}}
			paths, und := vn.Run(cfg, fd)
			if und != nil {
				c.Unknown("C05.R3", cons, "interpreted "+tag, und.Pos, "Run left the interpreter's idiom set: "+und.Msg)
				continue
			}
			nGood := 0
			for _, pa := range paths {
				ret, _ := pa.Ret.(vn.Tuple)
				if len(ret) != 3 || pa.Panic {
					continue
				}
				if _, isErr := ret[2].(*vn.ErrVal); isErr {
					continue
				}
				L, _ := ret[0].(*vn.LocalMat)
				D, _ := ret[1].(*vn.LocalMat)
				if L == nil || (ldl && D == nil) {
					continue
				}
				nGood++
				bad := ""
				for i := 0; i < n && bad == ""; i++ {
					for j := 0; j < n && bad == ""; j++ {
						s := sym.Zero()
						for k := 0; k < n; k++ {
							t := sym.Mul(L.Cell(i, k), L.Cell(j, k))
							if ldl {
								t = sym.Mul(t, D.Cell(k, k))
							}
							s = sym.Add(s, t)
						}
						if !staleFree(s) || !(sym.Equal(s, A(i, j)) || sym.Equal(foldRoots(s), A(i, j))) {
							bad = fmt.Sprintf("the product of the factors has entry (%d,%d) = %s, the input has %s", i, j, shortTerm(foldRoots(s)), A(i, j))
						}
					}
				}
				c.Check(bad == "", "C05.R3", cons, "factors multiply back to the input "+tag, fd.Pos(), bad)
			}
			c.Check(nGood == 1, "C05.R3", cons, "exactly one success path "+tag, fd.Pos(), fmt.Sprintf("%d success paths", nGood))
		}
	}
}

// checkRotationOffsets (C05.R4): the implicit-shift steps of the SVD and of the symmetric QR algorithm work on a
// diagonal block B[p:e, p:e] that they receive as a slice together with its origin p, and accumulate the rotations into
// the full orthogonal factors. A rotation applied to rows/columns (i0, j0) of the block therefore has to be applied to
// rows/columns (p + i0, p + j0) of the accumulators; otherwise the product of the returned factors is no longer the
// input. The roles (block, accumulators, origin) are fixed per function by parameter position, confirmed by reading.
var rotationRoles = []struct {
	pkg, fn string
	block   int   // parameter index of the block
	accs    []int // parameter indices of the accumulated factors
	origin  int   // parameter index of the block origin
}{
	{"algorithm/svd", "golubKahanSVDstep", 0, []int{1, 2}, 3},
	{"algorithm/qrAlgorithm", "symmetricQRstep", 0, []int{1}, 2},
}

func checkRotationOffsets(c *core.Ctx) {
	c.Rule("C05.R4", "in the implicit-shift steps (SVD, symmetric QR) a rotation applied to rows/columns (i, j) of the block is accumulated at (origin + i, origin + j) of the full factors", 3)
	for _, role := range rotationRoles {
		p := c.Pkg(role.pkg)
		cons := role.pkg + "." + role.fn
		if p == nil {
			c.Unknown("C05.R4", cons, "package loaded", token.NoPos, "not loaded")
			continue
		}
		fd := findFuncDecl(p, role.fn)
		if fd == nil {
			c.Unknown("C05.R4", cons, "function found", token.NoPos, "not found")
			continue
		}
		info := p.TypesInfo
		var params []types.Object
		for _, f := range fd.Type.Params.List {
			for _, nm := range f.Names {
				params = append(params, info.Defs[nm])
			}
		}
		if role.block >= len(params) || role.origin >= len(params) {
			c.Unknown("C05.R4", cons, "parameters as reviewed", fd.Pos(), "the function's parameter list changed: roles have to be re-confirmed")
			continue
		}
		isAcc := map[types.Object]bool{}
		for _, a := range role.accs {
			if a < len(params) {
				isAcc[params[a]] = true
			}
		}
		// linear forms over identifiers
		type lin map[types.Object]int
		var linOf func(e ast.Expr) (lin, int, bool)
		linOf = func(e ast.Expr) (lin, int, bool) {
			switch v := ast.Unparen(e).(type) {
			case *ast.Ident:
				if o := info.Uses[v]; o != nil {
					return lin{o: 1}, 0, true
				}
			case *ast.BasicLit:
				var x int
				if _, err := fmt.Sscanf(v.Value, "%d", &x); err == nil {
					return lin{}, x, true
				}
			case *ast.BinaryExpr:
				a, ca, ok1 := linOf(v.X)
				b, cb, ok2 := linOf(v.Y)
				if ok1 && ok2 && (v.Op == token.ADD || v.Op == token.SUB) {
					r := lin{}
					for k, x := range a {
						r[k] += x
					}
					sg := 1
					if v.Op == token.SUB {
						sg = -1
					}
					for k, x := range b {
						r[k] += sg * x
					}
					return r, ca + sg*cb, true
				}
			}
			return nil, 0, false
		}
		same := func(a lin, ca int, b lin, cb int) bool {
			if ca != cb {
				return false
			}
			for k, x := range a {
				if b[k] != x {
					return false
				}
			}
			for k, x := range b {
				if a[k] != x {
					return false
				}
			}
			return true
		}
		type app struct {
			i, j   lin
			ci, cj int
			pos    token.Pos
			text   string
		}
		var blockApps, accApps []app
		ast.Inspect(fd.Body, func(x ast.Node) bool {
			ce, ok := x.(*ast.CallExpr)
			if !ok || !strings.HasPrefix(calleeName(ce), "Apply") || len(ce.Args) < 5 {
				return true
			}
			id, ok := ast.Unparen(ce.Args[0]).(*ast.Ident)
			if !ok {
				return true
			}
			o := info.Uses[id]
			li, ci, ok1 := linOf(ce.Args[3])
			lj, cj, ok2 := linOf(ce.Args[4])
			if !ok1 || !ok2 {
				return true
			}
			a := app{li, lj, ci, cj, ce.Pos(), exprStr(ce)}
			switch {
			case o == params[role.block]:
				blockApps = append(blockApps, a)
			case isAcc[o]:
				accApps = append(accApps, a)
			}
			return true
		})
		if len(blockApps) == 0 || len(accApps) == 0 {
			c.Unknown("C05.R4", cons, "rotations on the block and on the accumulators found", fd.Pos(), fmt.Sprintf("%d block, %d accumulator applications", len(blockApps), len(accApps)))
			continue
		}
		// caller side: the block passed is X.Slice(a, _, a, _) and the origin argument is that a
		core.EachFunc(p, func(_ *ast.File, cfd *ast.FuncDecl) {
			ast.Inspect(cfd.Body, func(x ast.Node) bool {
				ce, ok := x.(*ast.CallExpr)
				if !ok || calleeName(ce) != role.fn || len(ce.Args) <= role.origin {
					return true
				}
				blk := ast.Unparen(ce.Args[role.block])
				if id, ok := blk.(*ast.Ident); ok {
					o := info.Uses[id]
					ast.Inspect(cfd.Body, func(y ast.Node) bool {
						if as, ok := y.(*ast.AssignStmt); ok && len(as.Lhs) == 1 && len(as.Rhs) == 1 && as.Pos() < ce.Pos() {
							if l, ok := as.Lhs[0].(*ast.Ident); ok && (info.Defs[l] == o || info.Uses[l] == o) {
								blk = ast.Unparen(as.Rhs[0])
							}
						}
						return true
					})
				}
				sl, ok := blk.(*ast.CallExpr)
				okCall := false
				if ok && strings.HasSuffix(calleeName(sl), "Slice") && len(sl.Args) == 4 {
					r, cr, ok1 := linOf(sl.Args[0])
					cc, ccc, ok2 := linOf(sl.Args[2])
					og, cog, ok3 := linOf(ce.Args[role.origin])
					okCall = ok1 && ok2 && ok3 && same(r, cr, og, cog) && same(cc, ccc, og, cog)
				}
				c.Check(okCall, "C05.R4", c.FuncName(p, cfd), "calls "+role.fn+" with the diagonal block starting at the origin it passes", ce.Pos(),
					"the block handed to "+role.fn+" is not X.Slice(p, _, p, _) for the origin p passed with it: the step accumulates its rotations at the wrong rows/columns of the full factors")
				return true
			})
		})
		org := params[role.origin]
		for k, a := range accApps {
			ok := false
			for _, b := range blockApps {
				bi := lin{org: 1}
				for o, x := range b.i {
					bi[o] += x
				}
				bj := lin{org: 1}
				for o, x := range b.j {
					bj[o] += x
				}
				if same(a.i, a.ci, bi, b.ci) && same(a.j, a.cj, bj, b.cj) {
					ok = true
				}
			}
			c.Check(ok, "C05.R4", cons, fmt.Sprintf("accumulated rotation #%d is applied at origin + block indices", k), a.pos,
				"the rotation is accumulated with "+a.text+", which is not the block's origin plus the rows/columns the rotation was applied to in the block: the accumulated orthogonal factor no longer matches the reduced block, so the factors do not multiply back to the input")
		}
	}
}

// checkPerIterationAccumulators (C05.R5): a scalar that is accumulated in an inner loop (running maximum, running sum:
// its new value depends on its old one) and read by the enclosing loop's body after that inner loop is a per-iteration
// quantity of the enclosing loop (theta_j of the forced-positive-definite LDL': the largest |c_ij| of column j). It has
// to be re-initialised in the enclosing loop's body before the inner loop on every iteration; otherwise the quantity of
// an earlier iteration leaks into a later one (a stale theta inflates the pivots of later columns, so L*D*L' no longer
// equals a sufficiently positive definite input). Accumulators that are only read after the enclosing loop (global
// maxima, totals) are not concerned.
func checkPerIterationAccumulators(c *core.Ctx) {
	c.Rule("C05.R5", "a scalar accumulated in an inner loop and read by the enclosing loop after it is re-initialised in every iteration of the enclosing loop (factorisation packages)", 3)
	n := 0
	for _, rel := range []string{"algorithm/cholesky", "algorithm/gramSchmidt", "algorithm/householder", "algorithm/householderBidiagonalization", "algorithm/householderTridiagonalization",
		"algorithm/hessenbergReduction", "algorithm/qrAlgorithm", "algorithm/eigensystem", "algorithm/svd", "algorithm/msqrt", "algorithm/msqrtInv", "algorithm/gaussJordan", "algorithm/determinant", "algorithm/backSubstitution"} {
		p := c.Pkg(rel)
		if p == nil {
			continue
		}
		info := p.TypesInfo
		pkg := p
		core.EachFunc(p, func(_ *ast.File, fd *ast.FuncDecl) {
			var outers []*ast.ForStmt
			ast.Inspect(fd.Body, func(x ast.Node) bool {
				if fs, ok := x.(*ast.ForStmt); ok {
					outers = append(outers, fs)
				}
				return true
			})
			for _, outer := range outers {
				// direct statements of the outer body
				for si, st := range outer.Body.List {
					inner, ok := st.(*ast.ForStmt)
					if !ok {
						continue
					}
					// self-dependent updates of plain variables inside the inner loop
					acc := map[types.Object]token.Pos{}
					ast.Inspect(inner.Body, func(y ast.Node) bool {
						switch v := y.(type) {
						case *ast.AssignStmt:
							if len(v.Lhs) != 1 || len(v.Rhs) != 1 {
								return true
							}
							id, ok := v.Lhs[0].(*ast.Ident)
							if !ok {
								return true
							}
							o := info.Uses[id]
							if o == nil {
								return true
							}
							if b, ok := o.Type().Underlying().(*types.Basic); !ok || b.Info()&types.IsNumeric == 0 {
								return true
							}
							if v.Tok != token.ASSIGN {
								acc[o] = v.Pos() // += etc.
							}
						case *ast.IfStmt:
							// if x > v { v = x }
							ast.Inspect(v.Cond, func(z ast.Node) bool {
								if cid, ok := z.(*ast.Ident); ok {
									if o := info.Uses[cid]; o != nil {
										for _, bs := range v.Body.List {
											if as, ok := bs.(*ast.AssignStmt); ok && len(as.Lhs) == 1 && as.Tok == token.ASSIGN {
												if lid, ok := as.Lhs[0].(*ast.Ident); ok && info.Uses[lid] == o {
													if b, ok := o.Type().Underlying().(*types.Basic); ok && b.Info()&types.IsNumeric != 0 {
														acc[o] = as.Pos()
													}
												}
											}
										}
									}
								}
								return true
							})
						}
						return true
					})
					for o, pos := range acc {
						// declared outside the outer loop?
						if o.Pos() >= outer.Pos() && o.Pos() < outer.End() {
							continue
						}
						// read in the outer body after the inner loop
						readAfter := false
						for _, later := range outer.Body.List[si+1:] {
							ast.Inspect(later, func(z ast.Node) bool {
								if id, ok := z.(*ast.Ident); ok && info.Uses[id] == o {
									readAfter = true
								}
								return true
							})
						}
						if !readAfter {
							continue
						}
						n++
						// assigned unconditionally in the outer body before the inner loop
						reset := false
						for _, earlier := range outer.Body.List[:si] {
							if as, ok := earlier.(*ast.AssignStmt); ok && as.Tok == token.ASSIGN || ok && as.Tok == token.DEFINE {
								for _, l := range as.Lhs {
									if id, ok := l.(*ast.Ident); ok && (info.Uses[id] == o || info.Defs[id] == o) {
										reset = true
									}
								}
							}
						}
						c.Check(reset, "C05.R5", c.FuncName(pkg, fd), "accumulator "+o.Name()+" is re-initialised per iteration of the enclosing loop", pos,
							"the scalar "+o.Name()+" is accumulated in an inner loop and read afterwards by the enclosing loop, but it is not re-initialised in the enclosing loop's body before the inner loop: its value from an earlier iteration leaks into the later ones")
					}
				}
			}
		})
	}
	c.Analysed["per_iteration_accumulators"] = n
}
