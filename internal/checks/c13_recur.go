package checks

import (
	"fmt"
	"go/ast"
	"go/constant"
	"go/token"
	"go/types"
	"strings"

	"golang.org/x/tools/go/packages"

	"verif/internal/core"
	"verif/internal/sym"
	"verif/internal/vn"
)

// ---- R8: recurrences and reflections used for argument reduction ---------------------------------------------------------
//
// (a) Argument-shift loops. One iteration of every uncounted loop of digamma_imp and lgamma_small_imp is interpreted from a
//     generic state. Exactly one loop-carried variable must move by d = +1 or -1 (the argument), one must change by the
//     increment of the function over that step (the accumulator: f(y+1) - f(y) = g(y), so  acc' - acc = g(arg') for d = -1
//     and -g(arg) for d = +1), and every other loop-carried number must move with the argument (it holds arg - const).
// (b) trigamma_imp as a whole, with the evaluation on [1, inf) opaque: every path returns psi1(x) given
//     psi1(x) = psi1(x+1) + 1/x^2 and psi1(x) + psi1(1-x) = pi^2 / sin(pi x)^2.

type shiftLoop struct {
	fn   string
	what string
	g    func(y *sym.Term) *sym.Term
}

var shiftLoops = []shiftLoop{
	{"digamma_imp", "psi(y+1) = psi(y) + 1/y", func(y *sym.Term) *sym.Term { return sym.Div(sym.One(), y) }},
	{"lgamma_small_imp", "lgamma(y+1) = lgamma(y) + log y", func(y *sym.Term) *sym.Term { return sym.Fn("log", y) }},
}

func checkRecurrences(c *core.Ctx) {
	c.Rule("C13.R8", "argument reduction uses the function's own identities: each shift loop of digamma and lgamma moves the argument by one and the accumulator by the increment of the function; trigamma's shift and reflection paths return psi1(x) under psi1(x) = psi1(x+1) + 1/x^2 and the reflection formula", 6)
	p := c.Pkg("special")
	if p == nil {
		c.Unknown("C13.R8", "special", "package loaded", token.NoPos, "not loaded")
		return
	}
	d := newDeclIndex(c)
	info := p.TypesInfo
	for _, sl := range shiftLoops {
		fd := findFuncDecl(p, sl.fn)
		cons := "special." + sl.fn
		if fd == nil {
			c.Unknown("C13.R8", cons, "function found", token.NoPos, "not found")
			continue
		}
		var loops []*ast.ForStmt
		ast.Inspect(fd.Body, func(n ast.Node) bool {
			if f, ok := n.(*ast.ForStmt); ok && f.Init == nil && f.Post == nil {
				loops = append(loops, f)
			}
			return true
		})
		if len(loops) == 0 {
			c.Unknown("C13.R8", cons, "shift loops found", fd.Pos(), "no uncounted loop: the argument reduction is no longer a shift loop")
			continue
		}
		for li, lp := range loops {
			detail := fmt.Sprintf("shift loop #%d obeys %s", li, sl.what)
			// loop-carried variables: assigned in the body, declared outside it
			var carried []types.Object
			seen := map[types.Object]bool{}
			ast.Inspect(lp.Body, func(n ast.Node) bool {
				as, ok := n.(*ast.AssignStmt)
				if !ok {
					return true
				}
				for _, l := range as.Lhs {
					if id, ok := l.(*ast.Ident); ok {
						o := info.Uses[id]
						if o != nil && !seen[o] && (o.Pos() < lp.Pos() || o.Pos() > lp.End()) {
							seen[o] = true
							carried = append(carried, o)
						}
					}
				}
				return true
			})
			env := map[types.Object]vn.Value{}
			start := map[types.Object]*sym.Term{}
			for i, o := range carried {
				start[o] = sym.Sym(fmt.Sprintf("s%d", i))
				env[o] = start[o]
			}
			cfg := vn.Config{Pkg: p, TypeName: "Real64", Spec: distSpec, InlineOps: inlineOps, Decl: d.find, MaxDepth: 4, FiniteSyms: true, GlobalSyms: true,
				Body: lp.Body.List, Env: env}
			paths, und := vn.Run(cfg, fd)
			if und != nil {
				c.Unknown("C13.R8", cons, detail, und.Pos, "the loop body left the interpreter's idiom set: "+und.Msg)
				continue
			}
			bad := ""
			for _, pa := range paths {
				var arg, acc types.Object
				dir := int64(0)
				for _, o := range carried {
					t, _ := pa.Env[o].(*sym.Term)
					if t == nil {
						bad = "a loop-carried variable holds no number"
						break
					}
					df := sym.Sub(t, start[o])
					if cc, ok := df.IsConst(); ok && cc.IsInt() && (cc.Num().Int64() == 1 || cc.Num().Int64() == -1) {
						if arg == nil {
							arg = o
							dir = cc.Num().Int64()
						} else if cc.Num().Int64() != dir {
							bad = fmt.Sprintf("%s and %s move in opposite directions", arg.Name(), o.Name())
						}
						continue
					}
					if acc != nil {
						bad = fmt.Sprintf("two variables (%s, %s) change by something other than the step", acc.Name(), o.Name())
						break
					}
					acc = o
				}
				if bad != "" {
					break
				}
				if arg == nil || acc == nil {
					bad = "the body does not move an argument by one and add to an accumulator"
					break
				}
				a0 := start[arg]
				a1, _ := pa.Env[arg].(*sym.Term)
				r1, _ := pa.Env[acc].(*sym.Term)
				want := sl.g(a1)
				if dir > 0 {
					want = sym.Neg(sl.g(a0))
				}
				if !sym.Equal(sym.Sub(r1, start[acc]), want) {
					bad = fmt.Sprintf("the argument %s moves by %+d and the accumulator %s changes by %s; the identity %s requires %s", arg.Name(), dir, acc.Name(), clip(sym.Sub(r1, start[acc]).String(), 120), sl.what, clip(want.String(), 120))
					break
				}
			}
			if len(paths) == 0 {
				bad = "no path through the loop body"
			}
			c.Check(bad == "", "C13.R8", cons, detail, lp.Pos(), bad)
		}
	}
	checkTrigammaPaths(c, p, d)
	checkBaseInterval(c, p)
}

// checkBaseInterval: digamma_imp hands its argument to the rational approximation on [1, 2] only after both shift loops:
// the call is preceded, in its block, by a loop that runs while x > 2 and a loop that runs while x < 1, and nothing
// assigns x in between. (A loop turned into a single `if` leaves arguments that need two steps outside the interval.)
func checkBaseInterval(c *core.Ctx, p *packages.Package) {
	cons := "special.digamma_imp"
	fd := findFuncDecl(p, "digamma_imp")
	if fd == nil {
		return
	}
	info := p.TypesInfo
	found := false
	ast.Inspect(fd.Body, func(n ast.Node) bool {
		blk, ok := n.(*ast.BlockStmt)
		if !ok {
			return true
		}
		for idx, st := range blk.List {
			var call *ast.CallExpr
			ast.Inspect(st, func(m ast.Node) bool {
				if ce, ok := m.(*ast.CallExpr); ok {
					if fn := core.Callee(info, ce); fn != nil && fn.Name() == "digamma_imp_1_2" {
						call = ce
					}
				}
				return true
			})
			if call == nil || len(call.Args) != 1 {
				continue
			}
			if _, isBlock := st.(*ast.BlockStmt); isBlock {
				continue
			}
			if _, isIf := st.(*ast.IfStmt); isIf {
				continue // the call sits deeper: handled when that block is visited
			}
			found = true
			arg := types.ExprString(call.Args[0])
			above, below := false, false
			for _, prev := range blk.List[:idx] {
				switch v := prev.(type) {
				case *ast.ForStmt:
					if v.Init != nil || v.Post != nil || v.Cond == nil {
						continue
					}
					be, ok := ast.Unparen(v.Cond).(*ast.BinaryExpr)
					if !ok {
						continue
					}
					l, r := types.ExprString(be.X), types.ExprString(be.Y)
					val := func(e ast.Expr) (float64, bool) {
						tv, ok := info.Types[e]
						if !ok || tv.Value == nil {
							return 0, false
						}
						f, _ := constant.Float64Val(constant.ToFloat(tv.Value))
						return f, true
					}
					switch {
					case l == arg && (be.Op == token.GTR || be.Op == token.GEQ):
						if f, ok := val(be.Y); ok && f <= 2 {
							above = true
						}
					case r == arg && (be.Op == token.LSS || be.Op == token.LEQ):
						if f, ok := val(be.X); ok && f <= 2 {
							above = true
						}
					case l == arg && (be.Op == token.LSS || be.Op == token.LEQ):
						if f, ok := val(be.Y); ok && f >= 1 {
							below = true
						}
					case r == arg && (be.Op == token.GTR || be.Op == token.GEQ):
						if f, ok := val(be.X); ok && f >= 1 {
							below = true
						}
					}
				case *ast.AssignStmt:
					for _, lh := range v.Lhs {
						if types.ExprString(lh) == arg {
							above, below = false, false
						}
					}
				}
			}
			c.Check(above && below, "C13.R8", cons, "argument reduced to [1, 2] before the base-interval routine", call.Pos(),
				"digamma_imp_1_2("+arg+") is not preceded by a loop that shifts "+arg+" down while it exceeds 2 and a loop that shifts it up while it is below 1: arguments that need more than one step reach the rational approximation outside its interval")
		}
		return true
	})
	if !found {
		c.Unknown("C13.R8", cons, "argument reduced to [1, 2] before the base-interval routine", fd.Pos(), "the call of digamma_imp_1_2 was not found")
	}
}

func checkTrigammaPaths(c *core.Ctx, p *packages.Package, d *declIndex) {
	cons := "special.trigamma_imp"
	fd := findFuncDecl(p, "trigamma_imp")
	if fd == nil {
		c.Unknown("C13.R8", cons, "function found", token.NoPos, "not found")
		return
	}
	x := sym.Sym("x")
	psi1 := func(u *sym.Term) *sym.Term {
		// canonical argument: psi1(x + k) for integer k > 0 is shifted down to psi1(x) - sum 1/(x+j)^2
		res := sym.Zero()
		for k := 0; k < 4; k++ {
			df := sym.Sub(u, x)
			cc, ok := df.IsConst()
			if !ok || !cc.IsInt() || cc.Sign() <= 0 {
				break
			}
			u = sym.Sub(u, sym.One())
			res = sym.Sub(res, sym.Div(sym.One(), sym.Mul(u, u)))
		}
		return sym.Add(res, sym.Fn("psi1", u))
	}
	sinpi := func(u *sym.Term) *sym.Term {
		// sin(pi (1 - t)) = sin(pi t)
		if sym.Equal(u, sym.Sub(sym.One(), x)) {
			u = x
		}
		return sym.Fn("sinpi", u)
	}
	hook := func(fn *types.Func) func([]vn.Value) vn.Value {
		if fn.Pkg() != p.Types {
			return nil
		}
		switch fn.Name() {
		case "trigamma_prec", "trigamma_imp":
			return func(args []vn.Value) vn.Value {
				t, _ := args[0].(*sym.Term)
				if t == nil {
					return sym.Sym("opaque")
				}
				return psi1(t)
			}
		case "SinPi":
			return func(args []vn.Value) vn.Value {
				t, _ := args[0].(*sym.Term)
				if t == nil {
					return sym.Sym("opaque")
				}
				return sinpi(t)
			}
		}
		return nil
	}
	cfg := vn.Config{Pkg: p, TypeName: "Real64", Spec: distSpec, InlineOps: inlineOps, Decl: d.find, MaxDepth: 4, FiniteSyms: true, GlobalSyms: true,
		ParamSyms: []string{"x"}, CallHook: hook}
	paths, und := vn.Run(cfg, fd)
	if und != nil {
		c.Unknown("C13.R8", cons, "interpreted", und.Pos, "trigamma_imp left the interpreter's idiom set: "+und.Msg)
		return
	}
	pi := sym.Sym("pi")
	reflected := sym.Sub(sym.Div(sym.Mul(pi, pi), sym.Mul(sym.Fn("sinpi", x), sym.Fn("sinpi", x))), sym.Fn("psi1", sym.Sub(sym.One(), x)))
	for _, pa := range paths {
		detail := "path [" + clip(pa.CondString(), 200) + "] returns psi1(x)"
		rt, _ := pa.Ret.(*sym.Term)
		if pa.Panic || rt == nil {
			c.Fail("C13.R8", cons, detail, fd.Pos(), "the path returns no number")
			continue
		}
		if rt.String() == "NaN" {
			c.OK("C13.R8", cons, detail+" (pole)", fd.Pos(), "")
			continue
		}
		ok := sym.Equal(rt, sym.Fn("psi1", x)) || sym.Equal(rt, reflected)
		c.Check(ok, "C13.R8", cons, detail, fd.Pos(),
			"the path returns "+clip(rt.String(), 200)+", which is not psi1(x) under psi1(x) = psi1(x+1) + 1/x^2 and psi1(x) + psi1(1-x) = pi^2/sin(pi x)^2")
	}
}

// checkMgamma: Mgamma(x, k) = pi^(k(k-1)/4) prod_{i=1..k} Gamma(x + (1-i)/2) and Mlgamma = log Mgamma, for k = 1, 2, 3.
func checkMgamma(c *core.Ctx) {
	p := c.Pkg("special")
	if p == nil {
		return
	}
	d := newDeclIndex(c)
	fm, fl := findFuncDecl(p, "Mgamma"), findFuncDecl(p, "Mlgamma")
	if fm == nil || fl == nil {
		c.Unknown("C13.R4", "special.Mlgamma", "functions found", token.NoPos, "Mgamma/Mlgamma not found")
		return
	}
	x := sym.Sym("x")
	hook := func(fn *types.Func) func([]vn.Value) vn.Value {
		if fn.Pkg() != nil && fn.Pkg().Path() == "math" && fn.Name() == "Lgamma" {
			return func(args []vn.Value) vn.Value {
				u, _ := args[0].(*sym.Term)
				return vn.Tuple{sym.Fn("log", sym.Fn("gamma", u)), sym.One()}
			}
		}
		return nil
	}
	for k := int64(1); k <= 3; k++ {
		run := func(fd *ast.FuncDecl) (*sym.Term, *vn.Undecided) {
			cfg := vn.Config{Pkg: p, TypeName: "Real64", Spec: distSpec, InlineOps: inlineOps, Decl: d.find, MaxDepth: 4, FiniteSyms: true, UnrollConst: true,
				ParamSyms: []string{"x", "k"}, ParamList: []vn.Value{nil, sym.Int(k)}, CallHook: hook}
			paths, und := vn.Run(cfg, fd)
			if und != nil {
				return nil, und
			}
			if len(paths) != 1 {
				return nil, &vn.Undecided{Msg: "more than one path", Pos: fd.Pos()}
			}
			t, _ := paths[0].Ret.(*sym.Term)
			if t == nil {
				return nil, &vn.Undecided{Msg: "no number returned", Pos: fd.Pos()}
			}
			return t, nil
		}
		detail := fmt.Sprintf("k = %d", k)
		tm, und := run(fm)
		if und != nil {
			c.Unknown("C13.R4", "special.Mgamma", detail, und.Pos, und.Msg)
			continue
		}
		tl, und := run(fl)
		if und != nil {
			c.Unknown("C13.R4", "special.Mlgamma", detail, und.Pos, und.Msg)
			continue
		}
		want := sym.Pow(sym.Sym("pi"), sym.Rat(k*(k-1), 4))
		for i := int64(1); i <= k; i++ {
			want = sym.Mul(want, sym.Fn("gamma", sym.Add(x, sym.Rat(1-i, 2))))
		}
		c.Check(sym.Equal(tm, want), "C13.R4", "special.Mgamma", detail+": pi^(k(k-1)/4) prod Gamma(x + (1-i)/2)", fm.Pos(),
			"Mgamma returns "+clip(tm.String(), 200)+" instead of "+clip(want.String(), 200))
		c.Check(logOfTerm(tl, tm), "C13.R4", "special.Mlgamma", detail+": logarithm of Mgamma", fl.Pos(),
			"Mlgamma returns "+clip(tl.String(), 200)+", which is not the logarithm of Mgamma = "+clip(tm.String(), 200))
	}
}

// checkRangeGuards (C13.R10): an out-of-range test has the form `lo(X) <= L || hi(X) >= H` with lo(X) <= hi(X) (the same
// expression, or Min(...) and Max(...) of the same operands) and L < H. Joined by && the test fires only when both limits are violated at
// once: it (almost) never fires, and the direct evaluation it was meant to protect
// under- or overflows (results collapse to 0 in the tails).
func checkRangeGuards(c *core.Ctx) {
	c.Rule("C13.R10", "special functions: the two halves of an out-of-range test (below the lower limit, above the upper limit) are joined by ||", 2)
	p := c.Pkg("special")
	if p == nil {
		return
	}
	info := p.TypesInfo
	type half struct {
		q     string // the quantity, with Min/Max stripped
		lower bool
	}
	classify := func(e ast.Expr) (half, bool) {
		be, ok := ast.Unparen(e).(*ast.BinaryExpr)
		if !ok {
			return half{}, false
		}
		var lhs ast.Expr
		lower := false
		switch be.Op {
		case token.LSS, token.LEQ:
			lhs, lower = be.X, true
		case token.GTR, token.GEQ:
			lhs, lower = be.X, false
		default:
			return half{}, false
		}
		limit := types.ExprString(be.Y)
		if !(strings.Contains(limit, "Min") || strings.Contains(limit, "Max") || strings.Contains(limit, "Epsilon")) {
			if tv, ok := info.Types[be.Y]; !ok || tv.Value == nil {
				return half{}, false
			}
		}
		q := types.ExprString(lhs)
		if ce, ok := ast.Unparen(lhs).(*ast.CallExpr); ok && len(ce.Args) == 2 {
			if fn := core.Callee(info, ce); fn != nil && fn.Pkg() != nil && fn.Pkg().Path() == "math" && (fn.Name() == "Min" || fn.Name() == "Max") {
				q = types.ExprString(ce.Args[0]) + "," + types.ExprString(ce.Args[1])
			}
		}
		return half{q, lower}, true
	}
	core.EachFunc(p, func(_ *ast.File, fd *ast.FuncDecl) {
		ast.Inspect(fd.Body, func(n ast.Node) bool {
			be, ok := n.(*ast.BinaryExpr)
			if !ok || (be.Op != token.LOR && be.Op != token.LAND) {
				return true
			}
			a, ok1 := classify(be.X)
			b, ok2 := classify(be.Y)
			if !ok1 || !ok2 || a.q != b.q || a.lower == b.lower || !a.lower {
				return true
			}
			c.Check(be.Op == token.LOR, "C13.R10", c.FuncName(p, fd), "out-of-range test on "+a.q, be.Pos(),
				"the test "+types.ExprString(be)+" fires only when the lower and the upper limit are violated at once: a quantity that is merely too small (or too large) passes, so the evaluation the test guards runs into under- or overflow")
			return true
		})
	})
}
