package checks

import (
	"fmt"
	"go/ast"
	"go/token"
	"go/types"
	"math/big"
	"sort"
	"strings"

	"golang.org/x/tools/go/packages"

	"verif/internal/core"
	"verif/internal/sym"
	"verif/internal/vn"
)

func init() { Registry["C01"] = checkC01 }

var bigOne = big.NewRat(1, 1)

var magicTypes = []string{"Real32", "Real64"}
var plainTypes = []string{"Float32", "Float64", "Int", "Int8", "Int16", "Int32", "Int64"}
var constTypes = []string{"ConstFloat32", "ConstFloat64", "ConstInt", "ConstInt8", "ConstInt16", "ConstInt32", "ConstInt64"}

var combinatorNames = map[string]int{
	"monadic": 1, "monadicLazy": 1, "realMonadic": 1, "realMonadicLazy": 1,
	"dyadic": 2, "dyadicLazy": 2, "realDyadic": 2, "realDyadicLazy": 2,
}

func checkC01(c *core.Ctx) error {
	if err := c.Load(packages.LoadSyntax); err != nil {
		return err
	}
	c.Level = "proof"
	c.Explanation = "Induction over the expression DAG, each step a symbolic identity decided on the source: (R1/R2) the chain-rule combinators compute the order-2 Faa di Bruno formula " +
		"for every i,j<N; (R3) for every primitive the coefficients handed to the combinator are the symbolic first/second (partial) derivatives of the value expression handed with them " +
		"(normal-form equality in a term algebra with a trusted differentiation table); (R4) seeding, allocation and copying keep every derivative cell; (R5) non-magic scalars report zero derivatives; " +
		"(R6) composites reach their result only through scalar operations (no derivative laundering). Real arithmetic; rounding and conditioning are not decided."
	c.Trusted = append(c.Trusted, "sym: differentiation table and atom relations (DESIGN.md §3 E2)", "math.F/special.F denote the functions they are named after", "Go float expressions read as real-number expressions")
	c.Rule("C01.R1", "one-argument chain rule: H[i][j] = a_i a_j v2 + H_a[i][j] v1 (all i,j<N via upper triangle + mirror), g[i] = a_i v1, value = v0, lazies evaluated when needed", 8)
	c.Rule("C01.R2", "two-argument chain rule: six-term Hessian form and g[i] = a_i v10 + b_i v01", 8)
	c.Rule("C01.R3", "per-operation coefficients are the symbolic derivatives of the value expression; operands handed to the combinator are the ones the value was read from", 120)
	c.Rule("C01.R4", "seeding/storage/copying: SetVariable seeds exactly dx_i/dx_i=1 on cleared storage, Alloc sizes gradient and Hessian, Set/SET copy every field and every cell, SetFloat64-family resets derivatives, getters read [i]/[i][j]", 30)
	c.Rule("C01.R5", "non-magic scalar types report order 0, N 0 and zero derivatives", 56)
	c.Rule("C01.R6", "composites and reductions on magic receivers produce their result only through scalar operations (no SetFloat64 of operand-dependent values)", 30)
	pkg := c.Root
	for _, T := range magicTypes {
		checkCombinators(c, pkg, T)
		checkPrimitives(c, pkg, T)
		checkMagicState(c, pkg, T)
		checkCompositeConsistency(c, pkg, T)
	}
	for _, T := range append(append([]string{}, plainTypes...), constTypes...) {
		checkNoDerivatives(c, pkg, T)
	}
	checkContainerVariables(c, pkg)
	return nil
}

// ---------------------------------------------------------------------------
// R1 / R2

func symL(name string) *sym.Term { return sym.Sym(name) }

func checkCombinators(c *core.Ctx, pkg *packages.Package, T string) {
	names := make([]string, 0, len(combinatorNames))
	for n := range combinatorNames {
		names = append(names, n)
	}
	sort.Strings(names)
	for _, name := range names {
		nops := combinatorNames[name]
		rule := "C01.R1"
		if nops == 2 {
			rule = "C01.R2"
		}
		cons := "(*" + T + ")." + name
		fd := core.FindMethod(pkg, T, name)
		if fd == nil {
			c.Unknown(rule, cons, "present", token.NoPos, "combinator not found")
			continue
		}
		paths, und := vn.Run(vn.Config{Pkg: pkg, TypeName: T}, fd)
		if und != nil {
			c.Unknown(rule, cons, "interpretation", und.Pos, und.Msg)
			continue
		}
		lazy := strings.HasSuffix(name, "Lazy")
		// coefficient symbols by parameter position
		coef := func(k int) *sym.Term { // k-th coefficient after v0 (1-based)
			if !lazy {
				return symL(fmt.Sprintf("p%d", nops+k))
			}
			if nops == 1 {
				return symL(fmt.Sprintf("p%d#0", nops+k))
			}
			// dyadic lazy: f1 -> (v10,v01), f2 -> (v11,v20,v02)
			if k <= 2 {
				return symL(fmt.Sprintf("p%d#%d", nops+1, k-1))
			}
			return symL(fmt.Sprintf("p%d#%d", nops+2, k-3))
		}
		v0 := symL(fmt.Sprintf("p%d", nops))
		D := func(op string, i *sym.Term) *sym.Term { return sym.Fn("D", symL(op), i) }
		H := func(op string, i, j *sym.Term) *sym.Term { return sym.Fn("H", symL(op), i, j) }
		expH := func(i, j *sym.Term) *sym.Term {
			if nops == 1 {
				return sym.Add(sym.Mul(sym.Mul(D("p0", i), D("p0", j)), coef(2)), sym.Mul(H("p0", i, j), coef(1)))
			}
			v10, v01, v11, v20, v02 := coef(1), coef(2), coef(3), coef(4), coef(5)
			r := sym.Mul(H("p0", i, j), v10)
			r = sym.Add(r, sym.Mul(H("p1", i, j), v01))
			r = sym.Add(r, sym.Mul(sym.Mul(D("p0", i), D("p0", j)), v20))
			r = sym.Add(r, sym.Mul(sym.Mul(D("p1", i), D("p1", j)), v02))
			r = sym.Add(r, sym.Mul(sym.Add(sym.Mul(D("p0", i), D("p1", j)), sym.Mul(D("p1", i), D("p0", j))), v11))
			return r
		}
		expG := func(i *sym.Term) *sym.Term {
			if nops == 1 {
				return sym.Mul(D("p0", i), coef(1))
			}
			return sym.Add(sym.Mul(D("p0", i), coef(1)), sym.Mul(D("p1", i), coef(2)))
		}
		N := sym.Fn("nvars", symL("r0"))
		Nm1 := sym.Sub(N, sym.One())
		order := sym.Fn("order", symL("r0"))
		// classify paths by order
		seen := map[string]bool{}
		for _, p := range paths {
			if p.Panic {
				continue
			}
			ord := -1 // 0, 1, 2
			lt1, lt2 := false, false
			has1, has2 := false, false
			for _, cv := range p.Conds {
				if cv.C.Op == "lt" && sym.Equal(cv.C.A, order) {
					if k, ok := cv.C.B.IsConst(); ok {
						switch k.Num().Int64() {
						case 1:
							has1, lt1 = true, cv.V
						case 2:
							has2, lt2 = true, cv.V
						}
					}
				}
			}
			switch {
			case has1 && lt1:
				ord = 0
			case has1 && !lt1 && has2 && lt2:
				ord = 1
			case has1 && !lt1 && has2 && !lt2:
				ord = 2
			}
			if ord < 0 {
				c.Unknown(rule, cons, "path order classification", fd.Pos(), "path conditions "+p.CondString()+" are not the order>=1 / order>=2 guards")
				continue
			}
			tag := fmt.Sprintf("order=%d", ord)
			if ord == 2 {
				tag = "order>=2"
			}
			if seen[tag] {
				// dyadic panic guard splits paths further; fine
				tag += " (" + p.CondString() + ")"
			}
			seen[tag] = true
			// events
			var hess, grads, vals, lazies, allocs []vn.Event
			for _, e := range p.Events {
				switch e.Kind {
				case "sethess":
					hess = append(hess, e)
				case "setderiv":
					grads = append(grads, e)
				case "setfloat":
					vals = append(vals, e)
				case "lazycall":
					lazies = append(lazies, e)
				case "alloc":
					allocs = append(allocs, e)
				}
			}
			// allocation
			okAlloc := len(allocs) == 1 && allocs[0].Recv == p.Recv && len(allocs[0].Operands) == nops
			if okAlloc {
				for k, o := range allocs[0].Operands {
					if o.Name != fmt.Sprintf("p%d", k) {
						okAlloc = false
					}
				}
			}
			c.Check(okAlloc, rule, cons, tag+": derivative storage allocated from the operands", fd.Pos(), "AllocForOne/AllocForTwo must be called once on the receiver with the operands in order")
			// value
			okVal := len(vals) == 1 && vals[0].Recv == p.Recv && sym.Equal(vals[0].V[0], v0)
			c.Check(okVal, rule, cons, tag+": value = v0", fd.Pos(), "the receiver's value must be set to v0 exactly once on every path")
			// lazies
			if lazy {
				want := 0
				if ord >= 1 {
					want = 1
				}
				if ord == 2 {
					want = 2
				}
				okL := len(lazies) == want
				if okL && want >= 1 && lazies[0].Op != fmt.Sprintf("p%d", nops+1) {
					okL = false
				}
				if okL && want == 2 && lazies[1].Op != fmt.Sprintf("p%d", nops+2) {
					okL = false
				}
				c.Check(okL, rule, cons, tag+": lazies evaluated", fd.Pos(), fmt.Sprintf("expected f1 to be called iff order>=1 and f2 iff order>=2 (got %d calls)", len(lazies)))
			}
			// gradient
			if ord == 0 {
				c.Check(len(grads) == 0 && len(hess) == 0, rule, cons, tag+": no derivative writes", fd.Pos(), "derivative cells written although order is 0")
				continue
			}
			okG := len(grads) == 1
			msg := "expected exactly one SetDerivative statement in a loop over all variables"
			if okG {
				g := grads[0]
				if len(g.Loops) != 1 || !g.Loops[0].Lo.IsZero() || !sym.Equal(g.Loops[0].Hi, Nm1) {
					okG, msg = false, "gradient loop does not run over 0..N-1"
				} else {
					iv := symL(g.Loops[0].Var)
					if !sym.Equal(g.Idx[0], iv) {
						okG, msg = false, "gradient written at index "+g.Idx[0].String()
					} else if g.Recv != p.Recv {
						okG, msg = false, "gradient written to another object"
					} else if !sym.Equal(g.V[0], expG(iv)) {
						okG, msg = false, "gradient cell is "+g.V[0].String()+", chain rule requires "+expG(iv).String()
					}
				}
			}
			c.Check(okG, rule, cons, tag+": gradient g[i]", fd.Pos(), msg)
			if ord == 1 {
				c.Check(len(hess) == 0, rule, cons, tag+": no Hessian writes", fd.Pos(), "Hessian written although order is 1")
				continue
			}
			// Hessian: either full square, or upper triangle + mirror
			okH, hmsg := checkHessianEvents(p, hess, expH, Nm1)
			c.Check(okH, rule, cons, tag+": Hessian H[i][j]", fd.Pos(), hmsg)
		}
		for _, want := range []string{"order=0", "order=1", "order>=2"} {
			if !seen[want] {
				c.Fail(rule, cons, want+": path exists", fd.Pos(), "no path for "+want)
			}
		}
	}
}

func checkHessianEvents(p *vn.Path, hess []vn.Event, expH func(i, j *sym.Term) *sym.Term, Nm1 *sym.Term) (bool, string) {
	if len(hess) == 0 {
		return false, "no Hessian write at order 2"
	}
	main := hess[0]
	if main.Recv != p.Recv || len(main.Loops) != 2 {
		return false, "Hessian write is not inside a double loop on the receiver"
	}
	li, lj := main.Loops[0], main.Loops[1]
	iv, jv := symL(li.Var), symL(lj.Var)
	if !li.Lo.IsZero() || !sym.Equal(li.Hi, Nm1) || !sym.Equal(lj.Hi, Nm1) {
		return false, "Hessian loops do not run up to N-1"
	}
	if !sym.Equal(main.Idx[0], iv) || !sym.Equal(main.Idx[1], jv) {
		return false, "Hessian written at (" + main.Idx[0].String() + "," + main.Idx[1].String() + ")"
	}
	if !sym.Equal(main.V[0], expH(iv, jv)) {
		return false, "Hessian cell is " + main.V[0].String() + ", Faa di Bruno requires " + expH(iv, jv).String()
	}
	full := lj.Lo.IsZero()
	upper := sym.Equal(lj.Lo, iv)
	if !full && !upper {
		return false, "inner Hessian loop starts at " + lj.Lo.String()
	}
	if full {
		if len(hess) != 1 {
			return false, "unexpected extra Hessian writes"
		}
		return true, ""
	}
	if len(hess) != 2 {
		return false, "upper-triangle nest needs exactly one mirror statement"
	}
	m := hess[1]
	if m.Recv != p.Recv || len(m.Loops) != 2 || !sym.Equal(m.Idx[0], jv) || !sym.Equal(m.Idx[1], iv) {
		return false, "mirror statement does not write H[j][i]"
	}
	if !sym.Equal(m.V[0], sym.Fn("H", symL("r0"), iv, jv)) {
		return false, "mirror statement does not copy H[i][j]"
	}
	return true, ""
}

// ---------------------------------------------------------------------------
// R3

func callsCombinator(info *types.Info, fd *ast.FuncDecl) bool {
	found := false
	ast.Inspect(fd.Body, func(n ast.Node) bool {
		if ce, ok := n.(*ast.CallExpr); ok {
			if fn := core.Callee(info, ce); fn != nil {
				if _, ok := combinatorNames[fn.Name()]; ok && fn.Type().(*types.Signature).Recv() != nil {
					found = true
				}
			}
		}
		return true
	})
	return found
}

func checkPrimitives(c *core.Ctx, pkg *packages.Package, T string) {
	info := pkg.TypesInfo
	n := 0
	core.EachFunc(pkg, func(_ *ast.File, fd *ast.FuncDecl) {
		if core.RecvTypeName(fd) != T {
			return
		}
		if _, isComb := combinatorNames[fd.Name.Name]; isComb {
			return
		}
		if !callsCombinator(info, fd) {
			return
		}
		n++
		cons := "(*" + T + ")." + fd.Name.Name
		paths, und := vn.Run(vn.Config{Pkg: pkg, TypeName: T, Spec: scalarSpec, InlineOps: inlineOps}, fd)
		if und != nil {
			c.Unknown("C01.R3", cons, "interpretation", und.Pos, und.Msg)
			return
		}
		for _, p := range paths {
			if p.Panic {
				continue
			}
			var prims []vn.Event
			for _, e := range p.Events {
				if e.Kind == "prim" {
					prims = append(prims, e)
				}
			}
			mode := ""
			if len(paths) > 1 {
				mode = " [" + p.CondString() + "]"
			}
			if len(prims) != 1 {
				c.Unknown("C01.R3", cons, "single combinator call"+mode, fd.Pos(), fmt.Sprintf("%d combinator calls on one path", len(prims)))
				continue
			}
			e := prims[0]
			if e.Recv != p.Recv {
				c.Fail("C01.R3", cons, "combinator applied to the receiver"+mode, e.Pos, "combinator called on an object other than the receiver")
				continue
			}
			v0 := e.V[0]
			// domain marker paths (v0 := NaN)
			if s := v0.String(); s == "NaN" || s == "+Inf" || s == "-Inf" {
				c.OK("C01.R3", cons, "domain marker path"+mode, e.Pos, "")
				continue
			}
			// operands: v0 may depend only on the operands handed over (+ non-scalar parameters)
			opSyms := map[string]bool{}
			for _, o := range e.Operands {
				opSyms[o.Name] = true
			}
			badDep := ""
			for k, pv := range p.Params {
				if l, ok := pv.(*vn.Loc); ok {
					nm := fmt.Sprintf("p%d", k)
					if !opSyms[l.Name] && v0.DependsOn(sym.SymAtom(nm)) {
						// a scalar that carries no derivatives on this path (guard order(pk) < 1) is a constant of the chain rule
						constant := false
						for _, cv := range p.Conds {
							if cv.V && cv.C.Op == "lt" && sym.Equal(cv.C.A, sym.Fn("order", sym.Sym(nm))) {
								if k, ok := cv.C.B.IsConst(); ok && k.Cmp(bigOne) == 0 {
									constant = true
								}
							}
						}
						if !constant {
							badDep = nm
						}
					}
				}
			}
			if v0.DependsOn(sym.SymAtom("r0")) {
				badDep = "the receiver's previous value"
			}
			c.Check(badDep == "", "C01.R3", cons, "value depends only on the operands handed to the combinator"+mode, e.Pos,
				"v0 = "+v0.String()+" depends on "+badDep+", which is not an operand of the chain rule")
			diff := func(t *sym.Term, x string) *sym.Term {
				r, err := sym.Diff(t, sym.SymAtom(x))
				if err != nil {
					return nil
				}
				return r
			}
			chk := func(what string, got *sym.Term, want *sym.Term) {
				if want == nil {
					c.Unknown("C01.R3", cons, what+mode, e.Pos, "no differentiation rule for an atom of "+v0.String())
					return
				}
				c.Check(sym.Equal(got, want), "C01.R3", cons, what+mode, e.Pos,
					fmt.Sprintf("coefficient is %s but the derivative of v0 = %s is %s", got, v0, want))
			}
			if len(e.Operands) == 1 {
				x := e.Operands[0].Name
				d1 := diff(v0, x)
				chk("v1 = d v0/dx", e.V[1], d1)
				if d1 != nil {
					chk("v2 = d2 v0/dx2", e.V[2], diff(d1, x))
				}
			} else {
				x, y := e.Operands[0].Name, e.Operands[1].Name
				if x == y {
					c.Unknown("C01.R3", cons, "distinct operands"+mode, e.Pos, "both operands are the same object")
					continue
				}
				dx, dy := diff(v0, x), diff(v0, y)
				chk("v10 = d v0/dx", e.V[1], dx)
				chk("v01 = d v0/dy", e.V[2], dy)
				if dx != nil && dy != nil {
					chk("v11 = d2 v0/dxdy", e.V[3], diff(dx, y))
					chk("v20 = d2 v0/dx2", e.V[4], diff(dx, x))
					chk("v02 = d2 v0/dy2", e.V[5], diff(dy, y))
				}
			}
		}
	})
	c.Analysed["primitives_"+T] = n
}

// ---------------------------------------------------------------------------
// R5

func checkNoDerivatives(c *core.Ctx, pkg *packages.Package, T string) {
	for _, m := range []string{"GetOrder", "GetN", "GetDerivative", "GetHessian"} {
		fd := core.FindMethod(pkg, T, m)
		cons := "(" + T + ")." + m
		if fd == nil {
			c.Unknown("C01.R5", cons, "present", token.NoPos, "method not found")
			continue
		}
		ok := false
		if len(fd.Body.List) == 1 {
			if rs, ok2 := fd.Body.List[0].(*ast.ReturnStmt); ok2 && len(rs.Results) == 1 {
				if tv, ok3 := pkg.TypesInfo.Types[rs.Results[0]]; ok3 && tv.Value != nil && tv.Value.String() == "0" {
					ok = true
				}
			}
		}
		c.Check(ok, "C01.R5", cons, "returns the constant 0", fd.Pos(), "a non-magic scalar must report zero order/N/derivative")
	}
}
