package checks

import (
	"strings"

	"verif/internal/core"
	"verif/internal/eff"
)

// checkSetParametersPure (C12.R7): SetParameters(parameters Vector) of a distribution reads its argument: the may-write
// summary of the method contains no write that reaches the parameter vector (the caller's vector is an input; a second
// call with the same vector must build the same distribution).
func checkSetParametersPure(c *core.Ctx) {
	c.Rule("C12.R7", "SetParameters of every distribution leaves the parameter vector it is given unchanged", 30)
	var pkgs = c.LibPkgs()
	e := eff.New(pkgs, c.Fset)
	for _, f := range e.All {
		if f.Decl == nil || f.Decl.Recv == nil || f.Decl.Name.Name != "SetParameters" {
			continue
		}
		if !strings.Contains(f.Name, "Distribution") && !strings.Contains(f.Name, "statistics/") {
			continue
		}
		if len(f.Params) < 2 || f.Params[1] == nil {
			continue
		}
		ws := observableWrites(f.WritesOf(f.Params[1]))
		var kept []eff.Write
		for _, w := range ws {
			if strings.Contains(describeWrite(c, w), "Iterator).") {
				continue
			}
			kept = append(kept, w)
		}
		if len(kept) == 0 {
			c.OK("C12.R7", f.Name, "parameter vector not written", f.Decl.Pos(), "")
		} else {
			c.Fail("C12.R7", f.Name, "parameter vector not written", kept[0].Pos, "SetParameters may write the vector it is given: "+describeWrite(c, kept[0])+" (the caller's parameters are changed, and a second call with the same vector builds a different distribution)")
		}
	}
}
