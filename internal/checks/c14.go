package checks

import (
	"fmt"
	"go/ast"
	"go/types"
	"os"
	"sort"
	"strconv"
	"strings"

	"golang.org/x/tools/go/packages"

	"verif/internal/core"
	"verif/internal/sym"
	"verif/internal/vn"
)

// ---------------------------------------------------------------------------
// symbolic evaluation of distributions: constructor, then a method on the constructed object
// ---------------------------------------------------------------------------

// distSpec: scalar operations met in distribution code beyond the arithmetic core.
func distSpec(name string, a []*sym.Term, extra []vn.Value) (*sym.Term, bool) {
	// reductions over local vectors (Gram-Schmidt: Vnorm, VdotV of matrix columns)
	if name == "vnorm" || name == "vdotv" {
		var vs []*vn.LocalVec
		for _, e := range extra {
			if lv, ok := e.(*vn.LocalVec); ok {
				vs = append(vs, lv)
			}
		}
		if (name == "vnorm" && len(vs) == 1) || (name == "vdotv" && len(vs) == 2) {
			if c, ok := vs[0].Len.IsConst(); ok && c.IsInt() {
				n := int(c.Num().Int64())
				s := sym.Zero()
				for i := 0; i < n; i++ {
					x := vs[0].Cell(i)
					y := vs[len(vs)-1].Cell(i)
					if x == nil || y == nil {
						return nil, false
					}
					s = sym.Add(s, sym.Mul(x, y))
				}
				if name == "vnorm" {
					return sym.Fn("pow", s, sym.Rat(1, 2)), true
				}
				return s, true
			}
		}
	}
	if v, ok := scalarSpec(name, a, extra); ok {
		return v, true
	}
	switch name {
	case "mlgamma", "gammap", "logbesseli", "besseli":
		var args, params []*sym.Term
		for _, e := range extra {
			if t, ok := e.(*sym.Term); ok {
				params = append(params, t)
			}
		}
		if name == "mlgamma" {
			// mlgamma(x, k)
			args = append(append(args, a...), params...)
		} else {
			// gammap(shape, x), besseli(order, x): the parameter comes first, as in the special-function package
			args = append(append(args, params...), a...)
		}
		return sym.Fn(name, args...), true
	case "digamma", "trigamma":
		if len(a) >= 1 {
			return sym.Fn(name, a[0]), true
		}
	}
	return nil, false
}

type declIndex struct {
	decl map[*types.Func]*ast.FuncDecl
	info map[*types.Func]*types.Info
}

func newDeclIndex(c *core.Ctx) *declIndex {
	d := &declIndex{decl: map[*types.Func]*ast.FuncDecl{}, info: map[*types.Func]*types.Info{}}
	for _, p := range c.LibPkgs() {
		p := p
		core.EachFunc(p, func(_ *ast.File, fd *ast.FuncDecl) {
			if o, ok := p.TypesInfo.Defs[fd.Name].(*types.Func); ok {
				d.decl[o] = fd
				d.info[o] = p.TypesInfo
			}
		})
	}
	return d
}

func (d *declIndex) find(fn *types.Func) (*ast.FuncDecl, *types.Info) {
	if fn == nil {
		return nil, nil
	}
	if o := fn.Origin(); o != nil {
		fn = o
	}
	return d.decl[fn], d.info[fn]
}

// ctorResult is one successful path of a constructor.
type ctorResult struct {
	obj   *vn.StructVal
	conds []vn.CondV
	text  string
}

// runConstructor interprets a constructor and returns its success paths (error result nil) and the number of
// failing paths.
// c14CtorSyms: symbol names for the constructor's parameters by position (the names of the reference table), so that
// the comparison does not depend on how the constructor names its parameters. Set by the caller; nil = source names.
var c14CtorSyms []string

// c14MethodSyms: positional symbol names for the parameters of the interpreted methods.
var c14MethodSyms = map[string][]string{"LogPdf": {"r", "x"}, "Pdf": {"r", "x"}, "Cdf": {"r", "x"}, "LogCdf": {"r", "x"},
	"SetParameters": {"parameters"}, "ImportConfig": {"config", "t"}}

func runConstructor(p *packages.Package, d *declIndex, fd *ast.FuncDecl) (ok []ctorResult, nfail int, und *vn.Undecided) {
	cfg := vn.Config{Pkg: p, TypeName: "Real64", Spec: distSpec, InlineOps: inlineOps, Decl: d.find, ParamNames: true, MaxDepth: 6, ParamSyms: c14CtorSyms}
	paths, u := vn.Run(cfg, fd)
	if u != nil {
		return nil, 0, u
	}
	for _, pa := range paths {
		if pa.Panic {
			nfail++
			continue
		}
		var obj *vn.StructVal
		isErr := false
		switch r := pa.Ret.(type) {
		case vn.Tuple:
			for _, e := range r {
				switch v := e.(type) {
				case *vn.StructVal:
					obj = v
				case *vn.ErrVal:
					isErr = true
				}
			}
		case *vn.StructVal:
			obj = r
		}
		if isErr || obj == nil {
			nfail++
			continue
		}
		ok = append(ok, ctorResult{obj: obj, conds: pa.Conds, text: pa.CondString()})
	}
	return ok, nfail, nil
}

// methodPath is one path of a method run on a constructed object.
type methodPath struct {
	conds   string
	condvs  []vn.CondV
	result  *sym.Term // final value of the first scalar parameter (r)
	ret     vn.Value
	panics  bool
	written bool
	recv    *vn.StructVal
}

// runMethod interprets method fd on (a deep copy of) obj. The scalar parameters keep their source names.
var c14IntSyms map[string]bool
var c14Paths int

// c14ParamList: positional pre-bound parameters for the next runMethod call (a vector argument bound to a one-element
// local vector holding the symbol x)
var c14ParamList []vn.Value

func runMethod(p *packages.Package, d *declIndex, fd *ast.FuncDecl, obj *vn.StructVal) ([]methodPath, *vn.Undecided) {
	var res []methodPath
	// every path needs a fresh copy of the object: run path by path through vn.Run with a copying hook is not
	// available, so the object is copied once per Run and Run re-binds it on every path enumeration through RecvStruct.
	cfg := vn.Config{Pkg: p, TypeName: "Real64", Spec: distSpec, InlineOps: inlineOps, Decl: d.find, ParamNames: true, MaxDepth: 6,
		RecvStruct: obj, RecvFresh: true, IntSyms: c14IntSyms, ParamSyms: c14MethodSyms[fd.Name.Name]}
	if c14ParamList != nil {
		cfg.ParamList = c14ParamList
		cfg.ParamFresh = true
	}
	paths, u := vn.Run(cfg, fd)
	if u != nil {
		return nil, u
	}
	c14Paths += len(paths)
	for _, pa := range paths {
		mp := methodPath{conds: pa.CondString(), condvs: pa.Conds, ret: pa.Ret, panics: pa.Panic, recv: pa.RecvObj}
		for _, pv := range pa.Params {
			if l, ok := pv.(*vn.Loc); ok {
				mp.result = l.Val
				mp.written = l.Written
				break
			}
		}
		res = append(res, mp)
	}
	return res, nil
}

func findFuncDecl(p *packages.Package, name string) *ast.FuncDecl {
	var r *ast.FuncDecl
	core.EachFunc(p, func(_ *ast.File, fd *ast.FuncDecl) {
		if fd.Recv == nil && fd.Name.Name == name {
			r = fd
		}
	})
	return r
}

func findMethodDecl(p *packages.Package, T, name string) *ast.FuncDecl {
	var r *ast.FuncDecl
	core.EachFunc(p, func(_ *ast.File, fd *ast.FuncDecl) {
		if fd.Recv != nil && fd.Name.Name == name && core.RecvTypeName(fd) == T {
			r = fd
		}
	})
	return r
}

// DebugDistribution prints constructor and method summaries (used by cmd/distdump).
func DebugDistribution(c *core.Ctx, pkgRel, T, method string) string {
	p := c.Pkg(pkgRel)
	if p == nil {
		return "no package " + pkgRel
	}
	d := newDeclIndex(c)
	var b strings.Builder
	ctor := findFuncDecl(p, "New"+T)
	if ctor == nil {
		return "no constructor New" + T
	}
	oks, nfail, und := runConstructor(p, d, ctor)
	if und != nil {
		return fmt.Sprintf("constructor undecided: %s at %s", und.Msg, c.PosStr(und.Pos))
	}
	fmt.Fprintf(&b, "constructor New%s: %d success path(s), %d failing\n", T, len(oks), nfail)
	for i, o := range oks {
		fmt.Fprintf(&b, " success %d under %s\n", i, o.text)
		for _, f := range o.obj.FieldNames() {
			fmt.Fprintf(&b, "   %s = %s\n", f, showValue(o.obj.Fields[f]))
		}
		m := findMethodDecl(p, T, method)
		if m == nil {
			fmt.Fprintf(&b, " no method %s\n", method)
			continue
		}
		mps, und := runMethod(p, d, m, o.obj)
		if und != nil {
			fmt.Fprintf(&b, " %s undecided: %s at %s\n", method, und.Msg, c.PosStr(und.Pos))
			continue
		}
		for _, mp := range mps {
			fmt.Fprintf(&b, "   %s path [%s] panic=%v -> r = %v ; ret = %s\n", method, mp.conds, mp.panics, mp.result, showValue(mp.ret))
		}
	}
	return b.String()
}

func showValue(v vn.Value) string {
	switch t := v.(type) {
	case *sym.Term:
		return t.String()
	case *vn.Loc:
		return "scalar(" + t.Val.String() + ")"
	case *vn.StructVal:
		var fs []string
		for _, f := range t.FieldNames() {
			fs = append(fs, f+":"+showValue(t.Fields[f]))
		}
		return "{" + strings.Join(fs, ", ") + "}"
	case vn.Tuple:
		var es []string
		for _, e := range t {
			es = append(es, showValue(e))
		}
		return "(" + strings.Join(es, ", ") + ")"
	case vn.NilVal:
		return "nil"
	case *vn.ErrVal:
		return "error"
	case *vn.BoolVal:
		if t.Known {
			return fmt.Sprint(t.V)
		}
		return "bool?"
	case *vn.OpaqueVal:
		return "opaque(" + t.What + ")"
	case nil:
		return "<none>"
	}
	return fmt.Sprintf("%T", v)
}

var _ = sort.Strings

// ---------------------------------------------------------------------------
// C14 — probability distributions: log-densities are the textbook formulas, with the textbook support and domain
// ---------------------------------------------------------------------------

func init() { Registry["C14"] = checkC14 }

type distVariant struct {
	when    string // condition atom of the constructor path that selects this variant ("" = any)
	formula func(P map[string]*sym.Term, x *sym.Term) *sym.Term
	// support: condition atoms (rendered with parameter names) that every in-support path of LogPdf must carry
	support []string
	// domain: condition atoms the constructor's success path must carry
	domain []string
	// integer: the family is discrete (paths for non-integer x may return an error or -Inf)
	integer bool
}

type distEntry struct {
	T        string
	params   []string
	variants []distVariant
	why      string
}

func lg(t *sym.Term) *sym.Term { return sym.Fn("lgamma", t) }
func ln(t *sym.Term) *sym.Term { return sym.Fn("log", t) }
func one() *sym.Term           { return sym.One() }
func num(a, b int64) *sym.Term { return sym.Rat(a, b) }

// scalarDistTable: the textbook log-densities under the parametrisation of each constructor.
var scalarDistTable = []distEntry{
	{T: "NormalDistribution", params: []string{"mu", "sigma"}, variants: []distVariant{{
		formula: func(P map[string]*sym.Term, x *sym.Term) *sym.Term {
			d := sym.Sub(x, P["mu"])
			return sym.Sub(sym.Sub(sym.Mul(num(-1, 2), ln(sym.Mul(sym.Int(2), sym.Sym("pi")))), ln(P["sigma"])), sym.Div(sym.Mul(d, d), sym.Mul(sym.Int(2), sym.Mul(P["sigma"], P["sigma"]))))
		}, domain: []string{"lt(0, sigma)"}}}},
	{T: "GammaDistribution", params: []string{"alpha", "beta"}, variants: []distVariant{{
		formula: func(P map[string]*sym.Term, x *sym.Term) *sym.Term {
			a, b := P["alpha"], P["beta"]
			return sym.Add(sym.Sub(sym.Mul(a, ln(b)), lg(a)), sym.Sub(sym.Mul(sym.Sub(a, one()), ln(x)), sym.Mul(b, x)))
		}, support: []string{"lt(0, x)"}, domain: []string{"lt(0, alpha)", "lt(0, beta)"}}}},
	{T: "ExponentialDistribution", params: []string{"lambda"}, variants: []distVariant{{
		formula: func(P map[string]*sym.Term, x *sym.Term) *sym.Term {
			return sym.Sub(ln(P["lambda"]), sym.Mul(P["lambda"], x))
		}, support: []string{"!lt(x, 0)"}, domain: []string{"lt(0, lambda)"}}}},
	{T: "BetaDistribution", params: []string{"alpha", "beta", "logScale"}, variants: []distVariant{
		{when: "!param(logScale)", formula: func(P map[string]*sym.Term, x *sym.Term) *sym.Term {
			a, b := P["alpha"], P["beta"]
			z := sym.Sub(sym.Sub(lg(sym.Add(a, b)), lg(a)), lg(b))
			return sym.Add(z, sym.Add(sym.Mul(sym.Sub(a, one()), ln(x)), sym.Mul(sym.Sub(b, one()), ln(sym.Sub(one(), x)))))
		}, support: []string{"!lt(x, 0)", "!lt(1, x)"}, domain: []string{"lt(0, alpha)", "lt(0, beta)"}},
		{when: "param(logScale)", formula: func(P map[string]*sym.Term, x *sym.Term) *sym.Term {
			// the argument is log(theta): density of theta evaluated at theta = exp(x)
			a, b := P["alpha"], P["beta"]
			z := sym.Sub(sym.Sub(lg(sym.Add(a, b)), lg(a)), lg(b))
			return sym.Add(z, sym.Add(sym.Mul(sym.Sub(a, one()), x), sym.Mul(sym.Sub(b, one()), ln(sym.Sub(one(), sym.Fn("exp", x))))))
		}, support: []string{"!lt(0, x)"}, domain: []string{"lt(0, alpha)", "lt(0, beta)"}}}},
	{T: "CauchyDistribution", params: []string{"mu", "sigma"}, variants: []distVariant{{
		formula: func(P map[string]*sym.Term, x *sym.Term) *sym.Term {
			d := sym.Sub(x, P["mu"])
			return sym.Sub(ln(sym.Div(P["sigma"], sym.Sym("pi"))), ln(sym.Add(sym.Mul(d, d), sym.Mul(P["sigma"], P["sigma"]))))
		}, domain: []string{"lt(0, sigma)"}}}},
	{T: "ChiSquaredDistribution", params: []string{"t", "k_"}, variants: []distVariant{{
		formula: func(P map[string]*sym.Term, x *sym.Term) *sym.Term {
			h := sym.Mul(num(1, 2), P["k_"])
			return sym.Sub(sym.Sub(sym.Sub(sym.Mul(sym.Sub(h, one()), ln(x)), sym.Mul(num(1, 2), x)), sym.Mul(h, ln(sym.Int(2)))), lg(h))
		}, support: []string{"lt(0, x)"}, domain: []string{"lt(0, k_)"}}}},
	{T: "GeneralizedGammaDistribution", params: []string{"a", "d", "p"}, variants: []distVariant{{
		formula: func(P map[string]*sym.Term, x *sym.Term) *sym.Term {
			a, d, p := P["a"], P["d"], P["p"]
			return sym.Sub(sym.Add(sym.Sub(sym.Sub(ln(p), sym.Mul(d, ln(a))), lg(sym.Div(d, p))), sym.Mul(sym.Sub(d, one()), ln(x))), sym.Fn("pow", sym.Div(x, a), p))
		}, support: []string{"lt(0, x)"}, domain: []string{"lt(0, a)", "lt(0, d)", "lt(0, p)"}}}},
	{T: "LaplaceDistribution", params: []string{"mu", "sigma"}, variants: []distVariant{{
		formula: func(P map[string]*sym.Term, x *sym.Term) *sym.Term {
			return sym.Sub(sym.Neg(ln(sym.Mul(sym.Int(2), P["sigma"]))), sym.Div(sym.Fn("abs", sym.Sub(x, P["mu"])), P["sigma"]))
		}, domain: []string{"lt(0, sigma)"}}}},
	{T: "ParetoDistribution", params: []string{"lambda", "kappa"}, variants: []distVariant{{
		formula: func(P map[string]*sym.Term, x *sym.Term) *sym.Term {
			l, k := P["lambda"], P["kappa"]
			return sym.Sub(sym.Add(ln(k), sym.Mul(k, ln(l))), sym.Mul(sym.Add(k, one()), ln(x)))
		}, support: []string{"!lt(x, lambda)"}, domain: []string{"lt(0, lambda)", "lt(0, kappa)"}}}},
	{T: "PowerLawDistribution", params: []string{"alpha", "xmin"}, variants: []distVariant{{
		formula: func(P map[string]*sym.Term, x *sym.Term) *sym.Term {
			a, m := P["alpha"], P["xmin"]
			return sym.Sub(ln(sym.Div(sym.Sub(a, one()), m)), sym.Mul(a, ln(sym.Div(x, m))))
		}, support: []string{"!lt(x, xmin)"}, domain: []string{"lt(1, alpha)", "lt(0, xmin)"}}}},
	{T: "GevDistribution", params: []string{"mu", "sigma", "xi"}, variants: []distVariant{{
		formula: func(P map[string]*sym.Term, x *sym.Term) *sym.Term {
			mu, s, xi := P["mu"], P["sigma"], P["xi"]
			t := sym.Add(one(), sym.Div(sym.Mul(xi, sym.Sub(x, mu)), s))
			return sym.Sub(sym.Sub(sym.Neg(ln(s)), sym.Mul(sym.Add(one(), sym.Div(one(), xi)), ln(t))), sym.Fn("pow", t, sym.Div(sym.Int(-1), xi)))
		}, support: []string{"lt(-1, (-1*mu*xi + x*xi)/(sigma))"}, domain: []string{"lt(0, sigma)"}}},
		why: "for xi = 0 the Gumbel limit -log(sigma) - z - exp(-z), z = (x-mu)/sigma, is compared on the path carrying eq(0, xi)"},
	{T: "GParetoDistribution", params: []string{"mu", "sigma", "xi"}, variants: []distVariant{{
		formula: func(P map[string]*sym.Term, x *sym.Term) *sym.Term {
			mu, s, xi := P["mu"], P["sigma"], P["xi"]
			t := sym.Add(one(), sym.Div(sym.Mul(xi, sym.Sub(x, mu)), s))
			return sym.Sub(sym.Neg(ln(s)), sym.Mul(sym.Add(one(), sym.Div(one(), xi)), ln(t)))
		}, support: []string{"!lt(x, mu)"}, domain: []string{"lt(0, sigma)"}}},
		why: "for xi = 0 the exponential limit -log(sigma) - (x-mu)/sigma is compared on the path carrying eq(0, xi)"},
	{T: "PoissonDistribution", params: []string{"lambda"}, variants: []distVariant{{
		formula: func(P map[string]*sym.Term, x *sym.Term) *sym.Term {
			return sym.Sub(sym.Sub(sym.Mul(x, ln(P["lambda"])), P["lambda"]), lg(sym.Add(x, one())))
		}, support: []string{"!lt(x, 0)", "eq(floor(x), x)"}, domain: []string{"lt(0, lambda)"}, integer: true}}},
	{T: "BinomialDistribution", params: []string{"theta", "n"}, variants: []distVariant{{
		formula: func(P map[string]*sym.Term, x *sym.Term) *sym.Term {
			th, n := P["theta"], P["n"]
			c := sym.Sub(sym.Sub(lg(sym.Add(n, one())), lg(sym.Add(x, one()))), lg(sym.Add(sym.Sub(n, x), one())))
			return sym.Add(c, sym.Add(sym.Mul(x, ln(th)), sym.Mul(sym.Sub(n, x), ln(sym.Sub(one(), th)))))
		}, // x > n needs no guard: lgamma(n-x+1) has a pole at every integer x > n, so the formula itself evaluates to -Inf there
		support: []string{"!lt(x, 0)", "eq(floor(x), x)"}, domain: []string{"!lt(theta, 0)", "!lt(1, theta)", "!lt(n, 0)"}, integer: true}}},
	{T: "NegativeBinomialDistribution", params: []string{"r", "p"}, variants: []distVariant{{
		// number of successes x before the r-th failure, success probability p (the parametrisation of the constructor's doc: mean p r/(1-p))
		formula: func(P map[string]*sym.Term, x *sym.Term) *sym.Term {
			r, p := P["r"], P["p"]
			c := sym.Sub(sym.Sub(lg(sym.Add(x, r)), lg(sym.Add(x, one()))), lg(r))
			return sym.Add(c, sym.Add(sym.Mul(x, ln(p)), sym.Mul(r, ln(sym.Sub(one(), p)))))
		}, support: []string{"!lt(x, 0)", "eq(floor(x), x)"}, domain: []string{"lt(0, r)", "!lt(p, 0)", "!lt(1, p)"}, integer: true}}},
	{T: "GeometricDistribution", params: []string{"p"}, variants: []distVariant{{
		// number of failures x before the first success
		formula: func(P map[string]*sym.Term, x *sym.Term) *sym.Term {
			return sym.Add(ln(P["p"]), sym.Mul(x, ln(sym.Sub(one(), P["p"]))))
		}, support: []string{"!lt(x, 0)", "eq(floor(x), x)"}, domain: []string{"lt(0, p)", "!lt(1, p)"}, integer: true}}},
}

// reviewed exclusions from the formula table
var scalarDistExcluded = map[string]string{
	"CategoricalDistribution": "vector-valued parameter table: decided by rule R7 on three symbolic probabilities instead of a family formula",
	"DeltaDistribution":       "point mass: LogPdf is 0 at the atom and -Inf elsewhere, checked by the support rule only",
	"Mixture":                 "composite of component distributions (generic mixture, C16 territory)",
	"PdfLogTransform":         "wrapper: density of a transformed variable, checked by rule R6 (wrappers) not by a family formula",
	"PdfTranslation":          "wrapper: density of a shifted variable, checked by rule R6",
}

func checkC14(c *core.Ctx) error {
	if err := c.Load(packages.LoadSyntax); err != nil {
		return err
	}
	c.Explanation = "Each scalar distribution is evaluated symbolically from its source: the constructor is interpreted on symbolic parameters (its success paths give every field of the object, including the cached normalisation constants, as a term over the parameters, and the conditions it validates), then LogPdf is interpreted on that object for a symbolic argument x. " +
		"(R1) on every path that returns a value the result equals, as an identity of terms, the textbook log-density of the family under the constructor's parametrisation (path conditions such as alpha = 1 are applied to both sides); " +
		"(R2) every value-returning path carries the textbook support conditions and every other path yields exactly -Inf or an error; (R3) the constructor's success paths carry the textbook parameter domain; " +
		"(R4) GetParameters, SetParameters, the constructor, ImportConfig and ExportConfig agree on the order of the parameters; (R5) Clone reproduces every field; (R6) Pdf = exp(LogPdf) and the wrapped distributions apply the change of variables."
	c.Rule("C14.R1", "LogPdf equals the textbook log-density of the family on every in-support path (symbolic identity over parameters and x)", 14)
	c.Rule("C14.R2", "in-support paths carry the textbook support conditions; all other paths return -Inf or an error, never a finite value", 14)
	c.Rule("C14.R3", "constructors reject parameters outside the textbook domain", 14)
	c.Rule("C14.R4", "SetParameters and ImportConfig invert GetParameters/ExportConfig: feeding the getter's elements back reproduces every field", 20)
	c.Rule("C14.R6", "Pdf equals exp of the log-density and the derivative of Cdf/LogCdf (where the interpreter and the derivative rules reach) equals the density", 10)
	c.Rule("C14.R5", "Clone reproduces every field of the distribution object (parameters and cached constants)", 14)
	p := c.Pkg("statistics/scalarDistribution")
	if p == nil {
		return fmt.Errorf("package statistics/scalarDistribution not found")
	}
	d := newDeclIndex(c)
	// every constructor New*Distribution is either in the table or excluded with a reason
	seen := map[string]bool{}
	for _, e := range scalarDistTable {
		seen[e.T] = true
	}
	core.EachFunc(p, func(_ *ast.File, fd *ast.FuncDecl) {
		if fd.Recv != nil || !strings.HasPrefix(fd.Name.Name, "New") {
			return
		}
		T := strings.TrimPrefix(fd.Name.Name, "New")
		if p.Types.Scope().Lookup(T) == nil {
			return
		}
		if !seen[T] {
			if _, ok := scalarDistExcluded[T]; !ok {
				c.Unknown("C14.R1", "statistics/scalarDistribution."+T, "family has a reference formula", fd.Pos(), "distribution "+T+" is neither in the formula table nor excluded with a reason")
			}
		}
	})
	for _, e := range scalarDistTable {
		checkDistEntry(c, p, d, e)
	}
	c.Analysed["families_with_reference_formula"] = len(scalarDistTable)
	c.Analysed["families_excluded_with_reason"] = len(scalarDistExcluded)
	c.Analysed["interpreted_paths"] = c14Paths
	checkWrappers(c, p, d)
	checkIid(c, p, d)
	checkCategorical(c, p, d)
	checkTraceOfProduct(c)
	checkIntegerDivisionInConstants(c)
	c14CompositeLayout(c)
	checkSupportGuardsAgree(c)
	return nil
}

// checkIid (R6): the i.i.d. product vectorDistribution.ScalarIid built around a symbolic normal distribution with n = 2
// (3 in the thorough tier) components has the log-density sum_i log f(x_i).
func checkIid(c *core.Ctx, ps *packages.Package, d *declIndex) {
	pv := c.Pkg("statistics/vectorDistribution")
	cons := "statistics/vectorDistribution.ScalarIid"
	if pv == nil {
		c.Unknown("C14.R6", cons, "package found", 0, "package statistics/vectorDistribution not found")
		return
	}
	var normal *distEntry
	for i := range scalarDistTable {
		if scalarDistTable[i].T == "NormalDistribution" {
			normal = &scalarDistTable[i]
		}
	}
	nctor := findFuncDecl(ps, "NewNormalDistribution")
	ctor := findFuncDecl(pv, "NewScalarIid")
	lp := findMethodDecl(pv, "ScalarIid", "LogPdf")
	if normal == nil || nctor == nil || ctor == nil || lp == nil {
		c.Unknown("C14.R6", cons, "constructor and LogPdf found", 0, "NewScalarIid, LogPdf or the inner family not found")
		return
	}
	c14CtorSyms = normal.params
	inner, _, und := runConstructor(ps, d, nctor)
	c14CtorSyms = nil
	if und != nil || len(inner) == 0 {
		c.Unknown("C14.R6", cons, "inner family interpreted", nctor.Pos(), "constructor of the inner family could not be interpreted")
		return
	}
	nfix := int64(2)
	if c.Tier == "thorough" {
		nfix = 3
	}
	nval := 0
	// fixed dimension n, and the variable-length form n = -1 evaluated on a vector of two elements
	for _, variant := range []struct {
		n, len int64
	}{{nfix, nfix}, {-1, 2}} {
		n := variant.n
		tag := ""
		if n < 0 {
			tag = " (variable length, n = -1)"
		}
		cfg := vn.Config{Pkg: pv, TypeName: "Real64", Spec: distSpec, InlineOps: inlineOps, Decl: d.find, ParamNames: true, MaxDepth: 6, UnrollConst: true,
			ParamValues: map[string]vn.Value{"distribution": vn.DeepCopy(inner[0].obj, nil), "n": sym.Int(n)}}
		paths, u := vn.Run(cfg, ctor)
		if u != nil {
			c.Unknown("C14.R6", cons, "constructor interpreted"+tag, u.Pos, "left the interpreter's idiom set: "+u.Msg)
			continue
		}
		var obj *vn.StructVal
		for _, pa := range paths {
			if t, ok := pa.Ret.(vn.Tuple); ok && len(t) == 2 {
				if o, isObj := t[0].(*vn.StructVal); isObj {
					obj = o
				}
			}
		}
		if obj == nil {
			c.Unknown("C14.R6", cons, "constructor has a success path"+tag, ctor.Pos(), "no success path")
			continue
		}
		cfg2 := vn.Config{Pkg: pv, TypeName: "Real64", Spec: distSpec, InlineOps: inlineOps, Decl: d.find, ParamNames: true, MaxDepth: 6, UnrollConst: true,
			RecvStruct: obj, RecvFresh: true}
		// the argument is a vector of variant.len independent symbols
		var xs []*sym.Term
		for i := int64(0); i < variant.len; i++ {
			xs = append(xs, symf("x_%d", i))
		}
		cfg2.ParamList = []vn.Value{nil, vn.NewLocalVec(xs...)}
		cfg2.ParamFresh = true
		elem := func(i int64) *sym.Term { return symf("x_%d", i) }
		lpaths, u := vn.Run(cfg2, lp)
		if u != nil {
			c.Unknown("C14.R6", cons, "LogPdf interpreted"+tag, u.Pos, "left the interpreter's idiom set: "+u.Msg)
			continue
		}
		P := map[string]*sym.Term{"mu": sym.Sym("mu"), "sigma": sym.Sym("sigma")}
		f := normal.variants[0].formula
		want := sym.Zero()
		for i := int64(0); i < variant.len; i++ {
			want = sym.Add(want, f(P, elem(i)))
		}
		for _, pa := range lpaths {
			if pa.Panic {
				continue
			}
			if _, isErr := pa.Ret.(*vn.ErrVal); isErr {
				continue
			}
			var res *sym.Term
			for _, pvl := range pa.Params {
				if l, ok := pvl.(*vn.Loc); ok {
					res = l.Val
					break
				}
			}
			if res == nil || res.DependsOn(sym.SymAtom("-Inf")) {
				continue
			}
			nval++
			c.Check(sym.Equal(res, want), "C14.R6", cons, fmt.Sprintf("LogPdf is the sum of the %d component log-densities%s [%s]", variant.len, tag, shortConds(pa.CondString())), lp.Pos(),
				"the product distribution evaluates to "+res.String()+" but the sum of the component log-densities is "+want.String())
		}
	}
	c.Check(nval > 0, "C14.R6", cons, "LogPdf has a value-returning path", lp.Pos(), "no value-returning path")
}

// checkWrappers (R6): the wrapped distributions apply the change of variables. The wrapper is built around a symbolic
// normal distribution and its LogPdf is compared with the density of the transformed variable:
//
//	PdfLogTransform(f, c): X = log(Y + c) ~ f  =>  log f_Y(y) = log f(log(y + c)) - log(y + c), -Inf for y < 0
//	PdfTranslation(f, c):  X = Y + c ~ f       =>  log f_Y(y) = log f(y + c)
func checkWrappers(c *core.Ctx, p *packages.Package, d *declIndex) {
	checkWrappersFor(c, p, d, "NormalDistribution")
	if c.Tier == "thorough" {
		// further inner families (thorough tier): the change of variables does not depend on the wrapped family
		checkWrappersFor(c, p, d, "GammaDistribution")
		checkWrappersFor(c, p, d, "ExponentialDistribution")
		checkWrappersFor(c, p, d, "CauchyDistribution")
	}
}

func checkWrappersFor(c *core.Ctx, p *packages.Package, d *declIndex, innerT string) {
	var normal *distEntry
	for i := range scalarDistTable {
		if scalarDistTable[i].T == innerT {
			normal = &scalarDistTable[i]
		}
	}
	nctor := findFuncDecl(p, "New"+innerT)
	if normal == nil || nctor == nil {
		c.Unknown("C14.R6", "statistics/scalarDistribution wrappers", "inner family available", 0, "normal distribution not found")
		return
	}
	c14CtorSyms = normal.params
	inner, _, und := runConstructor(p, d, nctor)
	c14CtorSyms = nil
	if und != nil || len(inner) == 0 {
		c.Unknown("C14.R6", "statistics/scalarDistribution wrappers", "inner family interpreted", nctor.Pos(), "constructor of the inner family could not be interpreted")
		return
	}
	P := map[string]*sym.Term{}
	for _, pn := range normal.params {
		P[pn] = sym.Sym(pn)
	}
	f := normal.variants[0].formula
	x := sym.Sym("x")
	cc := sym.Sym("pseudocount")
	type wrap struct {
		T       string
		want    *sym.Term
		support []string
	}
	z := ln(sym.Add(x, cc))
	for _, w := range []wrap{
		{"PdfLogTransform", sym.Sub(f(P, z), z), []string{"!lt(x, 0)"}},
		{"PdfTranslation", f(P, sym.Add(x, cc)), nil},
	} {
		cons := "statistics/scalarDistribution." + w.T
		ctor := findFuncDecl(p, "New"+w.T)
		lp := findMethodDecl(p, w.T, "LogPdf")
		if ctor == nil || lp == nil {
			c.Unknown("C14.R6", cons, "wrapper found", 0, "constructor or LogPdf not found")
			continue
		}
		cfg := vn.Config{Pkg: p, TypeName: "Real64", Spec: distSpec, InlineOps: inlineOps, Decl: d.find, ParamNames: true, MaxDepth: 6,
			ParamValues: map[string]vn.Value{"scalarPdf": vn.DeepCopy(inner[0].obj, nil)}}
		paths, u := vn.Run(cfg, ctor)
		if u != nil {
			c.Unknown("C14.R6", cons, "wrapper constructor interpreted", u.Pos, "left the interpreter's idiom set: "+u.Msg)
			continue
		}
		var obj *vn.StructVal
		for _, pa := range paths {
			if t, ok := pa.Ret.(vn.Tuple); ok && len(t) == 2 {
				if o, isObj := t[0].(*vn.StructVal); isObj {
					if _, isErr := t[1].(*vn.ErrVal); !isErr {
						obj = o
					}
				}
			}
		}
		if obj == nil {
			c.Unknown("C14.R6", cons, "wrapper constructor has a success path", ctor.Pos(), "no success path")
			continue
		}
		mps, u := runMethod(p, d, lp, obj)
		if u != nil {
			c.Unknown("C14.R6", cons, "wrapper LogPdf interpreted", u.Pos, "left the interpreter's idiom set: "+u.Msg)
			continue
		}
		nval := 0
		for _, mp := range mps {
			if mp.panics || mp.result == nil {
				continue
			}
			if _, isErr := mp.ret.(*vn.ErrVal); isErr {
				continue
			}
			if mp.result.String() == "-Inf" || mp.result.DependsOn(sym.SymAtom("-Inf")) {
				continue // outside the support of the wrapper or of the inner family
			}
			nval++
			atoms := condAtoms(mp.condvs)
			for _, sp := range w.support {
				c.Check(atoms[sp], "C14.R2", cons, "value path carries "+sp, lp.Pos(), "the wrapper returns a finite value on the path ["+mp.conds+"] without requiring "+sp)
			}
			eq := sym.Equal(mp.result, w.want) || sym.Equal(sym.LogExpand(mp.result), sym.LogExpand(w.want))
			c.Check(eq, "C14.R6", cons, "LogPdf applies the change of variables (inner family: "+innerT+") ["+shortConds(mp.conds)+"]", lp.Pos(),
				"the wrapper evaluates to "+mp.result.String()+" but the log-density of the transformed variable is "+w.want.String())
		}
		c.Check(nval > 0, "C14.R6", cons, "wrapper LogPdf has a value-returning path (inner family: "+innerT+")", lp.Pos(), "no value-returning path")
	}
}

func condAtoms(cs []vn.CondV) map[string]bool {
	r := map[string]bool{}
	for _, c := range cs {
		r[c.String()] = true
	}
	return r
}

// eqSubst: substitutions implied by the equality conditions of a path (eq(A, B) true with A - B linear in one symbol).
func eqSubst(cs []vn.CondV) map[*sym.Atom]*sym.Term {
	m := map[*sym.Atom]*sym.Term{}
	for _, c := range cs {
		if !c.V || c.C.Op != "eq" {
			continue
		}
		diff := sym.Sub(c.C.A, c.C.B)
		for _, a := range diff.Atoms() {
			if a.Kind != "sym" {
				continue
			}
			// solve diff = 0 for a when diff = k*a + rest with constant k and rest free of a
			d1, err := sym.Diff(diff, a)
			if err != nil {
				continue
			}
			k, ok := d1.IsConst()
			if !ok || k.Sign() == 0 {
				continue
			}
			rest := sym.Subst(diff, map[*sym.Atom]*sym.Term{a: sym.Zero()})
			if rest.DependsOn(a) {
				continue
			}
			m[a] = sym.Div(sym.Neg(rest), sym.Const(k))
			break
		}
	}
	return m
}

func checkDistEntry(c *core.Ctx, p *packages.Package, d *declIndex, e distEntry) {
	cons := "statistics/scalarDistribution." + e.T
	ctor := findFuncDecl(p, "New"+e.T)
	if ctor == nil {
		c.Unknown("C14.R1", cons, "constructor found", 0, "no constructor New"+e.T)
		return
	}
	// parameter names as in the table
	var have []string
	for _, f := range ctor.Type.Params.List {
		for _, n := range f.Names {
			have = append(have, n.Name)
		}
	}
	if len(have) != len(e.params) {
		c.Unknown("C14.R1", cons, fmt.Sprintf("constructor has %d parameters", len(e.params)), ctor.Pos(), "the constructor's parameters are now ("+strings.Join(have, ",")+"): the reference formula has to be re-keyed")
		return
	}
	// the table's names are bound by position: a renamed constructor parameter changes nothing
	c14CtorSyms = e.params
	oks, _, und := runConstructor(p, d, ctor)
	c14CtorSyms = nil
	if und != nil {
		c.Unknown("C14.R1", cons, "constructor interpreted", und.Pos, "constructor left the interpreter's idiom set: "+und.Msg)
		return
	}
	if len(oks) == 0 {
		c.Fail("C14.R3", cons, "constructor has a success path", ctor.Pos(), "no path of the constructor returns an object without error")
		return
	}
	x := sym.Sym("x")
	P := map[string]*sym.Term{}
	for _, n := range e.params {
		P[n] = sym.Sym(n)
	}
	logpdf := findMethodDecl(p, e.T, "LogPdf")
	if logpdf == nil {
		c.Unknown("C14.R1", cons, "LogPdf found", ctor.Pos(), "no LogPdf method")
		return
	}
	for _, ok := range oks {
		catoms := condAtoms(ok.conds)
		var v *distVariant
		for i := range e.variants {
			if e.variants[i].when == "" || catoms[e.variants[i].when] {
				v = &e.variants[i]
			}
		}
		if v == nil {
			c.Unknown("C14.R1", cons, "constructor path matches a variant", ctor.Pos(), "constructor success path ["+ok.text+"] matches no variant of the table")
			continue
		}
		vtag := ""
		if v.when != "" {
			vtag = " [" + v.when + "]"
		}
		ints := intParams(ctor, p.TypesInfo)
		c14IntSyms = map[string]bool{}
		for _, t := range ints {
			c14IntSyms[t.String()] = true
		}
		// ---- R3 domain
		for _, dom := range v.domain {
			c.Check(catoms[dom], "C14.R3", cons, "constructor requires "+dom+vtag, ctor.Pos(),
				"the constructor succeeds without establishing "+dom+" (its success path only carries ["+ok.text+"]): parameters outside the family's domain yield an object whose density is not a density")
		}
		// ---- R5 clone
		if cl := findMethodDecl(p, e.T, "Clone"); cl != nil {
			mps, und := runMethod(p, d, cl, ok.obj)
			if und != nil {
				c.Unknown("C14.R5", cons, "Clone interpreted"+vtag, und.Pos, "Clone left the interpreter's idiom set: "+und.Msg)
			} else {
				for _, mp := range mps {
					if !feasible(mp.condvs, catoms) {
						continue
					}
					if len(ints) > 0 {
						mp.ret = vn.SubstValue(mp.ret, ints, nil)
					}
					cp, isObj := mp.ret.(*vn.StructVal)
					if !isObj {
						if t, isT := mp.ret.(vn.Tuple); isT && len(t) > 0 {
							cp, isObj = t[0].(*vn.StructVal)
						}
					}
					if !isObj {
						c.Unknown("C14.R5", cons, "Clone returns an object"+vtag, cl.Pos(), "Clone path ["+mp.conds+"] returns "+showValue(mp.ret))
						continue
					}
					bad := ""
					for _, f := range ok.obj.FieldNames() {
						a, b := ok.obj.Fields[f], cp.Fields[f]
						if !sameValue(a, b) {
							bad = fmt.Sprintf("field %s is %s in the source and %s in the clone", f, showValue(a), showValue(b))
							break
						}
					}
					c.Check(bad == "", "C14.R5", cons, "Clone reproduces all fields"+vtag, cl.Pos(), bad+": the clone is a different distribution (or evaluates differently) than its source")
				}
			}
		}
		// ---- R4b single-parameter setters (SetN, ...): Set<X>(v) must leave the object as the constructor builds it for
		// the same parameters with <x> replaced by v (every cached constant refreshed from the new value)
		core.EachFunc(p, func(_ *ast.File, sfd *ast.FuncDecl) {
			if sfd.Recv == nil || core.RecvTypeName(sfd) != e.T || !strings.HasPrefix(sfd.Name.Name, "Set") || sfd.Name.Name == "SetParameters" {
				return
			}
			if sfd.Type.Params == nil || len(sfd.Type.Params.List) != 1 || len(sfd.Type.Params.List[0].Names) != 1 {
				return
			}
			pn := sfd.Type.Params.List[0].Names[0].Name
			isCtorParam := false
			for _, q := range e.params {
				isCtorParam = isCtorParam || q == pn
			}
			if !isCtorParam {
				return
			}
			cfgS := vn.Config{Pkg: p, TypeName: "Real64", Spec: distSpec, InlineOps: inlineOps, Decl: d.find, ParamNames: true, MaxDepth: 6,
				RecvStruct: ok.obj, RecvFresh: true, IntSyms: map[string]bool{pn + "_new": true, pn: true},
				ParamValues: map[string]vn.Value{pn: sym.Sym(pn + "_new")}}
			for k := range c14IntSyms {
				cfgS.IntSyms[k] = true
			}
			sps, und := vn.Run(cfgS, sfd)
			if und != nil {
				c.Unknown("C14.R4", cons, sfd.Name.Name+" interpreted"+vtag, und.Pos, sfd.Name.Name+" left the interpreter's idiom set: "+und.Msg)
				return
			}
			want := vn.SubstValue(vn.DeepCopy(ok.obj, nil), map[*sym.Atom]*sym.Term{sym.SymAtom(pn): sym.Sym(pn + "_new")}, nil).(*vn.StructVal)
			nGood := 0
			for _, pa := range sps {
				if _, isErr := pa.Ret.(*vn.ErrVal); isErr || pa.Panic || pa.RecvObj == nil {
					continue
				}
				nGood++
				bad := ""
				for _, f := range want.FieldNames() {
					if _, isB := want.Fields[f].(*vn.BoolVal); isB {
						continue
					}
					if !sameValue(want.Fields[f], pa.RecvObj.Fields[f]) {
						bad = fmt.Sprintf("after %s(v) the field %s is %s, the constructor called with that value gives %s", sfd.Name.Name, f, showValue(pa.RecvObj.Fields[f]), showValue(want.Fields[f]))
						break
					}
				}
				c.Check(bad == "", "C14.R4", cons, sfd.Name.Name+" builds the object the constructor builds ["+shortConds(pa.CondString())+"]"+vtag, sfd.Pos(),
					bad+": a cached constant is stale after the parameter changed, so the mass/density no longer sums to one")
			}
			c.Check(nGood > 0, "C14.R4", cons, sfd.Name.Name+" has a successful path"+vtag, sfd.Pos(), "no successful path")
		})
		// ---- R4 parameter order: SetParameters(GetParameters(d)) = d and ImportConfig(ExportConfig(d)) = d on the fields
		if gp := findMethodDecl(p, e.T, "GetParameters"); gp != nil {
			var elems map[string]*sym.Term
			mps, und := runMethod(p, d, gp, ok.obj)
			if und != nil {
				c.Unknown("C14.R4", cons, "GetParameters interpreted"+vtag, und.Pos, "GetParameters left the interpreter's idiom set: "+und.Msg)
			} else {
				for _, mp := range mps {
					if !feasible(mp.condvs, catoms) {
						continue
					}
					if lv, isVec := mp.ret.(*vn.LocalVec); isVec {
						elems = map[string]*sym.Term{}
						for k, l := range lv.Cells {
							elems[k] = l.Val
						}
					}
				}
			}
			if elems == nil {
				c.Unknown("C14.R4", cons, "GetParameters returns a parameter vector"+vtag, gp.Pos(), "no path of GetParameters returns a locally built vector")
			} else {
				for _, setter := range []string{"SetParameters", "ImportConfig"} {
					sp := findMethodDecl(p, e.T, setter)
					if sp == nil {
						continue
					}
					useElems := elems
					if setter == "ImportConfig" {
						// the list ImportConfig reads is the one ExportConfig wrote
						useElems = nil
						if ec := findMethodDecl(p, e.T, "ExportConfig"); ec != nil {
							if eps, u2 := runMethod(p, d, ec, ok.obj); u2 == nil {
								for _, ep := range eps {
									if !feasible(ep.condvs, catoms) {
										continue
									}
									if cfg, isCfg := ep.ret.(*vn.StructVal); isCfg {
										if lv, isVec := cfg.Fields["Parameters"].(*vn.LocalVec); isVec {
											useElems = map[string]*sym.Term{}
											for k, l := range lv.Cells {
												useElems[k] = l.Val
											}
										}
									}
								}
							}
						}
						if useElems == nil {
							continue // ExportConfig writes named parameters (checked under C18.R6) or could not be interpreted
						}
					}
					mps, und := runMethod(p, d, sp, ok.obj)
					if und != nil {
						c.Unknown("C14.R4", cons, setter+" interpreted"+vtag, und.Pos, setter+" left the interpreter's idiom set: "+und.Msg)
						continue
					}
					// substitution: the k-th element handed to the setter is the k-th element GetParameters produced
					sub := map[*sym.Atom]*sym.Term{}
					for k, v := range useElems {
						n, err := strconv.Atoi(k)
						if err != nil {
							continue
						}
						idx := sym.Int(int64(n))
						for _, src := range []*sym.Term{sym.Fn("elem", sym.Sym("parameters"), idx), sym.Fn("cell", sym.Sym("parameters"), idx)} {
							for _, a := range src.Atoms() {
								if a.Kind == "elem" || a.Kind == "cell" {
									sub[a] = v
								}
							}
						}
					}
					// SetParameters(theta') must build the same object as the constructor called with theta' (all cached constants
					// included): decided when every element of the parameter vector is one of the constructor's parameters
					if setter == "SetParameters" {
						toElem := map[*sym.Atom]*sym.Term{}
						constElems := map[*sym.Atom]*sym.Term{}
						pure := len(useElems) > 0
						for k, v := range useElems {
							n, err := strconv.Atoi(k)
							if err != nil {
								pure = false
								continue
							}
							isParam := false
							for _, pn := range e.params {
								if v.String() == pn {
									toElem[sym.SymAtom(pn)] = sym.Fn("elem", sym.Sym("parameters"), sym.Int(int64(n)))
									isParam = true
								}
							}
							if !isParam {
								if _, isConst := v.IsConst(); !isConst {
									pure = false
								} else {
									// an element that encodes a flag of this constructor variant (Beta: log-scale 0/1)
									for _, a := range sym.Fn("elem", sym.Sym("parameters"), sym.Int(int64(n))).Atoms() {
										if a.Kind == "elem" {
											constElems[a] = v
										}
									}
								}
							}
						}
						if pure && len(toElem) > 0 {
							want := vn.SubstValue(vn.DeepCopy(ok.obj, nil), toElem, nil).(*vn.StructVal)
							for _, mp := range mps {
								if _, isErr := mp.ret.(*vn.ErrVal); isErr || mp.recv == nil || mp.panics || !feasibleAfter(mp.condvs, constElems, catoms) {
									continue
								}
								bad := ""
								for _, f := range want.FieldNames() {
									if d1, v1 := boolField(want.Fields[f], nil, catoms); d1 {
										if d2, v2 := boolField(mp.recv.Fields[f], nil, condAtoms(mp.condvs)); d2 && v1 == v2 {
											continue
										}
										if _, isB := want.Fields[f].(*vn.BoolVal); isB {
											continue // flags decoded from the vector: covered by the round-trip rule
										}
									}
									if !sameValue(want.Fields[f], mp.recv.Fields[f]) {
										bad = fmt.Sprintf("after SetParameters(p) the field %s is %s, the constructor called with the same parameters gives %s", f, showValue(mp.recv.Fields[f]), showValue(want.Fields[f]))
										break
									}
								}
								c.Check(bad == "", "C14.R4", cons, "SetParameters builds the object the constructor builds ["+shortConds(mp.conds)+"]"+vtag, sp.Pos(),
									bad+": a cached constant is stale after the parameters changed, so the density no longer integrates to one")
							}
						}
					}
					nOK := 0
					for _, mp := range mps {
						if _, isErr := mp.ret.(*vn.ErrVal); isErr || mp.recv == nil || mp.panics || !feasible(mp.condvs, catoms) || !feasibleAfter(mp.condvs, sub, catoms) {
							continue
						}
						nOK++
						after := vn.SubstValue(vn.DeepCopy(mp.recv, nil), sub, nil).(*vn.StructVal)
						if len(ints) > 0 {
							after = vn.SubstValue(after, ints, nil).(*vn.StructVal)
						}
						bad := ""
						for _, f := range ok.obj.FieldNames() {
							if d1, v1 := boolField(ok.obj.Fields[f], nil, catoms); d1 {
								if d2, v2 := boolField(mp.recv.Fields[f], sub, catoms); d2 && v1 == v2 {
									continue
								}
							}
							if !sameValue(ok.obj.Fields[f], after.Fields[f]) {
								bad = fmt.Sprintf("field %s is %s before and %s after %s(GetParameters())", f, showValue(ok.obj.Fields[f]), showValue(after.Fields[f]), setter)
								break
							}
						}
						c.Check(bad == "", "C14.R4", cons, setter+" inverts GetParameters"+vtag, sp.Pos(),
							bad+": the order or meaning of the parameters differs between the getter and "+setter+", so get/set (and export/import) does not round-trip")
					}
					c.Check(nOK > 0, "C14.R4", cons, setter+" has a success path"+vtag, sp.Pos(), "no path of "+setter+" succeeds")
				}
			}
		}
		// ---- R1 / R2 LogPdf
		mps, und := runMethod(p, d, logpdf, ok.obj)
		if und != nil {
			c.Unknown("C14.R1", cons, "LogPdf interpreted"+vtag, und.Pos, "LogPdf left the interpreter's idiom set: "+und.Msg)
			continue
		}
		want := v.formula(P, x)
		nval := 0
		for _, mp := range mps {
			if !feasible(mp.condvs, catoms) {
				continue
			}
			if mp.panics {
				c.Fail("C14.R2", cons, "no panic in LogPdf"+vtag, logpdf.Pos(), "LogPdf panics on the path ["+mp.conds+"]")
				continue
			}
			if _, isErr := mp.ret.(*vn.ErrVal); isErr {
				continue // rejected with an error
			}
			if mp.result == nil {
				continue
			}
			rs := mp.result.String()
			if rs == "-Inf" {
				continue
			}
			nval++
			// R2: support atoms present
			atoms := condAtoms(mp.condvs)
			for _, s := range v.support {
				c.Check(atoms[s], "C14.R2", cons, "value path carries "+s+vtag, logpdf.Pos(),
					"LogPdf returns the finite value "+rs+" on the path ["+mp.conds+"], which does not require "+s+": outside the support the log-density must be -Inf")
			}
			// R1: formula
			sub := eqSubst(mp.condvs)
			got, exp := mp.result, want
			if len(sub) > 0 {
				got, exp = sym.Subst(got, sub), sym.Subst(exp, sub)
			}
			if e.T == "GevDistribution" || e.T == "GParetoDistribution" {
				if atoms["eq(0, xi)"] {
					// the xi -> 0 limit of the family
					z := sym.Div(sym.Sub(x, P["mu"]), P["sigma"])
					if e.T == "GevDistribution" {
						exp = sym.Sub(sym.Sub(sym.Neg(ln(P["sigma"])), z), sym.Fn("exp", sym.Neg(z)))
					} else {
						exp = sym.Sub(sym.Neg(ln(P["sigma"])), z)
					}
					got = mp.result
				}
			}
			eq := sym.Equal(got, exp) || sym.Equal(sym.LogExpand(got), sym.LogExpand(exp))
			c.Check(eq, "C14.R1", cons, "LogPdf = textbook log-density on ["+shortConds(mp.conds)+"]"+vtag, logpdf.Pos(),
				"on the path ["+mp.conds+"] LogPdf evaluates to "+got.String()+" but the log-density of the family is "+exp.String())
		}
		c.Check(nval > 0, "C14.R1", cons, "LogPdf has a value-returning path"+vtag, logpdf.Pos(), "no path of LogPdf returns a finite value")
		// ---- R6 Pdf = exp(LogPdf); d/dx Cdf = pdf
		if pdf := findMethodDecl(p, e.T, "Pdf"); pdf != nil {
			if pps, und := runMethod(p, d, pdf, ok.obj); und != nil {
				c.Unknown("C14.R6", cons, "Pdf interpreted"+vtag, und.Pos, "Pdf left the interpreter's idiom set: "+und.Msg)
			} else {
				for _, mp := range pps {
					if !feasible(mp.condvs, catoms) || mp.panics || mp.result == nil {
						continue
					}
					if _, isErr := mp.ret.(*vn.ErrVal); isErr {
						continue
					}
					rs := mp.result.String()
					if rs == "0" || rs == "-Inf" {
						continue // out of support: exp(-Inf) = 0
					}
					sub := eqSubst(mp.condvs)
					got, exp := mp.result, sym.Fn("exp", want)
					if atoms := condAtoms(mp.condvs); atoms["eq(0, xi)"] {
						continue // limit branch, compared under R1
					}
					if len(sub) > 0 {
						got, exp = sym.Subst(got, sub), sym.Subst(exp, sub)
					}
					c.Check(sym.Equal(got, exp) || sym.Equal(sym.LogExpand(got), sym.LogExpand(exp)), "C14.R6", cons, "Pdf = exp(log-density) on ["+shortConds(mp.conds)+"]"+vtag, pdf.Pos(),
						"Pdf evaluates to "+got.String()+" where the density is "+exp.String())
				}
			}
		}
		for _, cdfName := range []string{"Cdf", "LogCdf"} {
			cdf := findMethodDecl(p, e.T, cdfName)
			if cdf == nil || v.integer {
				continue
			}
			// only the (r Scalar, x ConstScalar) signature
			if cdf.Type.Params.NumFields() != 2 {
				continue
			}
			// a vector-typed argument (x.At(0)) is bound to a one-element vector holding the symbol x
			c14ParamList = nil
			if plist := cdf.Type.Params.List; len(plist) == 2 && len(plist[1].Names) == 1 {
				if containerRankOfType(p.TypesInfo.Defs[plist[1].Names[0]].Type()) == 1 {
					c14ParamList = []vn.Value{nil, vn.NewLocalVec(sym.Sym("x"))}
				}
			}
			pps, und := runMethod(p, d, cdf, ok.obj)
			c14ParamList = nil
			if und != nil {
				if os.Getenv("C14_DEBUG") != "" {
					fmt.Println("DEBUG", e.T, cdfName, "undecided:", und.Msg, c.PosStr(und.Pos))
				}
				continue // special-function idioms outside the interpreter: not decided
			}
			for _, mp := range pps {
				if !feasible(mp.condvs, catoms) || mp.panics || mp.result == nil {
					continue
				}
				if _, isErr := mp.ret.(*vn.ErrVal); isErr {
					continue
				}
				F := mp.result
				if rs := F.String(); rs == "-Inf" || rs == "0" || rs == "1" || !F.DependsOn(sym.SymAtom("x")) {
					continue // a constant: the value outside the support (0, 1, log 0)
				}
				if cdfName == "LogCdf" {
					F = sym.Fn("exp", F)
				}
				xa := sym.SymAtom("x")
				F = resolveAbs(F, mp.condvs)
				dF, err := sym.Diff(F, xa)
				if err != nil {
					if os.Getenv("C14_DEBUG") != "" {
						fmt.Println("DEBUG", e.T, cdfName, "no derivative:", err, clip(F.String(), 200))
					}
					continue // derivative rule missing for a special function: not decided
				}
				atoms := condAtoms(mp.condvs)
				if atoms["eq(0, xi)"] {
					continue
				}
				// the distribution function takes a non-constant value only inside the support
				for _, sp := range v.support {
					c.Check(atoms[sp], "C14.R2", cons, cdfName+" value path carries "+sp+" ["+shortConds(mp.conds)+"]"+vtag, cdf.Pos(),
						cdfName+" computes its formula on the path ["+mp.conds+"], which does not require "+sp+": outside the support the distribution function is 0 or 1, and the formula gives NaN or a wrong value there")
				}
				sub := eqSubst(mp.condvs)
				exp := sym.Fn("exp", want)
				if len(sub) > 0 {
					dF, exp = sym.Subst(dF, sub), sym.Subst(exp, sub)
				}
				dF = expandGammaPd1(dF)
				exp = resolveAbs(exp, mp.condvs)
				c.Check(sym.Equal(dF, exp) || sym.Equal(sym.LogExpand(dF), sym.LogExpand(exp)), "C14.R6", cons, "d/dx "+cdfName+" = density on ["+shortConds(mp.conds)+"]"+vtag, cdf.Pos(),
					"the derivative of the distribution function computed by "+cdfName+" is "+dF.String()+" but the density is "+exp.String()+": the cumulative and the density describe different distributions")
			}
		}
	}
}

func shortConds(s string) string {
	if len(s) > 90 {
		return s[:90] + "…"
	}
	return s
}

func sameValue(a, b vn.Value) bool {
	switch x := a.(type) {
	case *vn.Loc:
		y, ok := b.(*vn.Loc)
		return ok && sym.Equal(x.Val, y.Val)
	case *sym.Term:
		y, ok := b.(*sym.Term)
		return ok && sym.Equal(x, y)
	case *vn.BoolVal:
		y, ok := b.(*vn.BoolVal)
		if !ok {
			return false
		}
		if x.Known || y.Known {
			return x.Known == y.Known && x.V == y.V
		}
		if x.C != nil && y.C != nil {
			return x.C.String() == y.C.String()
		}
		return x == y
	case *vn.StructVal:
		y, ok := b.(*vn.StructVal)
		if !ok {
			return false
		}
		for _, f := range x.FieldNames() {
			if !sameValue(x.Fields[f], y.Fields[f]) {
				return false
			}
		}
		return true
	case vn.NilVal:
		_, ok := b.(vn.NilVal)
		return ok || b == nil
	case nil:
		return b == nil
	}
	return true
}

// feasible: the path does not contradict the conditions established by the constructor path (same atom, opposite sign).
func feasible(cs []vn.CondV, ctor map[string]bool) bool {
	for _, c := range cs {
		s := c.String()
		neg := "!" + s
		if strings.HasPrefix(s, "!") {
			neg = s[1:]
		}
		if ctor[neg] {
			return false
		}
	}
	return true
}

// intParams: substitution trunc(n) -> n for integer-typed constructor parameters.
func intParams(ctor *ast.FuncDecl, info *types.Info) map[*sym.Atom]*sym.Term {
	m := map[*sym.Atom]*sym.Term{}
	for _, f := range ctor.Type.Params.List {
		for _, n := range f.Names {
			if o := info.Defs[n]; o != nil {
				if b, ok := o.Type().Underlying().(*types.Basic); ok && b.Info()&types.IsInteger != 0 {
					t := sym.Fn("trunc", sym.Sym(n.Name))
					for _, a := range t.Atoms() {
						if a.Kind == "trunc" || strings.HasPrefix(a.Key(), "trunc") {
							m[a] = sym.Sym(n.Name)
						}
					}
				}
			}
		}
	}
	return m
}

// exportsGetParameters: ExportConfig of T passes T.GetParameters() as the parameter list.
func exportsGetParameters(p *packages.Package, T string) bool {
	fd := findMethodDecl(p, T, "ExportConfig")
	if fd == nil {
		return false
	}
	found := false
	ast.Inspect(fd.Body, func(n ast.Node) bool {
		if call, ok := n.(*ast.CallExpr); ok && calleeName(call) == "NewConfigDistribution" && len(call.Args) == 2 {
			if inner, ok := call.Args[1].(*ast.CallExpr); ok && calleeName(inner) == "GetParameters" {
				found = true
			}
		}
		return true
	})
	return found
}

// condTruth evaluates a condition after substitution: (decided, value).
func condTruth14(c *vn.Cond, sub map[*sym.Atom]*sym.Term, ctor map[string]bool) (bool, bool) {
	a := c.A
	b := c.B
	if a != nil && sub != nil {
		a = sym.Subst(a, sub)
	}
	if b != nil && sub != nil {
		b = sym.Subst(b, sub)
	}
	cc := &vn.Cond{Op: c.Op, A: a, B: b, Arg: c.Arg}
	if ctor[cc.String()] {
		return true, true
	}
	if ctor["!"+cc.String()] {
		return true, false
	}
	if a != nil && b != nil {
		ca, okA := a.IsConst()
		cb, okB := b.IsConst()
		if okA && okB {
			switch c.Op {
			case "eq":
				return true, ca.Cmp(cb) == 0
			case "lt":
				return true, ca.Cmp(cb) < 0
			}
		}
		if c.Op == "eq" && sym.Equal(a, b) {
			return true, true
		}
	}
	return false, false
}

// feasibleAfter: no condition of the path is refuted once the substitution and the constructor's conditions are applied.
func feasibleAfter(cs []vn.CondV, sub map[*sym.Atom]*sym.Term, ctor map[string]bool) bool {
	for _, c := range cs {
		if dec, val := condTruth14(c.C, sub, ctor); dec && val != c.V {
			return false
		}
	}
	return true
}

// boolField: truth value of a boolean field, deciding symbolic conditions with the substitution and constructor facts.
func boolField(v vn.Value, sub map[*sym.Atom]*sym.Term, ctor map[string]bool) (bool, bool) {
	b, ok := v.(*vn.BoolVal)
	if !ok {
		return false, false
	}
	if b.Known {
		return true, b.V
	}
	if b.C != nil {
		return condTruth14(b.C, sub, ctor)
	}
	return false, false
}

func containerRankOfType(t types.Type) int {
	n, _ := t.(*types.Named)
	if n == nil {
		if p, ok := t.(*types.Pointer); ok {
			n, _ = p.Elem().(*types.Named)
		}
	}
	if n == nil {
		return 0
	}
	switch {
	case strings.HasSuffix(n.Obj().Name(), "Vector"):
		return 1
	case strings.HasSuffix(n.Obj().Name(), "Matrix"):
		return 2
	}
	return 0
}

// expandGammaPd1 replaces d/dz P(a, z) = z^(a-1) e^(-z) / Gamma(a) by its closed form.
func expandGammaPd1(t *sym.Term) *sym.Term {
	sub := map[*sym.Atom]*sym.Term{}
	for _, at := range t.Atoms() {
		if at.Kind == "gammapd1" && len(at.Args) == 2 {
			a, z := at.Args[0], at.Args[1]
			sub[at] = sym.Fn("exp", sym.Sub(sym.Sub(sym.Mul(sym.Sub(a, sym.One()), sym.Fn("log", z)), z), sym.Fn("lgamma", a)))
		}
	}
	if len(sub) == 0 {
		return t
	}
	return sym.Subst(t, sub)
}

// resolveAbs replaces |u| by u or -u where the guards of the path fix the sign of u = A - B (a guard A > B, A < B, ...).
func resolveAbs(t *sym.Term, conds []vn.CondV) *sym.Term {
	sub := map[*sym.Atom]*sym.Term{}
	var visit func(t *sym.Term)
	seen := map[*sym.Atom]bool{}
	visit = func(t *sym.Term) {
		for _, at := range t.Atoms() {
			if seen[at] {
				continue
			}
			seen[at] = true
			for _, ar := range at.Args {
				visit(ar)
			}
			if (at.Kind == "abs" || at.Kind == "fabs") && len(at.Args) == 1 {
				u := at.Args[0]
				for _, cv := range conds {
					if cv.C.A == nil || cv.C.B == nil {
						continue
					}
					d := sym.Sub(cv.C.A, cv.C.B)
					sign := 0
					switch cv.C.Op {
					case "gt", "ge":
						sign = 1
					case "lt", "le":
						sign = -1
					default:
						continue
					}
					if !cv.V {
						sign = -sign
					}
					// the guard says sign * (A - B) >= 0
					if sym.Equal(d, u) {
						if sign > 0 {
							sub[at] = u
						} else {
							sub[at] = sym.Neg(u)
						}
					} else if sym.Equal(d, sym.Neg(u)) {
						if sign > 0 {
							sub[at] = sym.Neg(u)
						} else {
							sub[at] = u
						}
					}
				}
			}
		}
	}
	visit(t)
	if len(sub) == 0 {
		return t
	}
	return sym.Subst(t, sub)
}
