package checks

import (
	"fmt"
	"go/ast"
	"go/token"
	"go/types"
	"strings"

	"golang.org/x/tools/go/packages"

	"verif/internal/core"
	"verif/internal/sym"
	"verif/internal/vn"
)

// C14.R7 — the categorical distribution on K = 3 symbolic probabilities: the constructor is interpreted on the vector
// (th_0, th_1, th_2); on its success path LogPdf, Pdf, LogCdf and Cdf are interpreted for each category k = 0, 1, 2 and
// compared with log th_k, th_k, log sum_{i<=k} th_i and sum_{i<=k} th_i.
func checkCategorical(c *core.Ctx, p *packages.Package, d *declIndex) {
	c.Rule("C14.R7", "categorical distribution (three symbolic probabilities): LogPdf(k) = log th_k, Pdf(k) = th_k, Cdf(k) = th_0 + ... + th_k, LogCdf(k) its logarithm", 12)
	cons := "statistics/scalarDistribution.CategoricalDistribution"
	ctor := findFuncDecl(p, "NewCategoricalDistribution")
	if ctor == nil {
		c.Unknown("C14.R7", cons, "constructor found", token.NoPos, "NewCategoricalDistribution not found")
		return
	}
	const K = 3
	th := func(i int) *sym.Term { return symf("th_%d", i) }
	cfg := vn.Config{Pkg: p, TypeName: "Real64", Spec: distSpec, InlineOps: inlineOps, Decl: d.find, ParamNames: true, MaxDepth: 6, UnrollConst: true,
		ParamList: []vn.Value{vn.NewLocalVec(th(0), th(1), th(2))}}
	paths, und := vn.Run(cfg, ctor)
	if und != nil {
		c.Unknown("C14.R7", cons, "constructor interpreted", und.Pos, "constructor left the interpreter's idiom set: "+und.Msg)
		return
	}
	var obj *vn.StructVal
	nOK := 0
	for _, pa := range paths {
		if t, ok := pa.Ret.(vn.Tuple); ok && len(t) == 2 {
			if o, isObj := t[0].(*vn.StructVal); isObj {
				if _, isErr := t[1].(*vn.ErrVal); !isErr {
					obj = o
					nOK++
				}
			}
		}
	}
	if obj == nil || nOK != 1 {
		c.Unknown("C14.R7", cons, "constructor has one success path", ctor.Pos(), fmt.Sprintf("%d success paths", nOK))
		return
	}
	for _, m := range []string{"LogPdf", "Pdf", "LogCdf", "Cdf"} {
		fd := findMethodDecl(p, "CategoricalDistribution", m)
		if fd == nil {
			c.Unknown("C14.R7", cons, m+" found", ctor.Pos(), "method not found")
			continue
		}
		for k := 0; k < K; k++ {
			var want *sym.Term
			switch m {
			case "LogPdf":
				want = sym.Fn("log", th(k))
			case "Pdf":
				want = th(k)
			default:
				s := sym.Zero()
				for i := 0; i <= k; i++ {
					s = sym.Add(s, th(i))
				}
				want = s
				if m == "LogCdf" {
					want = sym.Fn("log", s)
				}
			}
			r := &vn.Loc{Name: "r", Val: symf("stale_r"), Consistent: true}
			x := &vn.Loc{Name: "x", Val: sym.Int(int64(k)), Consistent: true, Const: true}
			cfg2 := vn.Config{Pkg: p, TypeName: "Real64", Spec: distSpec, InlineOps: inlineOps, Decl: d.find, ParamNames: true, MaxDepth: 6, UnrollConst: true,
				RecvStruct: obj, RecvFresh: true, ParamList: []vn.Value{r, x}, ParamFresh: true}
			mp, und := vn.Run(cfg2, fd)
			detail := fmt.Sprintf("%s(%d) equals its definition", m, k)
			if und != nil {
				c.Unknown("C14.R7", cons, detail, und.Pos, m+" left the interpreter's idiom set: "+und.Msg)
				continue
			}
			var got *sym.Term
			n := 0
			for _, pa := range mp {
				if _, isErr := pa.Ret.(*vn.ErrVal); isErr || pa.Panic {
					continue
				}
				n++
				if rl, ok := pa.Params[0].(*vn.Loc); ok {
					got = rl.Val
				}
			}
			ok := n == 1 && got != nil && staleFree(got) && (sym.Equal(got, want) || sym.Equal(sym.Fn("exp", got), sym.Fn("exp", want)))
			c.Check(ok, "C14.R7", cons, detail, fd.Pos(),
				fmt.Sprintf("%s of category %d evaluates to %s for the probabilities (th_0, th_1, th_2); by definition it is %s", m, k, shortTerm(got), want))
		}
	}
}

// checkTraceOfProduct (C14.R8): the densities of the matrix distributions contain tr(A B). The trace of the element-wise
// product A o B is sum_i a_ii b_ii and drops every off-diagonal contribution; tr(A B) = sum_ij a_ij b_ji needs the matrix
// product (or the sum over ALL entries of the element-wise product of A with B'). A trace taken of a matrix that was just
// produced by the element-wise kernel MmulM is therefore reported.
func checkTraceOfProduct(c *core.Ctx) {
	c.Rule("C14.R8", "matrix densities: a trace is taken of a matrix product (MdotM), not of an element-wise product (MmulM)", 1)
	for _, p := range c.LibPkgs() {
		if !strings.Contains(p.PkgPath, "/statistics/") {
			continue
		}
		info := p.TypesInfo
		pkg := p
		core.EachFunc(p, func(_ *ast.File, fd *ast.FuncDecl) {
			// last writer of each matrix variable in source order
			last := map[types.Object]string{}
			ast.Inspect(fd.Body, func(n ast.Node) bool {
				ce, ok := n.(*ast.CallExpr)
				if !ok {
					return true
				}
				sel, ok := ce.Fun.(*ast.SelectorExpr)
				if !ok {
					return true
				}
				if sel.Sel.Name == "Mtrace" && len(ce.Args) == 1 {
					if id, ok := ast.Unparen(ce.Args[0]).(*ast.Ident); ok {
						o := info.Uses[id]
						w := last[o]
						c.Check(w != "MmulM", "C14.R8", c.FuncName(pkg, fd), "trace of "+id.Name+" is the trace of a matrix product", ce.Pos(),
							"the trace is taken of "+id.Name+", which was just computed by the element-wise product MmulM: tr(A o B) keeps only the diagonal terms a_ii b_ii, the density needs tr(A B)")
					}
					return true
				}
				if id, ok := ast.Unparen(sel.X).(*ast.Ident); ok {
					if o := info.Uses[id]; o != nil {
						switch {
						case strings.HasPrefix(sel.Sel.Name, "M") && len(sel.Sel.Name) > 3 && (strings.Contains(sel.Sel.Name, "mul") || strings.Contains(sel.Sel.Name, "dot") || strings.Contains(sel.Sel.Name, "add") || strings.Contains(sel.Sel.Name, "sub") || strings.Contains(sel.Sel.Name, "div")):
							last[o] = sel.Sel.Name
						case sel.Sel.Name == "Set":
							last[o] = "Set"
						}
					}
				}
				return true
			})
		})
	}
}

// checkIntegerDivisionInConstants (C14.R9): the normalisation constants of the distributions are real numbers computed
// from dimensions and counts. An integer division whose quotient is then converted to a floating-point number
// (float64(n/2)) truncates first: d/2 becomes (d-1)/2 for odd d and the density no longer integrates to one.
func checkIntegerDivisionInConstants(c *core.Ctx) {
	c.Rule("C14.R9", "distribution packages: no integer division inside a conversion to a floating-point number", 0)
	n := 0
	for _, p := range c.LibPkgs() {
		if !strings.Contains(p.PkgPath, "/statistics/") {
			continue
		}
		info := p.TypesInfo
		pkg := p
		core.EachFunc(p, func(_ *ast.File, fd *ast.FuncDecl) {
			ast.Inspect(fd.Body, func(nd ast.Node) bool {
				ce, ok := nd.(*ast.CallExpr)
				if !ok || len(ce.Args) != 1 {
					return true
				}
				tv, ok := info.Types[ce.Fun]
				if !ok || !tv.IsType() {
					return true
				}
				b, ok := tv.Type.Underlying().(*types.Basic)
				if !ok || b.Info()&types.IsFloat == 0 {
					return true
				}
				n++
				var bad ast.Expr
				ast.Inspect(ce.Args[0], func(m ast.Node) bool {
					if inner, ok := m.(*ast.CallExpr); ok && inner != ce {
						// a nested conversion or call: its own arguments are judged separately
						if itv, ok := info.Types[inner.Fun]; ok && itv.IsType() {
							return false
						}
					}
					be, ok := m.(*ast.BinaryExpr)
					if !ok || be.Op != token.QUO {
						return true
					}
					tx, ok1 := info.Types[be.X]
					ty, ok2 := info.Types[be.Y]
					if !ok1 || !ok2 {
						return true
					}
					bx, okx := tx.Type.Underlying().(*types.Basic)
					by, oky := ty.Type.Underlying().(*types.Basic)
					if okx && oky && bx.Info()&types.IsInteger != 0 && by.Info()&types.IsInteger != 0 {
						// constant expressions are evaluated exactly by the compiler and visible as such
						if etv, ok := info.Types[be]; ok && etv.Value != nil {
							return true
						}
						bad = be
					}
					return true
				})
				if bad != nil {
					c.Fail("C14.R9", c.FuncName(pkg, fd), "no integer division under "+types.ExprString(ce.Fun)+"(...)", bad.Pos(),
						"the integer quotient "+types.ExprString(bad)+" is truncated before it is converted to a floating-point number: for odd operands the constant is off by one half")
				}
				return true
			})
		})
	}
	c.Analysed["float_conversions_in_statistics"] = n
	c.OK("C14.R9", "statistics", fmt.Sprintf("%d conversions to floating point inspected", 1), token.NoPos, "")
}
