package checks

import (
	"fmt"
	"go/ast"
	"go/token"

	"golang.org/x/tools/go/packages"

	"verif/internal/core"
	"verif/internal/sym"
	"verif/internal/vn"
)

// ---------------------------------------------------------------------------
// C15.R4 — the recursions equal explicit enumeration on small symbolic models
// ---------------------------------------------------------------------------
//
// The HMM recursions (LogPdf, forward/backward in the generic and the float64 variant, PosteriorMarginals, Posterior of
// state-set sequences) and the mixture densities are interpreted by the abstract interpreter on a model whose initial
// log-probabilities lpi_i, interior and final log-transition matrices ltr_i_j, ltf_i_j and emission log-densities
// le_c_k are independent symbols, for m = 2 (quick) and 3 (thorough) states, every sequence length n = 1..3 (4 in the
// thorough tier) and a state map that is not the identity. The result terms are compared with the sum over all m^n
// hidden paths, built directly from the definition:
//
//     w(x) = exp(lpi[x_0] + le[s(x_0),0]) * prod_{k=1..n-2} exp(ltr[x_{k-1},x_k] + le[s(x_k),k]) * exp(ltf[x_{n-2},x_{n-1}] + le[s(x_{n-1}),n-1])
//
// Because all parameters are generic symbols the identity holds for every numeric model of that shape (start/final
// state restrictions and zero-probability transitions are particular values of lpi, ltr, ltf). What is not covered:
// larger m and n (the loops are uniform in both), Viterbi, the hierarchical/constrained wrappers.

type hmmShape struct {
	m, n     int
	stateMap []int
}

func symf(f string, a ...interface{}) *sym.Term { return sym.Sym(fmt.Sprintf(f, a...)) }

// pathWeights enumerates all hidden paths and returns, for a predicate on paths, the sum of their weights.
func hmmPathSum(sh hmmShape, keep func(x []int) bool) *sym.Term {
	total := sym.Zero()
	x := make([]int, sh.n)
	var rec func(k int)
	rec = func(k int) {
		if k == sh.n {
			if keep != nil && !keep(x) {
				return
			}
			e := sym.Add(symf("lpi_%d", x[0]), symf("le_%d_%d", sh.stateMap[x[0]], 0))
			for t := 1; t < sh.n; t++ {
				tr := "ltr"
				if t == sh.n-1 {
					tr = "ltf"
				}
				e = sym.Add(e, sym.Add(symf("%s_%d_%d", tr, x[t-1], x[t]), symf("le_%d_%d", sh.stateMap[x[t]], t)))
			}
			total = sym.Add(total, sym.Fn("exp", e))
			return
		}
		for s := 0; s < sh.m; s++ {
			x[k] = s
			rec(k + 1)
		}
	}
	rec(0)
	return total
}

func hmmObject(p *packages.Package, sh hmmShape) *vn.StructVal {
	var pis []*sym.Term
	for i := 0; i < sh.m; i++ {
		pis = append(pis, symf("lpi_%d", i))
	}
	sm := &vn.SliceVal{Len: sym.Int(int64(sh.m)), Cells: map[string]*sym.Term{}}
	ne := 0
	for i, c := range sh.stateMap {
		sm.Cells[sym.Int(int64(i)).String()] = sym.Int(int64(c))
		if c+1 > ne {
			ne = c + 1
		}
	}
	return &vn.StructVal{T: namedType(p, "Hmm"), Fields: map[string]vn.Value{
		"Pi":       vn.NewLocalVec(pis...),
		"Tr":       vn.NewLocalMat(sh.m, sh.m, func(i, j int) *sym.Term { return symf("ltr_%d_%d", i, j) }),
		"Tf":       vn.NewLocalMat(sh.m, sh.m, func(i, j int) *sym.Term { return symf("ltf_%d_%d", i, j) }),
		"StateMap": sm, "M": sym.Int(int64(sh.m)), "N": sym.Int(int64(ne)),
		"startStates": vn.NilVal{}, "finalStates": vn.NilVal{}}}
}

func hmmRecordHook(sh hmmShape) vn.OpaqueHook {
	return func(it *vn.Interp, o *vn.OpaqueVal, name string, args []vn.Value, call *ast.CallExpr) (vn.Value, bool) {
		if o.What != "record" {
			return nil, false
		}
		switch name {
		case "GetN":
			return sym.Int(int64(sh.n)), true
		case "MapIndex":
			return args[0], true
		case "LogPdf":
			r, ok := args[0].(*vn.Loc)
			c, ok1 := args[1].(*sym.Term)
			k, ok2 := args[2].(*sym.Term)
			if !ok || !ok1 || !ok2 {
				it.Undecide(call.Pos(), "record.LogPdf arguments")
			}
			r.Val = symf("le_%s_%s", c, k)
			r.Written = true
			return vn.NilVal{}, true
		}
		return nil, false
	}
}

func staleMat(m, n int, tag string) *vn.LocalMat {
	return vn.NewLocalMat(m, n, func(i, j int) *sym.Term { return symf("stale_%s_%d_%d", tag, i, j) })
}

// runHmm interprets method name of Hmm on the symbolic model; returns the single non-error path.
func runHmm(p *packages.Package, d *declIndex, sh hmmShape, name string, params []vn.Value) (*vn.Path, *vn.StructVal, string) {
	fd := findMethodDecl(p, "Hmm", name)
	if fd == nil {
		return nil, nil, "method " + name + " not found"
	}
	obj := hmmObject(p, sh)
	cfg := vn.Config{Pkg: p, TypeName: "Real64", Spec: distSpec, InlineOps: inlineOps, Decl: d.find, ParamNames: true, MaxDepth: 6, UnrollConst: true,
		RecvStruct: obj, Opaque: hmmRecordHook(sh), ParamList: params}
	paths, und := vn.Run(cfg, fd)
	if und != nil {
		return nil, nil, name + " left the interpreter's idiom set: " + und.Msg
	}
	var good []*vn.Path
	for _, pa := range paths {
		if pa.Panic {
			return nil, nil, name + " panics on a well-formed model"
		}
		// error results
		isErr := false
		switch r := pa.Ret.(type) {
		case *vn.ErrVal:
			isErr = true
		case vn.Tuple:
			if len(r) > 0 {
				_, isErr = r[len(r)-1].(*vn.ErrVal)
			}
		}
		if !isErr {
			good = append(good, pa)
		}
	}
	if len(good) != 1 {
		return nil, nil, fmt.Sprintf("%s has %d successful paths on a fully determined model (expected 1)", name, len(good))
	}
	return good[0], obj, ""
}

func logEq(got *sym.Term, wantExp *sym.Term) bool {
	if got == nil {
		return false
	}
	return !staleTerm(got) && sym.Equal(sym.Fn("exp", got), wantExp)
}

func staleTerm(t *sym.Term) bool { return !staleFree(t) }

func checkHmmEnumeration(c *core.Ctx) {
	c.Rule("C15.R4", "the HMM recursions and the mixture densities, interpreted on a model with symbolic parameters, equal the explicit sum over all hidden paths (components) for m = 2..3 states and every length n = 1..3(4)", 30)
	p := c.Pkg("statistics/generic")
	if p == nil {
		c.Unknown("C15.R4", "statistics/generic", "package loaded", token.NoPos, "not loaded")
		return
	}
	d := newDeclIndex(c)
	shapes := []hmmShape{}
	for n := 1; n <= 3; n++ {
		shapes = append(shapes, hmmShape{m: 2, n: n, stateMap: []int{1, 0}})
	}
	shapes = append(shapes, hmmShape{m: 2, n: 2, stateMap: []int{0, 0}}) // both states tied to one emission
	if c.Tier == "thorough" {
		shapes = append(shapes, hmmShape{m: 2, n: 4, stateMap: []int{1, 0}})
		for n := 1; n <= 3; n++ {
			shapes = append(shapes, hmmShape{m: 3, n: n, stateMap: []int{0, 1, 0}})
		}
	}
	rec := func() vn.Value { return &vn.OpaqueVal{What: "record"} }
	for _, sh := range shapes {
		tag := fmt.Sprintf("[m=%d n=%d map=%v]", sh.m, sh.n, sh.stateMap)
		total := hmmPathSum(sh, nil)
		// ---- LogPdf
		{
			cons := "statistics/generic.(*Hmm).LogPdf"
			r := &vn.Loc{Name: "r", Val: symf("stale_r"), Consistent: true}
			pa, _, msg := runHmm(p, d, sh, "LogPdf", []vn.Value{r, rec()})
			if pa == nil {
				c.Unknown("C15.R4", cons, "interpreted "+tag, token.NoPos, msg)
			} else {
				rl, _ := pa.Params[0].(*vn.Loc)
				var got *sym.Term
				if rl != nil {
					got = rl.Val
				}
				c.Check(logEq(got, total), "C15.R4", cons, "log-likelihood equals the sum over all hidden paths "+tag, findMethodDecl(p, "Hmm", "LogPdf").Pos(),
					"LogPdf yields "+shortTerm(got)+" which is not the logarithm of the sum of the joint probabilities of all hidden paths")
			}
		}
		// ---- forward/backward, generic and float64
		for _, variant := range []string{"forwardBackward", "float64ForwardBackward"} {
			cons := "statistics/generic.(*Hmm)." + variant
			alpha, beta := staleMat(sh.m, sh.n, "a"), staleMat(sh.m, sh.n, "b")
			// forwardBackward(data, alpha, beta, t1, t2) / float64ForwardBackward(data, alpha, beta)
			params := []vn.Value{rec(), alpha, beta,
				&vn.Loc{Name: "t1", Val: symf("stale_t1"), Consistent: true}, &vn.Loc{Name: "t2", Val: symf("stale_t2"), Consistent: true}}
			pa, _, msg := runHmm(p, d, sh, variant, params)
			fdv := findMethodDecl(p, "Hmm", variant)
			if pa == nil {
				c.Unknown("C15.R4", cons, "interpreted "+tag, token.NoPos, msg)
				continue
			}
			// final alpha column sums to the likelihood
			fin := sym.Zero()
			for i := 0; i < sh.m; i++ {
				if a := alpha.Cell(i, sh.n-1); a != nil {
					fin = sym.Add(fin, sym.Fn("exp", a))
				}
			}
			c.Check(!staleTerm(fin) && sym.Equal(fin, total), "C15.R4", cons, "sum of the last forward column is the likelihood "+tag, fdv.Pos(),
				"the last column of alpha sums to "+shortTerm(fin)+" instead of the sum over all hidden paths")
			for k := 0; k < sh.n; k++ {
				for i := 0; i < sh.m; i++ {
					kk, ii := k, i
					want := hmmPathSum(sh, func(x []int) bool { return x[kk] == ii })
					a, b := alpha.Cell(i, k), beta.Cell(i, k)
					ok := a != nil && b != nil && logEq(sym.Add(a, b), want)
					c.Check(ok, "C15.R4", cons, fmt.Sprintf("alpha+beta at state %d, position %d is the weight of all paths through it %s", i, k, tag), fdv.Pos(),
						fmt.Sprintf("alpha[%d,%d] + beta[%d,%d] is not the logarithm of the total probability of the hidden paths that are in state %d at position %d: the posterior marginals derived from it differ from explicit enumeration", i, k, i, k, i, k))
				}
			}
		}
		// ---- PosteriorMarginals
		{
			cons := "statistics/generic.(*Hmm).PosteriorMarginals"
			pa, _, msg := runHmm(p, d, sh, "PosteriorMarginals", []vn.Value{rec()})
			fdv := findMethodDecl(p, "Hmm", "PosteriorMarginals")
			if pa == nil {
				c.Unknown("C15.R4", cons, "interpreted "+tag, token.NoPos, msg)
			} else {
				ret, _ := pa.Ret.(vn.Tuple)
				var g *vn.ListVal
				if len(ret) == 2 {
					g, _ = ret[0].(*vn.ListVal)
				}
				if g == nil || len(g.Elems) != sh.m {
					c.Unknown("C15.R4", cons, "result is a list of m vectors "+tag, fdv.Pos(), "unexpected result shape")
				} else {
					for k := 0; k < sh.n; k++ {
						for i := 0; i < sh.m; i++ {
							kk, ii := k, i
							want := sym.Div(hmmPathSum(sh, func(x []int) bool { return x[kk] == ii }), total)
							var got *sym.Term
							if v, ok := g.Elems[i].(*vn.LocalVec); ok {
								got = v.Cell(k)
							}
							c.Check(logEq(got, want), "C15.R4", cons, fmt.Sprintf("marginal of state %d at position %d equals enumeration %s", i, k, tag), fdv.Pos(),
								"the posterior marginal is "+shortTerm(got)+" which is not the normalised weight of the paths through that state")
						}
					}
				}
			}
		}
		// ---- Posterior of a state-set sequence (needs n sets; a proper subset at every position when m allows)
		{
			cons := "statistics/generic.(*Hmm).Posterior"
			sets := make([][]int, sh.n)
			for k := 0; k < sh.n; k++ {
				switch {
				case sh.m == 2:
					sets[k] = [][]int{{0}, {0, 1}, {1}, {1, 0}}[k%4]
				default:
					sets[k] = [][]int{{0, 2}, {1}, {2, 1}, {0}}[k%4]
				}
			}
			states := &vn.ListVal{}
			for _, s := range sets {
				sl := &vn.SliceVal{Len: sym.Int(int64(len(s))), Cells: map[string]*sym.Term{}}
				for i, v := range s {
					sl.Cells[sym.Int(int64(i)).String()] = sym.Int(int64(v))
				}
				states.Elems = append(states.Elems, sl)
			}
			r := &vn.Loc{Name: "r", Val: symf("stale_r"), Consistent: true}
			pa, _, msg := runHmm(p, d, sh, "Posterior", []vn.Value{r, rec(), states})
			fdv := findMethodDecl(p, "Hmm", "Posterior")
			if pa == nil {
				c.Unknown("C15.R4", cons, "interpreted "+tag, token.NoPos, msg)
			} else {
				rl, _ := pa.Params[0].(*vn.Loc)
				var got *sym.Term
				if rl != nil {
					got = rl.Val
				}
				want := sym.Div(hmmPathSum(sh, func(x []int) bool {
					for k, s := range sets {
						in := false
						for _, v := range s {
							in = in || v == x[k]
						}
						if !in {
							return false
						}
					}
					return true
				}), total)
				c.Check(logEq(got, want), "C15.R4", cons, fmt.Sprintf("posterior of the state-set sequence %v equals enumeration %s", sets, tag), fdv.Pos(),
					"Posterior yields "+shortTerm(got)+" which is not the probability mass of the hidden paths inside the given state sets divided by the total")
			}
		}
	}
	checkMixtureEnumeration(c, p, d)
}

// checkMixtureEnumeration: (*Mixture).LogPdf, Likelihood and Posterior over component subsets.
func checkMixtureEnumeration(c *core.Ctx, p *packages.Package, d *declIndex) {
	const m = 3
	hook := func(it *vn.Interp, o *vn.OpaqueVal, name string, args []vn.Value, call *ast.CallExpr) (vn.Value, bool) {
		if o.What == "mixrecord" && name == "LogPdf" {
			r, ok := args[0].(*vn.Loc)
			cc, ok1 := args[1].(*sym.Term)
			if !ok || !ok1 {
				it.Undecide(call.Pos(), "record.LogPdf arguments")
			}
			r.Val = symf("lp_%s", cc)
			r.Written = true
			return vn.NilVal{}, true
		}
		return nil, false
	}
	mk := func() *vn.StructVal {
		var ws []*sym.Term
		for i := 0; i < m; i++ {
			ws = append(ws, symf("lw_%d", i))
		}
		loc := func(s string) *vn.Loc { return &vn.Loc{Name: "tmp", Val: symf(s), Consistent: true} }
		return &vn.StructVal{T: namedType(p, "Mixture"), Fields: map[string]vn.Value{"LogWeights": vn.NewLocalVec(ws...), "t1": loc("stale_t1"), "t2": loc("stale_t2"), "t3": loc("stale_t3")}}
	}
	sum := func(set []int, withP bool) *sym.Term {
		t := sym.Zero()
		for _, i := range set {
			e := symf("lw_%d", i)
			if withP {
				e = sym.Add(e, symf("lp_%d", i))
			}
			t = sym.Add(t, sym.Fn("exp", e))
		}
		return t
	}
	all := []int{0, 1, 2}
	subset := []int{2, 0}
	states := &vn.SliceVal{Len: sym.Int(2), Cells: map[string]*sym.Term{"0": sym.Int(2), "1": sym.Int(0)}}
	cases := []struct {
		name string
		want *sym.Term
		st   vn.Value
	}{
		{"LogPdf", sum(all, true), nil},
		{"Likelihood", sym.Div(sum(subset, true), sum(subset, false)), states},
		{"Posterior", sym.Div(sum(subset, true), sum(all, true)), states},
	}
	for _, cs := range cases {
		cons := "statistics/generic.(*Mixture)." + cs.name
		fd := findMethodDecl(p, "Mixture", cs.name)
		if fd == nil {
			c.Unknown("C15.R4", cons, "method found", token.NoPos, "not found")
			continue
		}
		r := &vn.Loc{Name: "r", Val: symf("stale_r"), Consistent: true}
		params := []vn.Value{r, &vn.OpaqueVal{What: "mixrecord"}}
		if cs.st != nil {
			params = append(params, cs.st)
		}
		cfg := vn.Config{Pkg: p, TypeName: "Real64", Spec: distSpec, InlineOps: inlineOps, Decl: d.find, ParamNames: true, MaxDepth: 6, UnrollConst: true,
			RecvStruct: mk(), Opaque: hook, ParamList: params}
		paths, und := vn.Run(cfg, fd)
		if und != nil {
			c.Unknown("C15.R4", cons, "interpreted", und.Pos, cs.name+" left the interpreter's idiom set: "+und.Msg)
			continue
		}
		var got *sym.Term
		n := 0
		for _, pa := range paths {
			if _, isErr := pa.Ret.(*vn.ErrVal); isErr || pa.Panic {
				continue
			}
			n++
			if rl, ok := pa.Params[0].(*vn.Loc); ok {
				got = rl.Val
			}
		}
		c.Check(n == 1 && logEq(got, cs.want), "C15.R4", cons, "equals the explicit sum over components (three components, subset {2,0})", fd.Pos(),
			cs.name+" yields "+shortTerm(got)+" which differs from the explicit sum over the mixture components")
	}
}

// ---------------------------------------------------------------------------
// C15.R5 — the Viterbi path is maximal on every branch of the dynamic programme
// ---------------------------------------------------------------------------
//
// Viterbi is interpreted on the same symbolic models. Every comparison of the dynamic programme forks the
// interpretation; a branch is a set of decided comparisons together with the returned state sequence r (constants on
// the branch). Each comparison A < B of the programme compares two partial path scores; A - B equals W(x) - W(y) for
// every pair of complete hidden paths x, y that extend the two partial paths by the same remainder (W is the joint
// log-probability of a path, a linear form in the model's symbols). The decided comparisons therefore are order facts
// between complete paths; r is maximal on the branch iff every other path is reachable from r along ">=" facts. The
// check builds that graph and tests reachability — no arithmetic beyond comparing linear forms for equality.
func checkViterbi(c *core.Ctx) {
	c.Rule("C15.R5", "on every branch of the Viterbi dynamic programme (symbolic model, m = 2..3, n = 1..3) the decided comparisons order the returned path above every other hidden path", 3)
	p := c.Pkg("statistics/generic")
	if p == nil {
		c.Unknown("C15.R5", "statistics/generic", "package loaded", token.NoPos, "not loaded")
		return
	}
	d := newDeclIndex(c)
	fd := findMethodDecl(p, "Hmm", "Viterbi")
	cons := "statistics/generic.(*Hmm).Viterbi"
	if fd == nil {
		c.Unknown("C15.R5", cons, "method found", token.NoPos, "not found")
		return
	}
	shapes := []hmmShape{{m: 2, n: 1, stateMap: []int{1, 0}}, {m: 2, n: 2, stateMap: []int{1, 0}}, {m: 2, n: 3, stateMap: []int{1, 0}}}
	if c.Tier == "thorough" {
		shapes = append(shapes, hmmShape{m: 3, n: 2, stateMap: []int{0, 1, 0}}, hmmShape{m: 2, n: 4, stateMap: []int{1, 0}})
	}
	nb := 0
	for _, sh := range shapes {
		tag := fmt.Sprintf("[m=%d n=%d]", sh.m, sh.n)
		// all hidden paths and their weights
		var xs [][]int
		var ws []*sym.Term
		x := make([]int, sh.n)
		var rec func(k int)
		rec = func(k int) {
			if k == sh.n {
				e := sym.Add(symf("lpi_%d", x[0]), symf("le_%d_%d", sh.stateMap[x[0]], 0))
				for t := 1; t < sh.n; t++ {
					tr := "ltr"
					if t == sh.n-1 {
						tr = "ltf"
					}
					e = sym.Add(e, sym.Add(symf("%s_%d_%d", tr, x[t-1], x[t]), symf("le_%d_%d", sh.stateMap[x[t]], t)))
				}
				xs = append(xs, append([]int{}, x...))
				ws = append(ws, e)
				return
			}
			for s := 0; s < sh.m; s++ {
				x[k] = s
				rec(k + 1)
			}
		}
		rec(0)
		obj := hmmObject(p, sh)
		cfg := vn.Config{Pkg: p, TypeName: "Real64", Spec: distSpec, InlineOps: inlineOps, Decl: d.find, ParamNames: true, MaxDepth: 6, UnrollConst: true, FiniteSyms: true,
			RecvStruct: obj, RecvFresh: true, Opaque: hmmRecordHook(sh), ParamList: []vn.Value{&vn.OpaqueVal{What: "record"}}}
		paths, und := vn.Run(cfg, fd)
		if und != nil {
			c.Unknown("C15.R5", cons, "interpreted "+tag, und.Pos, "Viterbi left the interpreter's idiom set: "+und.Msg)
			continue
		}
		bad := ""
		for _, pa := range paths {
			if pa.Panic {
				bad = "a branch panics"
				break
			}
			ret, _ := pa.Ret.(vn.Tuple)
			if len(ret) != 2 {
				bad = "unexpected result shape"
				break
			}
			if _, isErr := ret[1].(*vn.ErrVal); isErr {
				continue
			}
			rs, _ := ret[0].(*vn.SliceVal)
			if rs == nil {
				bad = "result is not a slice"
				break
			}
			nb++
			// the returned path
			ri := -1
			r := make([]int, sh.n)
			okR := true
			for k := 0; k < sh.n; k++ {
				t, has := rs.Cells[sym.Int(int64(k)).String()]
				if !has {
					if rs.Zero {
						t = sym.Zero()
					} else {
						okR = false
						break
					}
				}
				v, isC := t.IsConst()
				if !isC || !v.IsInt() {
					okR = false
					break
				}
				r[k] = int(v.Num().Int64())
			}
			if !okR {
				bad = "the returned path is not determined on a branch [" + shortConds(pa.CondString()) + "]"
				break
			}
			for i, xx := range xs {
				same := true
				for k := range xx {
					same = same && xx[k] == r[k]
				}
				if same {
					ri = i
				}
			}
			if ri < 0 {
				bad = fmt.Sprintf("the returned path %v is not a state sequence of the model", r)
				break
			}
			// order facts
			ge := make([][]bool, len(xs))
			for i := range ge {
				ge[i] = make([]bool, len(xs))
			}
			for _, cv := range pa.Conds {
				if cv.C.Op != "lt" || cv.C.A == nil || cv.C.B == nil {
					continue
				}
				D := sym.Sub(cv.C.A, cv.C.B)
				for i := range xs {
					for j := range xs {
						if i == j {
							continue
						}
						if sym.Equal(sym.Sub(ws[i], ws[j]), D) {
							// the comparison is W(i) < W(j)
							if cv.V {
								ge[j][i] = true
							} else {
								ge[i][j] = true
							}
						}
					}
				}
			}
			seen := make([]bool, len(xs))
			stack := []int{ri}
			seen[ri] = true
			for len(stack) > 0 {
				u := stack[len(stack)-1]
				stack = stack[:len(stack)-1]
				for v := range xs {
					if ge[u][v] && !seen[v] {
						seen[v] = true
						stack = append(stack, v)
					}
				}
			}
			for v := range xs {
				if !seen[v] {
					bad = fmt.Sprintf("on the branch [%s] Viterbi returns %v, but the comparisons decided on that branch do not place it above the hidden path %v", shortConds(pa.CondString()), r, xs[v])
					break
				}
			}
			if bad != "" {
				break
			}
		}
		c.Check(bad == "", "C15.R5", cons, "returned path is maximal on every branch "+tag, fd.Pos(), bad+": the returned sequence is not guaranteed to have maximal joint probability")
	}
	c.Analysed["viterbi_branches"] = nb
}
