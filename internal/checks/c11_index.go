package checks

import (
	"go/ast"
	"go/token"
	"go/types"

	"verif/internal/core"
)

// C11.R10 — wholesale replacement of the key index. The index of a sparse vector has to list exactly the keys of the
// value map. A statement that replaces the whole index (X.vectorSparseIndex = ...) keeps that coherence only if the
// same function also replaces the value map of X, or rebuilds the index with indexInsert after the replacement, or
// the new index is a clone / a locally built index. An index emptied while the value map keeps its entries makes the
// stored values invisible to iteration (At(i) finds the map entry and inserts no key).
func checkIndexReplacement(c *core.Ctx) {
	c.Rule("C11.R10", "a statement that replaces the whole key index of a sparse vector is accompanied by a replacement of its value map or followed by a rebuild of the index", 27)
	pkg := c.Root
	info := pkg.TypesInfo
	core.EachFunc(pkg, func(_ *ast.File, fd *ast.FuncDecl) {
		if fd.Body == nil {
			return
		}
		cons := c.FuncName(pkg, fd)
		ast.Inspect(fd.Body, func(n ast.Node) bool {
			as, ok := n.(*ast.AssignStmt)
			if !ok || len(as.Lhs) != 1 || len(as.Rhs) != 1 {
				return true
			}
			sel, ok := ast.Unparen(as.Lhs[0]).(*ast.SelectorExpr)
			if !ok || sel.Sel.Name != "vectorSparseIndex" {
				return true
			}
			base, ok := ast.Unparen(sel.X).(*ast.Ident)
			if !ok {
				return true
			}
			bo := info.Uses[base]
			// the new index: empty literal, or something built elsewhere
			_, empty := ast.Unparen(as.Rhs[0]).(*ast.CompositeLit)
			valuesReplaced, rebuilt := false, false
			ast.Inspect(fd.Body, func(m ast.Node) bool {
				switch x := m.(type) {
				case *ast.AssignStmt:
					for _, l := range x.Lhs {
						if s2, ok := ast.Unparen(l).(*ast.SelectorExpr); ok && s2.Sel.Name == "values" {
							if b2, ok := ast.Unparen(s2.X).(*ast.Ident); ok && info.Uses[b2] == bo {
								valuesReplaced = true
							}
						}
					}
				case *ast.CallExpr:
					if calleeName(x) == "indexInsert" && x.Pos() > as.Pos() {
						rebuilt = true
					}
				}
				return true
			})
			good := valuesReplaced || rebuilt || !empty && isFreshLocalOrClone(info, fd, as.Rhs[0])
			c.Check(good, "C11.R10", cons, "replacement of the key index", as.Pos(),
				"the key index of "+base.Name+" is replaced while its value map keeps its entries and no key is re-inserted afterwards: stored values are no longer reached by iteration")
			return true
		})
	})
}

func isFreshLocalOrClone(info *types.Info, fd *ast.FuncDecl, e ast.Expr) bool {
	switch x := ast.Unparen(e).(type) {
	case *ast.CallExpr:
		return true // indexClone() and the like: an index built for the new content
	case *ast.Ident:
		_ = x
		return false
	}
	_ = token.NoPos
	return false
}
