package checks

import (
	"fmt"
	"go/ast"
	"go/token"
	"go/types"
	"sort"
	"strings"

	"golang.org/x/tools/go/packages"

	"verif/internal/core"
)

// C05.R10 — support of the shared Householder scratch vector. The reductions (bidiagonalisation, Hessenberg,
// tridiagonalisation) keep one scratch vector Nu for all reflectors: householder.Run writes the reflector into a slice
// Nu[a:b); the accumulation of the orthogonal factor then applies the *whole* vector (or Nu[0:n)) to U or V, which is
// only the reflector if every entry outside [a,b) is zero. The routine is interpreted on concrete sizes with an
// abstract state: the set of indices of Nu that may be non-zero. Every application of a range of Nu must find that
// set, inside the applied range, within the range of the reflector computed last. All nil/non-nil combinations of
// the optional factors are enumerated (the clearing statements of one factor must not rely on the other).

type scrKind int

const (
	scrUnknown scrKind = iota
	scrInt
	scrBool
	scrPtr   // optional factor: nil or not
	scrNu    // a range of the scratch vector
	scrNuEl  // one element of the scratch vector
	scrTuple // multiple results
)

type scrVal struct {
	k      scrKind
	i      int
	b      bool
	isNil  bool
	lo, hi int
	tup    []scrVal
}

type scrInterp struct {
	pkg      *packages.Package
	info     *types.Info
	rows     int
	cols     int
	nilField map[string]bool
	env      []map[types.Object]scrVal
	support  map[int]bool
	lastLo   int
	lastHi   int
	hasRun   bool
	mayOnly  int
	ret      []scrVal
	done     bool
	depth    int
	fails    []string
	failPos  token.Pos
	applied  int
	und      string
}

func (it *scrInterp) lookup(o types.Object) (scrVal, bool) {
	for i := len(it.env) - 1; i >= 0; i-- {
		if v, ok := it.env[i][o]; ok {
			return v, true
		}
	}
	return scrVal{}, false
}

func (it *scrInterp) set(o types.Object, v scrVal, define bool) {
	if o == nil {
		return
	}
	if !define {
		for i := len(it.env) - 1; i >= 0; i-- {
			if _, ok := it.env[i][o]; ok {
				it.env[i][o] = v
				return
			}
		}
	}
	it.env[len(it.env)-1][o] = v
}

func (it *scrInterp) eval(e ast.Expr) scrVal {
	if tv, ok := it.info.Types[e]; ok && tv.Value != nil {
		var n int
		if _, err := fmt.Sscanf(tv.Value.ExactString(), "%d", &n); err == nil && !strings.Contains(tv.Value.ExactString(), ".") {
			if b, ok := tv.Type.Underlying().(*types.Basic); ok && b.Info()&types.IsInteger != 0 {
				return scrVal{k: scrInt, i: n}
			}
		}
		if tv.Value.ExactString() == "true" || tv.Value.ExactString() == "false" {
			return scrVal{k: scrBool, b: tv.Value.ExactString() == "true"}
		}
	}
	switch x := ast.Unparen(e).(type) {
	case *ast.Ident:
		if x.Name == "nil" {
			return scrVal{k: scrPtr, isNil: true}
		}
		o := it.info.Uses[x]
		if o == nil {
			o = it.info.Defs[x]
		}
		if v, ok := it.lookup(o); ok {
			return v
		}
	case *ast.SelectorExpr:
		// fields of the in-situ record
		if fv, ok := it.info.Uses[x.Sel].(*types.Var); ok && fv.IsField() {
			if fv.Name() == "Nu" {
				n := it.rows
				if it.cols > n {
					n = it.cols
				}
				return scrVal{k: scrNu, lo: 0, hi: n}
			}
			if isNil, ok := it.nilField[fv.Name()]; ok {
				return scrVal{k: scrPtr, isNil: isNil}
			}
		}
	case *ast.BinaryExpr:
		if x.Op == token.LAND || x.Op == token.LOR {
			l, r := it.eval(x.X), it.eval(x.Y)
			if l.k == scrBool && r.k == scrBool {
				if x.Op == token.LAND {
					return scrVal{k: scrBool, b: l.b && r.b}
				}
				return scrVal{k: scrBool, b: l.b || r.b}
			}
			if l.k == scrBool && ((x.Op == token.LAND && !l.b) || (x.Op == token.LOR && l.b)) {
				return l
			}
			if r.k == scrBool && ((x.Op == token.LAND && !r.b) || (x.Op == token.LOR && r.b)) {
				return r
			}
			return scrVal{}
		}
		l, r := it.eval(x.X), it.eval(x.Y)
		if l.k == scrPtr && r.k == scrPtr {
			switch x.Op {
			case token.EQL:
				return scrVal{k: scrBool, b: l.isNil == r.isNil && l.isNil}
			case token.NEQ:
				return scrVal{k: scrBool, b: !(l.isNil == r.isNil && l.isNil)}
			}
		}
		if l.k == scrInt && r.k == scrInt {
			switch x.Op {
			case token.ADD:
				return scrVal{k: scrInt, i: l.i + r.i}
			case token.SUB:
				return scrVal{k: scrInt, i: l.i - r.i}
			case token.MUL:
				return scrVal{k: scrInt, i: l.i * r.i}
			case token.LSS:
				return scrVal{k: scrBool, b: l.i < r.i}
			case token.LEQ:
				return scrVal{k: scrBool, b: l.i <= r.i}
			case token.GTR:
				return scrVal{k: scrBool, b: l.i > r.i}
			case token.GEQ:
				return scrVal{k: scrBool, b: l.i >= r.i}
			case token.EQL:
				return scrVal{k: scrBool, b: l.i == r.i}
			case token.NEQ:
				return scrVal{k: scrBool, b: l.i != r.i}
			}
		}
	case *ast.UnaryExpr:
		if x.Op == token.NOT {
			v := it.eval(x.X)
			if v.k == scrBool {
				return scrVal{k: scrBool, b: !v.b}
			}
		}
	case *ast.CallExpr:
		rs := it.call(x)
		if len(rs) == 1 {
			return rs[0]
		}
		if len(rs) > 1 {
			return scrVal{k: scrTuple, tup: rs}
		}
	}
	return scrVal{}
}

func (it *scrInterp) call(ce *ast.CallExpr) []scrVal {
	sel, isSel := ast.Unparen(ce.Fun).(*ast.SelectorExpr)
	fn := core.Callee(it.info, ce)
	// package-level functions of the householder package
	if fn != nil && fn.Pkg() != nil && strings.HasSuffix(fn.Pkg().Path(), "/algorithm/householder") {
		switch fn.Name() {
		case "Run":
			if len(ce.Args) >= 3 {
				v := it.eval(ce.Args[2])
				if v.k != scrNu {
					it.und = "householder.Run writes its reflector somewhere other than a range of the scratch vector"
					return nil
				}
				for k := v.lo; k < v.hi; k++ {
					it.support[k] = true
				}
				it.lastLo, it.lastHi, it.hasRun = v.lo, v.hi, true
			}
			return nil
		case "ApplyLeft", "ApplyRight":
			if len(ce.Args) >= 3 {
				v := it.eval(ce.Args[2])
				if v.k != scrNu {
					return nil
				}
				it.applied++
				if !it.hasRun {
					it.fail(ce.Pos(), "a range of the scratch vector is applied before any reflector was computed")
					return nil
				}
				if it.lastLo < v.lo || it.lastHi > v.hi {
					it.fail(ce.Pos(), fmt.Sprintf("the applied range [%d,%d) does not contain the reflector computed last, [%d,%d)", v.lo, v.hi, it.lastLo, it.lastHi))
					return nil
				}
				var stale []int
				for k := v.lo; k < v.hi; k++ {
					if it.support[k] && (k < it.lastLo || k >= it.lastHi) {
						stale = append(stale, k)
					}
				}
				if len(stale) > 0 {
					it.fail(ce.Pos(), fmt.Sprintf("the applied range [%d,%d) of the scratch vector still holds entries %v of earlier reflectors outside the current one [%d,%d)", v.lo, v.hi, stale, it.lastLo, it.lastHi))
				}
			}
			return nil
		}
		return nil
	}
	if isSel {
		recv := it.eval(sel.X)
		switch sel.Sel.Name {
		case "Dims":
			return []scrVal{{k: scrInt, i: it.rows}, {k: scrInt, i: it.cols}}
		case "Slice":
			if recv.k == scrNu && len(ce.Args) == 2 {
				a, b := it.eval(ce.Args[0]), it.eval(ce.Args[1])
				if a.k == scrInt && b.k == scrInt {
					return []scrVal{{k: scrNu, lo: recv.lo + a.i, hi: recv.lo + b.i}}
				}
				it.und = "slice of the scratch vector with bounds that are not determined by the sizes"
				return nil
			}
		case "At", "AT":
			if recv.k == scrNu && len(ce.Args) == 1 {
				a := it.eval(ce.Args[0])
				if a.k == scrInt {
					return []scrVal{{k: scrNuEl, i: recv.lo + a.i}}
				}
				it.und = "element of the scratch vector with an index that is not determined by the sizes"
				return nil
			}
		case "SetFloat64", "Reset", "SetValue":
			if recv.k == scrNuEl {
				zero := sel.Sel.Name == "Reset"
				if len(ce.Args) == 1 {
					if tv, ok := it.info.Types[ce.Args[0]]; ok && tv.Value != nil && (tv.Value.ExactString() == "0" || tv.Value.String() == "0") {
						zero = true
					}
				}
				if zero {
					if it.hasRun && recv.i >= it.lastLo && recv.i < it.lastHi {
						it.fail(ce.Pos(), fmt.Sprintf("entry %d of the reflector computed last, [%d,%d), is overwritten before the reflector is applied", recv.i, it.lastLo, it.lastHi))
						return nil
					}
					if it.mayOnly == 0 {
						delete(it.support, recv.i)
					}
				} else {
					it.support[recv.i] = true
				}
				return nil
			}
		}
	}
	// helper of the same package: inline
	if fn != nil && fn.Pkg() == it.pkg.Types && it.depth < 4 {
		var fd *ast.FuncDecl
		core.EachFunc(it.pkg, func(_ *ast.File, d *ast.FuncDecl) {
			if it.info.Defs[d.Name] == fn {
				fd = d
			}
		})
		if fd != nil && fd.Body != nil && fd.Recv == nil {
			frame := map[types.Object]scrVal{}
			k := 0
			for _, f := range fd.Type.Params.List {
				for _, n := range f.Names {
					if k < len(ce.Args) {
						frame[it.info.Defs[n]] = it.eval(ce.Args[k])
					}
					k++
				}
			}
			saveEnv, saveRet, saveDone := it.env, it.ret, it.done
			it.env = []map[types.Object]scrVal{frame}
			it.ret, it.done = nil, false
			it.depth++
			it.block(fd.Body.List)
			it.depth--
			r := it.ret
			it.env, it.ret, it.done = saveEnv, saveRet, saveDone
			return r
		}
	}
	// any other call: arguments may be evaluated for their effects (none relevant)
	return nil
}

func (it *scrInterp) fail(pos token.Pos, msg string) {
	if len(it.fails) == 0 {
		it.failPos = pos
	}
	it.fails = append(it.fails, msg)
}

func (it *scrInterp) block(list []ast.Stmt) {
	it.env = append(it.env, map[types.Object]scrVal{})
	defer func() { it.env = it.env[:len(it.env)-1] }()
	for _, s := range list {
		if it.done || it.und != "" || len(it.fails) > 0 {
			return
		}
		it.stmt(s)
	}
}

func (it *scrInterp) stmt(s ast.Stmt) {
	switch x := s.(type) {
	case *ast.AssignStmt:
		var vals []scrVal
		if len(x.Rhs) == 1 && len(x.Lhs) > 1 {
			v := it.eval(x.Rhs[0])
			if v.k == scrTuple {
				vals = v.tup
			}
		} else {
			for _, r := range x.Rhs {
				vals = append(vals, it.eval(r))
			}
		}
		for i, l := range x.Lhs {
			id, ok := ast.Unparen(l).(*ast.Ident)
			if !ok || id.Name == "_" {
				continue
			}
			o := it.info.Defs[id]
			if o == nil {
				o = it.info.Uses[id]
			}
			v := scrVal{}
			if i < len(vals) {
				v = vals[i]
			}
			if x.Tok != token.ASSIGN && x.Tok != token.DEFINE {
				v = scrVal{}
			}
			it.set(o, v, x.Tok == token.DEFINE && it.info.Defs[id] != nil)
		}
	case *ast.ExprStmt:
		it.eval(x.X)
	case *ast.IncDecStmt:
		if id, ok := ast.Unparen(x.X).(*ast.Ident); ok {
			o := it.info.Uses[id]
			if v, ok := it.lookup(o); ok && v.k == scrInt {
				if x.Tok == token.INC {
					v.i++
				} else {
					v.i--
				}
				it.set(o, v, false)
			}
		}
	case *ast.IfStmt:
		it.env = append(it.env, map[types.Object]scrVal{})
		defer func() { it.env = it.env[:len(it.env)-1] }()
		if x.Init != nil {
			it.stmt(x.Init)
		}
		c := it.eval(x.Cond)
		if c.k == scrBool {
			if c.b {
				it.block(x.Body.List)
			} else if x.Else != nil {
				it.stmt(x.Else)
			}
			return
		}
		// undetermined condition: both branches may run; clearing statements inside do not count
		it.mayOnly++
		it.block(x.Body.List)
		if x.Else != nil {
			it.stmt(x.Else)
		}
		it.mayOnly--
		it.done = false
	case *ast.ForStmt:
		it.env = append(it.env, map[types.Object]scrVal{})
		defer func() { it.env = it.env[:len(it.env)-1] }()
		if x.Init != nil {
			it.stmt(x.Init)
		}
		for iter := 0; iter < 64; iter++ {
			if x.Cond != nil {
				c := it.eval(x.Cond)
				if c.k != scrBool {
					// a loop that is not counted by the sizes: its body runs zero or more times
					it.mayOnly++
					it.block(x.Body.List)
					it.mayOnly--
					return
				}
				if !c.b {
					return
				}
			}
			it.block(x.Body.List)
			if it.done || it.und != "" || len(it.fails) > 0 {
				return
			}
			if x.Post != nil {
				it.stmt(x.Post)
			}
		}
	case *ast.ReturnStmt:
		it.ret = nil
		for _, r := range x.Results {
			it.ret = append(it.ret, it.eval(r))
		}
		if it.mayOnly == 0 {
			it.done = true
		}
	case *ast.BlockStmt:
		it.block(x.List)
	}
}

func checkScratchSupport(c *core.Ctx) {
	c.Rule("C05.R10", "Householder reductions: whenever a range of the shared scratch vector is applied as a reflector, the entries of that range that may be non-zero lie within the reflector computed last (abstract interpretation of the support set on concrete sizes, all nil/non-nil combinations of the optional factors)", 8)
	targets := []struct{ pkg, fn string }{
		{"algorithm/householderBidiagonalization", "householderBidiagonalization"},
		{"algorithm/hessenbergReduction", "hessenbergReduction"},
		{"algorithm/householderTridiagonalization", "householderTridiagonalization"},
	}
	for _, tg := range targets {
		p := c.Pkg(tg.pkg)
		cons := tg.pkg + "." + tg.fn
		if p == nil {
			c.Unknown("C05.R10", cons, "package loaded", token.NoPos, "not loaded")
			continue
		}
		fd := core.FindFunc(p, tg.fn)
		if fd == nil || fd.Body == nil {
			c.Unknown("C05.R10", cons, "present", token.NoPos, "routine not found")
			continue
		}
		info := p.TypesInfo
		// optional factors: fields of the in-situ record that the routine (through a local copy or directly) compares with nil
		opt := map[string]bool{}
		local := map[types.Object]string{}
		ast.Inspect(fd.Body, func(n ast.Node) bool {
			switch x := n.(type) {
			case *ast.AssignStmt:
				if len(x.Lhs) == 1 && len(x.Rhs) == 1 {
					if id, ok := x.Lhs[0].(*ast.Ident); ok {
						if sel, ok := ast.Unparen(x.Rhs[0]).(*ast.SelectorExpr); ok {
							if fv, ok := info.Uses[sel.Sel].(*types.Var); ok && fv.IsField() {
								if o := info.Defs[id]; o != nil {
									local[o] = fv.Name()
								}
							}
						}
					}
				}
			case *ast.BinaryExpr:
				if x.Op == token.NEQ || x.Op == token.EQL {
					for _, pr := range [][2]ast.Expr{{x.X, x.Y}, {x.Y, x.X}} {
						if nid, ok := ast.Unparen(pr[1]).(*ast.Ident); ok && nid.Name == "nil" {
							switch y := ast.Unparen(pr[0]).(type) {
							case *ast.Ident:
								if f, ok := local[info.Uses[y]]; ok {
									opt[f] = true
								}
							case *ast.SelectorExpr:
								if fv, ok := info.Uses[y.Sel].(*types.Var); ok && fv.IsField() {
									opt[fv.Name()] = true
								}
							}
						}
					}
				}
			}
			return true
		})
		var fields []string
		for f := range opt {
			fields = append(fields, f)
		}
		sort.Strings(fields)
		if len(fields) > 4 {
			c.Unknown("C05.R10", cons, "optional factors", fd.Pos(), "too many optional fields")
			continue
		}
		totalApplied := 0
		for mask := 0; mask < 1<<len(fields); mask++ {
			nilField := map[string]bool{}
			var tag []string
			for b, f := range fields {
				nilField[f] = mask&(1<<b) != 0
				if nilField[f] {
					tag = append(tag, f+"=nil")
				} else {
					tag = append(tag, f+" given")
				}
			}
			for _, sz := range [][2]int{{5, 5}, {6, 4}} {
				detail := fmt.Sprintf("%s, %dx%d", strings.Join(tag, ", "), sz[0], sz[1])
				it := &scrInterp{pkg: p, info: info, rows: sz[0], cols: sz[1], nilField: nilField, support: map[int]bool{}}
				it.env = []map[types.Object]scrVal{{}}
				it.block(fd.Body.List)
				if it.und != "" {
					c.Unknown("C05.R10", cons, detail, fd.Pos(), it.und)
					continue
				}
				totalApplied += it.applied
				msg := ""
				pos := fd.Pos()
				if len(it.fails) > 0 {
					msg = it.fails[0]
					pos = it.failPos
				}
				c.Check(msg == "", "C05.R10", cons, detail, pos, msg)
			}
		}
		if totalApplied == 0 {
			c.Unknown("C05.R10", cons, "applications interpreted", fd.Pos(), "no application of the scratch vector was interpreted in any configuration")
		}
		c.Analysed["scratch_applications:"+tg.fn] = totalApplied
	}
}
