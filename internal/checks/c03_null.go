package checks

import (
	"go/ast"
	"go/token"
	"go/types"
	"strings"

	"verif/internal/core"
)

// checkNullScalar (C03.R5): nullScalar() decides which elements sparse storage and the zero-skipping iterators may drop. An
// element is droppable only if its value, every first derivative and every second derivative vanish: the predicate must
// test the value, scan all N gradient entries, and scan a part of the Hessian that contains a full triangle including the
// diagonal ((i,j) for all j, for j <= i, or for j >= i). Otherwise an element whose only non-zero part is, say, a diagonal
// second derivative (x*x at x = 0) disappears from sparse results while the dense ones keep it.
func checkNullScalar(c *core.Ctx) {
	c.Rule("C03.R5", "nullScalar of the AD scalar types tests the value, all first derivatives and a full triangle (with diagonal) of second derivatives", 2)
	p := c.Root
	info := p.TypesInfo
	for _, T := range []string{"Real32", "Real64"} {
		fd := core.FindMethod(p, T, "nullScalar")
		cons := "(*" + T + ").nullScalar"
		if fd == nil {
			c.Unknown("C03.R5", cons, "method found", token.NoPos, "not found")
			continue
		}
		valueTested, gradFull, hessFull := false, false, false
		isN := func(e ast.Expr) bool {
			s := types.ExprString(ast.Unparen(e))
			return strings.HasSuffix(s, ".GetN()") || strings.HasSuffix(s, ".N")
		}
		// loop shape: for v := lo; v < hi (or <=); v++
		type loop struct {
			v      types.Object
			lo, hi ast.Expr
			incl   bool
		}
		shape := func(fs *ast.ForStmt) *loop {
			as, ok := fs.Init.(*ast.AssignStmt)
			if !ok || len(as.Lhs) != 1 || len(as.Rhs) != 1 {
				return nil
			}
			id, ok := as.Lhs[0].(*ast.Ident)
			if !ok {
				return nil
			}
			be, ok := fs.Cond.(*ast.BinaryExpr)
			if !ok || (be.Op != token.LSS && be.Op != token.LEQ) {
				return nil
			}
			if x, ok := be.X.(*ast.Ident); !ok || x.Name != id.Name {
				return nil
			}
			if inc, ok := fs.Post.(*ast.IncDecStmt); !ok || inc.Tok != token.INC {
				return nil
			}
			return &loop{v: info.Defs[id], lo: as.Rhs[0], hi: be.Y, incl: be.Op == token.LEQ}
		}
		isZero := func(e ast.Expr) bool { return types.ExprString(e) == "0" }
		full := func(l *loop) bool { return l != nil && isZero(l.lo) && !l.incl && isN(l.hi) }
		ast.Inspect(fd.Body, func(n ast.Node) bool {
			switch v := n.(type) {
			case *ast.BinaryExpr:
				if (v.Op == token.NEQ || v.Op == token.EQL) && (strings.HasSuffix(types.ExprString(v.X), ".Value") || strings.HasSuffix(types.ExprString(v.X), ".GetValue()") || strings.HasSuffix(types.ExprString(v.X), ".GetFloat64()")) {
					valueTested = true
				}
			case *ast.ForStmt:
				outer := shape(v)
				if outer == nil {
					return true
				}
				// gradient loop: body tests GetDerivative(outer.v)
				ast.Inspect(v.Body, func(m ast.Node) bool {
					if ce, ok := m.(*ast.CallExpr); ok {
						if sel, ok := ce.Fun.(*ast.SelectorExpr); ok && sel.Sel.Name == "GetDerivative" && len(ce.Args) == 1 {
							if id, ok := ce.Args[0].(*ast.Ident); ok && info.Uses[id] == outer.v && full(outer) {
								gradFull = true
							}
						}
					}
					if inner, ok := m.(*ast.ForStmt); ok {
						in := shape(inner)
						if in == nil || !full(outer) {
							return true
						}
						usesH := false
						ast.Inspect(inner.Body, func(k ast.Node) bool {
							if ce, ok := k.(*ast.CallExpr); ok {
								if sel, ok := ce.Fun.(*ast.SelectorExpr); ok && sel.Sel.Name == "GetHessian" && len(ce.Args) == 2 {
									usesH = true
								}
							}
							return true
						})
						if !usesH {
							return true
						}
						ov := outer.v.Name()
						lo, hi := types.ExprString(in.lo), types.ExprString(in.hi)
						switch {
						case isZero(in.lo) && !in.incl && isN(in.hi): // all j
							hessFull = true
						case isZero(in.lo) && in.incl && hi == ov: // j <= i
							hessFull = true
						case isZero(in.lo) && !in.incl && (hi == ov+" + 1" || hi == ov+"+1" || hi == "1 + "+ov): // j < i+1
							hessFull = true
						case lo == ov && !in.incl && isN(in.hi): // j >= i
							hessFull = true
						}
					}
					return true
				})
			}
			return true
		})
		c.Check(valueTested, "C03.R5", cons, "value tested", fd.Pos(), "nullScalar does not test the value of the scalar: non-zero elements would be dropped from sparse storage")
		c.Check(gradFull, "C03.R5", cons, "all first derivatives tested", fd.Pos(), "nullScalar does not scan all N first derivatives: an element with value 0 and a non-zero derivative is dropped from sparse results (the dense result keeps it)")
		c.Check(hessFull, "C03.R5", cons, "a full triangle of second derivatives tested", fd.Pos(), "nullScalar does not scan a part of the Hessian that contains a whole triangle with the diagonal: an element whose only non-zero part is a second derivative the scan skips (x*x at x = 0 has only H(0,0)) is dropped by the sparse containers and the zero-skipping iterators, so sparse and dense results differ")
	}
}
