package checks

import (
	"fmt"
	"go/ast"
	"go/token"
	"go/types"
	"sort"
	"strings"

	"golang.org/x/tools/go/packages"

	"verif/internal/core"
	"verif/internal/sym"
	"verif/internal/vn"
)

func init() { Registry["C08"] = checkC08 }

func checkC08(c *core.Ctx) error {
	if err := c.Load(packages.LoadSyntax); err != nil {
		return err
	}
	c.Explanation = "Read-after-clobber freedom under receiver/operand aliasing, decided on the source: (R1) the combinators' schedule reads each operand cell before the receiver cell that may alias it is written " +
		"(lazies before writes, Hessian cell (i,j) only read at iteration (i,j), gradient after Hessian, value last); (R2) every composite is re-interpreted symbolically with the receiver (and temporaries) identified with each " +
		"subset of its scalar operands and must give the same guarded value as with distinct objects; reductions must not write the receiver while container elements are still to be read; " +
		"(R3) allocation in the two-argument combinators must not discard derivative storage of an aliased operand; (R4) cross-index container kernels either reject or buffer each alias pattern."
	c.Rule("C08.R1", "combinator schedule is alias-safe: lazies and coefficients evaluated before the first write; Hessian nest reads operand cell (i,j) only; mirror copies the cell just written; gradient loop after the Hessian nest reading cell i only; value stored last", 16)
	c.Rule("C08.R2", "composites: the symbolic result with receiver/temporary identified with operand(s) equals the result with distinct objects, on every path and for every alias pattern", 150)
	c.Rule("C08.R2b", "reductions over containers do not write the receiver before the last container element is read (the receiver may be an element of the operand)", 50)
	c.Rule("C08.R3", "two-argument combinators: allocation for the result does not discard derivative storage of an operand that aliases the receiver", 8)
	c.Rule("C08.R4", "cross-index container operations (MdotM, MdotV, VdotM, Outer and twins): every receiver/operand alias pattern is rejected by a panic that dominates the first write, or the schedule buffers every element still to be read", 30)
	checkStorageLocation(c)
	pkg := c.Root
	for _, T := range magicTypes {
		checkCombinatorSchedule(c, pkg, T)
	}
	for _, T := range mutableTypes {
		checkCompositeAlias(c, pkg, T)
		checkReductionReceiver(c, pkg, T)
	}
	checkContainerAlias(c, pkg)
	return nil
}

// ---------------------------------------------------------------------------
// R1 + R3

func checkCombinatorSchedule(c *core.Ctx, pkg *packages.Package, T string) {
	names := make([]string, 0, len(combinatorNames))
	for n := range combinatorNames {
		names = append(names, n)
	}
	sort.Strings(names)
	for _, name := range names {
		nops := combinatorNames[name]
		cons := "(*" + T + ")." + name
		fd := core.FindMethod(pkg, T, name)
		if fd == nil {
			c.Unknown("C08.R1", cons, "present", token.NoPos, "combinator not found")
			continue
		}
		paths, und := vn.Run(vn.Config{Pkg: pkg, TypeName: T}, fd)
		if und != nil {
			c.Unknown("C08.R1", cons, "interpretation", und.Pos, und.Msg)
			continue
		}
		bad := ""
		var badPos token.Pos
		fail := func(pos token.Pos, f string, a ...interface{}) {
			if bad == "" {
				bad = fmt.Sprintf(f, a...)
				badPos = pos
			}
		}
		nOrder2 := 0
		for _, p := range paths {
			if p.Panic {
				continue
			}
			phase := 0 // 0 before writes, 1 hessian, 2 gradient, 3 value
			var mainIdx []*sym.Term
			for _, e := range p.Events {
				switch e.Kind {
				case "lazycall":
					if phase > 0 {
						fail(e.Pos, "lazy coefficient %s is evaluated after the receiver was written (it may read an aliased operand)", e.Op)
					}
				case "sethess":
					if phase > 1 {
						fail(e.Pos, "Hessian written after the gradient")
					}
					phase = 1
					nOrder2++
					reads := collectAtoms(e.V[0], "H")
					if len(mainIdx) == 0 {
						// main statement: writes (i,j); may read operand cells (i,j) only
						mainIdx = e.Idx
						for _, a := range reads {
							if a.Args[0].String() == "r0" {
								fail(e.Pos, "main Hessian statement reads the receiver's own Hessian")
							}
							if !sym.Equal(a.Args[1], e.Idx[0]) || !sym.Equal(a.Args[2], e.Idx[1]) {
								fail(e.Pos, "at iteration (%s,%s) the Hessian nest reads operand cell (%s,%s), which an aliased receiver may already have overwritten", e.Idx[0], e.Idx[1], a.Args[1], a.Args[2])
							}
						}
						if len(e.Loops) == 2 {
							lj := e.Loops[1]
							if !lj.Lo.IsZero() && !sym.Equal(lj.Lo, sym.Sym(e.Loops[0].Var)) {
								fail(e.Pos, "inner Hessian loop starts at %s", lj.Lo)
							}
						}
					} else {
						// mirror: H[j][i] = own H[i][j]; only admissible when the nest covers j >= i
						if len(e.Loops) == 2 && e.Loops[1].Lo.IsZero() {
							fail(e.Pos, "mirror statement inside a full i,j nest overwrites cell (j,i) before iteration (j,i) reads it from an aliased operand")
						}
						ok := len(reads) == 1 && reads[0].Args[0].String() == "r0" && sym.Equal(reads[0].Args[1], mainIdx[0]) && sym.Equal(reads[0].Args[2], mainIdx[1]) &&
							sym.Equal(e.Idx[0], mainIdx[1]) && sym.Equal(e.Idx[1], mainIdx[0])
						if !ok {
							fail(e.Pos, "second Hessian statement is not the mirror H[j][i] = H[i][j] of the cell just written")
						}
					}
				case "setderiv":
					if phase > 2 {
						fail(e.Pos, "gradient written after the value")
					}
					phase = 2
					for _, a := range collectAtoms(e.V[0], "H") {
						fail(e.Pos, "gradient statement reads Hessian cell %s after the Hessian nest overwrote it", a.Key())
					}
					for _, a := range collectAtoms(e.V[0], "D") {
						if !sym.Equal(a.Args[1], e.Idx[0]) {
							fail(e.Pos, "gradient cell %s reads operand gradient cell %s, which an aliased receiver may already have overwritten", e.Idx[0], a.Args[1])
						}
					}
				case "setfloat":
					phase = 3
				}
			}
			// value last
			if n := len(p.Events); n == 0 || p.Events[n-1].Kind != "setfloat" {
				fail(fd.Pos(), "the value store is not the last effect on path [%s]", p.CondString())
			}
		}
		c.Check(bad == "", "C08.R1", cons, "schedule", badPos, bad)
		if nops == 2 {
			checkAllocHazard(c, pkg, T, name, fd)
		}
	}
}

func collectAtoms(t *sym.Term, kind string) []*sym.Atom {
	var r []*sym.Atom
	seen := map[*sym.Atom]bool{}
	var walk func(t *sym.Term)
	walk = func(t *sym.Term) {
		for _, a := range t.Atoms() {
			if seen[a] {
				continue
			}
			seen[a] = true
			if a.Kind == kind {
				r = append(r, a)
			}
			for _, x := range a.Args {
				walk(x)
			}
		}
	}
	walk(t)
	return r
}

// checkAllocHazard: Alloc re-allocates (make) without preserving old cells when the shape differs;
// a dyadic combinator that allocates before reading its operands loses the derivatives of an operand
// that aliases the receiver and has a smaller order/N than the other operand.
func checkAllocHazard(c *core.Ctx, pkg *packages.Package, T, name string, fd *ast.FuncDecl) {
	cons := "(*" + T + ")." + name
	info := pkg.TypesInfo
	alloc := core.FindMethod(pkg, T, "Alloc")
	if alloc == nil {
		c.Unknown("C08.R3", cons, "Alloc present", token.NoPos, "Alloc not found")
		return
	}
	// does Alloc preserve existing cells? (a copy(...) from the old slice, or append-style growth)
	preserves := false
	ast.Inspect(alloc.Body, func(n ast.Node) bool {
		if ce, ok := n.(*ast.CallExpr); ok && calleeName(ce) == "copy" {
			preserves = true
		}
		return true
	})
	// position of the allocation call vs first read of operand derivatives
	f := newFnCtx(pkg, fd)
	var allocPos token.Pos
	var firstRead token.Pos
	ast.Inspect(fd.Body, func(n ast.Node) bool {
		ce, ok := n.(*ast.CallExpr)
		if !ok {
			return true
		}
		nm := calleeName(ce)
		if nm == "AllocForTwo" || nm == "Alloc" {
			if allocPos == token.NoPos {
				allocPos = ce.Pos()
			}
		}
		if nm == "GetDerivative" || nm == "GetHessian" {
			if s, ok := ast.Unparen(ce.Fun).(*ast.SelectorExpr); ok {
				if id, ok := ast.Unparen(s.X).(*ast.Ident); ok && info.Uses[id] != f.recv {
					if firstRead == token.NoPos || ce.Pos() < firstRead {
						firstRead = ce.Pos()
					}
				}
			}
		}
		return true
	})
	safe := preserves || (firstRead != token.NoPos && allocPos != token.NoPos && firstRead < allocPos)
	c.Check(safe, "C08.R3", cons, "allocation keeps an aliased operand's derivatives", allocPos,
		"AllocForTwo(a,b) re-allocates the receiver (make, no copy) when max(N)/max(order) differ from its own shape; with the receiver aliasing the operand of smaller order/N that operand's derivatives are zeroed before the chain rule reads them (e.g. b.Mul(a,b) with order(a) > order(b))")
}

// ---------------------------------------------------------------------------
// R2

func scalarParamIdx(pkg *packages.Package, fd *ast.FuncDecl) (ops []int, temps []int) {
	info := pkg.TypesInfo
	k := 0
	for _, f := range fd.Type.Params.List {
		for _, n := range f.Names {
			t := info.Defs[n].Type()
			if nm := core.NamedOf(t); nm != nil {
				switch nm.Obj().Name() {
				case "ConstScalar":
					ops = append(ops, k)
				case "Scalar", "MagicScalar":
					temps = append(temps, k)
				default:
					// concrete scalar types of CAPITAL methods: operands unless named t
					if isScalarTypeName(nm.Obj().Name()) {
						if n.Name == "t" {
							temps = append(temps, k)
						} else if nm.Obj().Name() != "ConstFloat64" && nm.Obj().Name() != "ConstFloat32" {
							ops = append(ops, k)
						}
					}
				}
			}
			k++
		}
	}
	return
}

func isScalarTypeName(n string) bool {
	for _, t := range allScalarTypes {
		if t == n {
			return true
		}
	}
	return false
}

type pathRes struct {
	conds string
	val   *sym.Term
	panic bool
}

func runSummary(pkg *packages.Package, T string, fd *ast.FuncDecl, groups [][]int, rename map[*sym.Atom]*sym.Term) ([]pathRes, *vn.Undecided) {
	paths, und := vn.Run(vn.Config{Pkg: pkg, TypeName: T, Spec: scalarSpec, InlineOps: inlineOps, Groups: groups}, fd)
	if und != nil {
		return nil, und
	}
	var res []pathRes
	for _, p := range paths {
		var cs []string
		for _, cv := range p.Conds {
			a := cv.C.A
			b := cv.C.B
			if rename != nil {
				a = sym.Subst(a, rename)
				if b != nil {
					b = sym.Subst(b, rename)
				}
			}
			cc := &vn.Cond{Op: cv.C.Op, A: a, B: b, Arg: cv.C.Arg}
			s := cc.String()
			if !cv.V {
				s = "!" + s
			}
			cs = append(cs, s)
		}
		sort.Strings(cs)
		pr := pathRes{conds: strings.Join(cs, " && "), panic: p.Panic}
		if !p.Panic && p.Recv != nil {
			v := p.Recv.Val
			if rename != nil {
				v = sym.Subst(v, rename)
			}
			pr.val = v
		}
		res = append(res, pr)
	}
	return res, nil
}

func checkCompositeAlias(c *core.Ctx, pkg *packages.Package, T string) {
	names := []string{"Min", "Max", "Abs", "LogAdd", "LogSub", "Log1pExp", "Sigmoid", "Logistic", "Sqrt",
		"Neg", "Add", "Sub", "Mul", "Div", "Pow", "Exp", "Log", "Log1p", "Sin", "Cos", "Tan", "Tanh", "Erf", "Erfc", "LogErfc", "Gamma", "Lgamma",
		"MIN", "MAX", "ABS", "LOGADD", "LOGSUB", "NEG", "ADD", "SUB", "MUL", "DIV", "POW", "SQRT", "EXP", "LOG", "LOG1P"}
	for _, name := range names {
		fd := core.FindMethod(pkg, T, name)
		if fd == nil {
			continue
		}
		cons := recvStar(pkg, T) + "." + name
		ops, temps := scalarParamIdx(pkg, fd)
		// alias patterns: receiver with each non-empty subset of operands; receiver with temp; temp with each operand
		var patterns [][][]int
		for mask := 1; mask < 1<<len(ops); mask++ {
			g := []int{-1}
			for i, o := range ops {
				if mask&(1<<i) != 0 {
					g = append(g, o)
				}
			}
			patterns = append(patterns, [][]int{g})
		}
		for _, t := range temps {
			patterns = append(patterns, [][]int{{-1, t}})
			for _, o := range ops {
				patterns = append(patterns, [][]int{{o, t}})
			}
		}
		for _, groups := range patterns {
			// rename map for the plain run: members -> representative symbol
			rename := map[*sym.Atom]*sym.Term{}
			var desc []string
			for _, g := range groups {
				rep := ""
				if g[0] == -1 {
					rep = "r0"
				} else {
					rep = fmt.Sprintf("p%d", g[0])
				}
				var ms []string
				for _, m := range g {
					if m == -1 {
						ms = append(ms, "receiver")
						continue
					}
					ms = append(ms, fmt.Sprintf("arg%d", m))
					rename[sym.SymAtom(fmt.Sprintf("p%d", m))] = sym.Sym(rep)
				}
				desc = append(desc, strings.Join(ms, "="))
			}
			detail := "alias " + strings.Join(desc, ", ")
			plain, und := runSummary(pkg, T, fd, nil, rename)
			if und != nil {
				c.Unknown("C08.R2", cons, detail, und.Pos, und.Msg)
				continue
			}
			alias, und := runSummary(pkg, T, fd, groups, nil)
			if und != nil {
				c.Unknown("C08.R2", cons, detail, und.Pos, und.Msg)
				continue
			}
			msg := compareAlias(plain, alias)
			c.Check(msg == "", "C08.R2", cons, detail, fd.Pos(), msg)
		}
	}
}

// compareAlias: every alias path must agree with some plain path whose (renamed) conditions are a
// consistent superset/subset; we match on condition strings and compare values.
func compareAlias(plain, alias []pathRes) string {
	for _, a := range alias {
		if a.panic {
			continue
		}
		matched := false
		for _, p := range plain {
			if p.panic || !condCompatible(p.conds, a.conds) {
				continue
			}
			matched = true
			if p.val == nil || a.val == nil || !sym.Equal(p.val, a.val) {
				pv, av := "?", "?"
				if p.val != nil {
					pv = p.val.String()
				}
				if a.val != nil {
					av = a.val.String()
				}
				return fmt.Sprintf("with the aliasing the result is %s but with distinct objects it is %s (path [%s])", av, pv, a.conds)
			}
		}
		if !matched {
			return fmt.Sprintf("aliased path [%s] has no counterpart with distinct objects: a branch condition is evaluated on a clobbered operand", a.conds)
		}
	}
	return ""
}

// condCompatible: no condition appears with opposite truth values in the two sets, and every
// condition of the alias path that is not trivially decided appears in the plain path (after renaming
// some plain conditions become decidable, e.g. lt(r0,r0), and vanish from the alias path).
func condCompatible(plain, alias string) bool {
	ps := map[string]bool{}
	for _, c := range strings.Split(plain, " && ") {
		if c != "" {
			ps[c] = true
		}
	}
	neg := func(c string) string {
		if strings.HasPrefix(c, "!") {
			return c[1:]
		}
		return "!" + c
	}
	for _, c := range strings.Split(alias, " && ") {
		if c == "" {
			continue
		}
		if ps[neg(c)] {
			return false
		}
		if !ps[c] {
			return false
		}
	}
	return true
}

// ---------------------------------------------------------------------------
// R2b reductions

func checkReductionReceiver(c *core.Ctx, pkg *packages.Package, T string) {
	info := pkg.TypesInfo
	for _, name := range []string{"SmoothMax", "LogSmoothMax", "Vmean", "VdotV", "Vnorm", "Mnorm", "Mtrace"} {
		fd := core.FindMethod(pkg, T, name)
		if fd == nil {
			continue
		}
		cons := recvStar(pkg, T) + "." + name
		f := newFnCtx(pkg, fd)
		// first write to the receiver (method call on the receiver that is not a getter)
		var firstWrite token.Pos
		var lastElemRead token.Pos
		ast.Inspect(fd.Body, func(n ast.Node) bool {
			ce, ok := n.(*ast.CallExpr)
			if !ok {
				return true
			}
			s, ok := ast.Unparen(ce.Fun).(*ast.SelectorExpr)
			if !ok {
				return true
			}
			if id, ok := ast.Unparen(s.X).(*ast.Ident); ok && info.Uses[id] == f.recv {
				if !strings.HasPrefix(s.Sel.Name, "Get") && s.Sel.Name != "Type" {
					if firstWrite == token.NoPos || ce.Pos() < firstWrite {
						firstWrite = ce.Pos()
					}
				}
			}
			switch s.Sel.Name {
			case "ConstAt", "GetConst", "At", "AT":
				if tv, ok := info.Types[s.X]; ok {
					if nm := core.NamedOf(tv.Type); nm != nil && (strings.HasSuffix(nm.Obj().Name(), "Vector") || strings.HasSuffix(nm.Obj().Name(), "Matrix") || strings.HasSuffix(nm.Obj().Name(), "Iterator")) {
						if ce.Pos() > lastElemRead {
							lastElemRead = ce.Pos()
						}
					}
				}
			}
			return true
		})
		// a write inside the loop that reads elements, or before it, is a hazard
		hazard := firstWrite != token.NoPos && lastElemRead != token.NoPos && firstWrite < lastElemRead
		c.Check(!hazard, "C08.R2b", cons, "receiver written only after the operand was read", firstWrite,
			"the receiver is reset/accumulated into while container elements are still to be read: if the receiver is an element of the operand (x.At(0).Vmean(x)) that element is clobbered first")
	}
}

var _ = types.ExprString

func checkContainerAlias(c *core.Ctx, pkg *packages.Package) {
	checkContainerAliasImpl(c, pkg)
}

// checkStorageLocation (C08.R5): the alias tests of the cross-index operations compare storageLocation() of receiver and
// operands. The test is sound only if every view of one backing storage reports the same location, i.e. the location is
// taken from cell 0 of the storage itself and not from the view's own origin (index(0,0), offsets): a row slice that
// starts below the first row would otherwise not be recognised as sharing storage with its parent.
func checkStorageLocation(c *core.Ctx) {
	c.Rule("C08.R5", "storageLocation() identifies the backing storage, not the view: it is taken from cell 0 of the storage and uses neither index() nor the view's offsets", 18)
	pkg := c.Root
	info := pkg.TypesInfo
	core.EachFunc(pkg, func(_ *ast.File, fd *ast.FuncDecl) {
		if fd.Name.Name != "storageLocation" || fd.Recv == nil {
			return
		}
		cons := c.FuncName(pkg, fd)
		bad := ""
		zeroCell := false
		ast.Inspect(fd.Body, func(x ast.Node) bool {
			switch v := x.(type) {
			case *ast.IndexExpr:
				if bl, ok := ast.Unparen(v.Index).(*ast.BasicLit); ok && bl.Value == "0" {
					zeroCell = true
				} else {
					bad = "indexes the storage with " + exprStr(v.Index)
				}
			case *ast.CallExpr:
				nm := calleeName(v)
				if nm == "index" {
					bad = "uses index()"
				}
				if (nm == "AT" || nm == "At" || nm == "ConstAt") && len(v.Args) == 1 {
					if bl, ok := ast.Unparen(v.Args[0]).(*ast.BasicLit); ok && bl.Value == "0" {
						zeroCell = true
					} else {
						bad = "addresses element " + exprStr(v.Args[0])
					}
				}
			case *ast.SelectorExpr:
				if f, ok := info.Uses[v.Sel].(*types.Var); ok && f.IsField() && (strings.Contains(v.Sel.Name, "Offset") || strings.Contains(v.Sel.Name, "Max") || v.Sel.Name == "transposed") {
					bad = "depends on the view field " + v.Sel.Name
				}
			}
			return true
		})
		c.Check(bad == "" && zeroCell, "C08.R5", cons, "location of cell 0 of the backing storage", fd.Pos(),
			"storageLocation "+bad+": two views of the same storage can report different locations, so the alias tests of MdotM/MdotV/VdotM/Outer miss a receiver that shares storage with an operand and the operand is overwritten while it is still being read")
	})
}
