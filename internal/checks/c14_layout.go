package checks

import (
	"fmt"
	"go/ast"
	"go/token"
	"go/types"
	"strings"

	"verif/internal/core"
	"verif/internal/sym"
)

// C14.R10 — parameter layout of composite distributions. GetParameters of a composite (mixture, HMM with emissions,
// product of independent components) concatenates the parameter vectors of its parts; SetParameters hands each part a
// slice of the incoming vector. Both are interpreted on an abstract vector whose segment lengths are symbols
// dim(part): loops over the components are unrolled for three components (every component has its own length symbol).
// The slices consumed by SetParameters must be, part by part and in the same order, the segments laid out by
// GetParameters: [sum of the preceding lengths, that sum + dim(part)).

type layoutSeg struct {
	part   string
	lo, hi *sym.Term
	pos    token.Pos
}

type layoutInterp struct {
	info    *types.Info
	env     map[types.Object]*sym.Term // integer locals
	loopVal map[types.Object]int
	alias   map[types.Object]string // locals that name a part (e := obj.Edist[i])
	param   types.Object            // the incoming vector (SetParameters) or the vector being built (GetParameters)
	off     *sym.Term               // start of `parameters` inside the original vector
	segs    []layoutSeg
	bounds  []string
	und     string
	done    bool
}

const layoutUnroll = 3

func (li *layoutInterp) fail(pos token.Pos, format string, a ...interface{}) {
	if li.und == "" {
		li.und = fmt.Sprintf(format, a...)
	}
}

// render prints an expression with loop variables replaced by their current value.
func (li *layoutInterp) render(e ast.Expr) string {
	switch x := ast.Unparen(e).(type) {
	case *ast.Ident:
		if o := li.info.Uses[x]; o != nil {
			if v, ok := li.loopVal[o]; ok {
				return fmt.Sprint(v)
			}
			if a, ok := li.alias[o]; ok {
				return a
			}
		}
		return x.Name
	case *ast.SelectorExpr:
		return li.render(x.X) + "." + x.Sel.Name
	case *ast.IndexExpr:
		return li.render(x.X) + "[" + li.render(x.Index) + "]"
	case *ast.CallExpr:
		var as []string
		for _, a := range x.Args {
			as = append(as, li.render(a))
		}
		return li.render(x.Fun) + "(" + strings.Join(as, ",") + ")"
	case *ast.BinaryExpr:
		if t := li.intOf(x); t != nil {
			if c, ok := t.IsConst(); ok && c.IsInt() {
				return c.Num().String()
			}
		}
		return li.render(x.X) + x.Op.String() + li.render(x.Y)
	case *ast.StarExpr:
		return li.render(x.X)
	}
	return types.ExprString(e)
}

func (li *layoutInterp) isParam(e ast.Expr) bool {
	id, ok := ast.Unparen(e).(*ast.Ident)
	return ok && li.info.Uses[id] == li.param
}

// dimOfCall recognises <X>.GetParameters().Dim() and parameters.Dim().
func (li *layoutInterp) intOf(e ast.Expr) *sym.Term {
	if tv, ok := li.info.Types[e]; ok && tv.Value != nil {
		var n int64
		if _, err := fmt.Sscanf(tv.Value.ExactString(), "%d", &n); err == nil {
			return sym.Int(n)
		}
	}
	switch x := ast.Unparen(e).(type) {
	case *ast.Ident:
		o := li.info.Uses[x]
		if v, ok := li.loopVal[o]; ok {
			return sym.Int(int64(v))
		}
		if t, ok := li.env[o]; ok {
			return t
		}
		return sym.Sym("int:" + x.Name)
	case *ast.BinaryExpr:
		a, b := li.intOf(x.X), li.intOf(x.Y)
		if a == nil || b == nil {
			return nil
		}
		switch x.Op {
		case token.ADD:
			return sym.Add(a, b)
		case token.SUB:
			return sym.Sub(a, b)
		case token.MUL:
			return sym.Mul(a, b)
		}
		return sym.Sym("int:" + li.render(e))
	case *ast.CallExpr:
		if sel, ok := ast.Unparen(x.Fun).(*ast.SelectorExpr); ok && sel.Sel.Name == "Dim" && len(x.Args) == 0 {
			if li.isParam(sel.X) {
				return sym.Sub(sym.Sym("total"), li.off)
			}
			if inner, ok := ast.Unparen(sel.X).(*ast.CallExpr); ok {
				if s2, ok := ast.Unparen(inner.Fun).(*ast.SelectorExpr); ok && s2.Sel.Name == "GetParameters" && len(inner.Args) == 0 {
					return sym.Sym("dim(" + li.render(s2.X) + ")")
				}
			}
		}
		return sym.Sym("int:" + li.render(e))
	}
	return sym.Sym("int:" + li.render(e))
}

// sliceOfParam recognises parameters.Slice(a, b) and returns absolute bounds.
func (li *layoutInterp) sliceOfParam(e ast.Expr) (lo, hi *sym.Term, ok bool) {
	ce, isCall := ast.Unparen(e).(*ast.CallExpr)
	if !isCall || len(ce.Args) != 2 {
		return nil, nil, false
	}
	sel, isSel := ast.Unparen(ce.Fun).(*ast.SelectorExpr)
	if !isSel || sel.Sel.Name != "Slice" || !li.isParam(sel.X) {
		return nil, nil, false
	}
	a, b := li.intOf(ce.Args[0]), li.intOf(ce.Args[1])
	if a == nil || b == nil {
		return nil, nil, false
	}
	return sym.Add(li.off, a), sym.Add(li.off, b), true
}

// consumption recognises <X>.SetParameters(parameters.Slice(a,b)) anywhere inside n.
func (li *layoutInterp) consumptions(n ast.Node) {
	if n == nil {
		return
	}
	ast.Inspect(n, func(m ast.Node) bool {
		ce, ok := m.(*ast.CallExpr)
		if !ok {
			return true
		}
		sel, ok := ast.Unparen(ce.Fun).(*ast.SelectorExpr)
		if !ok || sel.Sel.Name != "SetParameters" || len(ce.Args) != 1 {
			return true
		}
		if li.isParam(ce.Args[0]) {
			// the whole remaining vector
			li.segs = append(li.segs, layoutSeg{part: li.render(sel.X), lo: li.off, hi: sym.Sym("total"), pos: ce.Pos()})
			return false
		}
		lo, hi, ok := li.sliceOfParam(ce.Args[0])
		if !ok {
			li.fail(ce.Pos(), "argument of %s.SetParameters is not a slice of the incoming vector", li.render(sel.X))
			return false
		}
		li.segs = append(li.segs, layoutSeg{part: li.render(sel.X), lo: lo, hi: hi, pos: ce.Pos()})
		return false
	})
}

func returnsError(b *ast.BlockStmt) bool {
	if b == nil || len(b.List) == 0 {
		return false
	}
	r, ok := b.List[len(b.List)-1].(*ast.ReturnStmt)
	if !ok || len(r.Results) == 0 {
		return false
	}
	last := r.Results[len(r.Results)-1]
	if id, ok := ast.Unparen(last).(*ast.Ident); ok && id.Name == "nil" {
		return false
	}
	return true
}

func (li *layoutInterp) block(list []ast.Stmt, set bool) {
	for _, s := range list {
		if li.und != "" || li.done {
			return
		}
		li.stmt(s, set)
	}
}

func (li *layoutInterp) stmt(s ast.Stmt, set bool) {
	switch x := s.(type) {
	case *ast.AssignStmt:
		if len(x.Lhs) == 1 && len(x.Rhs) == 1 {
			id, isId := ast.Unparen(x.Lhs[0]).(*ast.Ident)
			if isId {
				o := li.info.Defs[id]
				if o == nil {
					o = li.info.Uses[id]
				}
				if set && o == li.param {
					lo, hi, ok := li.sliceOfParam(x.Rhs[0])
					if !ok {
						li.fail(x.Pos(), "the incoming vector is reassigned to something other than a slice of itself")
						return
					}
					if !sym.Equal(hi, sym.Sym("total")) {
						li.fail(x.Pos(), "the incoming vector is truncated at the end")
						return
					}
					li.off = lo
					return
				}
				if !set {
					// p := X.GetParameters() / p = p.AppendVector(Y.GetParameters()) / p := Vector(obj.Pi)
					if part, isAppend, ok := li.getPart(x.Rhs[0]); ok {
						if x.Tok == token.DEFINE || li.param == nil || (!isAppend && o == li.param) {
							if !isAppend {
								li.param = o
								li.segs = nil
							}
						}
						if isAppend && o != li.param {
							li.fail(x.Pos(), "appended vector is stored in a different variable")
							return
						}
						li.segs = append(li.segs, layoutSeg{part: part, pos: x.Pos()})
						return
					}
				}
				if o != nil {
					if b, ok := o.Type().Underlying().(*types.Basic); ok && b.Info()&types.IsInteger != 0 {
						r := li.intOf(x.Rhs[0])
						cur, has := li.env[o]
						if !has {
							cur = sym.Sym("int:" + id.Name)
						}
						switch x.Tok {
						case token.ASSIGN, token.DEFINE:
							li.env[o] = r
						case token.ADD_ASSIGN:
							li.env[o] = sym.Add(cur, r)
						case token.SUB_ASSIGN:
							li.env[o] = sym.Sub(cur, r)
						case token.MUL_ASSIGN:
							li.env[o] = sym.Mul(cur, r)
						default:
							li.fail(x.Pos(), "integer updated with %s", x.Tok)
						}
						return
					}
					if x.Tok == token.DEFINE && o != li.param {
						if _, isCall := ast.Unparen(x.Rhs[0]).(*ast.CallExpr); !isCall {
							if li.alias == nil {
								li.alias = map[types.Object]string{}
							}
							li.alias[o] = li.render(x.Rhs[0])
							return
						}
					}
				}
			}
		}
		if set {
			li.consumptions(x)
		}
	case *ast.ExprStmt:
		if set {
			li.consumptions(x)
		}
	case *ast.IfStmt:
		if x.Init != nil {
			li.stmt(x.Init, set)
		}
		if set {
			li.consumptions(x.Cond)
		}
		if returnsError(x.Body) || (!set && returnsNilOnly(x.Body)) {
			// validation branch: the successful path continues behind it
			if x.Else != nil {
				if eb, ok := x.Else.(*ast.BlockStmt); ok {
					li.block(eb.List, set)
				} else {
					li.stmt(x.Else, set)
				}
			}
			return
		}
		// a guard such as "if parameters.Dim() > 0": follow the body (non-empty remainder)
		if x.Else != nil {
			li.fail(x.Pos(), "branching on something other than a validation or a non-empty remainder")
			return
		}
		li.block(x.Body.List, set)
	case *ast.ForStmt:
		init, ok := x.Init.(*ast.AssignStmt)
		if !ok || init.Tok != token.DEFINE || len(init.Lhs) != 1 {
			li.fail(x.Pos(), "loop without an index variable")
			return
		}
		iv := li.info.Defs[init.Lhs[0].(*ast.Ident)]
		start := li.intOf(init.Rhs[0])
		c, isC := start.IsConst()
		if !isC || !c.IsInt() {
			li.fail(x.Pos(), "loop start is not a constant")
			return
		}
		be, ok := ast.Unparen(x.Cond).(*ast.BinaryExpr)
		if !ok || be.Op != token.LSS || li.info.Uses[identOf(be.X)] != iv {
			li.fail(x.Pos(), "loop condition is not i < count")
			return
		}
		li.bounds = append(li.bounds, li.render(be.Y))
		for k := int(c.Num().Int64()); k < layoutUnroll; k++ {
			li.loopVal[iv] = k
			li.block(x.Body.List, set)
			if li.und != "" || li.done {
				break
			}
		}
		delete(li.loopVal, iv)
	case *ast.ReturnStmt:
		li.done = true
		if !set && len(x.Results) == 1 {
			if !li.isParam(x.Results[0]) {
				if part, isAppend, ok := li.getPart(x.Results[0]); ok {
					if !isAppend {
						li.segs = nil
					}
					li.segs = append(li.segs, layoutSeg{part: part, pos: x.Pos()})
				} else {
					li.fail(x.Pos(), "returns something other than the vector that was built")
				}
			}
		}
	case *ast.BlockStmt:
		li.block(x.List, set)
	case *ast.DeclStmt:
	default:
		if set {
			li.consumptions(s)
		}
	}
}

func identOf(e ast.Expr) *ast.Ident {
	id, _ := ast.Unparen(e).(*ast.Ident)
	return id
}

func returnsNilOnly(b *ast.BlockStmt) bool {
	if b == nil || len(b.List) != 1 {
		return false
	}
	r, ok := b.List[0].(*ast.ReturnStmt)
	if !ok || len(r.Results) != 1 {
		return false
	}
	id, ok := ast.Unparen(r.Results[0]).(*ast.Ident)
	return ok && id.Name == "nil"
}

// getPart recognises X.GetParameters() (isAppend=false) and p.AppendVector(X.GetParameters()) (isAppend=true).
func (li *layoutInterp) getPart(e ast.Expr) (part string, isAppend, ok bool) {
	ce, isCall := ast.Unparen(e).(*ast.CallExpr)
	if !isCall {
		return "", false, false
	}
	sel, isSel := ast.Unparen(ce.Fun).(*ast.SelectorExpr)
	if !isSel {
		return "", false, false
	}
	if sel.Sel.Name == "GetParameters" && len(ce.Args) == 0 {
		return li.render(sel.X), false, true
	}
	if sel.Sel.Name == "AppendVector" && len(ce.Args) == 1 {
		if p, app, ok := li.getPart(ce.Args[0]); ok && !app {
			return p, true, true
		}
	}
	return "", false, false
}

func c14CompositeLayout(c *core.Ctx) {
	c.Rule("C14.R10", "composite distributions (mixtures, HMMs with emissions, products of components): the slices SetParameters hands to its parts are exactly the segments GetParameters concatenates, part by part (abstract vector with one length symbol per part, component loops unrolled three times)", 8)
	for _, p := range c.LibPkgs() {
		if !strings.Contains(p.PkgPath, "/statistics/") {
			continue
		}
		info := p.TypesInfo
		pkg := p
		type pair struct{ get, set *ast.FuncDecl }
		pairs := map[string]*pair{}
		core.EachFunc(p, func(_ *ast.File, fd *ast.FuncDecl) {
			if fd.Recv == nil || fd.Body == nil {
				return
			}
			t := core.RecvTypeName(fd)
			if pairs[t] == nil {
				pairs[t] = &pair{}
			}
			switch fd.Name.Name {
			case "GetParameters":
				pairs[t].get = fd
			case "SetParameters":
				pairs[t].set = fd
			}
		})
		for tname, pr := range pairs {
			if pr.get == nil || pr.set == nil {
				continue
			}
			// composite = GetParameters appends the parameters of a part
			composite := false
			ast.Inspect(pr.get.Body, func(n ast.Node) bool {
				if ce, ok := n.(*ast.CallExpr); ok {
					if sel, ok := ast.Unparen(ce.Fun).(*ast.SelectorExpr); ok && sel.Sel.Name == "AppendVector" && len(ce.Args) == 1 {
						if c2, ok := ast.Unparen(ce.Args[0]).(*ast.CallExpr); ok {
							if s2, ok := ast.Unparen(c2.Fun).(*ast.SelectorExpr); ok && s2.Sel.Name == "GetParameters" {
								composite = true
							}
						}
					}
				}
				return true
			})
			if !composite {
				continue
			}
			cons := c.FuncName(pkg, pr.set)
			_ = tname
			g := &layoutInterp{info: info, env: map[types.Object]*sym.Term{}, loopVal: map[types.Object]int{}, off: sym.Zero()}
			g.block(pr.get.Body.List, false)
			if g.und != "" || len(g.segs) == 0 {
				c.Unknown("C14.R10", cons, "GetParameters layout", pr.get.Pos(), "GetParameters left the concatenation idiom: "+g.und)
				continue
			}
			s := &layoutInterp{info: info, env: map[types.Object]*sym.Term{}, loopVal: map[types.Object]int{}, off: sym.Zero()}
			if len(pr.set.Type.Params.List) != 1 || len(pr.set.Type.Params.List[0].Names) != 1 {
				c.Unknown("C14.R10", cons, "SetParameters signature", pr.set.Pos(), "unexpected parameter list")
				continue
			}
			s.param = info.Defs[pr.set.Type.Params.List[0].Names[0]]
			s.block(pr.set.Body.List, true)
			if s.und != "" {
				c.Unknown("C14.R10", cons, "SetParameters layout", pr.set.Pos(), "SetParameters left the slicing idiom: "+s.und)
				continue
			}
			// expected layout
			msg := ""
			pos := pr.set.Pos()
			if len(g.bounds) != len(s.bounds) {
				msg = fmt.Sprintf("GetParameters loops over %v, SetParameters over %v", g.bounds, s.bounds)
			} else {
				for i := range g.bounds {
					if g.bounds[i] != s.bounds[i] {
						msg = fmt.Sprintf("GetParameters loops over %s components, SetParameters over %s", g.bounds[i], s.bounds[i])
					}
				}
			}
			if msg == "" && len(g.segs) != len(s.segs) {
				msg = fmt.Sprintf("GetParameters concatenates %d parts (three components), SetParameters consumes %d", len(g.segs), len(s.segs))
			}
			if msg == "" {
				cum := sym.Zero()
				for i, gs := range g.segs {
					ss := s.segs[i]
					d := sym.Sym("dim(" + gs.part + ")")
					end := sym.Add(cum, d)
					if ss.part != gs.part {
						msg = fmt.Sprintf("segment %d belongs to %s but is handed to %s", i, gs.part, ss.part)
						pos = ss.pos
						break
					}
					last := i == len(g.segs)-1
					if !sym.Equal(ss.lo, cum) || !(sym.Equal(ss.hi, end) || (last && sym.Equal(ss.hi, sym.Sym("total")))) {
						msg = fmt.Sprintf("%s receives [%s, %s) of the parameter vector, GetParameters places its parameters at [%s, %s)", ss.part, ss.lo, ss.hi, cum, end)
						pos = ss.pos
						break
					}
					cum = end
				}
			}
			c.Check(msg == "", "C14.R10", cons, "slices consumed = segments laid out", pos, msg)
		}
	}
}
