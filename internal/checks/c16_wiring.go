package checks

import (
	"go/ast"
	"go/token"
	"go/types"
	"strings"

	"verif/internal/core"
)

// C16.R5 — EM wiring of the mixture and HMM estimators. The generic EM / Baum-Welch drivers call, per iteration, Swap,
// EvaluateLogPdf, Step, Emissions and the hooks (with GetBasicMixture/GetBasicHmm). Step writes model A from model B
// (first and second argument of the generic step). For the iteration to be an EM iteration:
//
//	(a) Step passes two different model fields A and B, and calls the step on A;
//	(b) EvaluateLogPdf evaluates the emission densities of B (the model the E-step reads);
//	(c) Emissions, job c: estimator c gets the responsibilities gamma[c], is warm-started from B's component c and its
//	    result is installed into A's component c — every index in the job is the job index;
//	(d) Swap makes the previous A the next B (the next iteration starts from the last result);
//	(e) the model handed to hooks is A.
//
// Roles are read off Step (not off the field names); the rule covers all estimator types that have these methods.
func checkEmWiring(c *core.Ctx) {
	c.Rule("C16.R5", "EM wiring of the mixture/HMM estimators: Step(A <- B), EvaluateLogPdf on B, Emissions job c uses estimators[c], gamma[c], B.Edist[c] -> A.Edist[c], Swap turns the last A into the next B, hooks see A", 20)
	n := 0
	for _, rel := range []string{"statistics/scalarEstimator", "statistics/vectorEstimator", "statistics/matrixEstimator"} {
		p := c.Pkg(rel)
		if p == nil {
			continue
		}
		info := p.TypesInfo
		types_ := map[string]bool{}
		core.EachFunc(p, func(_ *ast.File, fd *ast.FuncDecl) {
			if fd.Recv != nil && fd.Name.Name == "Emissions" {
				types_[core.RecvTypeName(fd)] = true
			}
		})
		for T := range types_ {
			step := findMethodDecl(p, T, "Step")
			em := findMethodDecl(p, T, "Emissions")
			ev := findMethodDecl(p, T, "EvaluateLogPdf")
			sw := findMethodDecl(p, T, "Swap")
			cons := rel + "." + T
			if step == nil || ev == nil || sw == nil {
				c.Unknown("C16.R5", cons, "Step, EvaluateLogPdf and Swap found", em.Pos(), "method missing")
				continue
			}
			n++
			// receiver field mentioned by an expression (through locals defined once from a receiver field)
			fieldOf := func(fd *ast.FuncDecl, e ast.Expr) string {
				recv := info.Defs[fd.Recv.List[0].Names[0]]
				locals := map[types.Object]string{}
				ast.Inspect(fd.Body, func(x ast.Node) bool {
					if as, ok := x.(*ast.AssignStmt); ok && len(as.Lhs) == 1 && len(as.Rhs) == 1 {
						if id, ok := as.Lhs[0].(*ast.Ident); ok {
							if sel, ok := ast.Unparen(as.Rhs[0]).(*ast.SelectorExpr); ok {
								if rid, ok := ast.Unparen(sel.X).(*ast.Ident); ok && info.Uses[rid] == recv {
									if o := info.Defs[id]; o != nil {
										locals[o] = sel.Sel.Name
									}
								}
							}
						}
					}
					return true
				})
				found := ""
				ast.Inspect(e, func(x ast.Node) bool {
					switch v := x.(type) {
					case *ast.SelectorExpr:
						if rid, ok := ast.Unparen(v.X).(*ast.Ident); ok && info.Uses[rid] == recv && found == "" {
							found = v.Sel.Name
						}
					case *ast.Ident:
						if f, ok := locals[info.Uses[v]]; ok && found == "" {
							found = f
						}
					}
					return true
				})
				return found
			}
			// (a) roles from Step
			var A, B string
			var stepCall *ast.CallExpr
			ast.Inspect(step.Body, func(x ast.Node) bool {
				if ce, ok := x.(*ast.CallExpr); ok && (calleeName(ce) == "EmStep" || calleeName(ce) == "BaumWelchStep") && len(ce.Args) >= 2 {
					stepCall = ce
				}
				return true
			})
			if stepCall == nil {
				c.Unknown("C16.R5", cons, "Step calls the generic step", step.Pos(), "no call of EmStep/BaumWelchStep")
				continue
			}
			A, B = fieldOf(step, stepCall.Args[0]), fieldOf(step, stepCall.Args[1])
			recvA := ""
			if sel, ok := ast.Unparen(stepCall.Fun).(*ast.SelectorExpr); ok {
				recvA = fieldOf(step, sel.X)
			}
			c.Check(A != "" && B != "" && A != B && recvA == A, "C16.R5", cons, "Step writes model A from a different model B", stepCall.Pos(),
				"Step passes the models ("+A+", "+B+") to the generic step called on "+recvA+": the model that is written and the model of the iteration must be two different fields, the first being the receiver")
			if A == "" || B == "" || A == B {
				continue
			}
			// (b) EvaluateLogPdf on B
			evF := ""
			ast.Inspect(ev.Body, func(x ast.Node) bool {
				if sel, ok := x.(*ast.SelectorExpr); ok && sel.Sel.Name == "Edist" {
					evF = fieldOf(ev, sel.X)
				}
				return true
			})
			c.Check(evF == B, "C16.R5", cons, "EvaluateLogPdf evaluates the emissions of the model the step reads", ev.Pos(),
				"EvaluateLogPdf evaluates the emission densities of "+evF+" but Step reads "+B+": the E-step uses densities of another model than the one whose weights it uses")
			// (d) Swap: new B = old A
			okSwap := false
			ast.Inspect(sw.Body, func(x ast.Node) bool {
				if as, ok := x.(*ast.AssignStmt); ok && len(as.Lhs) == len(as.Rhs) {
					for i, l := range as.Lhs {
						if fieldOf(sw, l) == B && fieldOf(sw, as.Rhs[i]) == A {
							okSwap = true
						}
					}
				}
				return true
			})
			c.Check(okSwap, "C16.R5", cons, "Swap turns the last result into the model of the next iteration", sw.Pos(),
				"Swap does not assign the previous "+A+" to "+B+": the next iteration does not start from the result of the last one")
			// (e) hooks see A
			for _, gname := range []string{"GetBasicMixture", "GetBasicHmm"} {
				if g := findMethodDecl(p, T, gname); g != nil {
					got := ""
					ast.Inspect(g.Body, func(x ast.Node) bool {
						if rs, ok := x.(*ast.ReturnStmt); ok && len(rs.Results) == 1 {
							got = fieldOf(g, rs.Results[0])
						}
						return true
					})
					c.Check(got == A, "C16.R5", cons, gname+" returns the model the step wrote", g.Pos(),
						gname+" returns "+got+" but the step writes "+A+": hooks are shown another model than the one of the iteration")
				}
			}
			// (c) Emissions
			var job *ast.FuncLit
			ast.Inspect(em.Body, func(x ast.Node) bool {
				if ce, ok := x.(*ast.CallExpr); ok && (calleeName(ce) == "AddRangeJob" || calleeName(ce) == "AddJob") {
					for _, a := range ce.Args {
						if fl, ok := a.(*ast.FuncLit); ok {
							job = fl
						}
					}
				}
				return true
			})
			if job == nil || len(job.Type.Params.List) == 0 || len(job.Type.Params.List[0].Names) == 0 {
				c.Unknown("C16.R5", cons, "Emissions submits a job with an index parameter", em.Pos(), "no job closure found")
				continue
			}
			idx := info.Defs[job.Type.Params.List[0].Names[0]]
			// locals bound to a component estimator (`est := obj.estimators[c]`)
			estLocals := map[types.Object]bool{}
			ast.Inspect(job.Body, func(x ast.Node) bool {
				if as, ok := x.(*ast.AssignStmt); ok && len(as.Lhs) == 1 && len(as.Rhs) == 1 && strings.Contains(exprStr(as.Rhs[0]), "estimators") {
					if id, ok := as.Lhs[0].(*ast.Ident); ok {
						if o := info.Defs[id]; o != nil {
							estLocals[o] = true
						}
					}
				}
				return true
			})
			mentionsEstimator := func(e ast.Expr) bool {
				if strings.Contains(exprStr(e), "estimators") {
					return true
				}
				found := false
				ast.Inspect(e, func(x ast.Node) bool {
					if id, ok := x.(*ast.Ident); ok && estLocals[info.Uses[id]] {
						found = true
					}
					return true
				})
				return found
			}
			bad := ""
			var bpos token.Pos
			ast.Inspect(job.Body, func(x ast.Node) bool {
				ix, ok := x.(*ast.IndexExpr)
				if !ok {
					return true
				}
				base := exprStr(ix.X)
				if !(strings.HasSuffix(base, "estimators") || strings.HasSuffix(base, "Edist") || base == "gamma" || strings.HasSuffix(base, ".gamma")) {
					if id, ok := ast.Unparen(ix.X).(*ast.Ident); !ok || !strings.Contains(strings.ToLower(id.Name), "gamma") {
						return true
					}
				}
				id, ok := ast.Unparen(ix.Index).(*ast.Ident)
				if !ok || info.Uses[id] != idx {
					bad = exprStr(ix)
					bpos = ix.Pos()
				}
				return true
			})
			c.Check(bad == "", "C16.R5", cons, "Emissions job indexes estimators, responsibilities and components with its own index", bpos,
				"the job for component "+idx.Name()+" uses "+bad+": an estimator is fed the responsibilities of another component, or its result is installed into another component")
			// Estimate(gamma[c], p) and installation into A
			estOK, instOK := false, false
			ast.Inspect(job.Body, func(x ast.Node) bool {
				ce, ok := x.(*ast.CallExpr)
				if !ok {
					return true
				}
				switch calleeName(ce) {
				case "Estimate":
					if len(ce.Args) >= 1 {
						if ix, ok := ast.Unparen(ce.Args[0]).(*ast.IndexExpr); ok {
							if id, ok := ast.Unparen(ix.X).(*ast.Ident); ok {
								if o := info.Uses[id]; o != nil && len(em.Type.Params.List) > 0 && len(em.Type.Params.List[0].Names) > 0 && o == info.Defs[em.Type.Params.List[0].Names[0]] {
									estOK = true
								}
							}
						}
					}
				case "SetParameters":
					if sel, ok := ast.Unparen(ce.Fun).(*ast.SelectorExpr); ok {
						if ix, ok := ast.Unparen(sel.X).(*ast.IndexExpr); ok && strings.HasSuffix(exprStr(ix.X), "Edist") && len(ce.Args) == 1 {
							if mentionsEstimator(ce.Args[0]) && fieldOf(em, ix.X) == A {
								instOK = true
							}
						}
					}
				}
				return true
			})
			// warm start: the estimator's parameters are set from the model of the iteration (B), the one the responsibilities
			// were computed with; a start from another model makes a one-step inner EM (nested mixtures) start from stale values
			warm := false
			hasSetParams := false
			ast.Inspect(job.Body, func(x ast.Node) bool {
				if ce, ok := x.(*ast.CallExpr); ok && calleeName(ce) == "SetParameters" {
					if sel, ok := ast.Unparen(ce.Fun).(*ast.SelectorExpr); ok && mentionsEstimator(sel.X) {
						hasSetParams = true
					}
				}
				if sel, ok := x.(*ast.SelectorExpr); ok && sel.Sel.Name == "Edist" && fieldOf(em, sel.X) == B {
					warm = true
				}
				return true
			})
			if hasSetParams {
				c.Check(warm, "C16.R5", cons, "the component estimator is warm-started from the model of the iteration", job.Pos(),
					"the job sets the estimator's parameters without reading "+B+".Edist: the estimator starts from another model than the one the responsibilities belong to (with iterative component estimators the likelihood can decrease)")
			}
			c.Check(estOK, "C16.R5", cons, "the component estimator is run on the responsibilities handed to Emissions", job.Pos(),
				"no call Estimate(gamma[c], ...) with the responsibilities parameter of Emissions in the job")
			c.Check(instOK, "C16.R5", cons, "the estimate is installed into the model the step wrote", job.Pos(),
				"the result of the component estimator is not installed into "+A+".Edist[c]: the M-step for the emissions is lost or lands in the wrong model")
		}
	}
	c.Analysed["em_estimator_types"] = n
}
