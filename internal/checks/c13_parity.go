package checks

import (
	"go/ast"
	"go/importer"
	"go/parser"
	"go/token"
	"go/types"

	"verif/internal/core"
)

// C13.R11 — parity tests. Orders of Bessel functions, polygamma orders and reflection counts can be negative. Go's
// remainder takes the sign of the dividend, so `n % 2 == 1` is false for negative odd n; the reflection formulas
// (I_n(-x) = (-1)^n I_n(x), ...) then lose their sign. A parity test on a signed integer has to be written `n & 1`,
// `n % 2 != 0` or on a value known to be non-negative (len(), a loop index that starts at a non-negative constant).
// The expected number of matches is zero; the matcher is exercised on a built-in positive example on every run.

// oddTestOnSigned reports `E % 2 == 1` (or 1 == E % 2) with E of a signed integer type.
func oddTestOnSigned(info *types.Info, be *ast.BinaryExpr) ast.Expr {
	if be.Op != token.EQL {
		return nil
	}
	for _, pr := range [][2]ast.Expr{{be.X, be.Y}, {be.Y, be.X}} {
		rem, ok := ast.Unparen(pr[0]).(*ast.BinaryExpr)
		if !ok || rem.Op != token.REM {
			continue
		}
		tv, ok := info.Types[pr[1]]
		if !ok || tv.Value == nil || tv.Value.ExactString() != "1" {
			continue
		}
		mv, ok := info.Types[rem.Y]
		if !ok || mv.Value == nil || mv.Value.ExactString() != "2" {
			continue
		}
		if et, ok := info.Types[rem.X]; ok {
			if b, ok := et.Type.Underlying().(*types.Basic); ok && b.Info()&types.IsInteger != 0 && b.Info()&types.IsUnsigned == 0 {
				return rem.X
			}
		}
	}
	return nil
}

// nonNegative: len(..)/cap(..), or a variable that is the index of a counted loop starting at a non-negative constant.
func nonNegative(info *types.Info, root ast.Node, e ast.Expr) bool {
	switch x := ast.Unparen(e).(type) {
	case *ast.CallExpr:
		if id, ok := ast.Unparen(x.Fun).(*ast.Ident); ok && (id.Name == "len" || id.Name == "cap") {
			return true
		}
	case *ast.Ident:
		o := info.Uses[x]
		ok := false
		ast.Inspect(root, func(n ast.Node) bool {
			fs, isFor := n.(*ast.ForStmt)
			if !isFor || fs.Init == nil {
				return true
			}
			as, isAs := fs.Init.(*ast.AssignStmt)
			if !isAs || len(as.Lhs) != 1 || len(as.Rhs) != 1 {
				return true
			}
			if id, isId := as.Lhs[0].(*ast.Ident); isId && info.Defs[id] == o {
				if tv, has := info.Types[as.Rhs[0]]; has && tv.Value != nil && tv.Value.ExactString()[0] != '-' {
					if inc, isInc := fs.Post.(*ast.IncDecStmt); isInc && inc.Tok == token.INC {
						ok = true
					}
				}
			}
			return true
		})
		return ok
	}
	return false
}

func checkParityTests(c *core.Ctx) {
	c.Rule("C13.R11", "no parity test of the form n % 2 == 1 on a signed integer that may be negative (special-function and root packages); the matcher fires on the built-in example", 1)
	// self-test of the matcher
	fset := token.NewFileSet()
	f, err := parser.ParseFile(fset, "example.go", "package p\nfunc odd(v int) bool { return v % 2 == 1 }\n", 0)
	fired := false
	if err == nil {
		info := &types.Info{Types: map[ast.Expr]types.TypeAndValue{}, Uses: map[*ast.Ident]types.Object{}, Defs: map[*ast.Ident]types.Object{}}
		conf := types.Config{Importer: importer.Default()}
		if _, err := conf.Check("p", fset, []*ast.File{f}, info); err == nil {
			ast.Inspect(f, func(n ast.Node) bool {
				if be, ok := n.(*ast.BinaryExpr); ok {
					if e := oddTestOnSigned(info, be); e != nil && !nonNegative(info, f, e) {
						fired = true
					}
				}
				return true
			})
		}
	}
	c.Check(fired, "C13.R11", "matcher", "fires on the built-in example `v % 2 == 1`", token.NoPos, "the parity matcher did not recognise its own positive example")
	for _, p := range c.LibPkgs() {
		if p != c.Root && p != c.Pkg("special") {
			continue
		}
		info := p.TypesInfo
		pkg := p
		core.EachFunc(p, func(_ *ast.File, fd *ast.FuncDecl) {
			if fd.Body == nil {
				return
			}
			ast.Inspect(fd.Body, func(n ast.Node) bool {
				be, ok := n.(*ast.BinaryExpr)
				if !ok {
					return true
				}
				if e := oddTestOnSigned(info, be); e != nil && !nonNegative(info, fd.Body, e) {
					c.Fail("C13.R11", c.FuncName(pkg, fd), "parity test "+types.ExprString(be), be.Pos(),
						"`"+types.ExprString(be)+"` is false for negative odd values of "+types.ExprString(e)+" (Go's % takes the sign of the dividend): the odd case of the reflection is skipped for negative orders")
				}
				return true
			})
		})
	}
}
