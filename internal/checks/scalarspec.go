package checks

import (
	"verif/internal/sym"
	"verif/internal/vn"
)

// inlineOps are predicates whose bodies are inlined when met inside a composite.
var inlineOps = map[string]bool{"sign": true, "greater": true, "smaller": true}

// scalarSpec is the definition table of scalar operations (by lower-cased method name):
// the mathematical function each operation is named and documented as.
// It is applied when a composite calls another operation (modular reasoning: the callee
// is checked against the same definition separately, rules C02.R1/R3).
func scalarSpec(name string, a []*sym.Term, extra []vn.Value) (*sym.Term, bool) {
	need := func(n int) bool { return len(a) >= n }
	switch name {
	case "neg":
		if need(1) {
			return sym.Neg(a[0]), true
		}
	case "add":
		if need(2) {
			return sym.Add(a[0], a[1]), true
		}
	case "sub":
		if need(2) {
			return sym.Sub(a[0], a[1]), true
		}
	case "mul":
		if need(2) {
			return sym.Mul(a[0], a[1]), true
		}
	case "div":
		if need(2) {
			return sym.Div(a[0], a[1]), true
		}
	case "pow":
		if need(2) {
			return sym.Fn("pow", a[0], a[1]), true
		}
	case "sqrt":
		if need(1) {
			return sym.Fn("sqrt", a[0]), true
		}
	case "exp", "log", "log1p", "sin", "cos", "tan", "sinh", "cosh", "tanh", "erf", "erfc", "logerfc", "gamma", "lgamma":
		if need(1) {
			return sym.Fn(name, a[0]), true
		}
	case "logadd":
		if need(2) {
			return sym.Fn("log", sym.Add(sym.Fn("exp", a[0]), sym.Fn("exp", a[1]))), true
		}
	case "logsub":
		if need(2) {
			return sym.Fn("log", sym.Sub(sym.Fn("exp", a[0]), sym.Fn("exp", a[1]))), true
		}
	case "log1pexp":
		if need(1) {
			return sym.Fn("log", sym.Add(sym.One(), sym.Fn("exp", a[0]))), true
		}
	case "sigmoid", "logistic":
		if need(1) {
			return sym.Div(sym.One(), sym.Add(sym.One(), sym.Fn("exp", sym.Neg(a[0])))), true
		}
	case "abs":
		if need(1) {
			return sym.Fn("abs", a[0]), true
		}
	case "min":
		if need(2) {
			return sym.Fn("min", a[0], a[1]), true
		}
	case "max":
		if need(2) {
			return sym.Fn("max", a[0], a[1]), true
		}
	}
	return nil, false
}
