package checks

import (
	"fmt"
	"go/ast"
	"go/parser"
	"go/token"
	"os"
	"strconv"
	"strings"

	"golang.org/x/tools/go/packages"

	"verif/internal/core"
	"verif/internal/sym"
	"verif/internal/vn"
)

// ---------------------------------------------------------------------------
// The Baum-Welch step, interpreted symbolically (C16.R4, C17.R10)
// ---------------------------------------------------------------------------
//
// (*Hmm).BaumWelchStep is interpreted on a symbolic model of m = 2 states (state map not the identity, no start/final
// restrictions so that Tf is Tr) and R = 2 records of n = 2 positions . Record r has
// emission log-densities le<r>_c_k; position k of record r is mapped to index r*n + k. Jobs (one per record) are run in
// sequence on the threads given by a schedule; all per-thread slots start out stale. The forward-backward recursion it
// calls (float64ForwardBackward) is interpreted, not assumed.
//
// Reference (explicit enumeration of hidden paths x of each record, W_r(x) the joint log-probability under the model of
// the iteration, Z_r = sum_x exp W_r(x), P_r(A) = sum_{x in A} exp W_r(x) / Z_r):
//
//     likelihood  = sum_r log Z_r
//     pi'_i       = normalise_i  sum_r P_r(x_0 = i)
//     tr'_ij      = normalise_j  sum_r sum_{k<n-1} P_r(x_k = i, x_{k+1} = j)
//     gamma[c][l] = log sum_{i: s(i)=c} P_r(x_k = i)  (+ meta_l)      for l = r*n + k

type bwVariant struct {
	name     string
	n        int
	threads  int
	schedule []int // job (record) -> thread
	meta     bool
	stateMap []int // state -> emission (default: the swap {1, 0}; {0, 0} ties both states to one emission)
}

func (v bwVariant) smap() []int {
	if v.stateMap != nil {
		return v.stateMap
	}
	return bwStateMap
}

func (v bwVariant) nEmissions() int {
	n := 0
	for _, c := range v.smap() {
		if c+1 > n {
			n = c + 1
		}
	}
	return n
}

type bwResult struct {
	lik   *sym.Term
	pi    []*sym.Term
	tr    [][]*sym.Term
	gamma [][]*sym.Term // [emission][mapped index]
}

const bwM, bwR = 2, 2

var bwStateMap = []int{1, 0}

func nilErrClosure() *vn.Closure {
	e, err := parser.ParseExpr("func() error { return nil }")
	if err != nil {
		panic(err)
	}
	return &vn.Closure{Lit: e.(*ast.FuncLit)}
}

func bwHmm(p *packages.Package, tag string, v bwVariant) *vn.StructVal {
	loc := func(s string) *vn.Loc { return &vn.Loc{Name: "tmp", Val: symf(s), Consistent: true} }
	var pis []*sym.Term
	for i := 0; i < bwM; i++ {
		pis = append(pis, symf("%spi_%d", tag, i))
	}
	pv := &vn.StructVal{T: namedType(p, "HmmProbabilityVector"), Fields: map[string]vn.Value{"Vector": vn.NewLocalVec(pis...), "t1": loc("stale_pt1"), "t2": loc("stale_pt2")}}
	tm := &vn.StructVal{T: namedType(p, "HmmTransitionMatrix"), Fields: map[string]vn.Value{
		"Matrix": vn.NewLocalMat(bwM, bwM, func(i, j int) *sym.Term { return symf("%str_%d_%d", tag, i, j) }), "t1": loc("stale_mt1"), "t2": loc("stale_mt2")}}
	sm := &vn.SliceVal{Len: sym.Int(bwM), Cells: map[string]*sym.Term{}}
	for i, c := range v.smap() {
		sm.Cells[sym.Int(int64(i)).String()] = sym.Int(int64(c))
	}
	return &vn.StructVal{T: namedType(p, "Hmm"), Fields: map[string]vn.Value{"Pi": pv, "Tr": tm, "Tf": tm, "StateMap": sm,
		"M": sym.Int(bwM), "N": sym.Int(int64(v.nEmissions())), "startStates": vn.NilVal{}, "finalStates": vn.NilVal{}}}
}

func runBaumWelch(p *packages.Package, d *declIndex, v bwVariant) (*bwResult, string) {
	fd := findMethodDecl(p, "Hmm", "BaumWelchStep")
	if fd == nil {
		return nil, "(*Hmm).BaumWelchStep not found"
	}
	tTmp := namedType(p, "BaumWelchTmp")
	if tTmp == nil || namedType(p, "HmmProbabilityVector") == nil || namedType(p, "HmmTransitionMatrix") == nil {
		return nil, "types BaumWelchTmp/HmmProbabilityVector/HmmTransitionMatrix not found"
	}
	hmm1 := bwHmm(p, "stale_l", v)
	hmm2 := bwHmm(p, "l", v)
	nMapped := bwR * v.n
	staleVec := func(n int, tag string) *vn.LocalVec {
		var ts []*sym.Term
		for i := 0; i < n; i++ {
			ts = append(ts, symf("stale_%s_%d", tag, i))
		}
		return vn.NewLocalVec(ts...)
	}
	var tmp vn.ListVal
	for t := 0; t < v.threads; t++ {
		g := &vn.ListVal{}
		for c := 0; c < v.nEmissions(); c++ {
			g.Elems = append(g.Elems, staleVec(nMapped, fmt.Sprintf("g%d_%d", t, c)))
		}
		tmp.Elems = append(tmp.Elems, &vn.StructVal{T: tTmp, Fields: map[string]vn.Value{
			"alpha": staleMat(bwM, v.n, fmt.Sprintf("a%d", t)), "beta": staleMat(bwM, v.n, fmt.Sprintf("b%d", t)), "xi": staleMat(bwM, bwM, fmt.Sprintf("x%d", t)),
			"gamma": g, "gamma0": staleVec(bwM, fmt.Sprintf("g0%d", t)), "gammaTmp": staleVec(bwM, fmt.Sprintf("gt%d", t)),
			"tr": staleMat(bwM, bwM, fmt.Sprintf("tr%d", t)), "pi": staleVec(bwM, fmt.Sprintf("pi%d", t)),
			"likelihood": symf("stale_lik_%d", t), "init": &vn.BoolVal{Known: true, V: true}}})
	}
	var meta vn.Value = vn.NilVal{}
	if v.meta {
		var ms []*sym.Term
		for l := 0; l < nMapped; l++ {
			ms = append(ms, symf("meta_%d", l))
		}
		meta = vn.NewLocalVec(ms...)
	}
	cur, job := 0, 0
	erf := nilErrClosure()
	hook := func(it *vn.Interp, o *vn.OpaqueVal, name string, args []vn.Value, call *ast.CallExpr) (vn.Value, bool) {
		switch {
		case o.What == "hmmdata":
			switch name {
			case "GetNRecords":
				return sym.Int(bwR), true
			case "GetNMapped":
				return sym.Int(int64(nMapped)), true
			case "GetRecord":
				r, ok := args[0].(*sym.Term)
				if !ok {
					it.Undecide(call.Pos(), "GetRecord argument")
				}
				return &vn.OpaqueVal{What: "rec:" + r.String()}, true
			}
		case strings.HasPrefix(o.What, "rec:"):
			r := strings.TrimPrefix(o.What, "rec:")
			switch name {
			case "GetN":
				return sym.Int(int64(v.n)), true
			case "MapIndex":
				k, ok := args[0].(*sym.Term)
				if !ok {
					it.Undecide(call.Pos(), "MapIndex argument")
				}
				ri, err := strconv.Atoi(r)
				if err != nil {
					it.Undecide(call.Pos(), "record index is not a constant")
				}
				return sym.Add(sym.Int(int64(ri*v.n)), k), true
			case "LogPdf":
				rl, ok := args[0].(*vn.Loc)
				c, ok1 := args[1].(*sym.Term)
				k, ok2 := args[2].(*sym.Term)
				if !ok || !ok1 || !ok2 {
					it.Undecide(call.Pos(), "record.LogPdf arguments")
				}
				rl.Val = symf("le%s_%s_%s", r, c, k)
				rl.Written = true
				return vn.NilVal{}, true
			}
		case o.What == "pool":
			switch name {
			case "NewJobGroup":
				return &vn.OpaqueVal{What: "jobgroup"}, true
			case "NumberOfThreads":
				return sym.Int(int64(v.threads)), true
			case "GetThreadId":
				return sym.Int(int64(cur)), true
			case "Wait":
				return vn.NilVal{}, true
			case "AddJob":
				cl, ok := args[1].(*vn.Closure)
				if !ok {
					it.Undecide(call.Pos(), "AddJob arguments")
				}
				cur = 0
				if job < len(v.schedule) {
					cur = v.schedule[job]
				}
				job++
				r := it.Apply(cl, []vn.Value{o, erf}, call.Pos())
				cur = 0
				if _, isErr := r.(*vn.ErrVal); isErr {
					return r, true
				}
				return vn.NilVal{}, true
			}
		}
		return nil, false
	}
	cfg := vn.Config{Pkg: p, TypeName: "Real64", Spec: distSpec, InlineOps: inlineOps, Decl: d.find, ParamNames: true, MaxDepth: 8, UnrollConst: true, FiniteSyms: true,
		RecvStruct: hmm1, Opaque: hook,
		ParamList: []vn.Value{hmm1, hmm2, &vn.OpaqueVal{What: "hmmdata"}, meta, &tmp, &vn.OpaqueVal{What: "pool"}}}
	paths, und := vn.Run(cfg, fd)
	if und != nil {
		return nil, "BaumWelchStep left the interpreter's idiom set: " + und.Msg
	}
	if len(paths) != 1 {
		return nil, fmt.Sprintf("BaumWelchStep has %d paths on a fully determined input (expected 1)", len(paths))
	}
	pa := paths[0]
	if pa.Panic {
		return nil, "BaumWelchStep panics"
	}
	ret, ok := pa.Ret.(vn.Tuple)
	if !ok || len(ret) != 2 {
		return nil, "BaumWelchStep result is not (likelihood, error)"
	}
	if _, isErr := ret[1].(*vn.ErrVal); isErr {
		return nil, "BaumWelchStep returns an error on a well-formed input"
	}
	res := &bwResult{}
	res.lik, _ = ret[0].(*sym.Term)
	if res.lik == nil {
		return nil, "likelihood is not a number"
	}
	pv := hmm1.Fields["Pi"].(*vn.StructVal).Fields["Vector"].(*vn.LocalVec)
	tm := hmm1.Fields["Tr"].(*vn.StructVal).Fields["Matrix"].(*vn.LocalMat)
	for i := 0; i < bwM; i++ {
		res.pi = append(res.pi, pv.Cell(i))
		var row []*sym.Term
		for j := 0; j < bwM; j++ {
			row = append(row, tm.Cell(i, j))
		}
		res.tr = append(res.tr, row)
	}
	g0 := tmp.Elems[0].(*vn.StructVal).Fields["gamma"].(*vn.ListVal)
	for c := 0; c < v.nEmissions(); c++ {
		var row []*sym.Term
		gv := g0.Elems[c].(*vn.LocalVec)
		for l := 0; l < nMapped; l++ {
			row = append(row, gv.Cell(l))
		}
		res.gamma = append(res.gamma, row)
	}
	return res, ""
}

func bwReference(v bwVariant) *bwResult {
	nMapped := bwR * v.n
	res := &bwResult{lik: sym.Zero()}
	// path sums per record
	sumOver := func(r int, keep func(x []int) bool) *sym.Term {
		total := sym.Zero()
		x := make([]int, v.n)
		var rec func(k int)
		rec = func(k int) {
			if k == v.n {
				if keep != nil && !keep(x) {
					return
				}
				e := sym.Add(symf("lpi_%d", x[0]), symf("le%d_%d_%d", r, v.smap()[x[0]], 0))
				for t := 1; t < v.n; t++ {
					e = sym.Add(e, sym.Add(symf("ltr_%d_%d", x[t-1], x[t]), symf("le%d_%d_%d", r, v.smap()[x[t]], t)))
				}
				total = sym.Add(total, sym.Fn("exp", e))
				return
			}
			for s := 0; s < bwM; s++ {
				x[k] = s
				rec(k + 1)
			}
		}
		rec(0)
		return total
	}
	Z := make([]*sym.Term, bwR)
	for r := 0; r < bwR; r++ {
		Z[r] = sumOver(r, nil)
		res.lik = sym.Add(res.lik, sym.Fn("log", Z[r]))
	}
	// pi
	piU := make([]*sym.Term, bwM)
	piT := sym.Zero()
	for i := 0; i < bwM; i++ {
		piU[i] = sym.Zero()
		for r := 0; r < bwR; r++ {
			ii := i
			piU[i] = sym.Add(piU[i], sym.Div(sumOver(r, func(x []int) bool { return x[0] == ii }), Z[r]))
		}
		piT = sym.Add(piT, piU[i])
	}
	for i := 0; i < bwM; i++ {
		res.pi = append(res.pi, sym.Fn("log", sym.Div(piU[i], piT)))
	}
	// tr
	for i := 0; i < bwM; i++ {
		rowU := make([]*sym.Term, bwM)
		rowT := sym.Zero()
		for j := 0; j < bwM; j++ {
			rowU[j] = sym.Zero()
			for r := 0; r < bwR; r++ {
				for k := 0; k+1 < v.n; k++ {
					ii, jj, kk := i, j, k
					rowU[j] = sym.Add(rowU[j], sym.Div(sumOver(r, func(x []int) bool { return x[kk] == ii && x[kk+1] == jj }), Z[r]))
				}
			}
			rowT = sym.Add(rowT, rowU[j])
		}
		var row []*sym.Term
		for j := 0; j < bwM; j++ {
			row = append(row, sym.Fn("log", sym.Div(rowU[j], rowT)))
		}
		res.tr = append(res.tr, row)
	}
	// gamma
	for c := 0; c < v.nEmissions(); c++ {
		row := make([]*sym.Term, nMapped)
		for r := 0; r < bwR; r++ {
			for k := 0; k < v.n; k++ {
				cc, kk := c, k
				g := sym.Fn("log", sym.Div(sumOver(r, func(x []int) bool { return v.smap()[x[kk]] == cc }), Z[r]))
				l := r*v.n + k
				if v.meta {
					g = sym.Add(g, symf("meta_%d", l))
				}
				row[l] = g
			}
		}
		res.gamma = append(res.gamma, row)
	}
	return res
}

func bwVariants(thorough bool) []bwVariant {
	vs := []bwVariant{
		{name: "one thread", n: 2, threads: 1, schedule: []int{0, 0}},
		{name: "observation weights (nested), one thread", n: 2, threads: 1, schedule: []int{0, 0}, meta: true},
		{name: "two threads, both records on thread 1", n: 2, threads: 2, schedule: []int{1, 1}},
		{name: "two threads, both records on thread 0 (thread 1 idle)", n: 2, threads: 2, schedule: []int{0, 0}},
		{name: "two threads, one record each", n: 2, threads: 2, schedule: []int{1, 0}},
		{name: "both states tied to one emission, one thread", n: 2, threads: 1, schedule: []int{0, 0}, stateMap: []int{0, 0}},
	}
	if thorough {
		// (three positions make the normal forms of the re-estimated transitions too large to compare in reasonable time)
		vs = append(vs, bwVariant{name: "two threads, one record each (other order)", n: 2, threads: 2, schedule: []int{0, 1}},
			bwVariant{name: "observation weights, two threads, both records on thread 1", n: 2, threads: 2, schedule: []int{1, 1}, meta: true},
			bwVariant{name: "three threads, thread 0 idle", n: 2, threads: 3, schedule: []int{2, 1}})
	}
	return vs
}

func checkBaumWelch(c *core.Ctx, forC17 bool) {
	p := c.Pkg("statistics/generic")
	rule := "C16.R4"
	if forC17 {
		rule = "C17.R10"
	}
	cons := "statistics/generic.(*Hmm).BaumWelchStep"
	if p == nil {
		c.Unknown(rule, cons, "package loaded", token.NoPos, "statistics/generic not loaded")
		return
	}
	d := newDeclIndex(c)
	fd := findMethodDecl(p, "Hmm", "BaumWelchStep")
	for _, v := range bwVariants(c.Tier == "thorough") {
		if forC17 && v.threads == 1 {
			continue
		}
		res, msg := runBaumWelch(p, d, v)
		if res == nil {
			c.Unknown(rule, cons, "interpreted ["+v.name+"]", token.NoPos, msg)
			continue
		}
		ref := bwReference(v)
		if os.Getenv("EMDEBUG") != "" {
			fmt.Fprintln(os.Stderr, v.name, "\n lik", shortTerm(res.lik), "\n ref", shortTerm(ref.lik), "\n pi0", shortTerm(res.pi[0]), "\n ref", shortTerm(ref.pi[0]))
		}
		eq := func(a, b *sym.Term) bool { return a != nil && staleFree(a) && sameTerm(a, b) }
		if forC17 {
			ok := eq(res.lik, ref.lik)
			for i := range res.pi {
				ok = ok && eq(res.pi[i], ref.pi[i])
				for j := range res.tr[i] {
					ok = ok && eq(res.tr[i][j], ref.tr[i][j])
				}
			}
			for cc := range res.gamma {
				for l := range res.gamma[cc] {
					ok = ok && eq(res.gamma[cc][l], ref.gamma[cc][l])
				}
			}
			c.Check(ok, rule, cons, "result independent of schedule and of stale thread slots ["+v.name+"]", fd.Pos(),
				"with the records distributed as in this schedule the likelihood, initial probabilities, transition matrix or responsibilities differ from those of the sequential run or depend on what an idle thread's slot held before the step")
			continue
		}
		c.Check(eq(res.lik, ref.lik), rule, cons, "returned likelihood is the log-likelihood of the model of this iteration ["+v.name+"]", fd.Pos(),
			"BaumWelchStep returns "+shortTerm(res.lik)+", not the sum over records of the log of the total path probability")
		for i := range res.pi {
			c.Check(eq(res.pi[i], ref.pi[i]), rule, cons, fmt.Sprintf("new initial probability of state %d is the normalised expected count [%s]", i, v.name), fd.Pos(),
				"the re-estimated initial log-probability is "+shortTerm(res.pi[i])+", not the normalised sum over records of the posterior of starting in that state")
			for j := range res.tr[i] {
				c.Check(eq(res.tr[i][j], ref.tr[i][j]), rule, cons, fmt.Sprintf("new transition %d->%d is the normalised expected transition count [%s]", i, j, v.name), fd.Pos(),
					"the re-estimated log-transition is "+shortTerm(res.tr[i][j])+", not the row-normalised expected number of such transitions")
			}
		}
		for cc := range res.gamma {
			for l := range res.gamma[cc] {
				c.Check(eq(res.gamma[cc][l], ref.gamma[cc][l]), rule, cons, fmt.Sprintf("responsibility of emission %d at mapped position %d is the posterior of its states [%s]", cc, l, v.name), fd.Pos(),
					"the log-weight handed to the emission estimator is "+shortTerm(res.gamma[cc][l])+", not the posterior probability of being in a state with that emission (plus the observation weight)")
			}
		}
	}
}
