package checks

import (
	"fmt"
	"go/ast"
	"go/token"
	"go/types"
	"strings"

	"golang.org/x/tools/go/packages"
)

// Engine E6: twin comparison by normalised kernels. The body of a function is rendered into a
// canonical token sequence in which
//   - variables are named by order of first use (so renaming and hoisting of temporaries do not matter),
//   - leading declarations of scratch scalars (x := NullT() / NewT(0.0)) are dropped (temporaries passed as
//     parameters in one twin and declared locally in the other are paired by role),
//   - method and function names are case-folded and mapped through the API pairing
//     (AT/At/ConstAt/MagicAt -> at, ADD/Add -> add, ...), constructors of a typed zero/constant -> zero()/const(v),
//   - type names, type assertions and conversions between scalar types are dropped,
//   - panic(...) and "return ..., fmt.Errorf(...)" are both rendered as fail.
// Equal sequences => the two functions perform the same operations on the same elements in the same order.

type twinOpts struct {
	// extra method-name mapping (lower-case)
	nameMap map[string]string
	// scratch parameters (by name) that the twin declares locally: omitted from call argument lists
	dropParams []string
}

var apiPairs = map[string]string{
	"constat": "at", "magicat": "at", "valueat": "at", "at_": "at",
	"float64at": "at", "float32at": "at",
	"constslice": "slice", "magicslice": "slice",
	"constrow": "row", "constcol": "col", "constdiag": "diag",
	"constiterator": "iterator", "magiciterator": "iterator",
	"getconst": "get", "getmagic": "get",
	"clonevector": "clone", "clonematrix": "clone", "cloneconstmatrix": "clone", "cloneconstvector": "clone", "clonemagicmatrix": "clone", "clonemagicvector": "clone", "clonescalar": "clone", "clonemagicscalar": "clone", "cloneconstscalar": "clone",
	"joint_iterator_": "joint_iterator", "joint3_iterator_": "joint3_iterator",
	"realmonadic": "monadic", "realmonadiclazy": "monadiclazy", "realdyadic": "dyadic", "realdyadiclazy": "dyadiclazy",
}

type twinNorm struct {
	info    *types.Info
	opts    twinOpts
	names   map[types.Object]string
	out     []string
	pos     []token.Pos
	drop    map[types.Object]bool
	skipArg map[types.Object]bool
}

func (t *twinNorm) emit(s string, p token.Pos) {
	t.out = append(t.out, s)
	t.pos = append(t.pos, p)
}

func (t *twinNorm) varName(o types.Object) string {
	if n, ok := t.names[o]; ok {
		return n
	}
	n := fmt.Sprintf("v%d", len(t.names))
	t.names[o] = n
	return n
}

func (t *twinNorm) method(name string) string {
	l := strings.ToLower(name)
	if m, ok := t.opts.nameMap[l]; ok {
		return m
	}
	if m, ok := apiPairs[l]; ok {
		return m
	}
	return l
}

func isScalarCtor(name string) (string, bool) {
	switch {
	case strings.HasPrefix(name, "Null") && (strings.Contains(name, "Scalar") || isScalarTypeName(strings.TrimPrefix(name, "Null"))):
		return "zero", true
	case strings.HasPrefix(name, "New") && (strings.HasSuffix(name, "Scalar") || isScalarTypeName(strings.TrimPrefix(name, "New"))):
		return "const", true
	}
	return "", false
}

func (t *twinNorm) expr(e ast.Expr) {
	switch x := e.(type) {
	case nil:
	case *ast.ParenExpr:
		t.emit("(", x.Pos())
		t.expr(x.X)
		t.emit(")", x.End())
	case *ast.Ident:
		o := t.info.Uses[x]
		if o == nil {
			o = t.info.Defs[x]
		}
		switch ov := o.(type) {
		case *types.Var:
			if ov.IsField() {
				t.emit("."+x.Name, x.Pos())
			} else {
				t.emit(t.varName(o), x.Pos())
			}
		case *types.Const:
			if tv, ok := t.info.Types[x]; ok && tv.Value != nil {
				t.emit(tv.Value.ExactString(), x.Pos())
			} else {
				t.emit(x.Name, x.Pos())
			}
		case *types.TypeName:
			// dropped
		default:
			t.emit(x.Name, x.Pos())
		}
	case *ast.BasicLit:
		if tv, ok := t.info.Types[x]; ok && tv.Value != nil {
			t.emit(tv.Value.ExactString(), x.Pos())
		} else {
			t.emit(x.Value, x.Pos())
		}
	case *ast.SelectorExpr:
		// package-qualified function or constant
		if id, ok := x.X.(*ast.Ident); ok {
			if _, isPkg := t.info.Uses[id].(*types.PkgName); isPkg {
				t.emit(id.Name+"."+x.Sel.Name, x.Pos())
				return
			}
		}
		t.expr(x.X)
		if _, isField := t.info.Uses[x.Sel].(*types.Var); isField {
			// the payload pointer of a typed scalar: X.ptr == nil is the typed spelling of X == nil
			if x.Sel.Name == "ptr" {
				if tv, ok := t.info.Types[x.X]; ok && isScalarType(tv.Type) {
					return
				}
			}
			t.emit("."+x.Sel.Name, x.Sel.Pos())
		} else {
			t.emit("."+t.method(x.Sel.Name), x.Sel.Pos())
		}
	case *ast.CallExpr:
		// conversions to scalar / numeric types are dropped
		if tv, ok := t.info.Types[x.Fun]; ok && tv.IsType() {
			if len(x.Args) == 1 {
				if n := namedOfType(tv.Type); n != "" && isScalarTypeName(n) {
					t.emit("const(", x.Pos())
					t.expr(x.Args[0])
					t.emit(")", x.End())
					return
				}
				t.expr(x.Args[0])
				return
			}
		}
		if id, ok := x.Fun.(*ast.Ident); ok {
			if kind, ok := isScalarCtor(id.Name); ok {
				if kind == "zero" {
					t.emit("zero()", x.Pos())
					return
				}
				// NewScalar(type, v) / NewFloat64(v)
				t.emit("const(", x.Pos())
				t.expr(x.Args[len(x.Args)-1])
				t.emit(")", x.End())
				return
			}
			if id.Name == "panic" {
				t.emit("fail", x.Pos())
				return
			}
		}
		// value getters of a scalar: the scalar's value
		if se, ok := x.Fun.(*ast.SelectorExpr); ok && len(x.Args) == 0 {
			if strings.HasPrefix(se.Sel.Name, "GetFloat") || strings.HasPrefix(se.Sel.Name, "GetInt") {
				if tv, ok := t.info.Types[se.X]; ok && isScalarType(tv.Type) {
					t.expr(se.X)
					return
				}
			}
		}
		// len(v) of a container: the typed spelling of v.Dim()
		if id, ok := x.Fun.(*ast.Ident); ok && id.Name == "len" && len(x.Args) == 1 {
			if tv, ok := t.info.Types[x.Args[0]]; ok {
				if n := namedOfType(tv.Type); strings.HasSuffix(n, "Vector") {
					t.expr(x.Args[0])
					t.emit(".dim", x.Pos())
					t.emit("(", x.Lparen)
					t.emit(")", x.Rparen)
					return
				}
			}
		}
		t.expr(x.Fun)
		t.emit("(", x.Lparen)
		first := true
		for _, a := range x.Args {
			if id, ok := ast.Unparen(a).(*ast.Ident); ok && t.skipArg[t.info.Uses[id]] {
				continue // scratch scalar supplied by the caller in one twin, declared locally in the other
			}
			if !first {
				t.emit(",", a.Pos())
			}
			first = false
			t.expr(a)
		}
		t.emit(")", x.Rparen)
	case *ast.BinaryExpr:
		t.expr(x.X)
		t.emit(x.Op.String(), x.OpPos)
		t.expr(x.Y)
	case *ast.UnaryExpr:
		t.emit(x.Op.String(), x.OpPos)
		t.expr(x.X)
	case *ast.StarExpr:
		t.expr(x.X)
	case *ast.IndexExpr:
		// element of a dense vector written as v[i]: the typed spelling of v.At(i)
		if tv, ok := t.info.Types[x.X]; ok {
			if n := namedOfType(tv.Type); strings.HasPrefix(n, "Dense") && strings.HasSuffix(n, "Vector") {
				t.expr(x.X)
				t.emit(".at", x.Lbrack)
				t.emit("(", x.Lbrack)
				t.expr(x.Index)
				t.emit(")", x.Rbrack)
				return
			}
		}
		t.expr(x.X)
		t.emit("[", x.Lbrack)
		t.expr(x.Index)
		t.emit("]", x.Rbrack)
	case *ast.SliceExpr:
		t.expr(x.X)
		t.emit("[", x.Lbrack)
		t.expr(x.Low)
		t.emit(":", x.Lbrack)
		t.expr(x.High)
		t.emit("]", x.Rbrack)
	case *ast.TypeAssertExpr:
		t.expr(x.X)
	case *ast.FuncLit:
		t.emit("func{", x.Pos())
		t.stmts(x.Body.List)
		t.emit("}", x.End())
	case *ast.CompositeLit:
		t.emit("lit{", x.Pos())
		for _, el := range x.Elts {
			t.expr(el)
			t.emit(",", el.End())
		}
		t.emit("}", x.End())
	case *ast.KeyValueExpr:
		t.expr(x.Key)
		t.emit(":", x.Colon)
		t.expr(x.Value)
	default:
		t.emit(fmt.Sprintf("<%T>", e), e.Pos())
	}
}

func namedOfType(tp types.Type) string {
	for {
		switch x := tp.(type) {
		case *types.Pointer:
			tp = x.Elem()
			continue
		case *types.Named:
			return x.Obj().Name()
		}
		return ""
	}
}

func (t *twinNorm) isFailReturn(rs *ast.ReturnStmt) bool {
	if len(rs.Results) == 0 {
		return false
	}
	last := rs.Results[len(rs.Results)-1]
	if ce, ok := ast.Unparen(last).(*ast.CallExpr); ok {
		if s, ok := ce.Fun.(*ast.SelectorExpr); ok {
			if id, ok := s.X.(*ast.Ident); ok && (id.Name == "fmt" && s.Sel.Name == "Errorf" || id.Name == "errors" && s.Sel.Name == "New") {
				return true
			}
		}
	}
	return false
}

func (t *twinNorm) stmts(list []ast.Stmt) {
	for _, s := range list {
		t.stmt(s)
	}
}

func (t *twinNorm) stmt(s ast.Stmt) {
	switch x := s.(type) {
	case *ast.AssignStmt:
		// dropped scratch declarations
		if x.Tok == token.DEFINE && len(x.Lhs) == 1 && len(x.Rhs) == 1 {
			if id, ok := x.Lhs[0].(*ast.Ident); ok && t.drop[t.info.Defs[id]] {
				return
			}
		}
		for i, l := range x.Lhs {
			if i > 0 {
				t.emit(",", l.Pos())
			}
			t.expr(l)
		}
		tok := x.Tok.String()
		if x.Tok == token.DEFINE {
			tok = "="
		}
		t.emit(tok, x.TokPos)
		for i, r := range x.Rhs {
			if i > 0 {
				t.emit(",", r.Pos())
			}
			t.expr(r)
		}
		t.emit(";", x.End())
	case *ast.ExprStmt:
		t.expr(x.X)
		t.emit(";", x.End())
	case *ast.IncDecStmt:
		t.expr(x.X)
		t.emit(x.Tok.String(), x.TokPos)
		t.emit(";", x.End())
	case *ast.IfStmt:
		if x.Init != nil {
			t.stmt(x.Init)
		}
		t.emit("if", x.Pos())
		t.expr(x.Cond)
		t.emit("{", x.Body.Pos())
		t.stmts(x.Body.List)
		t.emit("}", x.Body.End())
		if x.Else != nil {
			t.emit("else", x.Else.Pos())
			if b, ok := x.Else.(*ast.BlockStmt); ok {
				t.emit("{", b.Pos())
				t.stmts(b.List)
				t.emit("}", b.End())
			} else {
				t.stmt(x.Else)
			}
		}
	case *ast.ForStmt:
		t.emit("for", x.Pos())
		if x.Init != nil {
			t.stmt(x.Init)
		}
		t.expr(x.Cond)
		t.emit(";", x.Pos())
		if x.Post != nil {
			t.stmt(x.Post)
		}
		t.emit("{", x.Body.Pos())
		t.stmts(x.Body.List)
		t.emit("}", x.Body.End())
	case *ast.RangeStmt:
		t.emit("range", x.Pos())
		t.expr(x.Key)
		t.emit(",", x.Pos())
		t.expr(x.Value)
		t.emit("in", x.Pos())
		t.expr(x.X)
		t.emit("{", x.Body.Pos())
		t.stmts(x.Body.List)
		t.emit("}", x.Body.End())
	case *ast.ReturnStmt:
		if t.isFailReturn(x) {
			t.emit("fail", x.Pos())
			t.emit(";", x.End())
			return
		}
		t.emit("return", x.Pos())
		for i, r := range x.Results {
			if i > 0 {
				t.emit(",", r.Pos())
			}
			t.expr(r)
		}
		t.emit(";", x.End())
	case *ast.BlockStmt:
		t.emit("{", x.Pos())
		t.stmts(x.List)
		t.emit("}", x.End())
	case *ast.SwitchStmt:
		if x.Init != nil {
			t.stmt(x.Init)
		}
		t.emit("switch", x.Pos())
		t.expr(x.Tag)
		t.emit("{", x.Body.Pos())
		for _, cs := range x.Body.List {
			cc := cs.(*ast.CaseClause)
			t.emit("case", cc.Pos())
			for _, e := range cc.List {
				t.expr(e)
				t.emit(",", e.End())
			}
			t.emit(":", cc.Colon)
			t.stmts(cc.Body)
		}
		t.emit("}", x.Body.End())
	case *ast.TypeSwitchStmt:
		t.emit("typeswitch", x.Pos())
		t.stmt(x.Assign)
		t.emit("{", x.Body.Pos())
		for _, cs := range x.Body.List {
			cc := cs.(*ast.CaseClause)
			t.emit("case:", cc.Pos())
			t.stmts(cc.Body)
		}
		t.emit("}", x.Body.End())
	case *ast.BranchStmt:
		t.emit(x.Tok.String(), x.Pos())
		t.emit(";", x.End())
	case *ast.DeclStmt:
		if gd, ok := x.Decl.(*ast.GenDecl); ok {
			for _, sp := range gd.Specs {
				if vs, ok := sp.(*ast.ValueSpec); ok {
					for i, n := range vs.Names {
						if i < len(vs.Values) {
							t.expr(n)
							t.emit("=", n.Pos())
							t.expr(vs.Values[i])
							t.emit(";", n.End())
						}
					}
				}
			}
		}
	case *ast.DeferStmt:
		t.emit("defer", x.Pos())
		t.expr(x.Call)
		t.emit(";", x.End())
	case *ast.EmptyStmt:
	default:
		t.emit(fmt.Sprintf("<%T>", s), s.Pos())
	}
}

// normKernel renders fd's body.
func normKernel(pkg *packages.Package, fd *ast.FuncDecl, opts twinOpts) *twinNorm {
	t := &twinNorm{info: pkg.TypesInfo, opts: opts, names: map[types.Object]string{}, drop: map[types.Object]bool{}, skipArg: map[types.Object]bool{}}
	// receiver first, so that it is v0 in both twins
	if fd.Recv != nil && len(fd.Recv.List[0].Names) > 0 {
		t.varName(t.info.Defs[fd.Recv.List[0].Names[0]])
	}
	for _, f := range fd.Type.Params.List {
		for _, n := range f.Names {
			for _, d := range opts.dropParams {
				if n.Name == d {
					t.skipArg[t.info.Defs[n]] = true
				}
			}
		}
	}
	// leading scratch declarations
	for _, st := range fd.Body.List {
		as, ok := st.(*ast.AssignStmt)
		if !ok || as.Tok != token.DEFINE || len(as.Lhs) != 1 || len(as.Rhs) != 1 {
			break
		}
		id, ok := as.Lhs[0].(*ast.Ident)
		ce, ok2 := as.Rhs[0].(*ast.CallExpr)
		if !ok || !ok2 {
			break
		}
		fid, ok := ce.Fun.(*ast.Ident)
		if !ok {
			break
		}
		if kind, isC := isScalarCtor(fid.Name); !isC || (kind == "const" && !isZeroLit(t.info, ce.Args[len(ce.Args)-1])) {
			break
		}
		t.drop[t.info.Defs[id]] = true
	}
	t.stmts(fd.Body.List)
	return t
}

func isZeroLit(info *types.Info, e ast.Expr) bool {
	if tv, ok := info.Types[e]; ok && tv.Value != nil {
		return tv.Value.ExactString() == "0"
	}
	return false
}

// twinDiff compares two kernels; returns "" if equal, else a description of the first difference.
func twinDiff(a, b *twinNorm, posStr func(token.Pos) string) string {
	n := len(a.out)
	if len(b.out) < n {
		n = len(b.out)
	}
	for i := 0; i < n; i++ {
		if a.out[i] != b.out[i] {
			ctx := func(t *twinNorm) string {
				lo, hi := i-6, i+7
				if lo < 0 {
					lo = 0
				}
				if hi > len(t.out) {
					hi = len(t.out)
				}
				return strings.Join(t.out[lo:hi], " ")
			}
			return fmt.Sprintf("first difference at %s / %s: «%s» vs «%s»", posStr(a.pos[i]), posStr(b.pos[i]), ctx(a), ctx(b))
		}
	}
	if len(a.out) != len(b.out) {
		return fmt.Sprintf("one body is a prefix of the other (%d vs %d tokens)", len(a.out), len(b.out))
	}
	return ""
}
