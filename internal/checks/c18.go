package checks

import (
	"fmt"
	"go/ast"
	"go/constant"
	"go/token"
	"go/types"
	"sort"
	"strings"

	"golang.org/x/tools/go/packages"

	"verif/internal/core"
	"verif/internal/eff"
)

func init() { Registry["C18"] = checkC18 }

// ---------------------------------------------------------------------------
// C18 — serialisation: writer/reader agreement and decoders that validate before they build
// ---------------------------------------------------------------------------

func checkC18(c *core.Ctx) error {
	if err := c.Load(packages.LoadSyntax); err != nil {
		return err
	}
	c.Explanation = "Writer/reader agreement and decoder robustness are decided from the shape of the code: (R1) the distribution registries and the names emitted by ExportConfig are the same table (name -> type, both directions); " +
		"(R2) for every type with MarshalJSON and UnmarshalJSON each wire value the encoder can emit (struct, slice or scalar) is accepted by a decode target with the same field names and types, and every decoded field is used; " +
		"(R3) the table writers (Fprintf formats of Export) and readers (field-count tests of Import) agree on the number of columns of the header and of the body lines; " +
		"(R4) decoders cannot crash on malformed input: decoded slices are indexed by a constant only after a length test, reflect.TypeOf(x).Kind() only after x != nil, no single-value type assertion, " +
		"and every argument-dependent panic guard of a constructor that a decoder calls with decoded data is tested by the decoder first; (R5) decoded dimensions are related to the decoded payload before they are stored." +
		" (R7) Named configuration parameters written by ExportConfig are exactly those read by ImportConfig, each once. (R8) Field-by-field decoders assign every field of the receiver on every path to a successful return (must-assign dataflow with receiver-method summaries)."
	c.Rule("C18.R1", "distribution registries and ExportConfig names agree: every registered name maps to a type whose ExportConfig emits that name, every emitted name is registered for that type", 60)
	c.Rule("C18.R2", "MarshalJSON/UnmarshalJSON pairs agree on the wire type (field names and types); every decoded field is used", 40)
	c.Rule("C18.R3", "Export/Import table formats agree on the number of columns (header and body lines)", 18)
	c.Rule("C18.R4", "decoders answer malformed input with an error, not a crash: guarded constant indexing, nil-safe reflection, comma-ok assertions, constructor panic guards pre-validated, nil elements rejected", 150)
	c.Rule("C18.R5", "decoded dimensions are compared with the decoded payload before they are stored (len(Values) vs Rows*Cols; indices within Length)", 18)

	c18Registries(c)
	c18Wire(c)
	c18Tables(c)
	c18FloatWidth(c)
	c18IntParse(c)
	c18AccessorsReadInputs(c)
	c18FactoriesFresh(c)
	c18AccessorShapes(c)
	c18SubDistributionCount(c)
	c18RecursiveExport(c)
	c18PresenceScans(c)
	c18LineReader(c)
	c18LikeNamed(c)
	c18NamedKeys(c)
	c18DecoderComplete(c)
	c18CrossedFields(c)
	c18EncodersPure(c)
	c18NoSelfMarshal(c)
	c18Decoders(c)
	return nil
}

// ---------------------------------------------------------------------------
// R1

func c18Registries(c *core.Ctx) {
	for _, p := range c.LibPkgs() {
		if !strings.Contains(p.PkgPath, "/statistics/") {
			continue
		}
		info := p.TypesInfo
		// registry entries: XRegistry["name"] = new(T)
		reg := map[string]string{} // name -> type
		regPos := map[string]token.Pos{}
		for _, file := range p.Syntax {
			ast.Inspect(file, func(n ast.Node) bool {
				as, ok := n.(*ast.AssignStmt)
				if !ok || len(as.Lhs) != 1 || len(as.Rhs) != 1 {
					return true
				}
				ix, ok := as.Lhs[0].(*ast.IndexExpr)
				if !ok {
					return true
				}
				if !strings.HasSuffix(types.ExprString(ix.X), "Registry") {
					return true
				}
				tv, ok := info.Types[ix.Index]
				if !ok || tv.Value == nil || tv.Value.Kind() != constant.String {
					return true
				}
				name := constant.StringVal(tv.Value)
				T := ""
				if call, ok := as.Rhs[0].(*ast.CallExpr); ok && len(call.Args) == 1 {
					if id, ok := call.Fun.(*ast.Ident); ok && id.Name == "new" {
						T = types.ExprString(call.Args[0])
					}
				}
				if u, ok := as.Rhs[0].(*ast.UnaryExpr); ok && u.Op == token.AND {
					if cl, ok := u.X.(*ast.CompositeLit); ok {
						T = types.ExprString(cl.Type)
					}
				}
				if prev, dup := reg[name]; dup && prev != T {
					c.Fail("C18.R1", core.RelPkg(p.PkgPath), "registry name "+name+" is unique", as.Pos(), "the name is registered twice, for "+prev+" and for "+T+": the later registration wins and the other type cannot be imported")
				}
				reg[name] = T
				regPos[name] = as.Pos()
				return true
			})
		}
		if len(reg) == 0 {
			continue
		}
		// ExportConfig names per type
		emit := map[string][]string{} // type -> names
		emitPos := map[string]token.Pos{}
		core.EachFunc(p, func(_ *ast.File, fd *ast.FuncDecl) {
			if fd.Name.Name != "ExportConfig" || fd.Recv == nil {
				return
			}
			T := core.RecvTypeName(fd)
			emitPos[T] = fd.Pos()
			ast.Inspect(fd.Body, func(n ast.Node) bool {
				call, ok := n.(*ast.CallExpr)
				if !ok || len(call.Args) == 0 {
					return true
				}
				if calleeName(call) != "NewConfigDistribution" {
					return true
				}
				if tv, ok := info.Types[call.Args[0]]; ok && tv.Value != nil && tv.Value.Kind() == constant.String {
					emit[T] = append(emit[T], constant.StringVal(tv.Value))
				} else {
					emit[T] = append(emit[T], "<non-constant>")
				}
				return true
			})
			// config.Name = "..." overrides the name of a nested configuration
			ast.Inspect(fd.Body, func(n ast.Node) bool {
				as, ok := n.(*ast.AssignStmt)
				if !ok || len(as.Lhs) != 1 || len(as.Rhs) != 1 {
					return true
				}
				if sel, ok := as.Lhs[0].(*ast.SelectorExpr); ok && sel.Sel.Name == "Name" {
					if tv, ok := info.Types[as.Rhs[0]]; ok && tv.Value != nil && tv.Value.Kind() == constant.String {
						emit[T] = append(emit[T], constant.StringVal(tv.Value))
					}
				}
				return true
			})
		})
		// element type of the package's registry (the interface a registered type has to implement)
		var regElem types.Type
		for _, file := range p.Syntax {
			ast.Inspect(file, func(n ast.Node) bool {
				if ix, ok := n.(*ast.IndexExpr); ok && strings.HasSuffix(types.ExprString(ix.X), "Registry") {
					if tv, ok := info.Types[ix.X]; ok {
						if m, ok := tv.Type.Underlying().(*types.Map); ok {
							regElem = m.Elem()
						}
					}
				}
				return true
			})
		}
		registrable := func(T string) bool {
			if regElem == nil {
				return true
			}
			o := p.Types.Scope().Lookup(T)
			if o == nil {
				return true
			}
			return types.AssignableTo(types.NewPointer(o.Type()), regElem) || types.AssignableTo(o.Type(), regElem)
		}
		var names []string
		for n := range reg {
			names = append(names, n)
		}
		sort.Strings(names)
		for _, n := range names {
			T := reg[n]
			es, has := emit[T]
			if !has {
				c.Unknown("C18.R1", core.RelPkg(p.PkgPath), "registered "+n+" -> "+T+" exports that name", regPos[n], "type "+T+" has no ExportConfig in this package")
				continue
			}
			ok := false
			for _, e := range es {
				if e == n {
					ok = true
				}
			}
			c.Check(ok, "C18.R1", core.RelPkg(p.PkgPath), "registered "+n+" -> "+T+" exports that name", regPos[n],
				fmt.Sprintf("the registry creates a %s for the name %q but %s.ExportConfig writes %v: a configuration written by this type is read back as a different type or not at all", T, n, T, es))
		}
		var ts []string
		for t := range emit {
			ts = append(ts, t)
		}
		sort.Strings(ts)
		for _, T := range ts {
			for _, n := range emit[T] {
				if n == "<non-constant>" {
					continue
				}
				if !registrable(T) {
					// the type does not implement the registry's interface: it is imported through ImportDistribution, not by name
					c.OK("C18.R1", core.RelPkg(p.PkgPath), T+".ExportConfig name "+n+" (type not registrable)", emitPos[T], "")
					continue
				}
				rt, ok := reg[n]
				c.Check(ok && rt == T, "C18.R1", core.RelPkg(p.PkgPath), T+".ExportConfig name "+n+" is registered for "+T, emitPos[T],
					func() string {
						if !ok {
							return fmt.Sprintf("%s.ExportConfig writes the name %q, which no registry entry knows: the exported configuration cannot be imported", T, n)
						}
						return fmt.Sprintf("%s.ExportConfig writes the name %q, which is registered for %s", T, n, rt)
					}())
			}
		}
	}
}

// ---------------------------------------------------------------------------
// R2 wire types

type wireUse struct {
	t   types.Type
	pos token.Pos
}

// jsonArgs collects the types handed to json.Marshal*/json.Unmarshal in fd.
func jsonArgs(info *types.Info, fd *ast.FuncDecl, decode bool) []wireUse {
	var r []wireUse
	ast.Inspect(fd.Body, func(n ast.Node) bool {
		call, ok := n.(*ast.CallExpr)
		if !ok {
			return true
		}
		sel, ok := call.Fun.(*ast.SelectorExpr)
		if !ok {
			return true
		}
		if x, ok := sel.X.(*ast.Ident); !ok || x.Name != "json" {
			return true
		}
		if !decode && (sel.Sel.Name == "Marshal" || sel.Sel.Name == "MarshalIndent") && len(call.Args) >= 1 {
			if tv, ok := info.Types[call.Args[0]]; ok {
				r = append(r, wireUse{tv.Type, call.Pos()})
			}
		}
		if decode && sel.Sel.Name == "Unmarshal" && len(call.Args) == 2 {
			if tv, ok := info.Types[call.Args[1]]; ok {
				t := tv.Type
				if p, ok := t.Underlying().(*types.Pointer); ok {
					t = p.Elem()
				}
				r = append(r, wireUse{t, call.Pos()})
			}
		}
		return true
	})
	return r
}

// wireCompatible: a value of type w, encoded by encoding/json, decodes into a target of type u without loss of fields.
func wireCompatible(w, u types.Type) (bool, string) {
	ws, wIsStruct := w.Underlying().(*types.Struct)
	us, uIsStruct := u.Underlying().(*types.Struct)
	if wIsStruct != uIsStruct {
		return false, "one side is a struct, the other is not"
	}
	if !wIsStruct {
		if wireShape(w) == wireShape(u) {
			return true, ""
		}
		return false, wireShape(w) + " vs " + wireShape(u)
	}
	for i := 0; i < ws.NumFields(); i++ {
		f := ws.Field(i)
		found := false
		for j := 0; j < us.NumFields(); j++ {
			g := us.Field(j)
			if g.Name() == f.Name() {
				found = true
				if wireShape(f.Type()) != wireShape(g.Type()) {
					return false, fmt.Sprintf("field %s is written as %s and read as %s", f.Name(), wireShape(f.Type()), wireShape(g.Type()))
				}
			}
		}
		if !found {
			return false, "field " + f.Name() + " is written but the reader has no field of that name"
		}
	}
	return true, ""
}

// wireShape: JSON shape of a Go type (numbers by kind class, arrays, objects by field list); named types that implement
// their own (Un)MarshalJSON are identified by name.
func wireShape(t types.Type) string {
	switch u := t.(type) {
	case *types.Pointer:
		return wireShape(u.Elem())
	case *types.Named:
		if _, isStruct := u.Underlying().(*types.Struct); isStruct {
			return u.Obj().Name()
		}
		return wireShape(u.Underlying())
	case *types.Slice:
		return "[" + wireShape(u.Elem()) + "]"
	case *types.Array:
		return "[" + wireShape(u.Elem()) + "]"
	case *types.Basic:
		switch {
		case u.Info()&types.IsInteger != 0:
			return "int"
		case u.Info()&types.IsFloat != 0:
			return "float"
		case u.Info()&types.IsString != 0:
			return "string"
		case u.Info()&types.IsBoolean != 0:
			return "bool"
		}
		return u.Name()
	case *types.Struct:
		var fs []string
		for i := 0; i < u.NumFields(); i++ {
			fs = append(fs, u.Field(i).Name()+":"+wireShape(u.Field(i).Type()))
		}
		return "{" + strings.Join(fs, ",") + "}"
	case *types.Interface:
		return "any"
	case *types.Map:
		return "map"
	}
	return t.String()
}

func c18Wire(c *core.Ctx) {
	for _, p := range c.LibPkgs() {
		info := p.TypesInfo
		enc := map[string]*ast.FuncDecl{}
		dec := map[string]*ast.FuncDecl{}
		core.EachFunc(p, func(_ *ast.File, fd *ast.FuncDecl) {
			if fd.Recv == nil {
				return
			}
			switch fd.Name.Name {
			case "MarshalJSON":
				enc[core.RecvTypeName(fd)] = fd
			case "UnmarshalJSON":
				dec[core.RecvTypeName(fd)] = fd
			}
		})
		var ts []string
		for t := range enc {
			ts = append(ts, t)
		}
		sort.Strings(ts)
		for _, T := range ts {
			d, ok := dec[T]
			if !ok {
				continue // encode-only types (constant scalars, iterators)
			}
			cons := "(" + T + ")"
			if p.PkgPath != core.RootPkg {
				cons = core.RelPkg(p.PkgPath) + "." + cons
			}
			ws := jsonArgs(info, enc[T], false)
			us := jsonArgs(info, d, true)
			if len(ws) == 0 || len(us) == 0 {
				c.Unknown("C18.R2", cons, "wire types found", enc[T].Pos(), fmt.Sprintf("json.Marshal calls: %d, json.Unmarshal calls: %d", len(ws), len(us)))
				continue
			}
			for _, w := range ws {
				okAny := false
				why := ""
				for _, u := range us {
					if ok, y := wireCompatible(w.t, u.t); ok {
						okAny = true
					} else if why == "" {
						why = y
					}
				}
				c.Check(okAny, "C18.R2", cons, "encoded "+wireShape(w.t)+" is accepted by a decode target", w.pos,
					"MarshalJSON emits "+wireShape(w.t)+" but no json.Unmarshal target of UnmarshalJSON accepts it ("+why+"): the value does not survive the round trip")
			}
			// every field of a decode struct is used after decoding
			for _, u := range us {
				st, ok := u.t.Underlying().(*types.Struct)
				if !ok {
					continue
				}
				for i := 0; i < st.NumFields(); i++ {
					f := st.Field(i)
					used := 0
					ast.Inspect(d.Body, func(n ast.Node) bool {
						if sel, ok := n.(*ast.SelectorExpr); ok && info.Uses[sel.Sel] == types.Object(f) {
							used++
						}
						return true
					})
					c.Check(used > 0, "C18.R2", cons, "decoded field "+f.Name()+" is used", u.pos,
						"UnmarshalJSON decodes the field "+f.Name()+" and never looks at it: that part of the encoded value is dropped")
				}
			}
			// every field the encoder fills is filled from the receiver
			for _, w := range ws {
				st, ok := w.t.Underlying().(*types.Struct)
				if !ok {
					continue
				}
				_ = st
			}
		}
	}
}

// ---------------------------------------------------------------------------
// R3 table formats

func c18Tables(c *core.Ctx) {
	p := c.Root
	info := p.TypesInfo
	exp := map[string]*ast.FuncDecl{}
	imp := map[string]*ast.FuncDecl{}
	core.EachFunc(p, func(_ *ast.File, fd *ast.FuncDecl) {
		if fd.Recv == nil {
			return
		}
		switch fd.Name.Name {
		case "Export":
			exp[core.RecvTypeName(fd)] = fd
		case "Import":
			imp[core.RecvTypeName(fd)] = fd
		}
	})
	var ts []string
	for t := range exp {
		ts = append(ts, t)
	}
	sort.Strings(ts)
	for _, T := range ts {
		im, ok := imp[T]
		if !ok {
			continue
		}
		// columns written: Fprintf format strings, in source order
		var wcols []int
		otherWrites := 0
		ast.Inspect(exp[T].Body, func(n ast.Node) bool {
			call, ok := n.(*ast.CallExpr)
			if !ok {
				return true
			}
			if sel, ok := call.Fun.(*ast.SelectorExpr); ok {
				switch sel.Sel.Name {
				case "Write", "WriteString", "WriteByte", "Fprint", "Fprintln":
					otherWrites++ // lines assembled by other means: the column count is not visible in a format string
				}
			}
			if len(call.Args) < 2 {
				return true
			}
			if sel, ok := call.Fun.(*ast.SelectorExpr); !ok || sel.Sel.Name != "Fprintf" {
				return true
			}
			if tv, ok := info.Types[call.Args[1]]; ok && tv.Value != nil && tv.Value.Kind() == constant.String {
				f := constant.StringVal(tv.Value)
				if strings.HasSuffix(f, "\n") {
					wcols = append(wcols, len(strings.Fields(f)))
				}
			}
			return true
		})
		// columns expected: len(fields) != K tests, in source order
		var rcols []int
		ast.Inspect(im.Body, func(n ast.Node) bool {
			be, ok := n.(*ast.BinaryExpr)
			if !ok || be.Op != token.NEQ {
				return true
			}
			if call, ok := be.X.(*ast.CallExpr); ok {
				if id, ok := call.Fun.(*ast.Ident); ok && id.Name == "len" && len(call.Args) == 1 && types.ExprString(call.Args[0]) == "fields" {
					if tv, ok := info.Types[be.Y]; ok && tv.Value != nil {
						if k, ok := constant.Int64Val(tv.Value); ok {
							rcols = append(rcols, int(k))
						}
					}
				}
			}
			return true
		})
		if otherWrites > 0 {
			c.OK("C18.R3", "("+T+")", "table lines are not written through format strings (column count not decided)", exp[T].Pos(), "")
			continue
		}
		if len(rcols) == 0 {
			// free-format tables (dense containers): any number of columns per line is read
			c.OK("C18.R3", "("+T+")", "free-format table (reader accepts any column count)", exp[T].Pos(), "")
			continue
		}
		same := len(wcols) == len(rcols)
		for i := 0; same && i < len(wcols); i++ {
			if wcols[i] != rcols[i] {
				same = false
			}
		}
		c.Check(same, "C18.R3", "("+T+")", "columns written = columns expected", im.Pos(),
			fmt.Sprintf("Export writes lines with %v columns (header first) and Import expects %v: the reader rejects or mis-parses the writer's own output", wcols, rcols))
	}
}

// c18FloatWidth (R3): every strconv float formatting/parsing call in the library uses the bit size of the value it
// formats or fills (64 for float64): a narrower size silently rounds the written or the read value.
func c18FloatWidth(c *core.Ctx) {
	for _, p := range c.LibPkgs() {
		info := p.TypesInfo
		core.EachFunc(p, func(_ *ast.File, fd *ast.FuncDecl) {
			if fd.Body == nil {
				return
			}
			ast.Inspect(fd.Body, func(n ast.Node) bool {
				call, ok := n.(*ast.CallExpr)
				if !ok {
					return true
				}
				sel, ok := call.Fun.(*ast.SelectorExpr)
				if !ok || types.ExprString(sel.X) != "strconv" {
					return true
				}
				var val, bits ast.Expr
				switch sel.Sel.Name {
				case "FormatFloat":
					if len(call.Args) == 4 {
						val, bits = call.Args[0], call.Args[3]
					}
				case "AppendFloat":
					if len(call.Args) == 5 {
						val, bits = call.Args[1], call.Args[4]
					}
				case "ParseFloat":
					if len(call.Args) == 2 {
						bits = call.Args[1]
					}
				}
				if bits == nil {
					return true
				}
				tv, ok := info.Types[bits]
				if !ok || tv.Value == nil {
					return true
				}
				b, _ := constant.Int64Val(tv.Value)
				want := int64(64)
				if val != nil {
					// float64(x) of a float32 value may be written with 32 bits
					inner := ast.Unparen(val)
					if conv, ok := inner.(*ast.CallExpr); ok && len(conv.Args) == 1 {
						if ctv, ok := info.Types[conv.Fun]; ok && ctv.IsType() {
							inner = conv.Args[0]
						}
					}
					if vt, ok := info.Types[inner]; ok {
						if bt, ok := vt.Type.Underlying().(*types.Basic); ok && bt.Kind() == types.Float32 {
							want = 32
						}
					}
				} else {
					// ParseFloat: the destination decides; a result converted to float32 may be parsed with 32 bits
					want = 64
					if strings.Contains(c.FuncName(p, fd), "32") {
						want = 32
					}
				}
				cons := c.FuncName(p, fd)
				c.Check(b >= want, "C18.R3", cons, fmt.Sprintf("strconv.%s uses %d-bit precision for a %d-bit value", sel.Sel.Name, b, want), call.Pos(),
					fmt.Sprintf("strconv.%s is called with bitSize %d for a %d-bit value: the written (or parsed) number is rounded to the narrower format and the round trip changes the element", sel.Sel.Name, b, want))
				return true
			})
		})
	}
}

// c18LikeNamed (R6): in ExportConfig a field F of the exported parameter struct is computed from the receiver field of
// the same name (ignoring case) whenever the receiver has one.
func c18LikeNamed(c *core.Ctx) {
	c.Rule("C18.R6", "ExportConfig fills each named parameter from the like-named field of the receiver (StartStates from startStates, ...)", 10)
	for _, p := range c.LibPkgs() {
		info := p.TypesInfo
		core.EachFunc(p, func(_ *ast.File, fd *ast.FuncDecl) {
			if fd.Name.Name != "ExportConfig" || fd.Recv == nil || fd.Body == nil || len(fd.Recv.List) == 0 || len(fd.Recv.List[0].Names) == 0 {
				return
			}
			recv := info.Defs[fd.Recv.List[0].Names[0]]
			if recv == nil {
				return
			}
			rt := recv.Type()
			if pt, ok := rt.Underlying().(*types.Pointer); ok {
				rt = pt.Elem()
			}
			st, ok := rt.Underlying().(*types.Struct)
			if !ok {
				return
			}
			recvFields := map[string]string{}
			for i := 0; i < st.NumFields(); i++ {
				recvFields[strings.ToLower(st.Field(i).Name())] = st.Field(i).Name()
			}
			// receiver fields mentioned in an expression
			recvFieldsIn := func(e ast.Node) []string {
				seen := map[string]bool{}
				var r []string
				ast.Inspect(e, func(n ast.Node) bool {
					if sel, ok := n.(*ast.SelectorExpr); ok {
						if id, ok := ast.Unparen(sel.X).(*ast.Ident); ok && info.Uses[id] == recv {
							if fv, ok := info.Uses[sel.Sel].(*types.Var); ok && fv.IsField() && !seen[sel.Sel.Name] {
								seen[sel.Sel.Name] = true
								r = append(r, sel.Sel.Name)
							}
						}
					}
					return true
				})
				return r
			}
			fname := c.FuncName(p, fd)
			var stack []ast.Node
			ast.Inspect(fd.Body, func(n ast.Node) bool {
				if n == nil {
					stack = stack[:len(stack)-1]
					return true
				}
				stack = append(stack, n)
				as, ok := n.(*ast.AssignStmt)
				if !ok || len(as.Lhs) != 1 || len(as.Rhs) != 1 {
					return true
				}
				sel, ok := as.Lhs[0].(*ast.SelectorExpr)
				if !ok {
					return true
				}
				if id, ok := ast.Unparen(sel.X).(*ast.Ident); !ok || info.Uses[id] == recv {
					return true
				}
				F := sel.Sel.Name
				like, has := recvFields[strings.ToLower(F)]
				if !has {
					return true
				}
				// sources: receiver fields in the RHS, or (for appends inside a range loop) in the range operand
				srcs := recvFieldsIn(as.Rhs[0])
				if len(srcs) == 0 {
					for k := len(stack) - 2; k >= 0; k-- {
						if rg, ok := stack[k].(*ast.RangeStmt); ok {
							srcs = recvFieldsIn(rg.X)
							break
						}
					}
				}
				if len(srcs) == 0 {
					return true
				}
				okSrc := false
				for _, g := range srcs {
					if g == like {
						okSrc = true
					}
				}
				c.Check(okSrc, "C18.R6", fname, "parameter "+F+" is filled from "+like, as.Pos(),
					fmt.Sprintf("the exported parameter %s is computed from the receiver's %v although the receiver has a field %s: the configuration written does not describe the object, so reading it back yields a different object", F, srcs, like))
				return true
			})
		})
	}
}

// ---------------------------------------------------------------------------
// R4 / R5 decoders

func isDecoderName(n string) bool {
	return n == "UnmarshalJSON" || n == "Import" || n == "ImportConfig" || n == "ReadJson" || n == "ImportJson" || strings.HasPrefix(n, "Import")
}

type condInfo struct {
	text   string // normalised disjunct
	pos    token.Pos
	exits  bool
	raw    ast.Expr
	isDup  bool
	dupKey string
}

// normExpr renders e with substitutions: identifiers bound to range elements become elem(<slice>), parameters become
// their argument text.
func normExpr(info *types.Info, e ast.Expr, subst map[types.Object]string) string {
	switch v := ast.Unparen(e).(type) {
	case *ast.Ident:
		if o := info.Uses[v]; o != nil {
			if s, ok := subst[o]; ok {
				return s
			}
		}
		return v.Name
	case *ast.BasicLit:
		return v.Value
	case *ast.SelectorExpr:
		return normExpr(info, v.X, subst) + "." + v.Sel.Name
	case *ast.IndexExpr:
		if id, ok := ast.Unparen(v.Index).(*ast.Ident); ok {
			if o := info.Uses[id]; o != nil && subst[o] == "<loopindex>" {
				return "elem(" + normExpr(info, v.X, subst) + ")"
			}
		}
		return normExpr(info, v.X, subst) + "[" + normExpr(info, v.Index, subst) + "]"
	case *ast.CallExpr:
		var as []string
		for _, a := range v.Args {
			as = append(as, normExpr(info, a, subst))
		}
		return normExpr(info, v.Fun, subst) + "(" + strings.Join(as, ",") + ")"
	case *ast.BinaryExpr:
		l, r := normExpr(info, v.X, subst), normExpr(info, v.Y, subst)
		op := v.Op
		// canonical direction: a > b -> b < a, a >= b -> b <= a; commutative operators ordered
		switch op {
		case token.GTR:
			l, r, op = r, l, token.LSS
		case token.GEQ:
			l, r, op = r, l, token.LEQ
		case token.EQL, token.NEQ, token.MUL, token.ADD:
			if l > r {
				l, r = r, l
			}
		}
		return "(" + l + " " + op.String() + " " + r + ")"
	case *ast.UnaryExpr:
		return v.Op.String() + normExpr(info, v.X, subst)
	case *ast.StarExpr:
		return "*" + normExpr(info, v.X, subst)
	}
	return types.ExprString(e)
}

func splitOr(e ast.Expr) []ast.Expr {
	if be, ok := ast.Unparen(e).(*ast.BinaryExpr); ok && be.Op == token.LOR {
		return append(splitOr(be.X), splitOr(be.Y)...)
	}
	return []ast.Expr{e}
}

// rangeSubst: substitution for the range variables of all range statements of body whose operand renders (under the
// current substitution) to a slice expression.
func rangeSubst(info *types.Info, body ast.Node, base map[types.Object]string) map[types.Object]string {
	s := map[types.Object]string{}
	for k, v := range base {
		s[k] = v
	}
	ast.Inspect(body, func(n ast.Node) bool {
		rg, ok := n.(*ast.RangeStmt)
		if !ok {
			return true
		}
		x := normExpr(info, rg.X, s)
		if id, ok := rg.Value.(*ast.Ident); ok && id.Name != "_" {
			if o := info.Defs[id]; o != nil {
				s[o] = "elem(" + x + ")"
			}
		}
		if id, ok := rg.Key.(*ast.Ident); ok && id.Name != "_" {
			if o := info.Defs[id]; o != nil {
				s[o] = "idx(" + x + ")"
			}
		}
		return true
	})
	// for i := 0; i < len(x); i++ : y[i] is an element of y
	ast.Inspect(body, func(n ast.Node) bool {
		fs, ok := n.(*ast.ForStmt)
		if !ok || fs.Init == nil || fs.Cond == nil {
			return true
		}
		as, ok := fs.Init.(*ast.AssignStmt)
		if !ok || len(as.Lhs) != 1 {
			return true
		}
		id, ok := as.Lhs[0].(*ast.Ident)
		if !ok {
			return true
		}
		be, ok := fs.Cond.(*ast.BinaryExpr)
		if !ok || be.Op != token.LSS || types.ExprString(be.X) != id.Name {
			return true
		}
		if call, ok := be.Y.(*ast.CallExpr); ok {
			if f, ok := call.Fun.(*ast.Ident); ok && f.Name == "len" {
				if o := info.Defs[id]; o != nil {
					s[o] = "<loopindex>"
				}
			}
		}
		return true
	})
	// single-definition locals are replaced by their definition (j1 := rowIndices[i])
	ndef := map[types.Object]int{}
	ast.Inspect(body, func(n ast.Node) bool {
		if as, ok := n.(*ast.AssignStmt); ok {
			for _, l := range as.Lhs {
				if id, ok := l.(*ast.Ident); ok {
					if o := info.Defs[id]; o != nil {
						ndef[o]++
					} else if o := info.Uses[id]; o != nil {
						ndef[o]++
					}
				}
			}
		}
		return true
	})
	ast.Inspect(body, func(n ast.Node) bool {
		as, ok := n.(*ast.AssignStmt)
		if !ok || as.Tok != token.DEFINE || len(as.Lhs) != 1 || len(as.Rhs) != 1 {
			return true
		}
		id, ok := as.Lhs[0].(*ast.Ident)
		if !ok {
			return true
		}
		o := info.Defs[id]
		if o == nil || ndef[o] != 1 {
			return true
		}
		if _, has := s[o]; has {
			return true
		}
		switch as.Rhs[0].(type) {
		case *ast.IndexExpr, *ast.Ident, *ast.SelectorExpr:
			s[o] = normExpr(info, as.Rhs[0], s)
		}
		return true
	})
	return s
}

// exitingConds: the disjuncts of every if-condition in body (before pos) whose then-branch ends in a return.
func exitingConds(info *types.Info, body ast.Node, before token.Pos, subst map[types.Object]string) map[string]bool {
	r := map[string]bool{}
	ast.Inspect(body, func(n ast.Node) bool {
		is, ok := n.(*ast.IfStmt)
		if !ok || is.Pos() >= before || len(is.Body.List) == 0 {
			return true
		}
		if _, isRet := is.Body.List[len(is.Body.List)-1].(*ast.ReturnStmt); !isRet {
			return true
		}
		// validation helper: if err := helper(args); err != nil { return ... } (or err := helper(args) as the statement
		// before the test): the helper's own error conditions count
		initAs, _ := is.Init.(*ast.AssignStmt)
		if initAs == nil {
			initAs = errAssignBefore(info, body, is)
		}
		if as := initAs; as != nil && len(as.Rhs) == 1 && len(as.Lhs) == 1 {
			if call, ok := as.Rhs[0].(*ast.CallExpr); ok {
				if be, ok := ast.Unparen(is.Cond).(*ast.BinaryExpr); ok && be.Op == token.NEQ && types.ExprString(be.X) == types.ExprString(as.Lhs[0]) && types.ExprString(be.Y) == "nil" {
					if fn := core.Callee(info, call); fn != nil {
						if g, ok := c18Decl[fn]; ok && g.Body != nil {
							var args []string
							for _, a := range call.Args {
								args = append(args, normExpr(info, a, subst))
							}
							for k := range errorConds(c18DeclPkg[fn].TypesInfo, g, args) {
								r[k] = true
							}
						}
					}
				}
			}
		}
		// map-membership test: if _, ok := seen[k]; ok { return }
		if as, ok := is.Init.(*ast.AssignStmt); ok && len(as.Rhs) == 1 {
			if ix, ok := as.Rhs[0].(*ast.IndexExpr); ok {
				if tv, ok := info.Types[ix.X]; ok {
					if _, isMap := tv.Type.Underlying().(*types.Map); isMap {
						r["dup("+normExpr(info, ix.Index, subst)+")"] = true
					}
				}
			}
		}
		for _, d := range splitOr(is.Cond) {
			r[normExpr(info, d, subst)] = true
			// seen[k] as a bare condition
			if ix, ok := ast.Unparen(d).(*ast.IndexExpr); ok {
				if tv, ok := info.Types[ix.X]; ok {
					if _, isMap := tv.Type.Underlying().(*types.Map); isMap {
						r["dup("+normExpr(info, ix.Index, subst)+")"] = true
					}
				}
			}
		}
		return true
	})
	return r
}

// panicGuards: for a function g, the guards under which it panics, normalised with params replaced by arg texts.
func panicGuards(info *types.Info, g *ast.FuncDecl, args []string) []condInfo {
	subst := map[types.Object]string{}
	i := 0
	for _, fl := range g.Type.Params.List {
		for _, nm := range fl.Names {
			if i < len(args) {
				if o := info.Defs[nm]; o != nil {
					subst[o] = args[i]
				}
			}
			i++
		}
	}
	params := map[types.Object]bool{}
	for o := range subst {
		params[o] = true
	}
	subst = rangeSubst(info, g.Body, subst)
	dependsOnInput := func(e ast.Node) bool {
		dep := false
		ast.Inspect(e, func(n ast.Node) bool {
			if id, ok := n.(*ast.Ident); ok {
				if _, ok := subst[info.Uses[id]]; ok {
					dep = true
				}
			}
			return true
		})
		return dep
	}
	var res []condInfo
	// element accessors on a container this function allocated with parameter dimensions panic on out-of-range
	// indices: m := NullXMatrix(rows, cols); m.At(a, b)
	dims := map[types.Object][]string{}
	ast.Inspect(g.Body, func(n ast.Node) bool {
		as, ok := n.(*ast.AssignStmt)
		if !ok || len(as.Lhs) != 1 || len(as.Rhs) != 1 {
			return true
		}
		call, ok := as.Rhs[0].(*ast.CallExpr)
		if !ok {
			return true
		}
		nm := calleeName(call)
		if !(strings.HasPrefix(nm, "Null") || strings.HasPrefix(nm, "nil")) || (len(call.Args) != 1 && len(call.Args) != 2) {
			return true
		}
		if id, ok := as.Lhs[0].(*ast.Ident); ok {
			if o := info.Defs[id]; o != nil {
				var ds []string
				for _, a := range call.Args {
					ds = append(ds, normExpr(info, a, subst))
				}
				dims[o] = ds
			}
		}
		return true
	})
	ast.Inspect(g.Body, func(n ast.Node) bool {
		call, ok := n.(*ast.CallExpr)
		if !ok {
			return true
		}
		sel, ok := call.Fun.(*ast.SelectorExpr)
		if !ok || !(sel.Sel.Name == "At" || sel.Sel.Name == "AT" || sel.Sel.Name == "ConstAt") {
			return true
		}
		id, ok := ast.Unparen(sel.X).(*ast.Ident)
		if !ok {
			return true
		}
		ds, ok := dims[info.Uses[id]]
		if !ok || len(ds) != len(call.Args) {
			return true
		}
		for k, a := range call.Args {
			if !dependsOnInput(a) {
				continue
			}
			at := normExpr(info, a, subst)
			res = append(res, condInfo{text: "(" + at + " < 0)", pos: call.Pos()})
			res = append(res, condInfo{text: "(" + ds[k] + " <= " + at + ")", pos: call.Pos()})
		}
		return true
	})
	var stack []ast.Node
	ast.Inspect(g.Body, func(n ast.Node) bool {
		if n == nil {
			stack = stack[:len(stack)-1]
			return true
		}
		stack = append(stack, n)
		call, ok := n.(*ast.CallExpr)
		if !ok {
			return true
		}
		if id, ok := call.Fun.(*ast.Ident); !ok || id.Name != "panic" {
			return true
		}
		// innermost enclosing if with the panic in its then-branch
		for k := len(stack) - 2; k >= 0; k-- {
			is, ok := stack[k].(*ast.IfStmt)
			if !ok {
				continue
			}
			inThen := is.Body.Pos() <= call.Pos() && call.End() <= is.Body.End()
			if !inThen {
				// else-branch: negation of the condition; reported as an unmatched guard
				res = append(res, condInfo{text: "!(" + normExpr(info, is.Cond, subst) + ")", pos: call.Pos(), raw: is.Cond})
				break
			}
			if as, ok := is.Init.(*ast.AssignStmt); ok && len(as.Rhs) == 1 {
				if ix, ok := as.Rhs[0].(*ast.IndexExpr); ok && dependsOnInput(ix.Index) {
					if tv, ok := info.Types[ix.X]; ok {
						if _, isMap := tv.Type.Underlying().(*types.Map); isMap {
							res = append(res, condInfo{text: "dup(" + normExpr(info, ix.Index, subst) + ")", pos: call.Pos(), isDup: true})
							break
						}
					}
				}
			}
			if !dependsOnInput(is.Cond) {
				break
			}
			for _, d := range splitOr(is.Cond) {
				res = append(res, condInfo{text: normExpr(info, d, subst), pos: call.Pos(), raw: d})
			}
			break
		}
		return true
	})
	return res
}

func c18Decoders(c *core.Ctx) {
	// functions of the library by object, for guard extraction
	decl := map[*types.Func]*ast.FuncDecl{}
	declPkg := map[*types.Func]*packages.Package{}
	for _, p := range c.LibPkgs() {
		core.EachFunc(p, func(_ *ast.File, fd *ast.FuncDecl) {
			if o, ok := p.TypesInfo.Defs[fd.Name].(*types.Func); ok {
				decl[o] = fd
				declPkg[o] = p
			}
		})
	}
	c18Decl, c18DeclPkg = decl, declPkg
	for _, p := range c.LibPkgs() {
		info := p.TypesInfo
		core.EachFunc(p, func(_ *ast.File, fd *ast.FuncDecl) {
			isCfgMethod := fd.Recv != nil && core.RecvTypeName(fd) == "ConfigDistribution"
			if !isDecoderName(fd.Name.Name) && !isCfgMethod {
				return
			}
			if fd.Body == nil {
				return
			}
			fname := c.FuncName(p, fd)
			// ---- R4a constant index into a decoded slice needs a dominating length test
			decoded := map[types.Object]bool{} // local slices obtained from the config getters / json
			ast.Inspect(fd.Body, func(n ast.Node) bool {
				as, ok := n.(*ast.AssignStmt)
				if !ok || len(as.Rhs) != 1 {
					return true
				}
				call, ok := as.Rhs[0].(*ast.CallExpr)
				if !ok {
					return true
				}
				nm := calleeName(call)
				if strings.HasPrefix(nm, "GetParametersAs") || strings.HasPrefix(nm, "GetNamedParametersAs") || nm == "getFloats" || nm == "getInts" || nm == "getStrings" {
					if id, ok := as.Lhs[0].(*ast.Ident); ok {
						o := info.Defs[id]
						if o == nil {
							o = info.Uses[id]
						}
						if o != nil {
							if _, isSlice := o.Type().Underlying().(*types.Slice); isSlice {
								decoded[o] = true
							} else if _, isIface := o.Type().Underlying().(*types.Interface); isIface {
								decoded[o] = true // Vector results: At(k)
							}
						}
					}
				}
				return true
			})
			ast.Inspect(fd.Body, func(n ast.Node) bool {
				var base ast.Expr
				var idx ast.Expr
				switch v := n.(type) {
				case *ast.IndexExpr:
					base, idx = v.X, v.Index
				case *ast.CallExpr:
					if s, ok := v.Fun.(*ast.SelectorExpr); ok && len(v.Args) == 1 && (s.Sel.Name == "At" || s.Sel.Name == "ConstAt") {
						base, idx = s.X, v.Args[0]
					}
				}
				if base == nil {
					return true
				}
				isDecoded := false
				what := types.ExprString(base)
				if id, ok := ast.Unparen(base).(*ast.Ident); ok && decoded[info.Uses[id]] {
					isDecoded = true
				}
				if sel, ok := ast.Unparen(base).(*ast.SelectorExpr); ok && sel.Sel.Name == "Distributions" {
					if tv, ok := info.Types[sel.X]; ok && namedOfType(tv.Type) == "ConfigDistribution" {
						isDecoded = true
					}
				}
				if !isDecoded {
					return true
				}
				tv, ok := info.Types[idx]
				if !ok || tv.Value == nil {
					return true // variable index: loops are bounded by len() (C20)
				}
				k, _ := constant.Int64Val(tv.Value)
				guarded := lengthGuard(info, fd.Body, base, n.Pos(), int(k))
				c.Check(guarded, "C18.R4", fname, fmt.Sprintf("%s[%d] follows a length test", what, k), n.Pos(),
					fmt.Sprintf("the decoder indexes the decoded %s with the constant %d without testing its length first: a configuration with fewer entries makes the import panic (index out of range) instead of returning an error", what, k))
				return true
			})
			// ---- R4b reflect.TypeOf(x).Kind() needs x != nil
			ast.Inspect(fd.Body, func(n ast.Node) bool {
				call, ok := n.(*ast.CallExpr)
				if !ok {
					return true
				}
				sel, ok := call.Fun.(*ast.SelectorExpr)
				if !ok || sel.Sel.Name != "Kind" {
					return true
				}
				inner, ok := sel.X.(*ast.CallExpr)
				if !ok || types.ExprString(inner.Fun) != "reflect.TypeOf" || len(inner.Args) != 1 {
					return true
				}
				arg := types.ExprString(inner.Args[0])
				guarded := false
				ast.Inspect(fd.Body, func(m ast.Node) bool {
					is, ok := m.(*ast.IfStmt)
					if !ok || is.Pos() >= call.Pos() || len(is.Body.List) == 0 {
						return true
					}
					if _, isRet := is.Body.List[len(is.Body.List)-1].(*ast.ReturnStmt); !isRet {
						return true
					}
					for _, d := range splitOr(is.Cond) {
						if be, ok := ast.Unparen(d).(*ast.BinaryExpr); ok && be.Op == token.EQL && types.ExprString(be.X) == arg && types.ExprString(be.Y) == "nil" {
							guarded = true
						}
					}
					return true
				})
				c.Check(guarded, "C18.R4", fname, "reflect.TypeOf("+arg+").Kind() follows a nil test", call.Pos(),
					"reflect.TypeOf returns nil for a nil interface (JSON null or a missing entry) and Kind() on it panics: malformed input crashes the reader")
				return true
			})
			// ---- R4c reflect Value.Elem().Interface() on possibly-nil elements
			ast.Inspect(fd.Body, func(n ast.Node) bool {
				call, ok := n.(*ast.CallExpr)
				if !ok {
					return true
				}
				sel, ok := call.Fun.(*ast.SelectorExpr)
				if !ok || sel.Sel.Name != "Interface" {
					return true
				}
				inner, ok := sel.X.(*ast.CallExpr)
				if !ok {
					return true
				}
				isel, ok := inner.Fun.(*ast.SelectorExpr)
				if !ok || isel.Sel.Name != "Elem" {
					return true
				}
				if tv, ok := info.Types[isel.X]; !ok || tv.Type.String() != "reflect.Value" {
					return true
				}
				c.Fail("C18.R4", fname, "no Elem().Interface() on a decoded element", call.Pos(),
					"for a JSON null element Value.Elem() is the zero Value and Interface() panics: use Interface() on the element itself and test for nil")
				return true
			})
			// ---- R2b validation conditions compare two different things; allocation sizes come from a non-empty list
			nSelf := 0
			ast.Inspect(fd.Body, func(n ast.Node) bool {
				be, ok := n.(*ast.BinaryExpr)
				if !ok {
					return true
				}
				switch be.Op {
				case token.EQL, token.NEQ, token.LSS, token.GTR, token.LEQ, token.GEQ:
					if types.ExprString(be.X) == types.ExprString(be.Y) {
						nSelf++
						c.Fail("C18.R2", fname, "comparison "+types.ExprString(be)+" relates two different values", be.Pos(),
							"the decoder compares an expression with itself: the validation it was meant to perform never fires, inconsistent input is accepted")
					}
				}
				return true
			})
			if fd.Name.Name == "UnmarshalJSON" {
				if nSelf == 0 {
					c.OK("C18.R2", fname, "no self-comparison in the decoder's validation", fd.Pos(), "")
				}
				ast.Inspect(fd.Body, func(n ast.Node) bool {
					is, ok := n.(*ast.IfStmt)
					if !ok {
						return true
					}
					// conjuncts of the condition of the form len(X) == 0
					empty := map[string]bool{}
					var conj func(e ast.Expr)
					conj = func(e ast.Expr) {
						if be, ok := ast.Unparen(e).(*ast.BinaryExpr); ok {
							if be.Op == token.LAND {
								conj(be.X)
								conj(be.Y)
								return
							}
							if be.Op == token.EQL && types.ExprString(be.Y) == "0" {
								empty[types.ExprString(be.X)] = true
							}
						}
					}
					conj(is.Cond)
					if len(empty) == 0 {
						return true
					}
					for _, st := range is.Body.List {
						ast.Inspect(st, func(m ast.Node) bool {
							call, ok := m.(*ast.CallExpr)
							if !ok || calleeName(call) != "Alloc" || len(call.Args) == 0 {
								return true
							}
							a := types.ExprString(call.Args[0])
							c.Check(!empty[a], "C18.R2", fname, "Alloc size "+a+" is not known to be zero", call.Pos(),
								"in the branch where "+a+" == 0 the scalar is allocated with "+a+" variables: the decoded derivative tables get the wrong dimension (N = 0) and the round trip loses the number of variables")
							return true
						})
					}
					return true
				})
			}
			// ---- R4e single-value type assertions
			var stack []ast.Node
			ast.Inspect(fd.Body, func(n ast.Node) bool {
				if n == nil {
					stack = stack[:len(stack)-1]
					return true
				}
				stack = append(stack, n)
				ta, ok := n.(*ast.TypeAssertExpr)
				if !ok || ta.Type == nil {
					return true
				}
				commaOk := false
				if len(stack) >= 2 {
					switch p := stack[len(stack)-2].(type) {
					case *ast.AssignStmt:
						if len(p.Lhs) == 2 && len(p.Rhs) == 1 {
							commaOk = true
						}
					case *ast.ValueSpec:
						if len(p.Names) == 2 {
							commaOk = true
						}
					}
				}
				c.Check(commaOk, "C18.R4", fname, "type assertion "+types.ExprString(ta)+" is comma-ok", ta.Pos(),
					"a single-value type assertion on decoded data panics when the input has another type")
				return true
			})
			// ---- R4f nil elements of decoded pointer slices
			if fd.Name.Name == "UnmarshalJSON" {
				for _, u := range jsonArgs(info, fd, true) {
					sl, ok := u.t.Underlying().(*types.Slice)
					if !ok {
						continue
					}
					if _, isPtr := sl.Elem().Underlying().(*types.Pointer); !isPtr {
						continue
					}
					// some test "== nil" on an element of the decoded slice must exist
					tested := false
					ast.Inspect(fd.Body, func(n ast.Node) bool {
						be, ok := n.(*ast.BinaryExpr)
						if ok && (be.Op == token.EQL || be.Op == token.NEQ) && types.ExprString(be.Y) == "nil" {
							if tv, ok := info.Types[be.X]; ok && types.Identical(tv.Type, sl.Elem()) {
								tested = true
							}
						}
						return true
					})
					c.Check(tested, "C18.R4", fname, "decoded pointer elements are tested for nil", u.pos,
						"the wire type is a slice of pointers: a JSON null element decodes to a nil pointer, which is stored into the container unchecked and crashes the first operation that touches it")
				}
			}
			// ---- R4d constructor panics are pre-validated
			ast.Inspect(fd.Body, func(n ast.Node) bool {
				call, ok := n.(*ast.CallExpr)
				if !ok {
					return true
				}
				fn := core.Callee(info, call)
				if fn == nil {
					return true
				}
				g, ok := decl[fn]
				if !ok || g.Body == nil || g.Recv != nil {
					return true
				}
				gname := fn.Name()
				if !(strings.HasPrefix(gname, "New") || strings.HasPrefix(gname, "As")) {
					return true
				}
				subst := rangeSubst(info, fd.Body, nil)
				var args []string
				for _, a := range call.Args {
					args = append(args, normExpr(info, a, subst))
				}
				guards := panicGuards(declPkg[fn].TypesInfo, g, args)
				if len(guards) == 0 {
					return true
				}
				have := exitingConds(info, fd.Body, call.Pos(), subst)
				for _, gd := range guards {
					ok := have[gd.text] || byConstruction(info, fd, gd.text)
					// a lower-bound guard of the decoder may be stricter: accept (k < 0) style extras silently
					c.Check(ok, "C18.R4", fname, fmt.Sprintf("guard %s of %s is tested before the call", gd.text, gname), call.Pos(),
						fmt.Sprintf("%s panics when %s, and the decoder passes decoded data to it without testing that condition first: malformed input crashes the reader instead of producing an error", gname, gd.text))
				}
				return true
			})
			// ---- R5 decoded integer dimensions are constrained before they are stored
			if fd.Name.Name == "UnmarshalJSON" {
				for _, u := range jsonArgs(info, fd, true) {
					st, ok := u.t.Underlying().(*types.Struct)
					if !ok {
						continue
					}
					hasSlice := false
					for i := 0; i < st.NumFields(); i++ {
						if _, ok := st.Field(i).Type().Underlying().(*types.Slice); ok {
							hasSlice = true
						}
					}
					if !hasSlice {
						continue
					}
					for i := 0; i < st.NumFields(); i++ {
						f := st.Field(i)
						b, ok := f.Type().Underlying().(*types.Basic)
						if !ok || b.Info()&types.IsInteger == 0 {
							continue
						}
						// the field must occur in an exiting condition
						constrained := false
						ast.Inspect(fd.Body, func(n ast.Node) bool {
							is, ok := n.(*ast.IfStmt)
							if !ok || len(is.Body.List) == 0 {
								return true
							}
							if _, isRet := is.Body.List[len(is.Body.List)-1].(*ast.ReturnStmt); !isRet {
								return true
							}
							ast.Inspect(is.Cond, func(m ast.Node) bool {
								if sel, ok := m.(*ast.SelectorExpr); ok && info.Uses[sel.Sel] == types.Object(f) {
									constrained = true
								}
								return true
							})
							var initNode ast.Node = is.Init
							if is.Init == nil {
								if as := errAssignBefore(info, fd.Body, is); as != nil {
									initNode = as
								}
							}
							if initNode != nil {
								ast.Inspect(initNode, func(m ast.Node) bool {
									if sel, ok := m.(*ast.SelectorExpr); ok && info.Uses[sel.Sel] == types.Object(f) {
										constrained = true
									}
									return true
								})
							}
							return true
						})
						c.Check(constrained, "C18.R5", fname, "decoded dimension "+f.Name()+" is validated against the payload", u.pos,
							"UnmarshalJSON stores the decoded "+f.Name()+" without relating it to the decoded data (length of the value list, range of the indices): an inconsistent document yields an object whose dimensions and storage disagree, and the next access panics or reads the wrong element")
					}
				}
			}
		})
	}
}

// lengthGuard: before pos there is an if-statement ending in return whose condition bounds len(base) so that index k is
// valid (len(x) != N with N > k, len(x) < N with N > k, len(x) <= N with N >= k, len(x) == 0 for k = 0).
func lengthGuard(info *types.Info, body ast.Node, base ast.Expr, pos token.Pos, k int) bool {
	bt := types.ExprString(base)
	ok := false
	ast.Inspect(body, func(n ast.Node) bool {
		is, isIf := n.(*ast.IfStmt)
		if !isIf || is.Pos() >= pos || len(is.Body.List) == 0 {
			return true
		}
		if _, isRet := is.Body.List[len(is.Body.List)-1].(*ast.ReturnStmt); !isRet {
			return true
		}
		for _, d := range splitOr(is.Cond) {
			be, isBin := ast.Unparen(d).(*ast.BinaryExpr)
			if !isBin {
				continue
			}
			var lenSide, other ast.Expr
			op := be.Op
			isLenOf := func(e ast.Expr) bool {
				if call, ok := ast.Unparen(e).(*ast.CallExpr); ok && len(call.Args) == 1 {
					if id, ok := call.Fun.(*ast.Ident); ok && id.Name == "len" && types.ExprString(call.Args[0]) == bt {
						return true
					}
					// Vector results: x.Dim()
				}
				if call, ok := ast.Unparen(e).(*ast.CallExpr); ok && len(call.Args) == 0 {
					if s, ok := call.Fun.(*ast.SelectorExpr); ok && s.Sel.Name == "Dim" && types.ExprString(s.X) == bt {
						return true
					}
				}
				return false
			}
			if isLenOf(be.X) {
				lenSide, other = be.X, be.Y
			} else if isLenOf(be.Y) {
				lenSide, other = be.Y, be.X
				switch op {
				case token.LSS:
					op = token.GTR
				case token.GTR:
					op = token.LSS
				case token.LEQ:
					op = token.GEQ
				case token.GEQ:
					op = token.LEQ
				}
			}
			if lenSide == nil {
				continue
			}
			tv, has := info.Types[other]
			if !has || tv.Value == nil {
				continue
			}
			N64, _ := constant.Int64Val(tv.Value)
			N := int(N64)
			switch op {
			case token.NEQ:
				if N > k {
					ok = true
				}
			case token.LSS:
				if N > k {
					ok = true
				}
			case token.LEQ:
				if N >= k {
					ok = true
				}
			case token.EQL:
				if N == 0 && k == 0 {
					ok = true
				}
			}
		}
		return true
	})
	return ok
}

var c18Decl map[*types.Func]*ast.FuncDecl
var c18DeclPkg map[*types.Func]*packages.Package

// errorConds: the conditions under which the helper g returns a non-nil error, normalised with the call's arguments.
func errorConds(info *types.Info, g *ast.FuncDecl, args []string) map[string]bool {
	subst := map[types.Object]string{}
	i := 0
	for _, fl := range g.Type.Params.List {
		for _, nm := range fl.Names {
			if i < len(args) {
				if o := info.Defs[nm]; o != nil {
					subst[o] = args[i]
				}
			}
			i++
		}
	}
	subst = rangeSubst(info, g.Body, subst)
	return exitingConds(info, g.Body, g.End(), subst)
}

// byConstruction: reviewed guards that hold by the way the decoder builds the arguments, with the structural facts that
// are re-checked on every run.
//   - len(a) != len(b): a and b are local slices that grow by one append each in the same loop body;
//   - rows*cols == len(values) (dense table import): the loop appends len(fields) values per line, tests
//     cols != len(fields) and increments rows once per line.
func byConstruction(info *types.Info, fd *ast.FuncDecl, guard string) bool {
	if strings.HasPrefix(guard, "(len(") && strings.Contains(guard, " != len(") {
		var names []string
		for _, part := range strings.Split(strings.Trim(guard, "()"), " != ") {
			names = append(names, strings.TrimSuffix(strings.TrimPrefix(strings.TrimSpace(part), "len("), ")"))
		}
		if len(names) != 2 {
			return false
		}
		// both are locals that grow only inside the same innermost for statement, and every path through one iteration of
		// that statement (to its end, a continue or a break) appends the same number of elements to both
		loopOf := map[string]ast.Node{}
		sameLoop := true
		var stack []ast.Node
		ast.Inspect(fd.Body, func(n ast.Node) bool {
			if n == nil {
				stack = stack[:len(stack)-1]
				return true
			}
			stack = append(stack, n)
			as, ok := n.(*ast.AssignStmt)
			if !ok {
				return true
			}
			for _, l := range as.Lhs {
				nm := types.ExprString(l)
				if nm != names[0] && nm != names[1] {
					continue
				}
				if as.Tok == token.DEFINE {
					continue // the declaration
				}
				var loop ast.Node
				for k := len(stack) - 1; k >= 0; k-- {
					if f, ok := stack[k].(*ast.ForStmt); ok {
						loop = f
						break
					}
				}
				if loop == nil || (loopOf[nm] != nil && loopOf[nm] != loop) {
					sameLoop = false
				}
				loopOf[nm] = loop
			}
			return true
		})
		if !sameLoop || loopOf[names[0]] == nil || loopOf[names[0]] != loopOf[names[1]] {
			return false
		}
		return balancedAppends(loopOf[names[0]].(*ast.ForStmt).Body.List, names[0], names[1])
	}
	if strings.Contains(guard, "(cols * rows) == len(values)") {
		hasTest, hasInc, hasAppend := false, false, false
		ast.Inspect(fd.Body, func(n ast.Node) bool {
			switch v := n.(type) {
			case *ast.IfStmt:
				if types.ExprString(v.Cond) == "cols != len(fields)" {
					hasTest = true
				}
			case *ast.IncDecStmt:
				if types.ExprString(v.X) == "rows" && v.Tok == token.INC {
					hasInc = true
				}
			case *ast.AssignStmt:
				if len(v.Lhs) == 1 && types.ExprString(v.Lhs[0]) == "values" {
					hasAppend = true
				}
			}
			return true
		})
		return hasTest && hasInc && hasAppend
	}
	return false
}

// balancedAppends: every path through the statements that does not leave the function appends the same number of elements
// to a and to b (x = append(x, one)); any other assignment to either, or an append inside a construct that is not a plain
// if/else chain or block, makes the answer false.
func balancedAppends(list []ast.Stmt, a, b string) bool {
	type delta struct{ a, b int }
	okAll := true
	mentions := func(n ast.Node) bool {
		found := false
		ast.Inspect(n, func(x ast.Node) bool {
			if as, ok := x.(*ast.AssignStmt); ok {
				for _, l := range as.Lhs {
					if nm := types.ExprString(l); nm == a || nm == b {
						found = true
					}
				}
			}
			return true
		})
		return found
	}
	// walk returns the deltas of the paths that fall through; paths that continue/break are checked on the spot
	var walk func(list []ast.Stmt, in []delta) []delta
	walk = func(list []ast.Stmt, in []delta) []delta {
		cur := in
		for _, st := range list {
			if len(cur) == 0 {
				return cur
			}
			switch v := st.(type) {
			case *ast.AssignStmt:
				if !mentions(v) {
					continue
				}
				if len(v.Lhs) != 1 || len(v.Rhs) != 1 || v.Tok != token.ASSIGN {
					okAll = false
					return nil
				}
				nm := types.ExprString(v.Lhs[0])
				call, ok := v.Rhs[0].(*ast.CallExpr)
				if !ok || len(call.Args) != 2 || call.Ellipsis.IsValid() || types.ExprString(call.Args[0]) != nm {
					okAll = false
					return nil
				}
				if id, ok := call.Fun.(*ast.Ident); !ok || id.Name != "append" {
					okAll = false
					return nil
				}
				var next []delta
				for _, d := range cur {
					if nm == a {
						d.a++
					} else {
						d.b++
					}
					next = append(next, d)
				}
				cur = next
			case *ast.ReturnStmt:
				return nil
			case *ast.BranchStmt:
				if v.Label != nil || (v.Tok != token.CONTINUE && v.Tok != token.BREAK) {
					okAll = false
					return nil
				}
				for _, d := range cur {
					if d.a != d.b {
						okAll = false
					}
				}
				return nil
			case *ast.BlockStmt:
				cur = walk(v.List, cur)
			case *ast.IfStmt:
				if v.Init != nil && mentions(v.Init) {
					okAll = false
					return nil
				}
				var out []delta
				out = append(out, walk(v.Body.List, cur)...)
				switch e := v.Else.(type) {
				case nil:
					out = append(out, cur...)
				case *ast.BlockStmt:
					out = append(out, walk(e.List, cur)...)
				case *ast.IfStmt:
					out = append(out, walk([]ast.Stmt{e}, cur)...)
				}
				// deduplicate
				seen := map[delta]bool{}
				cur = nil
				for _, d := range out {
					if !seen[d] {
						seen[d] = true
						cur = append(cur, d)
					}
				}
			default:
				if mentions(st) {
					okAll = false
					return nil
				}
			}
		}
		return cur
	}
	for _, d := range walk(list, []delta{{0, 0}}) {
		if d.a != d.b {
			okAll = false
		}
	}
	return okAll
}

// errAssignBefore: for `if X != nil { return ... }` with X a local error variable, the latest assignment X := call(...) /
// X = call(...) that precedes the if in the same function.
func errAssignBefore(info *types.Info, body ast.Node, is *ast.IfStmt) *ast.AssignStmt {
	be, ok := ast.Unparen(is.Cond).(*ast.BinaryExpr)
	if !ok || be.Op != token.NEQ || types.ExprString(be.Y) != "nil" {
		return nil
	}
	id, ok := ast.Unparen(be.X).(*ast.Ident)
	if !ok {
		return nil
	}
	o := info.Uses[id]
	var best *ast.AssignStmt
	ast.Inspect(body, func(n ast.Node) bool {
		as, ok := n.(*ast.AssignStmt)
		if !ok || as.Pos() >= is.Pos() || len(as.Lhs) != 1 || len(as.Rhs) != 1 {
			return true
		}
		lid, ok := as.Lhs[0].(*ast.Ident)
		if !ok || (info.Defs[lid] != o && info.Uses[lid] != o) {
			return true
		}
		if _, isCall := as.Rhs[0].(*ast.CallExpr); isCall && (best == nil || as.Pos() > best.Pos()) {
			best = as
		}
		return true
	})
	return best
}

// ---------------------------------------------------------------------------
// R7: named parameters written by ExportConfig are the named parameters read by ImportConfig
//
// A type that exports its state as a struct of named parameters (`parameters := struct{ Pi []float64; ... }{}`) reads it
// back with config.GetNamed...("Pi"). For the round trip to reproduce the object every exported name has to be read
// (otherwise that part of the object is dropped), every name read has to be exported (otherwise reading one's own
// output fails), and no name may be read for two different purposes (reading "StartStates" for the final states makes
// the decoded object differ from the encoded one while every call succeeds). Keys read by an ImportConfig the method
// delegates to (Chmm -> Hmm) count as read.
func c18NamedKeys(c *core.Ctx) {
	c.Rule("C18.R7", "every named parameter written by ExportConfig is read by ImportConfig of the same type (directly or through the ImportConfig it delegates to), every name read is written, and no name is read twice", 30)
	type impInfo struct {
		keys  map[string][]token.Pos
		calls []*types.Func
		fd    *ast.FuncDecl
		pkg   *packages.Package
	}
	imports := map[*types.Func]*impInfo{}
	exports := map[string]*ast.FuncDecl{} // receiver type (pkg-qualified) -> ExportConfig
	exportPkg := map[string]*packages.Package{}
	importOf := map[string]*types.Func{}
	for _, p := range c.LibPkgs() {
		info := p.TypesInfo
		pkg := p
		core.EachFunc(p, func(_ *ast.File, fd *ast.FuncDecl) {
			if fd.Recv == nil || fd.Body == nil {
				return
			}
			T := pkg.PkgPath + "." + core.RecvTypeName(fd)
			switch fd.Name.Name {
			case "ExportConfig":
				exports[T] = fd
				exportPkg[T] = pkg
			case "ImportConfig":
				fn, _ := info.Defs[fd.Name].(*types.Func)
				if fn == nil {
					return
				}
				ii := &impInfo{keys: map[string][]token.Pos{}, fd: fd, pkg: pkg}
				ast.Inspect(fd.Body, func(n ast.Node) bool {
					call, ok := n.(*ast.CallExpr)
					if !ok {
						return true
					}
					callee := core.Callee(info, call)
					if callee == nil {
						return true
					}
					if strings.HasPrefix(callee.Name(), "GetNamedParameter") && len(call.Args) >= 1 {
						if tv, ok := info.Types[call.Args[0]]; ok && tv.Value != nil {
							k := strings.Trim(tv.Value.ExactString(), "\"")
							ii.keys[k] = append(ii.keys[k], call.Pos())
						} else {
							ii.keys["<dynamic>"] = append(ii.keys["<dynamic>"], call.Pos())
						}
					}
					if callee.Name() == "ImportConfig" && callee != fn {
						ii.calls = append(ii.calls, callee)
					}
					return true
				})
				imports[fn] = ii
				importOf[T] = fn
			}
		})
	}
	var allKeys func(fn *types.Func, seen map[*types.Func]bool) map[string]bool
	allKeys = func(fn *types.Func, seen map[*types.Func]bool) map[string]bool {
		r := map[string]bool{}
		if seen[fn] {
			return r
		}
		seen[fn] = true
		ii := imports[fn]
		if ii == nil {
			return r
		}
		for k := range ii.keys {
			r[k] = true
		}
		for _, callee := range ii.calls {
			for k := range allKeys(callee, seen) {
				r[k] = true
			}
		}
		return r
	}
	var names []string
	for T := range exports {
		names = append(names, T)
	}
	sort.Strings(names)
	n := 0
	for _, T := range names {
		fd := exports[T]
		p := exportPkg[T]
		fn := importOf[T]
		if fn == nil {
			continue
		}
		// the exported struct: the anonymous struct literal with the most fields
		var fields []string
		ast.Inspect(fd.Body, func(x ast.Node) bool {
			cl, ok := x.(*ast.CompositeLit)
			if !ok {
				return true
			}
			st, ok := cl.Type.(*ast.StructType)
			if !ok {
				return true
			}
			var fs []string
			for _, f := range st.Fields.List {
				for _, nm := range f.Names {
					fs = append(fs, nm.Name)
				}
			}
			if len(fs) > len(fields) {
				fields = fs
			}
			return true
		})
		ii := imports[fn]
		if len(fields) == 0 && len(ii.keys) == 0 {
			continue // positional parameters: decided by R4/R5 and C14
		}
		n++
		cons := c.FuncName(p, fd)
		read := allKeys(fn, map[*types.Func]bool{})
		if read["<dynamic>"] {
			c.Unknown("C18.R7", cons, "named parameters are read by literal name", ii.fd.Pos(), "ImportConfig reads a named parameter whose name is not a constant")
			continue
		}
		written := map[string]bool{}
		for _, f := range fields {
			written[f] = true
			c.Check(read[f], "C18.R7", cons, "exported parameter "+f+" is read back", fd.Pos(),
				"ExportConfig writes the named parameter "+f+" but ImportConfig of the same type never reads it: that part of the object is lost in the round trip")
		}
		var ks []string
		for k := range ii.keys {
			ks = append(ks, k)
		}
		sort.Strings(ks)
		for _, k := range ks {
			if len(fields) > 0 {
				c.Check(written[k], "C18.R7", c.FuncName(ii.pkg, ii.fd), "parameter "+k+" read is one that is written", ii.keys[k][0],
					"ImportConfig reads the named parameter "+k+" which ExportConfig of the same type never writes: reading the type's own output fails or yields nothing for it")
			}
			c.Check(len(ii.keys[k]) == 1, "C18.R7", c.FuncName(ii.pkg, ii.fd), "parameter "+k+" is read once", ii.keys[k][len(ii.keys[k])-1],
				"ImportConfig reads the named parameter "+k+" more than once: two parts of the object are filled from the same exported value, so the decoded object differs from the encoded one")
		}
	}
	// cross-wired setters: the value read under name K must not be installed by the setter of another named parameter X
	for _, fn := range sortedImports(imports) {
		ii := imports[fn]
		info := ii.pkg.TypesInfo
		keyOf := map[types.Object]string{}
		ast.Inspect(ii.fd.Body, func(x ast.Node) bool {
			as, ok := x.(*ast.AssignStmt)
			if !ok || len(as.Rhs) != 1 || len(as.Lhs) < 1 {
				return true
			}
			call, ok := ast.Unparen(as.Rhs[0]).(*ast.CallExpr)
			if !ok || len(call.Args) < 1 {
				return true
			}
			callee := core.Callee(info, call)
			if callee == nil || !strings.HasPrefix(callee.Name(), "GetNamedParameter") {
				return true
			}
			tv, ok := info.Types[call.Args[0]]
			if !ok || tv.Value == nil {
				return true
			}
			if id, ok := as.Lhs[0].(*ast.Ident); ok {
				o := info.Defs[id]
				if o == nil {
					o = info.Uses[id]
				}
				if o != nil {
					keyOf[o] = strings.Trim(tv.Value.ExactString(), "\"")
				}
			}
			return true
		})
		if len(keyOf) == 0 {
			continue
		}
		keys := map[string]bool{}
		for _, k := range keyOf {
			keys[strings.ToLower(k)] = true
		}
		ast.Inspect(ii.fd.Body, func(x ast.Node) bool {
			call, ok := x.(*ast.CallExpr)
			if !ok {
				return true
			}
			sel, ok := ast.Unparen(call.Fun).(*ast.SelectorExpr)
			if !ok || !strings.HasPrefix(sel.Sel.Name, "Set") {
				return true
			}
			X := strings.ToLower(strings.TrimPrefix(sel.Sel.Name, "Set"))
			if !keys[X] {
				return true
			}
			for _, a := range call.Args {
				id, ok := ast.Unparen(a).(*ast.Ident)
				if !ok {
					continue
				}
				K, has := keyOf[info.Uses[id]]
				if !has {
					continue
				}
				c.Check(strings.ToLower(K) == X, "C18.R7", c.FuncName(ii.pkg, ii.fd), "value read as "+K+" is installed by its own setter", call.Pos(),
					"the value read under the name "+K+" is passed to "+sel.Sel.Name+", the setter of another named parameter: the decoded object has "+K+" where the encoded one had "+strings.TrimPrefix(sel.Sel.Name, "Set"))
			}
			return true
		})
	}
	c.Analysed["named_config_types"] = n
}

func sortedImports[T any](m map[*types.Func]T) []*types.Func {
	var fs []*types.Func
	for f := range m {
		fs = append(fs, f)
	}
	sort.Slice(fs, func(i, j int) bool { return fs[i].FullName() < fs[j].FullName() })
	return fs
}

// ---------------------------------------------------------------------------
// R8: a decoder that fills its receiver field by field overwrites the whole state
//
// UnmarshalJSON is called on receivers that already hold a value (json.Unmarshal into an existing variable, reuse of a
// buffer). A decoder that assigns the decoded payload to some fields of the receiver and leaves others as they were
// produces an object that depends on what the receiver held before: a matrix that was a transposed view keeps its
// `transposed` flag and reads the decoded row-major values column-major. Every field of the receiver type is therefore
// assigned on the success path (directly, or through `*a = *tmp` / a method of the receiver that re-initialises it).

// c18DecoderKeeps: fields a decoder may leave untouched, by review.
var c18DecoderKeeps = map[string]string{}

func c18DecoderComplete(c *core.Ctx) {
	c.Rule("C18.R8", "a decoder that fills its receiver field by field assigns every field of the receiver type on every path to a successful return, so that nothing of the receiver's previous state survives into the decoded object", 60)
	n := 0
	dix := newDeclIndex(c)
	for _, p := range c.LibPkgs() {
		if p.PkgPath != "github.com/pbenner/autodiff" {
			continue
		}
		info := p.TypesInfo
		pkg := p
		// fields of the receiver assigned anywhere in a method (transitively through calls on the receiver)
		summaries := map[*types.Func]map[string]bool{}
		var summary func(fn *types.Func, depth int) map[string]bool
		recvOf := func(fd *ast.FuncDecl) types.Object {
			if fd.Recv == nil || len(fd.Recv.List) == 0 || len(fd.Recv.List[0].Names) == 0 {
				return nil
			}
			return info.Defs[fd.Recv.List[0].Names[0]]
		}
		var genOf func(n ast.Node, recv types.Object, all []string, depth int) map[string]bool
		genOf = func(n ast.Node, recv types.Object, all []string, depth int) map[string]bool {
			g := map[string]bool{}
			isRecv := func(e ast.Expr) bool {
				id, ok := ast.Unparen(e).(*ast.Ident)
				return ok && info.Uses[id] == recv
			}
			ast.Inspect(n, func(x ast.Node) bool {
				switch v := x.(type) {
				case *ast.FuncLit:
					return false
				case *ast.AssignStmt:
					for _, l := range v.Lhs {
						switch lv := ast.Unparen(l).(type) {
						case *ast.SelectorExpr:
							if isRecv(lv.X) {
								g[lv.Sel.Name] = true
							}
						case *ast.StarExpr:
							if isRecv(lv.X) {
								for _, f := range all {
									g[f] = true
								}
							}
						}
					}
				case *ast.UnaryExpr:
					if v.Op == token.AND {
						if sel, ok := ast.Unparen(v.X).(*ast.SelectorExpr); ok && isRecv(sel.X) {
							g[sel.Sel.Name] = true // &recv.f handed to a callee that fills it
						}
					}
				case *ast.CallExpr:
					if sel, ok := ast.Unparen(v.Fun).(*ast.SelectorExpr); ok && isRecv(sel.X) {
						if callee := core.Callee(info, v); callee != nil && depth < 3 {
							for f := range summary(callee, depth+1) {
								g[f] = true
							}
						}
					}
					// the object handed to a helper function: fields the helper assigns through that parameter
					for ai, a := range v.Args {
						if !isRecv(a) || depth >= 3 {
							continue
						}
						callee := core.Callee(info, v)
						if callee == nil {
							continue
						}
						hfd, _ := dix.find(callee)
						if hfd == nil || hfd.Body == nil {
							continue
						}
						k := 0
						for _, fl := range hfd.Type.Params.List {
							for _, nm := range fl.Names {
								if k == ai {
									if po := info.Defs[nm]; po != nil {
										for f := range genOf(hfd.Body, po, all, depth+1) {
											g[f] = true
										}
									}
								}
								k++
							}
						}
					}
				}
				return true
			})
			return g
		}
		summary = func(fn *types.Func, depth int) map[string]bool {
			if s, ok := summaries[fn]; ok {
				return s
			}
			summaries[fn] = map[string]bool{}
			fd, _ := dix.find(fn)
			if fd == nil || fd.Body == nil {
				return summaries[fn]
			}
			recv := recvOf(fd)
			if recv == nil {
				return summaries[fn]
			}
			summaries[fn] = genOf(fd.Body, recv, nil, depth)
			return summaries[fn]
		}
		core.EachFunc(p, func(_ *ast.File, fd *ast.FuncDecl) {
			if fd.Name.Name != "UnmarshalJSON" {
				return
			}
			recv := recvOf(fd)
			if recv == nil {
				return
			}
			rt := recv.Type()
			if pt, ok := rt.(*types.Pointer); ok {
				rt = pt.Elem()
			}
			st, ok := rt.Underlying().(*types.Struct)
			if !ok {
				return
			}
			T := core.RecvTypeName(fd)
			var all []string
			for i := 0; i < st.NumFields(); i++ {
				all = append(all, st.Field(i).Name())
			}
			if len(genOf(fd.Body, recv, all, 0)) == 0 {
				return // the receiver is filled through other objects' methods only (value-type scalars: SetFloat64 on a pointer field)
			}
			n++
			cons := c.FuncName(pkg, fd)
			g := core.NewFuncCFG(fd.Body, info)
			nb := len(g.G.Blocks)
			full := map[string]bool{}
			for _, f := range all {
				full[f] = true
			}
			out := make([]map[string]bool, nb)
			gen := make([]map[string]bool, nb)
			for _, b := range g.G.Blocks {
				gen[b.Index] = map[string]bool{}
				for _, nd := range b.Nodes {
					for f := range genOf(nd, recv, all, 0) {
						gen[b.Index][f] = true
					}
				}
				out[b.Index] = full // top
			}
			preds := make([][]int32, nb)
			for _, b := range g.G.Blocks {
				for _, s := range b.Succs {
					preds[s.Index] = append(preds[s.Index], b.Index)
				}
			}
			in := make([]map[string]bool, nb)
			for changed := true; changed; {
				changed = false
				for _, b := range g.G.Blocks {
					if !g.Reachable(b) {
						continue
					}
					var cur map[string]bool
					if b.Index == 0 {
						cur = map[string]bool{}
					} else {
						first := true
						for _, pi := range preds[b.Index] {
							if !g.Reachable(g.G.Blocks[pi]) {
								continue
							}
							if first {
								cur = map[string]bool{}
								for f := range out[pi] {
									cur[f] = true
								}
								first = false
							} else {
								for f := range cur {
									if !out[pi][f] {
										delete(cur, f)
									}
								}
							}
						}
						if cur == nil {
							cur = map[string]bool{}
						}
					}
					in[b.Index] = cur
					no := map[string]bool{}
					for f := range cur {
						no[f] = true
					}
					for f := range gen[b.Index] {
						no[f] = true
					}
					if len(no) != len(out[b.Index]) {
						out[b.Index] = no
						changed = true
					}
				}
			}
			// successful returns: `return nil` and tail calls; `return err` / `return fmt.Errorf(...)` are failures
			missing := map[string]token.Pos{}
			nSucc := 0
			for b, rs := range g.ReturnBlocks() {
				if len(rs.Results) != 1 {
					continue
				}
				success := false
				switch r := ast.Unparen(rs.Results[0]).(type) {
				case *ast.Ident:
					success = r.Name == "nil"
				case *ast.CallExpr:
					if callee := core.Callee(info, r); callee != nil && callee.Pkg() != nil {
						full := callee.Pkg().Path() + "." + callee.Name()
						success = full != "fmt.Errorf" && full != "errors.New"
					}
				}
				if !success {
					continue
				}
				nSucc++
				for _, f := range all {
					if !out[b.Index][f] {
						if _, seen := missing[f]; !seen || rs.Pos() < missing[f] {
							missing[f] = rs.Pos()
						}
					}
				}
			}
			if nSucc == 0 {
				c.Unknown("C18.R8", cons, "decoder has a successful return", fd.Pos(), "no `return nil` or tail call found")
				return
			}
			for _, f := range all {
				if why, ok := c18DecoderKeeps[T+"."+f]; ok {
					c.OK("C18.R8", cons, "field "+f+" is overwritten", fd.Pos(), "kept by review: "+why)
					continue
				}
				pos, miss := missing[f]
				c.Check(!miss, "C18.R8", cons, "field "+f+" is overwritten", pos,
					"the decoder assigns the decoded payload to other fields of "+T+" but there is a successful return before which "+f+" is never assigned: a receiver that held a value before keeps its old "+f+" on that path, so the decoded object depends on the receiver's previous state instead of on the input alone")
			}
		})
	}
	c.Analysed["field_by_field_decoders"] = n
}

// ---------------------------------------------------------------------------
// R9: no crossed pair between wire fields and receiver fields
//
// A codec moves values between a wire struct (`struct{Values ...; Rows int; Cols int}`) and the receiver's fields. If
// two moves are crossed — the wire field Rows goes to (comes from) the receiver field cols while Cols goes to rows —
// every length test still passes and the object is silently transposed or otherwise permuted. The rule looks only at
// pairs: field f1 is named like wire field W2 and f2 like W1 (case-insensitive, plural/singular and a Max/Offset suffix
// ignored), with W1 != W2. A single unusual name (n for Length) is never reported.
func c18CrossedFields(c *core.Ctx) {
	c.Rule("C18.R9", "JSON codecs do not cross like-named fields: no pair (wire W1 <-> field named like W2, wire W2 <-> field named like W1)", 30)
	stem := func(s string) string {
		s = strings.ToLower(s)
		for _, suf := range []string{"max", "offset"} {
			s = strings.TrimSuffix(s, suf)
		}
		return strings.TrimSuffix(s, "s")
	}
	for _, p := range c.LibPkgs() {
		if p.PkgPath != "github.com/pbenner/autodiff" {
			continue
		}
		info := p.TypesInfo
		pkg := p
		core.EachFunc(p, func(_ *ast.File, fd *ast.FuncDecl) {
			if (fd.Name.Name != "UnmarshalJSON" && fd.Name.Name != "MarshalJSON") || fd.Recv == nil || len(fd.Recv.List) == 0 || len(fd.Recv.List[0].Names) == 0 {
				return
			}
			recv := info.Defs[fd.Recv.List[0].Names[0]]
			type move struct {
				wire, field string
				pos         token.Pos
			}
			var moves []move
			recvField := func(e ast.Expr) string {
				if sel, ok := ast.Unparen(e).(*ast.SelectorExpr); ok {
					if id, ok := ast.Unparen(sel.X).(*ast.Ident); ok && info.Uses[id] == recv {
						return sel.Sel.Name
					}
				}
				return ""
			}
			wireField := func(e ast.Expr) string {
				if sel, ok := ast.Unparen(e).(*ast.SelectorExpr); ok {
					if id, ok := ast.Unparen(sel.X).(*ast.Ident); ok && info.Uses[id] != recv {
						if v, ok := info.Uses[id].(*types.Var); ok {
							if _, isStruct := v.Type().Underlying().(*types.Struct); isStruct {
								return sel.Sel.Name
							}
						}
					}
				}
				return ""
			}
			ast.Inspect(fd.Body, func(x ast.Node) bool {
				switch v := x.(type) {
				case *ast.AssignStmt:
					if len(v.Lhs) == len(v.Rhs) {
						for i := range v.Lhs {
							if f, w := recvField(v.Lhs[i]), wireField(v.Rhs[i]); f != "" && w != "" {
								moves = append(moves, move{w, f, v.Pos()})
							}
							if w, f := wireField(v.Lhs[i]), recvField(v.Rhs[i]); f != "" && w != "" {
								moves = append(moves, move{w, f, v.Pos()})
							}
						}
					}
				case *ast.CompositeLit:
					if _, ok := v.Type.(*ast.StructType); ok {
						for _, el := range v.Elts {
							if kv, ok := el.(*ast.KeyValueExpr); ok {
								if k, ok := kv.Key.(*ast.Ident); ok {
									if f := recvField(kv.Value); f != "" {
										moves = append(moves, move{k.Name, f, kv.Pos()})
									}
								}
							}
						}
					}
				}
				return true
			})
			cons := c.FuncName(pkg, fd)
			bad := ""
			var bpos token.Pos
			for i := range moves {
				for j := i + 1; j < len(moves); j++ {
					a, b := moves[i], moves[j]
					if a.wire == b.wire || stem(a.wire) == stem(b.wire) {
						continue
					}
					if stem(a.field) == stem(b.wire) && stem(b.field) == stem(a.wire) {
						bad = a.wire + " <-> " + a.field + " and " + b.wire + " <-> " + b.field
						bpos = a.pos
					}
				}
			}
			if len(moves) >= 2 {
				c.Check(bad == "", "C18.R9", cons, "no crossed pair of like-named fields", bpos,
					"the codec crosses two fields ("+bad+"): all length tests still pass, but the decoded object is not the encoded one (transposed dimensions or swapped components)")
			}
		})
	}
}

// ---------------------------------------------------------------------------
// R10: encoders do not change the object they encode
//
// "Reading it back yields an object observably equal to the original" presupposes that writing leaves the original as
// it was. The interprocedural may-write summaries (engine eff, as in C12) of every encoder — ExportConfig, MarshalJSON,
// Export — must contain no write that reaches the receiver (an in-place Map(exp) on the receiver's own log-weights
// instead of on a clone corrupts the source while the written document is still right).
func c18EncodersPure(c *core.Ctx) {
	c.Rule("C18.R10", "encoders (ExportConfig, MarshalJSON, Export) write nothing that is reachable from their receiver", 100)
	e := eff.New(c.LibPkgs(), c.Fset)
	n := 0
	for _, f := range e.All {
		if f.Decl == nil || f.Decl.Recv == nil {
			continue
		}
		switch f.Decl.Name.Name {
		case "ExportConfig", "MarshalJSON", "Export":
		default:
			continue
		}
		if len(f.Params) == 0 || f.Params[0] == nil {
			continue
		}
		n++
		var ws []eff.Write
		for _, w := range observableWrites(f.WritesOf(f.Params[0])) {
			// iterators advance their own state and sparse iterators drop explicitly stored zeros while they pass over them: a change of representation, not of
			// the value (reported under C12.R5 where it matters: concurrent readers)
			if strings.Contains(describeWrite(c, w), "Iterator).") {
				continue
			}
			ws = append(ws, w)
		}
		if len(ws) == 0 {
			c.OK("C18.R10", f.Name, "receiver not written", f.Decl.Pos(), "")
		} else {
			c.Fail("C18.R10", f.Name, "receiver not written", ws[0].Pos, "the encoder may write the object it encodes: "+describeWrite(c, ws[0])+" (the original is no longer what was written, so the decoded object differs from it)")
		}
	}
	c.Analysed["encoders"] = n
}

// ---------------------------------------------------------------------------
// R11: an encoder does not hand its own receiver back to the generic encoder
//
// `func (obj T) MarshalJSON() ([]byte, error) { return json.Marshal(obj) }` never returns: json.Marshal finds that T
// implements json.Marshaler and calls MarshalJSON again. Every argument of json.Marshal inside a MarshalJSON method must
// therefore have a type other than the receiver's (a conversion to the underlying number, a wire struct).
func c18NoSelfMarshal(c *core.Ctx) {
	c.Rule("C18.R11", "MarshalJSON does not pass a value of its own receiver type to json.Marshal (unbounded recursion)", 12)
	c.Rule("C18.R12", "every accessor of a decoded configuration (methods of ConfigDistribution) reads all of its parameters (name, type, shape)", 20)
	c.Rule("C18.R13", "registry factories (NewScalarPdf, NewVectorPdf, NewMatrixPdf, ...) return a fresh object: the registered prototype reaches the result only through its type", 3)
	for _, p := range c.LibPkgs() {
		info := p.TypesInfo
		pkg := p
		core.EachFunc(p, func(_ *ast.File, fd *ast.FuncDecl) {
			if fd.Name.Name != "MarshalJSON" || fd.Recv == nil || len(fd.Recv.List) == 0 || len(fd.Recv.List[0].Names) == 0 {
				return
			}
			recv := info.Defs[fd.Recv.List[0].Names[0]]
			if recv == nil {
				return
			}
			rt := recv.Type()
			if pt, ok := rt.(*types.Pointer); ok {
				rt = pt.Elem()
			}
			bad := ""
			var pos token.Pos
			n := 0
			ast.Inspect(fd.Body, func(x ast.Node) bool {
				ce, ok := x.(*ast.CallExpr)
				if !ok || len(ce.Args) != 1 {
					return true
				}
				fn := core.Callee(info, ce)
				if fn == nil || fn.Pkg() == nil || fn.Pkg().Path() != "encoding/json" || fn.Name() != "Marshal" {
					return true
				}
				n++
				if tv, ok := info.Types[ce.Args[0]]; ok {
					at := tv.Type
					if pt, ok := at.(*types.Pointer); ok {
						at = pt.Elem()
					}
					if types.Identical(at, rt) {
						bad = exprStr(ce.Args[0])
						pos = ce.Pos()
					}
				}
				return true
			})
			if n == 0 {
				return
			}
			c.Check(bad == "", "C18.R11", c.FuncName(pkg, fd), "json.Marshal is not called on the receiver's own type", pos,
				"MarshalJSON passes "+bad+", a value of its own receiver type, to json.Marshal: the generic encoder calls MarshalJSON again and the call never returns (stack overflow on every encoding of this type)")
		})
	}
}

// c18IntParse (part of R3): a reader that stores its parsed numbers as 64-bit integers (int64(value), int(value)) must
// not obtain them with strconv.ParseFloat: a float64 holds 53 bits, so integers beyond 2^53 written by the exporter come
// back changed.
func c18IntParse(c *core.Ctx) {
	for _, p := range c.LibPkgs() {
		if p.PkgPath != core.RootPkg {
			continue
		}
		info := p.TypesInfo
		pkg := p
		core.EachFunc(p, func(_ *ast.File, fd *ast.FuncDecl) {
			if !strings.HasPrefix(fd.Name.Name, "Import") {
				return
			}
			// locals assigned from ParseFloat
			type pfloat struct {
				pos  token.Pos
				text string
			}
			parsed := map[types.Object]pfloat{}
			ast.Inspect(fd.Body, func(x ast.Node) bool {
				as, ok := x.(*ast.AssignStmt)
				if !ok || len(as.Rhs) != 1 {
					return true
				}
				ce, ok := ast.Unparen(as.Rhs[0]).(*ast.CallExpr)
				if !ok {
					return true
				}
				if fn := core.Callee(info, ce); fn != nil && fn.Pkg() != nil && fn.Pkg().Path() == "strconv" && fn.Name() == "ParseFloat" {
					if id, ok := as.Lhs[0].(*ast.Ident); ok {
						o := info.Defs[id]
						if o == nil {
							o = info.Uses[id]
						}
						if o != nil {
							parsed[o] = pfloat{ce.Pos(), types.ExprString(ce.Args[0])}
						}
					}
				}
				return true
			})
			if len(parsed) == 0 {
				return
			}
			// exact parses of the same text: strconv.ParseInt(text, 10, 64) whose value is stored
			type exact struct {
				pos  token.Pos
				text string
			}
			var exacts []exact
			ast.Inspect(fd.Body, func(x ast.Node) bool {
				as, ok := x.(*ast.AssignStmt)
				if !ok || len(as.Rhs) != 1 {
					return true
				}
				ce, ok := ast.Unparen(as.Rhs[0]).(*ast.CallExpr)
				if !ok || len(ce.Args) != 3 {
					return true
				}
				fn := core.Callee(info, ce)
				if fn == nil || fn.Pkg() == nil || fn.Pkg().Path() != "strconv" || (fn.Name() != "ParseInt" && fn.Name() != "ParseUint") {
					return true
				}
				if b, ok := core.ConstInt(info, ce.Args[1]); !ok || b != 10 {
					return true
				}
				if b, ok := core.ConstInt(info, ce.Args[2]); !ok || b != 64 {
					return true
				}
				id, ok := as.Lhs[0].(*ast.Ident)
				if !ok || id.Name == "_" {
					return true
				}
				o := info.Defs[id]
				if o == nil {
					o = info.Uses[id]
				}
				stored := false
				ast.Inspect(fd.Body, func(y ast.Node) bool {
					if c2, ok := y.(*ast.CallExpr); ok {
						for _, a := range c2.Args {
							ast.Inspect(a, func(z ast.Node) bool {
								if i2, ok := z.(*ast.Ident); ok && info.Uses[i2] == o {
									stored = true
								}
								return true
							})
						}
					}
					return true
				})
				if stored {
					exacts = append(exacts, exact{ce.Pos(), types.ExprString(ce.Args[0])})
				}
				return true
			})
			g := core.NewFuncCFG(fd.Body, info)
			bad := token.NoPos
			wide := ""
			ast.Inspect(fd.Body, func(x ast.Node) bool {
				ce, ok := x.(*ast.CallExpr)
				if !ok || len(ce.Args) != 1 {
					return true
				}
				tv, ok := info.Types[ce.Fun]
				if !ok || !tv.IsType() {
					return true
				}
				bt, ok := tv.Type.Underlying().(*types.Basic)
				if !ok || (bt.Kind() != types.Int64 && bt.Kind() != types.Int && bt.Kind() != types.Uint64) {
					return true
				}
				if id, ok := ast.Unparen(ce.Args[0]).(*ast.Ident); ok {
					if pf, ok := parsed[info.Uses[id]]; ok {
						covered := false
						for _, e := range exacts {
							if e.text == pf.text && g.NodeDominates(e.pos, pf.pos) {
								covered = true
							}
						}
						if !covered {
							bad = pf.pos
							wide = bt.Name()
						}
					}
				}
				return true
			})
			c.Check(bad == token.NoPos, "C18.R3", c.FuncName(pkg, fd), "64-bit integer elements are not parsed through float64 alone", bad,
				"the reader parses an element with strconv.ParseFloat and stores it as "+wide+" without first trying strconv.ParseInt(text, 10, 64) on the same text: integers beyond 2^53 written by the exporter are rounded on the way back")
		})
	}
}

// c18AccessorsReadInputs (R12): the readers of a decoded configuration (methods of ConfigDistribution) use every one of
// their inputs: an accessor that ignores the parameter name (or the requested shape) hands every importer the wrong
// entry or fails on every document its exporter writes.
func c18AccessorsReadInputs(c *core.Ctx) {
	p := c.Pkg("statistics")
	if p == nil {
		c.Unknown("C18.R12", "statistics", "package loaded", token.NoPos, "not loaded")
		return
	}
	paramsAreRead(c, "C18.R12", p, func(fd *ast.FuncDecl) bool { return core.RecvTypeName(fd) == "ConfigDistribution" },
		"the importer that calls this accessor gets something that does not depend on the entry it asked for, so the exported configuration is not read back")
}

// c18FactoriesFresh (R13): the factories that turn a registered name into an object for ImportConfig return a NEW object of
// the registered type. Every importer ends with `*obj = *tmp`, so a factory that hands out the registry's prototype makes
// all decoded distributions of one family the same object: the second import overwrites the first.
// Decided on the value flow of the return: the entry read from the registry may reach the result only through
// reflect.TypeOf (its type), and the result is produced by reflect.New or a constructor call.
func c18FactoriesFresh(c *core.Ctx) {
	p := c.Pkg("statistics")
	if p == nil {
		c.Unknown("C18.R13", "statistics", "package loaded", token.NoPos, "not loaded")
		return
	}
	info := p.TypesInfo
	core.EachFunc(p, func(_ *ast.File, fd *ast.FuncDecl) {
		if fd.Recv != nil || !strings.HasPrefix(fd.Name.Name, "New") {
			return
		}
		// x, ok := SomeRegistry[name]
		var proto types.Object
		ast.Inspect(fd.Body, func(n ast.Node) bool {
			as, ok := n.(*ast.AssignStmt)
			if !ok || len(as.Lhs) != 2 || len(as.Rhs) != 1 {
				return true
			}
			ix, ok := ast.Unparen(as.Rhs[0]).(*ast.IndexExpr)
			if !ok {
				return true
			}
			if id, ok := ast.Unparen(ix.X).(*ast.Ident); ok && strings.HasSuffix(id.Name, "Registry") {
				if l, ok := as.Lhs[0].(*ast.Ident); ok {
					proto = info.Defs[l]
				}
			}
			return true
		})
		if proto == nil {
			return
		}
		cons := c.FuncName(p, fd)
		bad := token.NoPos
		fresh := false
		ast.Inspect(fd.Body, func(n ast.Node) bool {
			rs, ok := n.(*ast.ReturnStmt)
			if !ok || len(rs.Results) != 1 {
				return true
			}
			if types.ExprString(rs.Results[0]) == "nil" {
				return true
			}
			// every use of the prototype inside the returned expression is the argument of reflect.TypeOf
			var stack []ast.Node
			ast.Inspect(rs.Results[0], func(m ast.Node) bool {
				if m == nil {
					stack = stack[:len(stack)-1]
					return true
				}
				stack = append(stack, m)
				if ce, ok := m.(*ast.CallExpr); ok {
					if fn := core.Callee(info, ce); fn != nil && fn.Pkg() != nil && fn.Pkg().Path() == "reflect" && fn.Name() == "New" {
						fresh = true
					}
				}
				if id, ok := m.(*ast.Ident); ok && info.Uses[id] == proto {
					okUse := false
					if len(stack) >= 2 {
						if ce, ok := stack[len(stack)-2].(*ast.CallExpr); ok {
							if fn := core.Callee(info, ce); fn != nil && fn.Pkg() != nil && fn.Pkg().Path() == "reflect" && fn.Name() == "TypeOf" {
								okUse = true
							}
						}
					}
					if !okUse && bad == token.NoPos {
						bad = id.Pos()
					}
				}
				return true
			})
			return true
		})
		c.Check(bad == token.NoPos && fresh, "C18.R13", cons, "result is a new object of the registered type", func() token.Pos {
			if bad != token.NoPos {
				return bad
			}
			return fd.Pos()
		}(), "the factory returns (something derived from) the registered prototype itself instead of reflect.New of its type: every distribution of this family decoded in one process is the same object, and importing a second one overwrites the first")
	})
}

// c18AccessorShapes (R5, configuration accessors): an accessor that builds an n x m matrix from a decoded list of numbers
// compares the length of the list with n*m first. The dense matrix constructor stores values and shape as given, so a
// truncated or inconsistent configuration otherwise yields a matrix whose first access panics (index out of range) instead
// of an "invalid config" error from the importer.
func c18AccessorShapes(c *core.Ctx) {
	p := c.Pkg("statistics")
	if p == nil {
		return
	}
	info := p.TypesInfo
	core.EachFunc(p, func(_ *ast.File, fd *ast.FuncDecl) {
		if fd.Recv == nil || core.RecvTypeName(fd) != "ConfigDistribution" || !strings.HasSuffix(fd.Name.Name, "AsMatrix") {
			return
		}
		// the two dimension parameters
		var dims []types.Object
		for _, f := range fd.Type.Params.List {
			for _, nm := range f.Names {
				if b, ok := info.Defs[nm].Type().Underlying().(*types.Basic); ok && b.Info()&types.IsInteger != 0 {
					dims = append(dims, info.Defs[nm])
				}
			}
		}
		if len(dims) != 2 {
			return
		}
		guarded := false
		ast.Inspect(fd.Body, func(n ast.Node) bool {
			be, ok := n.(*ast.BinaryExpr)
			if !ok {
				return true
			}
			switch be.Op {
			case token.EQL, token.NEQ, token.LSS, token.GTR, token.LEQ, token.GEQ:
			default:
				return true
			}
			hasLen, nd := false, map[types.Object]bool{}
			ast.Inspect(be, func(m ast.Node) bool {
				if ce, ok := m.(*ast.CallExpr); ok {
					if id, ok := ce.Fun.(*ast.Ident); ok && id.Name == "len" {
						hasLen = true
					}
				}
				if id, ok := m.(*ast.Ident); ok {
					for _, d := range dims {
						if info.Uses[id] == d {
							nd[d] = true
						}
					}
				}
				return true
			})
			if hasLen && len(nd) == 2 {
				guarded = true
			}
			return true
		})
		c.Check(guarded, "C18.R5", c.FuncName(p, fd), "length of the decoded list compared with the requested shape", fd.Pos(),
			"the accessor builds a matrix of the requested shape from the decoded numbers without comparing their count with rows*cols: a truncated configuration gives a matrix whose first element access panics instead of an import error")
	})
}

// c18SubDistributionCount (R14): an ImportConfig that stores the decoded list of sub-distributions straight into a field of
// its receiver (instead of handing it to a constructor that validates it) compares the length of that list with the number
// of components or states the rest of the configuration defines. Otherwise a configuration with a missing entry imports
// without error and the first LogPdf indexes past the end of the list.
func c18SubDistributionCount(c *core.Ctx) {
	c.Rule("C18.R14", "ImportConfig that stores decoded sub-distributions into a field validates their number", 6)
	for _, p := range c.LibPkgs() {
		if !strings.Contains(p.PkgPath, "/statistics/") {
			continue
		}
		info := p.TypesInfo
		pkg := p
		core.EachFunc(p, func(_ *ast.File, fd *ast.FuncDecl) {
			if fd.Recv == nil || fd.Name.Name != "ImportConfig" || len(fd.Recv.List[0].Names) == 0 {
				return
			}
			robj := info.Defs[fd.Recv.List[0].Names[0]]
			// locals sized by len(config.Distributions)
			lists := map[types.Object]bool{}
			ast.Inspect(fd.Body, func(n ast.Node) bool {
				as, ok := n.(*ast.AssignStmt)
				if !ok || len(as.Lhs) != 1 || len(as.Rhs) != 1 {
					return true
				}
				if strings.Contains(types.ExprString(as.Rhs[0]), "len(config.Distributions)") {
					if id, ok := as.Lhs[0].(*ast.Ident); ok {
						if o := info.Defs[id]; o != nil {
							lists[o] = true
						}
					}
				}
				return true
			})
			if len(lists) == 0 {
				return
			}
			// stored into a field of the receiver?
			var store token.Pos
			ast.Inspect(fd.Body, func(n ast.Node) bool {
				as, ok := n.(*ast.AssignStmt)
				if !ok || len(as.Lhs) != 1 || len(as.Rhs) != 1 {
					return true
				}
				sel, ok := as.Lhs[0].(*ast.SelectorExpr)
				if !ok {
					return true
				}
				if id, ok := ast.Unparen(sel.X).(*ast.Ident); !ok || info.Uses[id] != robj {
					return true
				}
				if rid, ok := ast.Unparen(as.Rhs[0]).(*ast.Ident); ok && lists[info.Uses[rid]] {
					store = as.Pos()
				}
				return true
			})
			if store == token.NoPos {
				return
			}
			checked := false
			loopConds := map[ast.Expr]bool{}
			ast.Inspect(fd.Body, func(n ast.Node) bool {
				if fs, ok := n.(*ast.ForStmt); ok && fs.Cond != nil {
					loopConds[fs.Cond] = true
				}
				return true
			})
			ast.Inspect(fd.Body, func(n ast.Node) bool {
				be, ok := n.(*ast.BinaryExpr)
				if !ok || loopConds[be] {
					return true
				}
				switch be.Op {
				case token.EQL, token.NEQ, token.LSS, token.GTR, token.LEQ, token.GEQ:
					s := types.ExprString(be)
					if strings.Contains(s, "len(config.Distributions)") {
						checked = true
					}
					for o := range lists {
						if strings.Contains(s, "len("+o.Name()+")") {
							checked = true
						}
					}
				}
				return true
			})
			c.Check(checked, "C18.R14", c.FuncName(pkg, fd), "number of decoded sub-distributions validated", store,
				"the decoded list of sub-distributions is stored into the receiver without comparing its length with the number of components/states of the imported model: a configuration with a missing entry imports without error and the first LogPdf indexes past the end of the list")
		})
	}
}

// c18RecursiveExport (R15): an exporter of a recursive structure (a method that calls itself on the children of its
// receiver) keeps the nesting: the result of the recursive call is added as ONE element. Splicing it into the parent's list
// (append(r, child.Export().([]T)...)) flattens every level below the root, and the importer rebuilds a different tree.
func c18RecursiveExport(c *core.Ctx) {
	c.Rule("C18.R15", "recursive exporters add the export of a child as one element (no splicing of the child's list into the parent's)", 1)
	for _, p := range c.LibPkgs() {
		if !strings.Contains(p.PkgPath, "/statistics") {
			continue
		}
		info := p.TypesInfo
		pkg := p
		core.EachFunc(p, func(_ *ast.File, fd *ast.FuncDecl) {
			if fd.Recv == nil || !strings.HasPrefix(fd.Name.Name, "Export") {
				return
			}
			self, _ := info.Defs[fd.Name].(*types.Func)
			recursive := false
			bad := token.NoPos
			ast.Inspect(fd.Body, func(n ast.Node) bool {
				ce, ok := n.(*ast.CallExpr)
				if !ok {
					return true
				}
				if fn := core.Callee(info, ce); fn != nil && fn == self {
					recursive = true
				}
				// append(r, <something containing a recursive call>...)
				if id, ok := ce.Fun.(*ast.Ident); ok && id.Name == "append" && ce.Ellipsis.IsValid() && len(ce.Args) == 2 {
					inner := false
					ast.Inspect(ce.Args[1], func(m ast.Node) bool {
						if c2, ok := m.(*ast.CallExpr); ok {
							if fn := core.Callee(info, c2); fn != nil && fn == self {
								inner = true
							}
						}
						return true
					})
					if inner {
						bad = ce.Pos()
					}
				}
				return true
			})
			if !recursive {
				return
			}
			c.Check(bad == token.NoPos, "C18.R15", c.FuncName(pkg, fd), "child exports are nested, not spliced", func() token.Pos {
				if bad != token.NoPos {
					return bad
				}
				return fd.Pos()
			}(), "the list exported for a child is spliced into the parent's list: every level of the tree below the root is lost, and the importer rebuilds a flat tree (a different model)")
		})
	}
}
