package checks

import (
	"fmt"
	"go/ast"
	"go/token"
	"go/types"
	"sort"

	"golang.org/x/tools/go/packages"

	"verif/internal/core"
	"verif/internal/sym"
	"verif/internal/vn"
)

// pairLocals pairs the local variables (and parameters) of two twin routines: equal names first, the remaining ones of
// the same type in declaration order (the twins declare their state in the same order; a rename in one of them must not
// matter). Returns log-twin name -> linear-twin name.
func pairLocals(info *types.Info, fl, fg *ast.FuncDecl) map[string]string {
	collect := func(fd *ast.FuncDecl) []*types.Var {
		var vs []*types.Var
		seen := map[string]bool{}
		ast.Inspect(fd, func(n ast.Node) bool {
			if id, ok := n.(*ast.Ident); ok {
				if v, ok := info.Defs[id].(*types.Var); ok && !v.IsField() && !seen[v.Name()] && v.Name() != "_" {
					seen[v.Name()] = true
					vs = append(vs, v)
				}
			}
			return true
		})
		sort.Slice(vs, func(i, j int) bool { return vs[i].Pos() < vs[j].Pos() })
		return vs
	}
	vl, vg := collect(fl), collect(fg)
	linNames := map[string]bool{}
	for _, v := range vl {
		linNames[v.Name()] = true
	}
	logNames := map[string]bool{}
	for _, v := range vg {
		logNames[v.Name()] = true
	}
	pair := map[string]string{}
	restL := map[string][]string{}
	for _, v := range vl {
		if !logNames[v.Name()] {
			restL[v.Type().String()] = append(restL[v.Type().String()], v.Name())
		}
	}
	for _, v := range vg {
		if linNames[v.Name()] {
			pair[v.Name()] = v.Name()
			continue
		}
		t := v.Type().String()
		if len(restL[t]) > 0 {
			pair[v.Name()] = restL[t][0]
			restL[t] = restL[t][1:]
		}
	}
	return pair
}

// checkTailTwin: the statements that follow the first (top-level) loop of a linear-domain routine and of its
// log-domain twin are interpreted from a generic state. Variables that enter the tail are paired by name; every
// floating-point local is held either as the same number or as a logarithm in the log twin (all assignments of the
// two relations are tried). The rule holds when, for some assignment, every path through the log-domain tail returns
// values that are the logarithms of the values some path through the linear tail returns (overflow branches of the
// linear routine have no log-domain counterpart and are ignored).
func checkTailTwin(c *core.Ctx, p *packages.Package, d *declIndex, linName, logName string, opaque map[string]string) (relation map[string]bool) {
	cons := "special." + logName
	detail := "results computed after the recurrence loop"
	fl, fg := findFuncDecl(p, linName), findFuncDecl(p, logName)
	if fl == nil || fg == nil {
		c.Unknown("C13.R4", cons, detail, token.NoPos, "twins not found")
		return nil
	}
	info := p.TypesInfo
	type tailVars struct {
		tail  []ast.Stmt
		in    map[string]types.Object
		live  map[string]bool // first textual occurrence in the tail is a read
		start token.Pos
	}
	analyse := func(fd *ast.FuncDecl) *tailVars {
		k := -1
		for i, s := range fd.Body.List {
			if _, ok := s.(*ast.ForStmt); ok {
				k = i
				break
			}
		}
		if k < 0 || k+1 >= len(fd.Body.List) {
			return nil
		}
		tv := &tailVars{tail: fd.Body.List[k+1:], in: map[string]types.Object{}, live: map[string]bool{}, start: fd.Body.List[k+1].Pos()}
		lhs := map[*ast.Ident]bool{}
		lhsEnd := map[*ast.Ident]token.Pos{}
		for _, s := range tv.tail {
			ast.Inspect(s, func(n ast.Node) bool {
				if as, ok := n.(*ast.AssignStmt); ok && as.Tok == token.ASSIGN {
					for _, l := range as.Lhs {
						if id, ok := l.(*ast.Ident); ok {
							lhs[id] = true
							lhsEnd[id] = as.End()
						}
					}
				}
				return true
			})
		}
		first := map[string]token.Pos{}
		for _, s := range tv.tail {
			ast.Inspect(s, func(n ast.Node) bool {
				if id, ok := n.(*ast.Ident); ok {
					if v, ok := info.Uses[id].(*types.Var); ok && v.Pkg() != nil && v.Parent() != v.Pkg().Scope() && !v.IsField() && v.Pos() < tv.start {
						tv.in[v.Name()] = v
						// an assignment's right-hand side is evaluated before its target
						pos := id.Pos()
						if lhs[id] {
							pos = lhsEnd[id]
						}
						if q, has := first[v.Name()]; !has || pos < q {
							first[v.Name()] = pos
							tv.live[v.Name()] = !lhs[id]
						}
					}
				}
				return true
			})
		}
		return tv
	}
	tl, tg := analyse(fl), analyse(fg)
	if tl == nil || tg == nil {
		c.Unknown("C13.R4", cons, detail, fg.Pos(), "no top-level loop followed by statements in one of the twins")
		return nil
	}
	pairing := pairLocals(info, fl, fg)
	isParam := func(fd *ast.FuncDecl, o types.Object) bool {
		for _, f := range fd.Type.Params.List {
			for _, n := range f.Names {
				if info.Defs[n] == o {
					return true
				}
			}
		}
		return false
	}
	isFloat := func(o types.Object) bool {
		b, ok := o.Type().Underlying().(*types.Basic)
		return ok && b.Info()&types.IsFloat != 0
	}
	isBool := func(o types.Object) bool {
		b, ok := o.Type().Underlying().(*types.Basic)
		return ok && b.Info()&types.IsBoolean != 0
	}
	var cand []string
	for nm, o := range tg.in {
		ln, has := pairing[nm]
		if !has {
			continue
		}
		if ol, ok := tl.in[ln]; ok && isFloat(o) && isFloat(ol) && !isParam(fg, o) && tg.live[nm] && tl.live[ln] {
			cand = append(cand, nm)
		}
	}
	sort.Strings(cand)
	if len(cand) == 0 || len(cand) > 8 {
		c.Unknown("C13.R4", cons, detail, fg.Pos(), fmt.Sprintf("%d floating-point locals enter the tail", len(cand)))
		return nil
	}
	run := func(fd *ast.FuncDecl, tv *tailVars, logSet map[string]bool) ([]*vn.Path, *vn.Undecided) {
		env := map[types.Object]vn.Value{}
		for nm, o := range tv.in {
			// both twins are run on the symbols named after the linear twin's variables
			sn := nm
			if fd == fg {
				if ln, ok := pairing[nm]; ok {
					sn = ln
				}
			}
			switch {
			case isBool(o):
				env[o] = &vn.BoolVal{C: &vn.Cond{Op: "param", A: sym.Sym(sn)}}
			case logSet[nm]:
				env[o] = sym.Fn("log", sym.Sym(sn))
			default:
				env[o] = sym.Sym(sn)
			}
		}
		cfg := vn.Config{Pkg: p, TypeName: "Real64", Spec: distSpec, InlineOps: inlineOps, Decl: d.find, MaxDepth: 6, FiniteSyms: true, UnrollConst: true,
			CallHook: specialHook(opaque), GlobalSyms: true, Body: tv.tail, Env: env}
		return vn.Run(cfg, fd)
	}
	pl, und := run(fl, tl, nil)
	if und != nil {
		c.Unknown("C13.R4", cons, detail, und.Pos, linName+": "+und.Msg)
		return nil
	}
	rets := func(pa *vn.Path) []*sym.Term {
		tu, ok := pa.Ret.(vn.Tuple)
		if !ok {
			if t, ok := pa.Ret.(*sym.Term); ok {
				return []*sym.Term{t}
			}
			return nil
		}
		var r []*sym.Term
		for _, v := range tu {
			t, ok := v.(*sym.Term)
			if !ok {
				return nil
			}
			r = append(r, t)
		}
		return r
	}
	bestMsg, bestHits := "", -1
	npaths := 0
	// exp(NaN) is NaN ("any value will do" results of a kind that was not requested)
	nanFix := map[*sym.Atom]*sym.Term{}
	if as := sym.Fn("exp", sym.Sym("NaN")).Atoms(); len(as) == 1 {
		nanFix[as[0]] = sym.Sym("NaN")
	}
	// assignments with few "same number" relations first
	var masks []int
	for mask := 0; mask < 1<<len(cand); mask++ {
		masks = append(masks, mask)
	}
	pop := func(m int) int {
		n := 0
		for ; m != 0; m &= m - 1 {
			n++
		}
		return n
	}
	sort.SliceStable(masks, func(i, j int) bool { return pop(masks[i]) < pop(masks[j]) })
	for _, mask := range masks {
		logSet := map[string]bool{}
		for b, nm := range cand {
			if mask&(1<<b) == 0 {
				logSet[nm] = true
			}
		}
		pg, und := run(fg, tg, logSet)
		if und != nil {
			c.Unknown("C13.R4", cons, detail, und.Pos, logName+": "+und.Msg)
			return nil
		}
		npaths = len(pg)
		hits := 0
		msg := ""
		for _, gp := range pg {
			if gp.Panic {
				hits++
				continue
			}
			rg := rets(gp)
			for i := range rg {
				rg[i] = sym.Subst(rg[i], nanFix)
			}
			if rg == nil {
				msg = "a path of " + logName + " returns no numbers"
				continue
			}
			found := false
			for _, lp := range pl {
				rl := rets(lp)
				if lp.Panic || len(rl) != len(rg) {
					continue
				}
				all := true
				for i := range rg {
					if !logOfTerm(rg[i], rl[i]) {
						all = false
						break
					}
				}
				if all {
					found = true
					break
				}
			}
			if found {
				hits++
			} else if msg == "" {
				s := ""
				for _, t := range rg {
					s += clip(t.String(), 200) + "; "
				}
				msg = fmt.Sprintf("on the path [%s] %s returns %s which is not the logarithm of what any path of %s returns", clip(gp.CondString(), 200), logName, s, linName)
			}
		}
		if hits == len(pg) && len(pg) > 0 {
			c.Analysed["tail_twin_paths:"+logName] = len(pg)
			c.OK("C13.R4", cons, detail, tg.start, "")
			return logSet
		}
		if hits > bestHits {
			bestHits, bestMsg = hits, msg
		}
	}
	c.Fail("C13.R4", cons, detail, tg.start, fmt.Sprintf("no assignment of relations (logarithm / same number) to %v makes the log-domain tail return the logarithms of the linear results; best assignment matches %d of %d paths: %s", cand, bestHits, npaths, bestMsg))
	return nil
}

// checkHeadTwin: the statements before the first top-level loop are interpreted from generic arguments. Every path
// of the linear routine has exactly one path of the log-domain routine with compatible guards; both return early or
// both reach the loop; early results are related (logarithm), and the variables that reach the loop are related as
// the tail check established (logSet: held as logarithm) or equal.
func checkHeadTwin(c *core.Ctx, p *packages.Package, d *declIndex, linName, logName string, opaque map[string]string, logSet map[string]bool) {
	cons := "special." + logName
	fl, fg := findFuncDecl(p, linName), findFuncDecl(p, logName)
	if fl == nil || fg == nil || logSet == nil {
		c.Unknown("C13.R4", cons, "state that reaches the recurrence loop", token.NoPos, "twins not found or the tail relation is not established")
		return
	}
	info := p.TypesInfo
	type headVars struct {
		head []ast.Stmt
		vars map[string]types.Object
		out  map[string]bool
	}
	analyse := func(fd *ast.FuncDecl) *headVars {
		k := -1
		for i, s := range fd.Body.List {
			if _, ok := s.(*ast.ForStmt); ok {
				k = i
				break
			}
		}
		if k <= 0 {
			return nil
		}
		hv := &headVars{head: fd.Body.List[:k], vars: map[string]types.Object{}, out: map[string]bool{}}
		end := fd.Body.List[k].Pos()
		ast.Inspect(fd, func(n ast.Node) bool {
			if id, ok := n.(*ast.Ident); ok {
				o := info.Defs[id]
				if o == nil {
					o = info.Uses[id]
				}
				if v, ok := o.(*types.Var); ok && v.Pkg() != nil && v.Parent() != v.Pkg().Scope() && !v.IsField() && v.Pos() < end {
					hv.vars[v.Name()] = v
					if id.Pos() >= end && info.Uses[id] != nil {
						hv.out[v.Name()] = true
					}
				}
			}
			return true
		})
		return hv
	}
	hl, hg := analyse(fl), analyse(fg)
	if hl == nil || hg == nil {
		c.Unknown("C13.R4", cons, "state that reaches the recurrence loop", fg.Pos(), "no statements before the loop")
		return
	}
	pairing := pairLocals(info, fl, fg)
	run := func(fd *ast.FuncDecl, hv *headVars) ([]*vn.Path, *vn.Undecided) {
		env := map[types.Object]vn.Value{}
		for nm, o := range hv.vars {
			sn := nm
			if fd == fg {
				if ln, ok := pairing[nm]; ok {
					sn = ln
				}
			}
			b, _ := o.Type().Underlying().(*types.Basic)
			if b != nil && b.Info()&types.IsBoolean != 0 {
				env[o] = &vn.BoolVal{Known: true, V: false}
			} else {
				env[o] = sym.Sym(sn)
			}
		}
		cfg := vn.Config{Pkg: p, TypeName: "Real64", Spec: distSpec, InlineOps: inlineOps, Decl: d.find, MaxDepth: 6, FiniteSyms: true, UnrollConst: true,
			CallHook: specialHook(opaque), GlobalSyms: true, Body: hv.head, Env: env}
		return vn.Run(cfg, fd)
	}
	pl, und := run(fl, hl)
	if und != nil {
		c.Unknown("C13.R4", cons, "state that reaches the recurrence loop", und.Pos, linName+": "+und.Msg)
		return
	}
	pg, und := run(fg, hg)
	if und != nil {
		c.Unknown("C13.R4", cons, "state that reaches the recurrence loop", und.Pos, logName+": "+und.Msg)
		return
	}
	terms := func(v vn.Value) []*sym.Term {
		switch x := v.(type) {
		case *sym.Term:
			return []*sym.Term{x}
		case vn.Tuple:
			var r []*sym.Term
			for _, e := range x {
				t, ok := e.(*sym.Term)
				if !ok {
					return nil
				}
				r = append(r, t)
			}
			return r
		}
		return nil
	}
	hit := map[*vn.Path]bool{}
	for _, lp := range pl {
		detail := "head path [" + clip(lp.CondString(), 300) + "]"
		var cands []*vn.Path
		for _, gp := range pg {
			if ok, _ := condsCompatible(lp.Conds, gp.Conds); ok {
				cands = append(cands, gp)
			}
		}
		if len(cands) != 1 {
			c.Fail("C13.R4", cons, detail, fg.Pos(), fmt.Sprintf("%d paths through the head of %s have guards compatible with this path of %s", len(cands), logName, linName))
			continue
		}
		gp := cands[0]
		hit[gp] = true
		if gp.Panic || lp.Panic {
			c.Check(gp.Panic == lp.Panic, "C13.R4", cons, detail, fg.Pos(), "one twin panics on this path and the other continues")
			continue
		}
		if (gp.Ret == nil) != (lp.Ret == nil) {
			c.Fail("C13.R4", cons, detail, fg.Pos(), "one twin returns early on this path and the other reaches the recurrence")
			continue
		}
		msg := ""
		if gp.Ret != nil {
			rg, rl := terms(gp.Ret), terms(lp.Ret)
			if rg == nil || len(rg) != len(rl) {
				msg = "early results are not numbers"
			}
			for i := range rg {
				if msg == "" && !logOfTerm(rg[i], rl[i]) {
					msg = fmt.Sprintf("early result %d of %s is %s where %s returns %s: not its logarithm", i, logName, clip(rg[i].String(), 200), linName, clip(rl[i].String(), 200))
				}
			}
		} else {
			var names []string
			for nm := range hg.out {
				if ln, ok := pairing[nm]; ok && hl.out[ln] {
					names = append(names, nm)
				}
			}
			sort.Strings(names)
			for _, nm := range names {
				vg, vl := gp.Env[hg.vars[nm]], lp.Env[hl.vars[pairing[nm]]]
				tg, ok1 := vg.(*sym.Term)
				tl, ok2 := vl.(*sym.Term)
				if ok1 && ok2 {
					good := false
					if logSet[nm] {
						good = logOfTerm(tg, tl)
					} else {
						good = sym.Equal(tg, tl)
					}
					if !good && msg == "" {
						rel := "equal to"
						if logSet[nm] {
							rel = "the logarithm of"
						}
						msg = fmt.Sprintf("%s reaches the loop as %s in %s and as %s in %s: the first is not %s the second", nm, clip(tg.String(), 200), logName, clip(tl.String(), 200), linName, rel)
					}
					continue
				}
				bg, ok1 := vg.(*vn.BoolVal)
				bl, ok2 := vl.(*vn.BoolVal)
				if ok1 && ok2 {
					if (bg.Known != bl.Known || bg.V != bl.V) && msg == "" {
						msg = nm + " reaches the loop with different truth values"
					}
					continue
				}
				if msg == "" {
					msg = nm + " holds values of different kinds when the loop is reached"
				}
			}
		}
		c.Check(msg == "", "C13.R4", cons, detail, fg.Pos(), msg)
	}
	for _, gp := range pg {
		if !hit[gp] {
			c.Fail("C13.R4", cons, "head log path ["+clip(gp.CondString(), 300)+"]", fg.Pos(), "no path of "+linName+" has guards compatible with this path of the log-domain routine")
		}
	}
}
