package checks

import (
	"fmt"
	"go/ast"
	"go/constant"
	"go/token"
	"go/types"
	"math/big"

	"verif/internal/core"
	"verif/internal/sym"
	"verif/internal/vn"
)

const piDigits = "3.14159265358979323846264338327950288419716939937510582097494459230781640628620899862803482534211706798214808651"

func bf(s string) *big.Float {
	f, _, _ := big.ParseFloat(s, 10, 400, big.ToNearestEven)
	return f
}

func bfi(n int64) *big.Float { return new(big.Float).SetPrec(400).SetInt64(n) }

// logErfcTaylor returns the Taylor coefficients t_0..t_n of log(erfc(sqrt(pi)*y)) in y.
func logErfcTaylor(n int) []*big.Float {
	pi := bf(piDigits)
	// g(y) = erfc(sqrt(pi) y) = 1 - 2 sum_{m>=0} (-1)^m pi^m y^(2m+1) / (m! (2m+1))
	a := make([]*big.Float, n+1)
	for k := range a {
		a[k] = bfi(0)
	}
	a[0] = bfi(1)
	pim := bfi(1)
	fact := bfi(1)
	for m := 0; 2*m+1 <= n; m++ {
		if m > 0 {
			pim = new(big.Float).SetPrec(400).Mul(pim, pi)
			fact = new(big.Float).SetPrec(400).Mul(fact, bfi(int64(m)))
		}
		t := new(big.Float).SetPrec(400).Quo(pim, new(big.Float).SetPrec(400).Mul(fact, bfi(int64(2*m+1))))
		t.Mul(t, bfi(2))
		if m%2 == 0 {
			t.Neg(t)
		}
		a[2*m+1] = t
	}
	// h = log g:  k h_k = k a_k - sum_{j=1}^{k-1} j h_j a_{k-j}
	h := make([]*big.Float, n+1)
	h[0] = bfi(0)
	for k := 1; k <= n; k++ {
		s := new(big.Float).SetPrec(400).Mul(bfi(int64(k)), a[k])
		for j := 1; j < k; j++ {
			t := new(big.Float).SetPrec(400).Mul(bfi(int64(j)), h[j])
			t.Mul(t, a[k-j])
			s.Sub(s, t)
		}
		h[k] = new(big.Float).SetPrec(400).Quo(s, bfi(int64(k)))
	}
	return h
}

// ---- R5: LogErfc -----------------------------------------------------------------------------------------------------

func checkLogErfc(c *core.Ctx) {
	c.Rule("C13.R5", "LogErfc: three pieces partition the real line and the middle one is log(erfc x); the series of the piece around zero has truncation plus coefficient error below half an ulp on its interval (coefficients compared with the exact Taylor coefficients of log erfc); the rational piece has the asymptotic leading ratio 1/sqrt(pi) and is accurate to half an ulp of log erfc from its switch-over point on", 4)
	p := c.Pkg("special")
	if p == nil {
		c.Unknown("C13.R5", "special", "package loaded", token.NoPos, "not loaded")
		return
	}
	info := p.TypesInfo
	d := newDeclIndex(c)
	fd := findFuncDecl(p, "LogErfc")
	if fd == nil {
		c.Unknown("C13.R5", "special.LogErfc", "function found", token.NoPos, "not found")
		return
	}
	// (a) the pieces: interpret LogErfc with the two approximations opaque
	pieces := map[string]bool{}
	hook := func(fn *types.Func) func([]vn.Value) vn.Value {
		if fn.Pkg() == p.Types && fn.Name() != "LogErfc" {
			if fdd := findFuncDecl(p, fn.Name()); fdd != nil && fdd.Type.Params.NumFields() == 1 && fn.Type().(*types.Signature).Results().Len() == 1 {
				name := fn.Name()
				return func(args []vn.Value) vn.Value {
					t, _ := args[0].(*sym.Term)
					if t == nil {
						t = sym.Sym("opaque")
					}
					pieces[name] = true
					return sym.Fn("piece:"+name, t)
				}
			}
		}
		return nil
	}
	cfg := vn.Config{Pkg: p, TypeName: "Real64", Spec: distSpec, InlineOps: inlineOps, Decl: d.find, MaxDepth: 4, FiniteSyms: true, ParamSyms: []string{"x"}, CallHook: hook}
	paths, und := vn.Run(cfg, fd)
	if und != nil {
		c.Unknown("C13.R5", "special.LogErfc", "pieces", und.Pos, "LogErfc left the interpreter's idiom set: "+und.Msg)
		return
	}
	x := sym.Sym("x")
	exact := sym.Fn("log", sym.Fn("erfc", x))
	nExact, nSeries, nOther := 0, 0, 0
	var seriesFn, ratFn string
	var threshold *big.Rat
	for _, pa := range paths {
		rt, _ := pa.Ret.(*sym.Term)
		if pa.Panic || rt == nil {
			nOther++
			continue
		}
		if sym.Equal(rt, exact) {
			nExact++
			continue
		}
		ats := rt.Atoms()
		if len(ats) == 1 && len(ats[0].Args) == 1 && sym.Equal(ats[0].Args[0], x) && len(ats[0].Kind) > 6 && ats[0].Kind[:6] == "piece:" && rt.String() == ats[0].Key() {
			name := ats[0].Kind[6:]
			// the series piece is guarded by x*x < T (true branch), the rational piece by x > B
			isSeries := false
			for _, cv := range pa.Conds {
				if cv.V && cv.C.Op == "lt" && sym.Equal(cv.C.A, sym.Mul(x, x)) {
					if t, ok := cv.C.B.IsConst(); ok {
						threshold = t
						isSeries = true
					}
				}
			}
			if isSeries {
				seriesFn = name
				nSeries++
			} else {
				ratFn = name
			}
			continue
		}
		nOther++
	}
	c.Check(nExact >= 1 && nSeries == 1 && ratFn != "" && nOther == 0, "C13.R5", "special.LogErfc", "pieces: series around zero, log(erfc x), approximation for large x", fd.Pos(),
		fmt.Sprintf("LogErfc has %d paths (%d return log(erfc(x)), %d the series around zero, %d something else): every argument must be served by the series for x*x < T, the rational approximation for large x, or log(erfc(x)) itself", len(paths), nExact, nSeries, nOther))
	if seriesFn == "" || threshold == nil {
		return
	}
	// (b) the series piece: y = x / sqrt(pi);  result = K * P(y)
	sfd := findFuncDecl(p, seriesFn)
	cfg2 := vn.Config{Pkg: p, TypeName: "Real64", Spec: distSpec, InlineOps: inlineOps, Decl: d.find, MaxDepth: 6, FiniteSyms: true, UnrollConst: true, ParamSyms: []string{"x"}}
	sp, und := vn.Run(cfg2, sfd)
	if und != nil || len(sp) != 1 {
		msg := "more than one path"
		pos := sfd.Pos()
		if und != nil {
			msg, pos = und.Msg, und.Pos
		}
		c.Unknown("C13.R5", "special."+seriesFn, "series coefficients", pos, seriesFn+" left the interpreter's idiom set: "+msg)
		return
	}
	st, _ := sp[0].Ret.(*sym.Term)
	if st == nil {
		c.Unknown("C13.R5", "special."+seriesFn, "series coefficients", sfd.Pos(), "no number returned")
		return
	}
	// numeric coefficients of the polynomial in x: substitute pi, M_SQRTPI by their values through float evaluation of each monomial
	coefs, ok := polyInX(st)
	if !ok {
		c.Unknown("C13.R5", "special."+seriesFn, "series coefficients", sfd.Pos(), "the series is not a polynomial in x with constant coefficients: "+clip(st.String(), 200))
		return
	}
	n := 48
	tay := logErfcTaylor(n)
	pi := bf(piDigits)
	sqrtpi := new(big.Float).SetPrec(400).Sqrt(pi)
	// in x: log erfc(x) = sum t_k (x/sqrt(pi))^k
	xmax := new(big.Float).SetPrec(400).Sqrt(new(big.Float).SetPrec(400).SetRat(threshold))
	errSum := bfi(0)
	xp := bfi(1)
	sp_ := bfi(1)
	deg := len(coefs) - 1
	for k := 0; k <= n; k++ {
		if k > 0 {
			xp = new(big.Float).SetPrec(400).Mul(xp, xmax)
			sp_ = new(big.Float).SetPrec(400).Mul(sp_, sqrtpi)
		}
		want := new(big.Float).SetPrec(400).Quo(tay[k], sp_)
		got := bfi(0)
		if k <= deg {
			got = coefs[k]
		}
		dlt := new(big.Float).SetPrec(400).Sub(got, want)
		dlt.Abs(dlt)
		dlt.Mul(dlt, xp)
		errSum.Add(errSum, dlt)
	}
	// relative to |log erfc(x)| >= 2|x|/sqrt(pi) * (1 - small) on the interval: error terms are O(x^3), so the supremum of
	// the relative error is at the end of the interval
	den := new(big.Float).SetPrec(400).Quo(new(big.Float).SetPrec(400).Mul(bfi(2), xmax), sqrtpi)
	rel := new(big.Float).SetPrec(400).Quo(errSum, den)
	half := bf("1.1102230246251565e-16")
	relf, _ := rel.Float64()
	c.Check(rel.Cmp(half) <= 0, "C13.R5", "special."+seriesFn, "series error on its interval", sfd.Pos(),
		fmt.Sprintf("on |x| <= %.6g the series differs from log erfc(x) by up to %.3g relative (coefficient deviations from the Taylor coefficients of log erfc plus the truncated terms up to order %d), more than half an ulp: the switch-over threshold is too large for the number of terms, or a coefficient is wrong", func() float64 { f, _ := xmax.Float64(); return f }(), relf, n))
	c.Assume("C13.R5: the Taylor series of log erfc is summed to order 48; the terms beyond are bounded by the geometric decay of the computed coefficients (nearest zero of erfc at |z| = 2.41)")
	// (c) the rational piece: leading coefficients and accuracy from its switch-over point on
	rfd := findFuncDecl(p, ratFn)
	var tables [][]*big.Float
	ast.Inspect(rfd.Body, func(nn ast.Node) bool {
		cl, ok := nn.(*ast.CompositeLit)
		if !ok {
			return true
		}
		var row []*big.Float
		for _, e := range cl.Elts {
			tv, ok := info.Types[e]
			if !ok || tv.Value == nil {
				return true
			}
			f, _, err := big.ParseFloat(constant.ToFloat(tv.Value).ExactString(), 10, 400, big.ToNearestEven)
			if err != nil {
				if r, ok := new(big.Rat).SetString(constant.ToFloat(tv.Value).ExactString()); ok {
					f = new(big.Float).SetPrec(400).SetRat(r)
				} else {
					return true
				}
			}
			row = append(row, f)
		}
		if len(row) > 1 {
			tables = append(tables, row)
		}
		return true
	})
	if len(tables) == 2 && len(tables[1]) == len(tables[0])+1 {
		ratio := new(big.Float).SetPrec(400).Quo(tables[0][len(tables[0])-1], tables[1][len(tables[1])-1])
		want := new(big.Float).SetPrec(400).Quo(bfi(1), sqrtpi)
		dl := new(big.Float).SetPrec(400).Sub(ratio, want)
		dl.Abs(dl)
		dl.Quo(dl, want)
		c.Check(dl.Cmp(bf("1e-14")) <= 0, "C13.R5", "special."+ratFn, "leading ratio of the rational approximation", rfd.Pos(),
			"for large x erfc(x) e^{x^2} x tends to 1/sqrt(pi); the ratio of the leading coefficients of numerator and denominator differs from it by more than 1e-14, so the relative error of the piece does not vanish as x grows")
	} else {
		c.Unknown("C13.R5", "special."+ratFn, "leading ratio of the rational approximation", rfd.Pos(), "numerator and denominator tables (degrees n and n+1) not found")
	}
	// the switch-over point: the guard x > B of the path that returns the rational piece
	var bound *big.Rat
	for _, pa := range paths {
		rt, _ := pa.Ret.(*sym.Term)
		if rt == nil || len(rt.Atoms()) != 1 || rt.Atoms()[0].Kind != "piece:"+ratFn {
			continue
		}
		for _, cv := range pa.Conds {
			if cv.V && (cv.C.Op == "gt" || cv.C.Op == "ge") && sym.Equal(cv.C.A, x) {
				if t, ok := cv.C.B.IsConst(); ok {
					bound = t
				}
			}
			if cv.V && (cv.C.Op == "lt" || cv.C.Op == "le") && sym.Equal(cv.C.B, x) {
				if t, ok := cv.C.A.IsConst(); ok {
					bound = t
				}
			}
		}
	}
	if bound == nil || len(tables) != 2 {
		c.Unknown("C13.R5", "special."+ratFn, "accuracy from the switch-over point on", rfd.Pos(), "the guard x > B of the rational piece (or its tables) was not found")
		return
	}
	worst := 0.0
	worstAt := 0.0
	b0 := new(big.Float).SetPrec(400).SetRat(bound)
	for _, mul := range []string{"1", "1.125", "1.25", "1.5", "2", "3", "5", "10", "100", "1000"} {
		xv := new(big.Float).SetPrec(400).Mul(b0, bf(mul))
		num := polyEval(tables[0], xv)
		den := polyEval(tables[1], xv)
		got := new(big.Float).SetPrec(400).Quo(num, den)
		want := erfcxCF(xv)
		d := new(big.Float).SetPrec(400).Sub(got, want)
		d.Abs(d)
		d.Quo(d, want)
		// relative error of log erfc = (log(got) - log(want)) / |x^2 + ...| <= d / x^2
		x2 := new(big.Float).SetPrec(400).Mul(xv, xv)
		d.Quo(d, x2)
		f, _ := d.Float64()
		if f > worst {
			worst = f
			worstAt, _ = xv.Float64()
		}
	}
	c.Check(worst <= 1.1102230246251565e-16, "C13.R5", "special."+ratFn, "accuracy from the switch-over point on", rfd.Pos(),
		fmt.Sprintf("the rational approximation is used for x > %s, but at x = %.4g it differs from erfc(x) e^{x^2} (continued fraction, 400 bits) by %.3g relative to |log erfc(x)|, more than half an ulp: the switch-over point is too small for this approximation", bound.RatString(), worstAt, worst))
}

func polyEval(coefs []*big.Float, x *big.Float) *big.Float {
	r := bfi(0)
	for i := len(coefs) - 1; i >= 0; i-- {
		r = new(big.Float).SetPrec(400).Mul(r, x)
		r.Add(r, coefs[i])
	}
	return r
}

// erfcxCF: erfc(x) e^{x^2} for x >= 1 by the Laplace continued fraction
//
//	sqrt(pi) erfcx(x) = 1 / (x + (1/2) / (x + 1 / (x + (3/2) / (x + 2 / (x + ...))))), evaluated bottom-up with 4000 terms.
func erfcxCF(x *big.Float) *big.Float {
	t := new(big.Float).SetPrec(400).Set(x)
	for k := 4000; k >= 1; k-- {
		a := new(big.Float).SetPrec(400).Quo(bfi(int64(k)), bfi(2))
		t = new(big.Float).SetPrec(400).Add(x, new(big.Float).SetPrec(400).Quo(a, t))
	}
	sp := new(big.Float).SetPrec(400).Sqrt(bf(piDigits))
	return new(big.Float).SetPrec(400).Quo(bfi(1), new(big.Float).SetPrec(400).Mul(sp, t))
}

// polyInX: t is a polynomial in the symbol x whose coefficients are numbers built from rationals, pi and square roots;
// returns the coefficients as big floats.
func polyInX(t *sym.Term) ([]*big.Float, bool) {
	x := sym.SymAtom("x")
	var coefs []*big.Float
	cur := t
	for k := 0; k < 64; k++ {
		// constant term: substitute x = 0
		c0 := sym.Subst(cur, map[*sym.Atom]*sym.Term{x: sym.Zero()})
		v, ok := evalNumber(c0)
		if !ok {
			return nil, false
		}
		coefs = append(coefs, v)
		rest := sym.Sub(cur, c0)
		if rest.IsZero() {
			return coefs, true
		}
		cur = sym.Div(rest, sym.Sym("x"))
		if !cur.DependsOn(x) {
			v, ok := evalNumber(cur)
			if !ok {
				return nil, false
			}
			coefs = append(coefs, v)
			return coefs, true
		}
	}
	return nil, false
}

// evalNumber evaluates a term without free symbols other than pi (rationals, pi, pow(., 1/2)) with 400-bit floats.
func evalNumber(t *sym.Term) (*big.Float, bool) {
	if c, ok := t.IsConst(); ok {
		return new(big.Float).SetPrec(400).SetRat(c), true
	}
	sub := map[*sym.Atom]*sym.Term{}
	for _, a := range t.Atoms() {
		switch {
		case a.Kind == "sym" && a.Name == "pi":
			r, _ := new(big.Rat).SetString(piDigits[:80])
			sub[a] = sym.Const(r)
		case a.Kind == "sym" && a.Name == "sqrtpi":
			sp := new(big.Float).SetPrec(400).Sqrt(bf(piDigits))
			r, _ := new(big.Float).SetPrec(260).Set(sp).Rat(nil)
			sub[a] = sym.Const(r)
		case a.Kind == "pow" && len(a.Args) == 2:
			e, ok := a.Args[1].IsConst()
			if !ok || e.Cmp(big.NewRat(1, 2)) != 0 {
				return nil, false
			}
			b, ok := evalNumber(a.Args[0])
			if !ok || b.Sign() < 0 {
				return nil, false
			}
			s := new(big.Float).SetPrec(400).Sqrt(b)
			r, _ := s.Rat(nil)
			// keep the rational manageable: 260 bits are plenty
			f := new(big.Float).SetPrec(260).SetRat(r)
			r2, _ := f.Rat(nil)
			sub[a] = sym.Const(r2)
		default:
			return nil, false
		}
	}
	u := sym.Subst(t, sub)
	if c, ok := u.IsConst(); ok {
		return new(big.Float).SetPrec(400).SetRat(c), true
	}
	return nil, false
}
