package checks

import (
	"fmt"
	"go/ast"
	"go/token"
	"go/types"
	"sort"

	"golang.org/x/tools/go/packages"

	"verif/internal/core"
	"verif/internal/sym"
	"verif/internal/vn"
)

// checkLoopTwin: the first for-loop of a linear-domain routine and of its log-domain twin are run for `trips` iterations
// from a generic state. The variables that live across iterations are paired by the order in which the loop first assigns
// them (the twins mirror each other statement by statement; names are not used), the variables only read by the order of
// first use. The rule holds when some choice of relation per variable (log twin holds the logarithm / holds the same
// number) makes every pair of corresponding paths (same branch decisions) end in related states for the variables that
// are used after the loop.
func checkLoopTwin(c *core.Ctx, p *packages.Package, d *declIndex, linName, logName string, trips int64, opaque map[string]string) {
	cons := "special." + logName
	detail := fmt.Sprintf("loop state after %d iterations", trips)
	fl, fg := findFuncDecl(p, linName), findFuncDecl(p, logName)
	if fl == nil || fg == nil {
		c.Unknown("C13.R4", cons, detail, token.NoPos, "twins not found")
		return
	}
	info := p.TypesInfo
	firstFor := func(fd *ast.FuncDecl) *ast.ForStmt {
		var r *ast.ForStmt
		ast.Inspect(fd.Body, func(n ast.Node) bool {
			if f, ok := n.(*ast.ForStmt); ok && r == nil {
				r = f
			}
			return r == nil
		})
		return r
	}
	type loopVars struct {
		loop     *ast.ForStmt
		assigned []types.Object
		read     []types.Object
		bound    types.Object
		live     map[types.Object]bool
	}
	analyse := func(fd *ast.FuncDecl) *loopVars {
		lp := firstFor(fd)
		if lp == nil {
			return nil
		}
		lv := &loopVars{loop: lp, live: map[types.Object]bool{}}
		outer := func(o types.Object) bool {
			v, ok := o.(*types.Var)
			if !ok || v.Pkg() == nil || v.Parent() == v.Pkg().Scope() {
				return false
			}
			return o.Pos() < lp.Pos() || o.Pos() > lp.End()
		}
		type occ struct {
			o   types.Object
			pos token.Pos
		}
		firstAssign := map[types.Object]token.Pos{}
		firstUse := map[types.Object]token.Pos{}
		ast.Inspect(lp, func(n ast.Node) bool {
			switch v := n.(type) {
			case *ast.AssignStmt:
				for _, l := range v.Lhs {
					if id, ok := l.(*ast.Ident); ok {
						if o := info.Uses[id]; o != nil && outer(o) {
							if _, has := firstAssign[o]; !has {
								firstAssign[o] = id.Pos()
							}
						}
					}
				}
			case *ast.IncDecStmt:
				if id, ok := v.X.(*ast.Ident); ok {
					if o := info.Uses[id]; o != nil && outer(o) {
						if _, has := firstAssign[o]; !has {
							firstAssign[o] = id.Pos()
						}
					}
				}
			case *ast.Ident:
				if o := info.Uses[v]; o != nil && outer(o) {
					if _, has := firstUse[o]; !has {
						firstUse[o] = v.Pos()
					}
				}
			}
			return true
		})
		var as, rs []occ
		for o, pos := range firstAssign {
			as = append(as, occ{o, pos})
		}
		for o, pos := range firstUse {
			if _, isA := firstAssign[o]; !isA {
				rs = append(rs, occ{o, pos})
			}
		}
		sort.Slice(as, func(i, j int) bool { return as[i].pos < as[j].pos })
		sort.Slice(rs, func(i, j int) bool { return rs[i].pos < rs[j].pos })
		for _, a := range as {
			lv.assigned = append(lv.assigned, a.o)
		}
		for _, r := range rs {
			lv.read = append(lv.read, r.o)
		}
		if lp.Cond != nil {
			ast.Inspect(lp.Cond, func(n ast.Node) bool {
				if id, ok := n.(*ast.Ident); ok {
					if o := info.Uses[id]; o != nil {
						if _, isA := firstAssign[o]; !isA && outer(o) {
							lv.bound = o
						}
					}
				}
				return true
			})
		}
		ast.Inspect(fd.Body, func(n ast.Node) bool {
			if id, ok := n.(*ast.Ident); ok && id.Pos() > lp.End() {
				if o := info.Uses[id]; o != nil {
					lv.live[o] = true
				}
			}
			return true
		})
		return lv
	}
	vl, vg := analyse(fl), analyse(fg)
	if vl == nil || vg == nil || vl.bound == nil || vg.bound == nil {
		c.Unknown("C13.R4", cons, detail, fg.Pos(), "no counted loop with an outer bound found in one of the twins")
		return
	}
	if len(vl.assigned) != len(vg.assigned) || len(vl.read) != len(vg.read) {
		c.Fail("C13.R4", cons, detail, vg.loop.Pos(), fmt.Sprintf("the loops carry different state: %d assigned and %d read variables in %s, %d and %d in %s",
			len(vl.assigned), len(vl.read), linName, len(vg.assigned), len(vg.read), logName))
		return
	}
	isFloat := func(o types.Object) bool {
		b, ok := o.Type().Underlying().(*types.Basic)
		return ok && b.Info()&types.IsFloat != 0
	}
	var floats []int
	for i, o := range vl.assigned {
		if isFloat(o) != isFloat(vg.assigned[i]) {
			c.Fail("C13.R4", cons, detail, vg.loop.Pos(), "the loops assign variables of different kinds in corresponding positions")
			return
		}
		if isFloat(o) {
			floats = append(floats, i)
		}
	}
	if len(floats) > 8 {
		c.Unknown("C13.R4", cons, detail, vg.loop.Pos(), "too many state variables")
		return
	}
	run := func(fd *ast.FuncDecl, lv *loopVars, logMask map[int]bool, isLog bool) ([]*vn.Path, *vn.Undecided) {
		env := map[types.Object]vn.Value{}
		for i, o := range lv.assigned {
			s := sym.Sym(fmt.Sprintf("s%d", i))
			if isLog && logMask[i] {
				env[o] = sym.Fn("log", s)
			} else {
				env[o] = s
			}
		}
		for j, o := range lv.read {
			env[o] = sym.Sym(fmt.Sprintf("r%d", j))
		}
		env[lv.bound] = sym.Int(trips)
		cfg := vn.Config{Pkg: p, TypeName: "Real64", Spec: distSpec, InlineOps: inlineOps, Decl: d.find, MaxDepth: 6, FiniteSyms: true, UnrollConst: true,
			CallHook: specialHook(opaque), GlobalSyms: true, Body: []ast.Stmt{lv.loop}, Env: env}
		return vn.Run(cfg, fd)
	}
	pl, und := run(fl, vl, nil, false)
	if und != nil {
		c.Unknown("C13.R4", cons, detail, und.Pos, linName+": "+und.Msg)
		return
	}
	sig := func(pa *vn.Path) string {
		s := ""
		for _, cv := range pa.Conds {
			if cv.V {
				s += cv.C.Op + "+ "
			} else {
				s += cv.C.Op + "- "
			}
		}
		return s
	}
	firstMsg := ""
	for mask := 0; mask < 1<<len(floats); mask++ {
		// prefer "all logarithms" first: mask bit set = same
		logMask := map[int]bool{}
		for b, i := range floats {
			if mask&(1<<b) == 0 {
				logMask[i] = true
			}
		}
		pg, und := run(fg, vg, logMask, true)
		if und != nil {
			c.Unknown("C13.R4", cons, detail, und.Pos, logName+": "+und.Msg)
			return
		}
		bySig := map[string]*vn.Path{}
		dup := false
		for _, pa := range pl {
			if _, has := bySig[sig(pa)]; has {
				dup = true
			}
			bySig[sig(pa)] = pa
		}
		ok := !dup && len(pg) == len(pl)
		msg := ""
		if !ok {
			msg = fmt.Sprintf("%d paths through %d iterations of %s, %d of %s", len(pg), trips, logName, len(pl), linName)
		}
		for _, gp := range pg {
			if !ok {
				break
			}
			lp := bySig[sig(gp)]
			if lp == nil {
				ok = false
				msg = "a sequence of branch decisions of " + logName + " has no counterpart in " + linName + ": [" + clip(gp.CondString(), 200) + "]"
				break
			}
			for i, og := range vg.assigned {
				if !vg.live[og] {
					continue
				}
				tg, ok1 := gp.Env[og].(*sym.Term)
				tl, ok2 := lp.Env[vl.assigned[i]].(*sym.Term)
				if !ok1 || !ok2 {
					ok = false
					msg = "a state variable holds no number after the loop"
					break
				}
				good := false
				if logMask[i] {
					good = logOfTerm(tg, tl)
				} else {
					good = sym.Equal(tg, tl)
				}
				if !good {
					ok = false
					msg = fmt.Sprintf("on the path [%s] the variable %s of %s ends as %s where %s of %s ends as %s", clip(gp.CondString(), 160), og.Name(), logName, clip(tg.String(), 160), vl.assigned[i].Name(), linName, clip(tl.String(), 160))
					break
				}
			}
		}
		if ok {
			c.OK("C13.R4", cons, detail, vg.loop.Pos(), "")
			return
		}
		if firstMsg == "" {
			firstMsg = msg
		}
	}
	c.Fail("C13.R4", cons, detail, vg.loop.Pos(), "no assignment of relations (logarithm / same number) to the loop-carried variables makes the log-domain loop track the linear one; with every floating-point variable held as a logarithm: "+firstMsg)
}
