package checks

import (
	"fmt"
	"go/ast"
	"go/token"
	"go/types"
	"os"
	"sort"
	"strings"

	"golang.org/x/tools/go/cfg"
	"golang.org/x/tools/go/packages"

	"verif/internal/core"
)

func init() { Registry["C07"] = checkC07 }

// ---------------------------------------------------------------------------
// C07 — optimizers: what is reported, tested and returned belongs to one point
// ---------------------------------------------------------------------------
//
// A must-dataflow analysis over the control-flow graph of each optimizer driver tracks, for every variable that holds
// results of an objective evaluation (value, gradient, Jacobian, Hessian, norms derived from them), the set of point
// variables whose current value is the point the results were computed at, and the set of point variables known to
// satisfy the user's constraints. Facts are killed by every write to a point, transferred by Set/Clone/swap and joined
// by intersection, so they hold on every path.

type c07State struct {
	at    map[types.Object]map[types.Object]bool // result var -> points it was evaluated at
	valid map[types.Object]bool                  // points known to satisfy the constraints
	eq    map[[2]types.Object]bool               // pairs of point variables holding equal values
	top   bool                                   // unreached
}

func eqKey(a, b types.Object) [2]types.Object {
	if a.Pos() > b.Pos() {
		a, b = b, a
	}
	return [2]types.Object{a, b}
}

func (s *c07State) equalPts(a, b types.Object) bool { return a == b || s.eq[eqKey(a, b)] }

// c07Nil marks a result variable that holds no value yet (declared with var, nil until assigned): it is vacuously
// consistent with every point.
var c07Nil types.Object = types.NewVar(0, nil, "<nil>", types.Typ[types.Int])

func atHas(m map[types.Object]bool, p types.Object) bool { return m[p] || m[c07Nil] }

// class: all variables known to hold the value of v
func (s *c07State) class(v types.Object) map[types.Object]bool {
	r := map[types.Object]bool{v: true}
	for k := range s.eq {
		if k[0] == v {
			r[k[1]] = true
		}
		if k[1] == v {
			r[k[0]] = true
		}
	}
	return r
}

func newC07Top() *c07State { return &c07State{top: true} }

func (s *c07State) clone() *c07State {
	if s.top {
		return newC07Top()
	}
	r := &c07State{at: map[types.Object]map[types.Object]bool{}, valid: map[types.Object]bool{}, eq: map[[2]types.Object]bool{}}
	for k, m := range s.at {
		r.at[k] = map[types.Object]bool{}
		for p := range m {
			r.at[k][p] = true
		}
	}
	for p := range s.valid {
		r.valid[p] = true
	}
	for k := range s.eq {
		r.eq[k] = true
	}
	return r
}

func (s *c07State) join(o *c07State) *c07State {
	if s.top {
		return o.clone()
	}
	if o.top {
		return s.clone()
	}
	r := &c07State{at: map[types.Object]map[types.Object]bool{}, valid: map[types.Object]bool{}, eq: map[[2]types.Object]bool{}}
	for k := range s.eq {
		if o.eq[k] {
			r.eq[k] = true
		}
	}
	for k, m := range s.at {
		om, ok := o.at[k]
		if !ok {
			continue
		}
		r.at[k] = map[types.Object]bool{}
		switch {
		case m[c07Nil] && om[c07Nil]:
			r.at[k][c07Nil] = true
		case m[c07Nil]:
			for p := range om {
				r.at[k][p] = true
			}
		case om[c07Nil]:
			for p := range m {
				r.at[k][p] = true
			}
		default:
			for p := range m {
				if om[p] {
					r.at[k][p] = true
				}
			}
		}
	}
	// the marker "no constraint function" makes every point valid: the other side's facts survive
	switch {
	case s.valid[c07Nil] && o.valid[c07Nil]:
		for p := range s.valid {
			if o.valid[p] {
				r.valid[p] = true
			}
		}
		r.valid[c07Nil] = true
	case s.valid[c07Nil]:
		for p := range o.valid {
			r.valid[p] = true
		}
	case o.valid[c07Nil]:
		for p := range s.valid {
			r.valid[p] = true
		}
	default:
		for p := range s.valid {
			if o.valid[p] {
				r.valid[p] = true
			}
		}
	}
	return r
}

func (s *c07State) equal(o *c07State) bool {
	if s.top != o.top {
		return false
	}
	if s.top {
		return true
	}
	if len(s.at) != len(o.at) || len(s.valid) != len(o.valid) || len(s.eq) != len(o.eq) {
		return false
	}
	for k := range s.eq {
		if !o.eq[k] {
			return false
		}
	}
	for k, m := range s.at {
		om, ok := o.at[k]
		if !ok || len(om) != len(m) {
			return false
		}
		for p := range m {
			if !om[p] {
				return false
			}
		}
	}
	for p := range s.valid {
		if !o.valid[p] {
			return false
		}
	}
	return true
}

type c07Func struct {
	c         *core.Ctx
	p         *packages.Package
	info      *types.Info
	fd        *ast.FuncDecl
	name      string
	evalFns   map[types.Object]bool // objective parameters (function typed or with an evaluation method)
	hooks     map[types.Object]bool // hook parameters
	cons      types.Object          // constraints parameter
	points    map[types.Object]bool
	epsilon   map[types.Object]bool
	copyLoops map[ast.Node]*ast.ForStmt
}

func isVectorish(t types.Type) bool {
	n := namedOfType(t)
	return strings.HasSuffix(n, "Vector") || n == "Vector" || n == "ConstVector" || n == "MagicVector"
}

// identVar returns the variable an expression names (x, &x, x[...] is not a variable).
func (f *c07Func) identVar(e ast.Expr) types.Object {
	e = ast.Unparen(e)
	if u, ok := e.(*ast.UnaryExpr); ok && u.Op == token.AND {
		e = ast.Unparen(u.X)
	}
	if id, ok := e.(*ast.Ident); ok {
		if o := f.info.Uses[id]; o != nil {
			return o
		}
		return f.info.Defs[id]
	}
	return nil
}

// evalCall: call is an evaluation of the objective; returns the point variable and the output argument variables.
func (f *c07Func) evalCall(call *ast.CallExpr) (point types.Object, outs []types.Object, ok bool) {
	var callee types.Object
	switch fn := ast.Unparen(call.Fun).(type) {
	case *ast.Ident:
		callee = f.info.Uses[fn]
	case *ast.SelectorExpr:
		// f.Differentiate(x, g, y), f.Eval(...)
		if id, isId := ast.Unparen(fn.X).(*ast.Ident); isId && f.evalFns[f.info.Uses[id]] {
			callee = f.info.Uses[id]
		}
	}
	if callee == nil || !f.evalFns[callee] || len(call.Args) == 0 {
		return nil, nil, false
	}
	point = f.identVar(call.Args[0])
	if point == nil {
		return nil, nil, false
	}
	if tv, has := f.info.Types[call.Args[0]]; !has || !isVectorish(tv.Type) {
		return nil, nil, false
	}
	for _, a := range call.Args[1:] {
		if o := f.identVar(a); o != nil {
			outs = append(outs, o)
		}
	}
	return point, outs, true
}

var c07ReadOnlyMethods = map[string]bool{
	"Dim": true, "Dims": true, "ConstAt": true, "Float64At": true, "GetFloat64": true, "GetDerivative": true, "GetHessian": true, "GetN": true, "GetOrder": true,
	"ElementType": true, "Type": true, "String": true, "Clone": true, "CloneVector": true, "CloneScalar": true, "CloneMatrix": true, "ConstIterator": true,
	"Variables": true, "Equals": true, "Table": true, "ConstSlice": true, "AsConstMatrix": true, "ValueAt": true,
}

// transfer applies the effect of one CFG node.
func (f *c07Func) transfer(s *c07State, n ast.Node) {
	if s.top {
		return
	}
	kill := func(v types.Object) {
		if v == nil {
			return
		}
		for _, m := range s.at {
			delete(m, v)
		}
		delete(s.valid, v)
		for k := range s.eq {
			if k[0] == v || k[1] == v {
				delete(s.eq, k)
			}
		}
	}
	copyPoint := func(dst, src types.Object) {
		if dst == src {
			return
		}
		cls := s.class(src)
		kill(dst)
		for _, m := range s.at {
			if m[src] {
				m[dst] = true
			}
		}
		if s.valid[src] {
			s.valid[dst] = true
		}
		for q := range cls {
			if q != dst {
				s.eq[eqKey(dst, q)] = true
			}
		}
	}
	setAt := func(r types.Object, pts map[types.Object]bool) {
		m := map[types.Object]bool{}
		for p := range pts {
			m[p] = true
		}
		s.at[r] = m
	}
	isResult := func(o types.Object) bool { _, ok := s.at[o]; return ok }
	var handleCall func(call *ast.CallExpr, results []types.Object)
	handleCall = func(call *ast.CallExpr, results []types.Object) {
		// nested calls first (arguments are evaluated before the call)
		for _, a := range call.Args {
			ast.Inspect(a, func(m ast.Node) bool {
				if _, isLit := m.(*ast.FuncLit); isLit {
					return false
				}
				if c2, ok := m.(*ast.CallExpr); ok {
					handleCall(c2, nil)
					return false
				}
				return true
			})
		}
		if pt, outs, ok := f.evalCall(call); ok {
			for _, r := range append(append([]types.Object{}, results...), outs...) {
				if r != nil && !f.points[r] {
					setAt(r, s.class(pt))
				}
			}
			return
		}
		if id, isId := ast.Unparen(call.Fun).(*ast.Ident); isId && id.Name == "copy" && len(call.Args) == 2 {
			if _, isBuiltin := f.info.Uses[id].(*types.Builtin); isBuiltin {
				a, b := f.identVar(call.Args[0]), f.identVar(call.Args[1])
				if a != nil && b != nil && f.points[a] && f.points[b] {
					copyPoint(a, b)
				}
			}
			return
		}
		sel, isSel := ast.Unparen(call.Fun).(*ast.SelectorExpr)
		if !isSel {
			return
		}
		recv := f.identVar(sel.X)
		name := sel.Sel.Name
		if recv == nil {
			// x.At(i).Sub(...): a write to an element of x
			base := sel.X
			for {
				switch b := ast.Unparen(base).(type) {
				case *ast.CallExpr:
					if s2, ok := b.Fun.(*ast.SelectorExpr); ok {
						base = s2.X
						continue
					}
				case *ast.IndexExpr:
					base = b.X
					continue
				case *ast.SelectorExpr:
					base = b.X
					continue
				}
				break
			}
			if bv := f.identVar(base); bv != nil && f.points[bv] && !c07ReadOnlyMethods[name] {
				kill(bv)
			}
			return
		}
		if c07ReadOnlyMethods[name] {
			return
		}
		if _, isPkg := recv.(*types.PkgName); isPkg {
			return
		}
		if name == "Set" && len(call.Args) == 1 {
			if src := f.identVar(call.Args[0]); src != nil {
				if f.points[recv] && f.points[src] {
					copyPoint(recv, src)
					return
				}
				if isResult(src) {
					setAt(recv, s.at[src])
					return
				}
			}
		}
		if f.points[recv] {
			kill(recv) // any other mutating method moves the point
			return
		}
		// r.Op(args...): a value derived from evaluation results belongs to the points common to all of them
		var derived map[types.Object]bool
		any := false
		for _, a := range call.Args {
			if av := f.identVar(a); av != nil && isResult(av) && av != recv {
				if !any {
					derived = map[types.Object]bool{}
					for p := range s.at[av] {
						derived[p] = true
					}
					any = true
				} else {
					for p := range derived {
						if !s.at[av][p] {
							delete(derived, p)
						}
					}
				}
			}
		}
		if any {
			if isResult(recv) {
				// r.Op(r, other): keeps only the common points
				for _, a := range call.Args {
					if f.identVar(a) == recv {
						for p := range derived {
							if !s.at[recv][p] {
								delete(derived, p)
							}
						}
					}
				}
			}
			setAt(recv, derived)
		}
	}
	// the init statement of an element-wise copy loop (for i := ...; { g[i] = s.GetDerivative(i) }) carries the effect of
	// the whole loop, so that the facts survive the join at the loop head (a loop over zero elements copies nothing)
	if loop, ok := f.copyLoops[n]; ok {
		for _, bs := range loop.Body.List {
			if as, ok := bs.(*ast.AssignStmt); ok {
				f.transfer(s, as)
			}
		}
	}
	switch st := n.(type) {
	case *ast.AssignStmt:
		// swap: a, b = b, a
		if len(st.Lhs) == 2 && len(st.Rhs) == 2 {
			a, b := f.identVar(st.Lhs[0]), f.identVar(st.Lhs[1])
			if a != nil && b != nil && f.identVar(st.Rhs[0]) == b && f.identVar(st.Rhs[1]) == a {
				// rename in all facts
				for _, m := range s.at {
					ha, hb := m[a], m[b]
					delete(m, a)
					delete(m, b)
					if ha {
						m[b] = true
					}
					if hb {
						m[a] = true
					}
				}
				va, vb := s.valid[a], s.valid[b]
				delete(s.valid, a)
				delete(s.valid, b)
				if va {
					s.valid[b] = true
				}
				if vb {
					s.valid[a] = true
				}
				neq := map[[2]types.Object]bool{}
				ren := func(o types.Object) types.Object {
					if o == a {
						return b
					}
					if o == b {
						return a
					}
					return o
				}
				for k := range s.eq {
					neq[eqKey(ren(k[0]), ren(k[1]))] = true
				}
				s.eq = neq
				ra, hasA := s.at[a]
				rb, hasB := s.at[b]
				delete(s.at, a)
				delete(s.at, b)
				if hasA {
					s.at[b] = ra
				}
				if hasB {
					s.at[a] = rb
				}
				return
			}
		}
		if len(st.Rhs) == 1 {
			if call, ok := ast.Unparen(st.Rhs[0]).(*ast.CallExpr); ok {
				var res []types.Object
				for _, l := range st.Lhs {
					res = append(res, f.identVar(l))
				}
				if _, _, isEval := f.evalCall(call); isEval {
					handleCall(call, res)
					return
				}
				// x1 := AsDenseReal64Vector(x0): a copy of the point x0
				if nm := calleeName(call); (strings.HasPrefix(nm, "AsDense") || strings.HasPrefix(nm, "AsSparse")) && len(call.Args) == 1 && len(st.Lhs) == 1 {
					if src, dst := f.identVar(call.Args[0]), f.identVar(st.Lhs[0]); src != nil && dst != nil {
						copyPoint(dst, src)
						return
					}
				}
				// y1 = y.CloneScalar(): copies of results; x2 := x1.CloneVector(): copies of points
				if sel, ok := call.Fun.(*ast.SelectorExpr); ok && strings.HasPrefix(sel.Sel.Name, "Clone") && len(st.Lhs) == 1 {
					src, dst := f.identVar(sel.X), f.identVar(st.Lhs[0])
					if src != nil && dst != nil {
						if isResult(src) {
							setAt(dst, s.at[src])
							return
						}
						if tv, ok := f.info.Types[sel.X]; ok && isVectorish(tv.Type) {
							copyPoint(dst, src)
							return
						}
					}
				}
				// g[i] = s.GetDerivative(i)
				if sel, ok := call.Fun.(*ast.SelectorExpr); ok && (sel.Sel.Name == "GetDerivative" || sel.Sel.Name == "GetHessian") && len(st.Lhs) == 1 {
					if ix, ok := ast.Unparen(st.Lhs[0]).(*ast.IndexExpr); ok {
						if g, src := f.identVar(ix.X), f.identVar(sel.X); g != nil && src != nil && isResult(src) {
							setAt(g, s.at[src])
							return
						}
					}
				}
				handleCall(call, res)
			}
		}
		// a[i] = b[i]: element-wise copy of evaluation results
		if len(st.Lhs) == 1 && len(st.Rhs) == 1 {
			if la, ok := ast.Unparen(st.Lhs[0]).(*ast.IndexExpr); ok {
				if rb, ok := ast.Unparen(st.Rhs[0]).(*ast.IndexExpr); ok {
					if a, b := f.identVar(la.X), f.identVar(rb.X); a != nil && b != nil && isResult(b) {
						setAt(a, s.at[b])
						return
					}
				}
			}
		}
		for _, l := range st.Lhs {
			// an element of a point is written (x2[i] = x1[i] - step[i]): the point moves
			if ix, ok := ast.Unparen(l).(*ast.IndexExpr); ok {
				if v := f.identVar(ix.X); v != nil && f.points[v] {
					// element-wise copy of another point keeps the facts of that point
					copied := false
					if len(st.Rhs) == 1 {
						if rb, ok := ast.Unparen(st.Rhs[0]).(*ast.IndexExpr); ok {
							if b := f.identVar(rb.X); b != nil && f.points[b] && types.ExprString(rb.Index) == types.ExprString(ix.Index) {
								copyPoint(v, b)
								copied = true
							}
						}
					}
					if !copied {
						kill(v)
					}
				}
			}
			if v := f.identVar(l); v != nil {
				if f.points[v] {
					kill(v)
				} else if isResult(v) && st.Tok != token.DEFINE {
					// overwritten by something that is not an evaluation
					if len(st.Rhs) == len(st.Lhs) {
						delete(s.at, v)
					}
				}
			}
		}
	case *ast.ExprStmt:
		if call, ok := st.X.(*ast.CallExpr); ok {
			handleCall(call, nil)
		}
	case *ast.DeclStmt:
		if gd, ok := st.Decl.(*ast.GenDecl); ok && gd.Tok == token.VAR {
			for _, sp := range gd.Specs {
				vs, ok := sp.(*ast.ValueSpec)
				if !ok || len(vs.Values) != 0 {
					continue
				}
				for _, nm := range vs.Names {
					o := f.info.Defs[nm]
					if o == nil || f.points[o] {
						continue
					}
					switch o.Type().Underlying().(type) {
					case *types.Interface, *types.Pointer, *types.Slice:
						s.at[o] = map[types.Object]bool{c07Nil: true}
					}
				}
			}
		}
	case *ast.ValueSpec:
		// go/cfg adds each var specification as its own node
		if len(st.Values) == 0 {
			for _, nm := range st.Names {
				o := f.info.Defs[nm]
				if o == nil || f.points[o] {
					continue
				}
				switch o.Type().Underlying().(type) {
				case *types.Interface, *types.Pointer, *types.Slice:
					s.at[o] = map[types.Object]bool{c07Nil: true}
				}
			}
		}
	case *ast.IncDecStmt, *ast.ReturnStmt, *ast.BranchStmt:
	case ast.Expr:
		ast.Inspect(st, func(m ast.Node) bool {
			if _, isLit := m.(*ast.FuncLit); isLit {
				return false
			}
			if call, ok := m.(*ast.CallExpr); ok {
				handleCall(call, nil)
				return false
			}
			return true
		})
	case *ast.RangeStmt:
	}
}

// consCall: expression is constraints.Value(x) (or a local alias of it); returns x.
func (f *c07Func) consCall(e ast.Expr) types.Object {
	call, ok := ast.Unparen(e).(*ast.CallExpr)
	if !ok || len(call.Args) != 1 || f.cons == nil {
		return nil
	}
	sel, ok := ast.Unparen(call.Fun).(*ast.SelectorExpr)
	if !ok || sel.Sel.Name != "Value" {
		return nil
	}
	if id, ok := ast.Unparen(sel.X).(*ast.Ident); !ok || f.info.Uses[id] != f.cons {
		return nil
	}
	return f.identVar(call.Args[0])
}

// validOnEdge: points whose validity follows from the condition being true (edge=true) or false (edge=false).
// A missing constraint function (constraints.Value == nil) counts as "no constraint to violate".
func (f *c07Func) validOnEdge(cond ast.Expr, edge bool) []types.Object {
	var res []types.Object
	// constraints.Value == nil established on this edge: there is no constraint to violate, every point is valid
	// (recorded as validity of the marker object; the constraint function never changes)
	{
		e := ast.Unparen(cond)
		if be, ok := e.(*ast.BinaryExpr); ok && types.ExprString(be.Y) == "nil" && f.cons != nil {
			if sel, ok := ast.Unparen(be.X).(*ast.SelectorExpr); ok && sel.Sel.Name == "Value" {
				if id, ok := ast.Unparen(sel.X).(*ast.Ident); ok && f.info.Uses[id] == f.cons {
					if (be.Op == token.EQL && edge) || (be.Op == token.NEQ && !edge) {
						res = append(res, c07Nil)
					}
				}
			}
		}
	}
	isNilTest := func(e ast.Expr, op token.Token) bool {
		be, ok := ast.Unparen(e).(*ast.BinaryExpr)
		return ok && be.Op == op && types.ExprString(be.Y) == "nil" && strings.HasSuffix(types.ExprString(be.X), ".Value")
	}
	if !edge {
		// cond false: every top-level disjunct is false
		for _, d := range splitOr(cond) {
			// !C(x)
			if u, ok := ast.Unparen(d).(*ast.UnaryExpr); ok && u.Op == token.NOT {
				if v := f.consCall(u.X); v != nil {
					res = append(res, v)
				}
			}
			// C != nil && !C(x)
			if be, ok := ast.Unparen(d).(*ast.BinaryExpr); ok && be.Op == token.LAND && isNilTest(be.X, token.NEQ) {
				if u, ok := ast.Unparen(be.Y).(*ast.UnaryExpr); ok && u.Op == token.NOT {
					if v := f.consCall(u.X); v != nil {
						res = append(res, v)
					}
				}
			}
		}
		return res
	}
	// cond true: a conjunction's conjuncts all hold; C == nil || C(x)
	e := ast.Unparen(cond)
	if be, ok := e.(*ast.BinaryExpr); ok && be.Op == token.LOR && isNilTest(be.X, token.EQL) {
		if v := f.consCall(be.Y); v != nil {
			res = append(res, v)
		}
	}
	if v := f.consCall(e); v != nil {
		res = append(res, v)
	}
	return res
}

func checkC07(c *core.Ctx) error {
	if err := c.Load(packages.LoadSyntax); err != nil {
		return err
	}
	c.Explanation = "For every optimizer driver (a function with a hook, an epsilon or a constraints parameter that evaluates an objective parameter in a loop) a must-dataflow analysis over its control-flow graph tracks which point variables the current evaluation results (value, gradient, Jacobian, Hessian and quantities derived from them) belong to, and which point variables are known to satisfy the user's constraints. " +
		"Facts are killed by every write to a point, transferred by Set/Clone/swap and intersected at joins, so they hold on all paths. Decided: (R1) every point returned with a nil error satisfies the constraints; (R2) the point handed to a hook is the point at which the results handed with it were computed; (R3) the stopping test uses results computed at the point that is returned when the test succeeds; (R4) the acceptance conditions of the two phases of the line search are the same strong Wolfe conditions; (R5) the BFGS updates, interpreted symbolically on generic 2x2 data, return a symmetric matrix that satisfies the secant equation; (R6) the interpolation step of the line search returns the stationary point of its quadratic model."
	c.Rule("C07.R1", "a point returned with a nil error is known to satisfy the user's constraints on every path", 10)
	c.Rule("C07.R2", "the point passed to a hook is the point at which the value/gradient passed with it were evaluated", 6)
	c.Rule("C07.R3", "the stopping test is made on results evaluated at the point that is returned when it succeeds", 6)
	c.Rule("C07.R4", "line search: bracketing phase and zoom phase accept a step under the same (strong Wolfe) conditions", 2)
	checkSecantEquation(c)
	checkQuadraticMin(c)
	checkCallbackState(c)
	checkArmijoBeforeAcceptance(c)
	checkWolfeTerms(c)
	checkStepMeasure(c)
	checkLineSearchConstraints(c)
	nfun := 0
	for _, p := range c.LibPkgs() {
		if !strings.Contains(p.PkgPath, "/algorithm/") {
			continue
		}
		core.EachFunc(p, func(_ *ast.File, fd *ast.FuncDecl) {
			if fd.Body == nil || fd.Recv != nil {
				return
			}
			f := &c07Func{c: c, p: p, info: p.TypesInfo, fd: fd, name: c.FuncName(p, fd), evalFns: map[types.Object]bool{}, hooks: map[types.Object]bool{}, points: map[types.Object]bool{}, epsilon: map[types.Object]bool{}}
			for _, fl := range fd.Type.Params.List {
				for _, nm := range fl.Names {
					o := p.TypesInfo.Defs[nm]
					if o == nil {
						continue
					}
					tn := namedOfType(o.Type())
					_, isFunc := o.Type().Underlying().(*types.Signature)
					switch {
					case strings.Contains(tn, "Hook") || (isFunc && strings.Contains(strings.ToLower(nm.Name), "hook")):
						f.hooks[o] = true
					case tn == "Constraints":
						f.cons = o
					case tn == "Epsilon" || strings.ToLower(nm.Name) == "epsilon":
						f.epsilon[o] = true
					case isFunc || strings.HasPrefix(strings.ToLower(tn), "objective") || strings.HasSuffix(tn, "GradientF"):
						f.evalFns[o] = true
					}
				}
			}
			if len(f.evalFns) == 0 || (len(f.hooks) == 0 && f.cons == nil && len(f.epsilon) == 0) {
				return
			}
			// point variables: first arguments of evaluation calls and arguments of the constraints function
			ast.Inspect(fd.Body, func(n ast.Node) bool {
				if _, isLit := n.(*ast.FuncLit); isLit {
					return false
				}
				if call, ok := n.(*ast.CallExpr); ok {
					if pt, _, ok := f.evalCall(call); ok {
						f.points[pt] = true
					}
					if v := f.consCall(call); v != nil {
						f.points[v] = true
					}
				}
				return true
			})
			if len(f.points) == 0 {
				return
			}
			// variables set from one another extend the point set (x1.Set(x2), swap)
			for changed := true; changed; {
				changed = false
				ast.Inspect(fd.Body, func(n ast.Node) bool {
					if call, ok := n.(*ast.CallExpr); ok {
						if id, ok := ast.Unparen(call.Fun).(*ast.Ident); ok && id.Name == "copy" && len(call.Args) == 2 {
							if _, isBuiltin := f.info.Uses[id].(*types.Builtin); isBuiltin {
								a, b := f.identVar(call.Args[0]), f.identVar(call.Args[1])
								if a != nil && b != nil && f.points[b] && !f.points[a] {
									f.points[a] = true
									changed = true
								}
							}
						}
						if sel, ok := call.Fun.(*ast.SelectorExpr); ok && sel.Sel.Name == "Set" && len(call.Args) == 1 {
							a, b := f.identVar(sel.X), f.identVar(call.Args[0])
							if a != nil && b != nil && f.points[b] && !f.points[a] {
								if tv, ok := f.info.Types[sel.X]; ok && isVectorish(tv.Type) {
									f.points[a] = true
									changed = true
								}
							}
						}
					}
					return true
				})
			}
			f.copyLoops = map[ast.Node]*ast.ForStmt{}
			ast.Inspect(fd.Body, func(n ast.Node) bool {
				fs, ok := n.(*ast.ForStmt)
				if !ok || fs.Init == nil || len(fs.Body.List) == 0 {
					return true
				}
				for _, bs := range fs.Body.List {
					as, ok := bs.(*ast.AssignStmt)
					if !ok || len(as.Lhs) != 1 || len(as.Rhs) != 1 {
						return true
					}
					if _, isIdx := ast.Unparen(as.Lhs[0]).(*ast.IndexExpr); !isIdx {
						return true
					}
				}
				f.copyLoops[fs.Init] = fs
				return true
			})
			nfun++
			if os.Getenv("C07_DEBUG") != "" {
				fmt.Println("DEBUG driver", f.name, len(f.points), "points")
			}
			f.run()
		})
	}
	c.Analysed["optimizer_drivers"] = nfun
	checkLineSearchSiblings(c)
	return nil
}

func (f *c07Func) run() {
	c := f.c
	g := cfg.New(f.fd.Body, func(*ast.CallExpr) bool { return true })
	in := make([]*c07State, len(g.Blocks))
	for i := range in {
		in[i] = newC07Top()
	}
	in[0] = &c07State{at: map[types.Object]map[types.Object]bool{}, valid: map[types.Object]bool{}, eq: map[[2]types.Object]bool{}}
	// out state per edge (block, successor index)
	work := []*cfg.Block{g.Blocks[0]}
	inWork := map[int32]bool{0: true}
	iter := 0
	for len(work) > 0 && iter < 10000 {
		iter++
		b := work[0]
		work = work[1:]
		inWork[b.Index] = false
		s := in[b.Index].clone()
		for _, n := range b.Nodes {
			f.transfer(s, n)
		}
		for k, succ := range b.Succs {
			out := s.clone()
			if len(b.Succs) == 2 && len(b.Nodes) > 0 && !out.top {
				if cond, ok := b.Nodes[len(b.Nodes)-1].(ast.Expr); ok {
					for _, v := range f.validOnEdge(cond, k == 0) {
						for q := range out.class(v) {
							out.valid[q] = true
						}
					}
				}
			}
			j := in[succ.Index].join(out)
			if !j.equal(in[succ.Index]) {
				in[succ.Index] = j
				if !inWork[succ.Index] {
					inWork[succ.Index] = true
					work = append(work, succ)
				}
			}
		}
	}
	// the variable returned after the main loop (for stop tests that break)
	var lastRet *ast.ReturnStmt
	for _, st := range f.fd.Body.List {
		if rs, ok := st.(*ast.ReturnStmt); ok {
			lastRet = rs
		}
	}
	describe := func(s *c07State, r types.Object) string {
		var ps []string
		for p := range s.at[r] {
			ps = append(ps, p.Name())
		}
		sort.Strings(ps)
		return "{" + strings.Join(ps, ",") + "}"
	}
	// replay each block and examine use sites with the state before the node
	nHook, nStop, nRet := 0, 0, 0
	for _, b := range g.Blocks {
		if in[b.Index].top {
			continue
		}
		s := in[b.Index].clone()
		for _, n := range b.Nodes {
			// ---- hooks: calls inside this node
			ast.Inspect(n, func(m ast.Node) bool {
				if _, isLit := m.(*ast.FuncLit); isLit {
					return false
				}
				call, ok := m.(*ast.CallExpr)
				if !ok {
					return true
				}
				if !f.isHookCall(call) {
					return true
				}
				var pts, res []types.Object
				for _, a := range call.Args {
					v := f.identVar(a)
					if v == nil {
						continue
					}
					if f.points[v] {
						pts = append(pts, v)
					} else if _, isRes := s.at[v]; isRes {
						res = append(res, v)
					}
				}
				if len(pts) == 0 {
					return true
				}
				nHook++
				cons := fmt.Sprintf("%s hook#%d", f.name, f.ordinal(call.Pos(), func(n ast.Node) bool { cc, ok := n.(*ast.CallExpr); return ok && f.isHookCall(cc) }))
				if len(res) == 0 {
					c.Fail("C07.R2", cons, "hook arguments belong to one point", call.Pos(), "the hook receives the point "+pts[0].Name()+" together with values that are not (on every path) results of an evaluation: "+types.ExprString(call))
					return true
				}
				bad := ""
				for _, r := range res {
					for _, pt := range pts {
						if !atHas(s.at[r], pt) {
							bad = fmt.Sprintf("%s was evaluated at %s, not (on every path) at %s", r.Name(), describe(s, r), pt.Name())
						}
					}
				}
				if f.cons != nil {
					// a hook-requested stop returns the point reported to the hook
					f.checkValidExit(s, pts[0], cons, call.Pos(), "the hook requests a stop")
				}
				c.Check(bad == "", "C07.R2", cons, "hook arguments belong to one point", call.Pos(),
					"the hook is called as "+types.ExprString(call)+" but "+bad+": the value and gradient reported to the hook are not those of the point reported with them")
				return true
			})
			// ---- stop tests: conditions comparing against epsilon
			if cond, ok := n.(ast.Expr); ok && len(b.Succs) == 2 && f.mentionsEpsilon(cond) {
				var res []types.Object
				ast.Inspect(cond, func(m ast.Node) bool {
					if id, ok := m.(*ast.Ident); ok {
						if o := f.info.Uses[id]; o != nil {
							if _, isRes := s.at[o]; isRes {
								res = append(res, o)
							}
						}
					}
					return true
				})
				// what is returned when the test succeeds: the return in the true branch, or the one after the loop
				ret := f.exitReturn(cond, lastRet)
				if os.Getenv("C07_DEBUG") != "" {
					fmt.Println("DEBUG stop", f.name, types.ExprString(cond), "res:", len(res), "ret nil:", ret == nil, "lastRet nil:", lastRet == nil)
				}
				if ret != nil && len(ret.Results) > 0 && len(res) == 0 {
					if rv := f.identVar(ret.Results[0]); rv != nil && f.points[rv] {
						c.Fail("C07.R3", fmt.Sprintf("%s stop#%d", f.name, f.stopOrdinal(cond.Pos())), "stop test uses results of the returned point "+rv.Name(), cond.Pos(),
							"the stopping test "+types.ExprString(cond)+" mentions no quantity that is, on every path, the result of an objective evaluation: what it tests is not the gradient/residual at the returned point "+rv.Name())
					}
				}
				if ret != nil && len(ret.Results) > 0 && len(res) > 0 {
					if rv := f.identVar(ret.Results[0]); rv != nil && f.points[rv] {
						nStop++
						cons := fmt.Sprintf("%s stop#%d", f.name, f.stopOrdinal(cond.Pos()))
						if f.cons != nil {
							f.checkValidExit(s, rv, cons, cond.Pos(), "the stopping test succeeds")
						}
						bad := ""
						// statements of the taken branch that precede the exit (x1.Set(x2); break) act before the return
						sx := s.clone()
						for _, st := range f.exitPrefix(cond) {
							f.transfer(sx, st)
						}
						for _, r := range res {
							if !atHas(sx.at[r], rv) {
								bad = fmt.Sprintf("%s was evaluated at %s", r.Name(), describe(sx, r))
							}
						}
						c.Check(bad == "", "C07.R3", cons, "stop test uses results of the returned point "+rv.Name(), cond.Pos(),
							"when the test "+types.ExprString(cond)+" succeeds the function returns "+rv.Name()+", but "+bad+": the returned point need not satisfy the stopping condition when re-evaluated there")
					}
				}
			}
			// ---- returns with nil error inside the iteration (the final return after the loop is the iteration-cap exit,
			// which the property excludes; its stop/hook exits are checked at the tests that break out of the loop)
			if rs, ok := n.(*ast.ReturnStmt); ok && f.cons != nil && len(rs.Results) == 2 && rs != lastRet {
				if tv, ok := f.info.Types[rs.Results[1]]; ok && tv.IsNil() {
					if rv := f.identVar(rs.Results[0]); rv != nil && f.points[rv] {
						nRet++
						f.checkValidExit(s, rv, fmt.Sprintf("%s return#%d", f.name, f.ordinal(rs.Pos(), func(n ast.Node) bool { _, ok := n.(*ast.ReturnStmt); return ok })), rs.Pos(), "this return is reached")
					}
				}
			}
			f.transfer(s, n)
		}
	}
	_ = nHook
	_ = nStop
	_ = nRet
}

// c07ReviewedReturns: drivers whose constraint handling is delegated and not decided here.
var c07ReviewedReturns = map[string]string{
	"algorithm/newton.newton_min": "with a line-search objective the constraints are enforced inside lineSearch through the closure constraints_line; the closure is not followed",
}

func (f *c07Func) mentionsEpsilon(e ast.Expr) bool {
	found := false
	ast.Inspect(e, func(n ast.Node) bool {
		if id, ok := n.(*ast.Ident); ok && f.epsilon[f.info.Uses[id]] {
			found = true
		}
		return true
	})
	if !found {
		return false
	}
	be, ok := ast.Unparen(e).(*ast.BinaryExpr)
	return ok && (be.Op == token.LSS || be.Op == token.LEQ)
}

// exitReturn: the return statement executed when the condition holds: the one in the if-body, or, when the body
// breaks out of the loop, the function's final return.
// exitPrefix: the statements of the branch taken when cond holds that come before its return/break.
func (f *c07Func) exitPrefix(cond ast.Expr) []ast.Stmt {
	var res []ast.Stmt
	ast.Inspect(f.fd.Body, func(n ast.Node) bool {
		is, ok := n.(*ast.IfStmt)
		if !ok || ast.Unparen(is.Cond) != ast.Unparen(cond) {
			return true
		}
		for _, st := range is.Body.List {
			switch v := st.(type) {
			case *ast.ReturnStmt:
				return false
			case *ast.BranchStmt:
				if v.Tok == token.BREAK {
					return false
				}
			}
			res = append(res, st)
		}
		return false
	})
	return res
}

func (f *c07Func) exitReturn(cond ast.Expr, last *ast.ReturnStmt) *ast.ReturnStmt {
	var res *ast.ReturnStmt
	ast.Inspect(f.fd.Body, func(n ast.Node) bool {
		is, ok := n.(*ast.IfStmt)
		if !ok || ast.Unparen(is.Cond) != ast.Unparen(cond) {
			return true
		}
		for _, st := range is.Body.List {
			switch v := st.(type) {
			case *ast.ReturnStmt:
				res = v
			case *ast.BranchStmt:
				if v.Tok == token.BREAK {
					res = last
				}
			}
		}
		return false
	})
	return res
}

// ---------------------------------------------------------------------------
// R4 line search: the acceptance tests of the bracketing phase and of zoom agree

func checkLineSearchSiblings(c *core.Ctx) {
	p := c.Pkg("algorithm/lineSearch")
	if p == nil {
		c.Unknown("C07.R4", "algorithm/lineSearch", "package found", 0, "package algorithm/lineSearch not found")
		return
	}
	info := p.TypesInfo
	// in both functions: the condition guarding `return alpha_j` (acceptance) and the sufficient-decrease test
	type site struct {
		fn   string
		cond string
		pos  token.Pos
		expr ast.Expr
	}
	var accepts []site
	norm := func(e ast.Expr) string {
		// rename the trial step's slope and value by role: identifiers ending in j / the locals of the function
		s := types.ExprString(e)
		return s
	}
	for _, fname := range []string{"lineSearch", "zoom"} {
		fd := findFuncDecl(p, fname)
		if fd == nil {
			c.Unknown("C07.R4", "algorithm/lineSearch."+fname, "function found", 0, "function "+fname+" not found")
			continue
		}
		ast.Inspect(fd.Body, func(n ast.Node) bool {
			is, ok := n.(*ast.IfStmt)
			if !ok || len(is.Body.List) != 1 {
				return true
			}
			rs, ok := is.Body.List[0].(*ast.ReturnStmt)
			if !ok || len(rs.Results) != 2 {
				return true
			}
			if tv, ok := info.Types[rs.Results[1]]; !ok || !tv.IsNil() {
				return true
			}
			// acceptance: returns the current trial step with nil error under a curvature condition (mentions c2)
			if strings.Contains(types.ExprString(is.Cond), "c2") {
				accepts = append(accepts, site{fname, norm(is.Cond), is.Pos(), is.Cond})
			}
			return true
		})
	}
	// the values at alpha = 0 keep their names across the phases: an argument bound to a parameter that has the name of a
	// variable of the caller (y0, g0: phi(0), phi'(0)) must be that variable
	core.EachFunc(p, func(_ *ast.File, fd *ast.FuncDecl) {
		if fd.Body == nil {
			return
		}
		ast.Inspect(fd.Body, func(n ast.Node) bool {
			call, ok := n.(*ast.CallExpr)
			if !ok {
				return true
			}
			fn := core.Callee(info, call)
			if fn == nil || fn.Pkg() != p.Types {
				return true
			}
			sig := fn.Type().(*types.Signature)
			for k := 0; k < sig.Params().Len() && k < len(call.Args); k++ {
				pn := sig.Params().At(k).Name()
				if !strings.HasSuffix(pn, "0") {
					continue
				}
				// the caller has a variable of that name in scope at the call
				inner := p.Types.Scope().Innermost(call.Pos())
				if inner == nil {
					continue
				}
				_, obj := inner.LookupParent(pn, call.Pos())
				if obj == nil {
					continue
				}
				ord := 0
				ast.Inspect(fd.Body, func(m ast.Node) bool {
					if c2, ok := m.(*ast.CallExpr); ok && c2.Pos() < call.Pos() && core.Callee(info, c2) == fn {
						ord++
					}
					return true
				})
				cons := fmt.Sprintf("algorithm/lineSearch.%s call %s#%d", fd.Name.Name, fn.Name(), ord)
				got := types.ExprString(call.Args[k])
				c.Check(got == pn, "C07.R4", cons, "parameter "+pn+" receives the caller's "+pn, call.Pos(),
					fmt.Sprintf("%s is called with %s for its parameter %s (the value at alpha = 0) although the caller has its own %s: the second phase tests the Wolfe conditions against the wrong reference value", fn.Name(), got, pn, pn))
			}
			return true
		})
	})
	if len(accepts) < 2 {
		c.Unknown("C07.R4", "algorithm/lineSearch", "acceptance tests found in both phases", 0, fmt.Sprintf("found %d acceptance tests (curvature condition with c2)", len(accepts)))
		return
	}
	// the strong Wolfe curvature condition bounds the trial slope from both sides: with phi'(0) = g0 < 0 and 0 < c2 < 1 the
	// condition is a predicate on the order of the trial slope relative to c2*g0 < 0 < -c2*g0. It is evaluated on one
	// representative of each of the three order regions (below, inside, above) and must be (false, true, false).
	for _, a := range accepts {
		var slope string
		ast.Inspect(a.expr, func(n ast.Node) bool {
			if id, ok := n.(*ast.Ident); ok && id.Name != "c2" && id.Name != "g0" && id.Name != "math" && id.Name != "Abs" {
				if _, isVar := info.Uses[id].(*types.Var); isVar {
					slope = id.Name
				}
			}
			return true
		})
		env := func(g float64) map[string]float64 { return map[string]float64{"c2": 0.9, "g0": -1.0, slope: g} }
		lo, okLo := evalBoolExpr(a.expr, env(-100))
		in, okIn := evalBoolExpr(a.expr, env(0.1))
		hi, okHi := evalBoolExpr(a.expr, env(100))
		if !okLo || !okIn || !okHi || slope == "" {
			c.Unknown("C07.R4", "algorithm/lineSearch."+a.fn, "acceptance is the strong (two-sided) curvature condition", a.pos, "condition "+a.cond+" could not be evaluated over the order regions of the trial slope")
			continue
		}
		c.Check(!lo && in && !hi, "C07.R4", "algorithm/lineSearch."+a.fn, "acceptance is the strong (two-sided) curvature condition", a.pos,
			fmt.Sprintf("the step is accepted under %s, which is (%v, %v, %v) for a trial slope far below c2*g0, inside [c2*g0, -c2*g0] and far above -c2*g0: the strong Wolfe condition |phi'(alpha)| <= -c2*phi'(0) is (false, true, false); steps with a large slope of the wrong sign are accepted", a.cond, lo, in, hi))
	}
	same := true
	sig := func(a site) string {
		var slope string
		ast.Inspect(a.expr, func(n ast.Node) bool {
			if id, ok := n.(*ast.Ident); ok && id.Name != "c2" && id.Name != "g0" {
				if _, isVar := info.Uses[id].(*types.Var); isVar {
					slope = id.Name
				}
			}
			return true
		})
		r := ""
		for _, g := range []float64{-100, -0.95, -0.5, 0.1, 0.5, 0.95, 100} {
			v, ok := evalBoolExpr(a.expr, map[string]float64{"c2": 0.9, "g0": -1.0, slope: g})
			if !ok {
				return a.cond
			}
			if v {
				r += "1"
			} else {
				r += "0"
			}
		}
		return r
	}
	for _, a := range accepts[1:] {
		if sig(a) != sig(accepts[0]) {
			same = false
		}
	}
	c.Check(same, "C07.R4", "algorithm/lineSearch", "both phases accept under the same condition", accepts[0].pos,
		fmt.Sprintf("the acceptance tests differ between the phases: %s (%s) vs %s (%s)", accepts[0].cond, accepts[0].fn, accepts[len(accepts)-1].cond, accepts[len(accepts)-1].fn))
}

// checkValidExit (R1): the point returned at this exit is known to satisfy the constraints.
func (f *c07Func) checkValidExit(s *c07State, rv types.Object, cons string, pos token.Pos, when string) {
	c := f.c
	isValid := s.valid[rv] || s.valid[c07Nil]
	if why, ok := c07ReviewedReturns[f.name]; ok && !isValid {
		c.OK("C07.R1", cons, "returned point satisfies the constraints (reviewed: "+why+")", pos, "")
		return
	}
	c.Check(isValid, "C07.R1", cons, "returned point "+rv.Name()+" satisfies the constraints", pos,
		"when "+when+" the function returns "+rv.Name()+" with a nil error although on some path no test constraints.Value(·) of that point (or of a point it was copied from) succeeded since its last update: a point violating the user's constraints can be returned as the result")
}

// evalBoolExpr evaluates a comparison/boolean expression over float variables given by env (math.Abs, unary minus,
// + - * /, comparisons, && || !). ok=false when the expression contains anything else.
func evalBoolExpr(e ast.Expr, env map[string]float64) (bool, bool) {
	var num func(e ast.Expr) (float64, bool)
	num = func(e ast.Expr) (float64, bool) {
		switch v := ast.Unparen(e).(type) {
		case *ast.Ident:
			x, ok := env[v.Name]
			return x, ok
		case *ast.BasicLit:
			var x float64
			if _, err := fmt.Sscanf(v.Value, "%g", &x); err == nil {
				return x, true
			}
		case *ast.UnaryExpr:
			if x, ok := num(v.X); ok {
				if v.Op == token.SUB {
					return -x, true
				}
				if v.Op == token.ADD {
					return x, true
				}
			}
		case *ast.BinaryExpr:
			a, ok1 := num(v.X)
			b, ok2 := num(v.Y)
			if ok1 && ok2 {
				switch v.Op {
				case token.ADD:
					return a + b, true
				case token.SUB:
					return a - b, true
				case token.MUL:
					return a * b, true
				case token.QUO:
					return a / b, true
				}
			}
		case *ast.CallExpr:
			if types.ExprString(v.Fun) == "math.Abs" && len(v.Args) == 1 {
				if x, ok := num(v.Args[0]); ok {
					if x < 0 {
						return -x, true
					}
					return x, true
				}
			}
		}
		return 0, false
	}
	switch v := ast.Unparen(e).(type) {
	case *ast.UnaryExpr:
		if v.Op == token.NOT {
			b, ok := evalBoolExpr(v.X, env)
			return !b, ok
		}
	case *ast.BinaryExpr:
		switch v.Op {
		case token.LAND, token.LOR:
			a, ok1 := evalBoolExpr(v.X, env)
			b, ok2 := evalBoolExpr(v.Y, env)
			if v.Op == token.LAND {
				return a && b, ok1 && ok2
			}
			return a || b, ok1 && ok2
		case token.LSS, token.LEQ, token.GTR, token.GEQ, token.EQL, token.NEQ:
			a, ok1 := num(v.X)
			b, ok2 := num(v.Y)
			if !ok1 || !ok2 {
				return false, false
			}
			switch v.Op {
			case token.LSS:
				return a < b, true
			case token.LEQ:
				return a <= b, true
			case token.GTR:
				return a > b, true
			case token.GEQ:
				return a >= b, true
			case token.EQL:
				return a == b, true
			case token.NEQ:
				return a != b, true
			}
		}
	}
	return false, false
}

// isHookCall: the call invokes one of the function's hook parameters (hook(...) or hook.Value(...)).
func (f *c07Func) isHookCall(call *ast.CallExpr) bool {
	switch fn := ast.Unparen(call.Fun).(type) {
	case *ast.Ident:
		return f.hooks[f.info.Uses[fn]]
	case *ast.SelectorExpr:
		if id, ok := ast.Unparen(fn.X).(*ast.Ident); ok && fn.Sel.Name == "Value" {
			return f.hooks[f.info.Uses[id]]
		}
	}
	return false
}

// ordinal: number of matching nodes of the function that precede pos in the source (site names do not depend on line
// numbers, so unrelated edits do not rename obligations or known findings).
func (f *c07Func) ordinal(pos token.Pos, match func(ast.Node) bool) int {
	n := 0
	ast.Inspect(f.fd.Body, func(m ast.Node) bool {
		if m != nil && m.Pos() < pos && match(m) {
			n++
		}
		return true
	})
	return n
}

func (f *c07Func) stopOrdinal(pos token.Pos) int {
	return f.ordinal(pos, func(n ast.Node) bool {
		is, ok := n.(*ast.IfStmt)
		return ok && f.mentionsEpsilon(is.Cond)
	})
}
