package checks

import (
	"go/ast"
	"go/token"
	"go/types"
	"sort"
	"strings"

	"verif/internal/core"
)

// C14.R11 — the support tests of LogPdf and LogCdf agree. Both methods of a scalar distribution decide from the
// argument whether it lies in the support; the boundary expressions they compare the argument with have to be the
// same (the density is the derivative of the distribution function on the same set). The atomic comparisons that
// involve the argument are collected from both methods (receiver fields, any operator); a boundary expression that
// one method uses and the other does not, while both test a boundary on that side, is reported.
func checkSupportGuardsAgree(c *core.Ctx) {
	c.Rule("C14.R11", "scalar distributions: every boundary expression that LogPdf compares its argument with also bounds the argument in LogCdf (when LogCdf tests any boundary), and vice versa", 3)
	p := c.Pkg("statistics/scalarDistribution")
	if p == nil {
		c.Unknown("C14.R11", "statistics/scalarDistribution", "package loaded", token.NoPos, "not loaded")
		return
	}
	info := p.TypesInfo
	type guards struct {
		bounds map[string]token.Pos
	}
	collect := func(fd *ast.FuncDecl) map[string]token.Pos {
		out := map[string]token.Pos{}
		if fd == nil || fd.Body == nil || len(fd.Type.Params.List) < 2 {
			return out
		}
		var xObj types.Object
		last := fd.Type.Params.List[len(fd.Type.Params.List)-1]
		if len(last.Names) == 1 {
			xObj = info.Defs[last.Names[0]]
		}
		recvName := ""
		if fd.Recv != nil && len(fd.Recv.List[0].Names) > 0 {
			recvName = fd.Recv.List[0].Names[0].Name
		}
		mentionsX := func(e ast.Expr) bool {
			f := false
			ast.Inspect(e, func(n ast.Node) bool {
				if id, ok := n.(*ast.Ident); ok && info.Uses[id] == xObj {
					f = true
				}
				return true
			})
			return f
		}
		norm := func(e ast.Expr) string {
			s := types.ExprString(e)
			if recvName != "" {
				s = strings.ReplaceAll(s, recvName+".", "R.")
			}
			return strings.ReplaceAll(s, " ", "")
		}
		ast.Inspect(fd.Body, func(n ast.Node) bool {
			be, ok := n.(*ast.BinaryExpr)
			if !ok {
				return true
			}
			switch be.Op {
			case token.LSS, token.LEQ, token.GTR, token.GEQ:
			default:
				return true
			}
			// exactly one side is the bare argument value
			isX := func(e ast.Expr) bool {
				ce, ok := ast.Unparen(e).(*ast.CallExpr)
				if !ok || len(ce.Args) != 0 {
					return false
				}
				sel, ok := ast.Unparen(ce.Fun).(*ast.SelectorExpr)
				if !ok || !strings.HasPrefix(sel.Sel.Name, "GetFloat") {
					return false
				}
				id, ok := ast.Unparen(sel.X).(*ast.Ident)
				return ok && info.Uses[id] == xObj
			}
			var other ast.Expr
			switch {
			case isX(be.X) && !mentionsX(be.Y):
				other = be.Y
			case isX(be.Y) && !mentionsX(be.X):
				other = be.X
			default:
				return true
			}
			// only boundaries that depend on the parameters
			if !strings.Contains(norm(other), "R.") {
				return true
			}
			out[norm(other)] = be.Pos()
			return true
		})
		return out
	}
	byType := map[string]map[string]*ast.FuncDecl{}
	core.EachFunc(p, func(_ *ast.File, fd *ast.FuncDecl) {
		if fd.Recv == nil {
			return
		}
		T := core.RecvTypeName(fd)
		if byType[T] == nil {
			byType[T] = map[string]*ast.FuncDecl{}
		}
		byType[T][fd.Name.Name] = fd
	})
	var names []string
	for T := range byType {
		names = append(names, T)
	}
	sort.Strings(names)
	for _, T := range names {
		pdf, cdf := byType[T]["LogPdf"], byType[T]["LogCdf"]
		if pdf == nil || cdf == nil {
			continue
		}
		gp, gc := collect(pdf), collect(cdf)
		if len(gp) == 0 || len(gc) == 0 {
			continue
		}
		cons := "statistics/scalarDistribution.(*" + T + ")"
		msg := ""
		pos := pdf.Pos()
		for b, at := range gp {
			if _, ok := gc[b]; !ok {
				msg = "LogPdf compares its argument with " + b + ", LogCdf never does (it uses " + strings.Join(keysOf(gc), ", ") + "): the two methods disagree about the support"
				pos = at
			}
		}
		for b, at := range gc {
			if _, ok := gp[b]; !ok && msg == "" {
				msg = "LogCdf compares its argument with " + b + ", LogPdf never does (it uses " + strings.Join(keysOf(gp), ", ") + "): the two methods disagree about the support"
				pos = at
			}
		}
		c.Check(msg == "", "C14.R11", cons, "support boundaries of LogPdf and LogCdf", pos, msg)
	}
}

func keysOf(m map[string]token.Pos) []string {
	var r []string
	for k := range m {
		r = append(r, k)
	}
	sort.Strings(r)
	return r
}
