package checks

import (
	"fmt"
	"go/ast"
	"go/token"
	"go/types"
	"sort"
	"strings"

	"golang.org/x/tools/go/cfg"
	"golang.org/x/tools/go/packages"

	"verif/internal/core"
	"verif/internal/eff"
)

func init() { Registry["C17"] = checkC17 }

// ---------------------------------------------------------------------------
// C17 — parallel estimation: ownership of everything a pool job may write
// ---------------------------------------------------------------------------
//
// The only concurrency in the library comes from jobs handed to the thread pool (R0). Schedule independence and race
// freedom then have a structural necessary and, for writes, sufficient condition: every location a job may write is
// owned by the executing thread (reached through an index p.GetThreadId() of the job's own pool argument), by the job
// (reached through the job index, or a per-iteration copy of the submitting loop's variable) or is local to the job.

const poolPkg = "github.com/pbenner/threadpool"

var submitMethods = map[string]int{ // method -> index of the function argument
	"AddJob": 1, "AddRangeJob": 3, "AddRangeJob_": 3, "Job": 0, "RangeJob": 2, "RangeJob_": 2,
}
var groupedSubmit = map[string]int{"AddJob": 0, "AddRangeJob": 2, "AddRangeJob_": 2} // method -> index of the job-group argument

type jobSite struct {
	pkg    *packages.Package
	fn     *eff.Func // submitting function (declared function or enclosing literal)
	call   *ast.CallExpr
	method string
	lit    *ast.FuncLit
	group  ast.Expr
}

func isPoolType(t types.Type) bool {
	if n, ok := t.(*types.Named); ok {
		return n.Obj().Name() == "ThreadPool" && n.Obj().Pkg() != nil && n.Obj().Pkg().Path() == poolPkg
	}
	return false
}

// poolCall: call is X.M(...) with X of type ThreadPool; returns M.
func poolCall(info *types.Info, call *ast.CallExpr) (string, ast.Expr) {
	sel, ok := ast.Unparen(call.Fun).(*ast.SelectorExpr)
	if !ok {
		return "", nil
	}
	tv, ok := info.Types[sel.X]
	if !ok || !isPoolType(tv.Type) {
		return "", nil
	}
	return sel.Sel.Name, sel.X
}

type tagSet uint8

const (
	tagThread tagSet = 1 << iota
	tagJob
)

func (t tagSet) String() string {
	var s []string
	if t&tagThread != 0 {
		s = append(s, "THREAD")
	}
	if t&tagJob != 0 {
		s = append(s, "JOB")
	}
	if len(s) == 0 {
		return "none"
	}
	return strings.Join(s, "+")
}

// tagCtx evaluates ownership tags of access paths inside one function body.
type tagCtx struct {
	e     *eff.Engine
	info  *types.Info
	f     *eff.Func
	pools map[types.Object]bool // variables holding the executing job's pool
	jobs  map[types.Object]bool // variables that identify the job (index parameter, per-iteration copies)
	defs  map[types.Object][]ast.Expr
	busy  map[types.Object]bool
}

func newTagCtx(e *eff.Engine, f *eff.Func, pools, jobs map[types.Object]bool) *tagCtx {
	t := &tagCtx{e: e, info: f.Pkg.TypesInfo, f: f, pools: pools, jobs: jobs, defs: map[types.Object][]ast.Expr{}, busy: map[types.Object]bool{}}
	ast.Inspect(f.Body, func(n ast.Node) bool {
		switch s := n.(type) {
		case *ast.FuncLit:
			if s != f.Lit {
				return false
			}
		case *ast.AssignStmt:
			for i, l := range s.Lhs {
				id, ok := l.(*ast.Ident)
				if !ok {
					continue
				}
				o := t.info.Defs[id]
				if o == nil {
					o = t.info.Uses[id]
				}
				if o == nil {
					continue
				}
				if len(s.Rhs) == len(s.Lhs) {
					t.defs[o] = append(t.defs[o], s.Rhs[i])
				} else if len(s.Rhs) == 1 {
					t.defs[o] = append(t.defs[o], s.Rhs[0])
				}
			}
		case *ast.ValueSpec:
			for i, nm := range s.Names {
				if i < len(s.Values) {
					t.defs[t.info.Defs[nm]] = append(t.defs[t.info.Defs[nm]], s.Values[i])
				}
			}
		case *ast.RangeStmt:
			for _, kv := range []ast.Expr{s.Key, s.Value} {
				if id, ok := kv.(*ast.Ident); ok && id.Name != "_" {
					if o := t.info.Defs[id]; o != nil {
						t.defs[o] = append(t.defs[o], s.X)
					}
				}
			}
		}
		return true
	})
	return t
}

// indexTag: the tag an index expression (or accessor argument) carries.
func (t *tagCtx) indexTag(e ast.Expr) tagSet {
	switch v := ast.Unparen(e).(type) {
	case *ast.CallExpr:
		if m, recv := poolCall(t.info, v); m == "GetThreadId" {
			if id, ok := ast.Unparen(recv).(*ast.Ident); ok && t.pools[t.info.Uses[id]] {
				return tagThread
			}
		}
		// conversions int(x)
		if tv, ok := t.info.Types[v.Fun]; ok && tv.IsType() && len(v.Args) == 1 {
			return t.indexTag(v.Args[0])
		}
		// an index map that is injective in its argument (offset + k): X.MapIndex(i)
		if len(v.Args) == 1 {
			if g := t.concreteMethod(v); g != nil && injectiveInParam(g) {
				return t.indexTag(v.Args[0])
			}
		}
	case *ast.Ident:
		o := t.info.Uses[v]
		if o == nil {
			return 0
		}
		if t.jobs[o] {
			return tagJob
		}
		// a local integer defined (only) from tagged expressions
		if t.f.Declares(o) && !t.f.IsParam(o) && !t.busy[o] {
			ds := t.defs[o]
			if len(ds) == 0 {
				return 0
			}
			t.busy[o] = true
			defer delete(t.busy, o)
			r := tagThread | tagJob
			for _, d := range ds {
				r &= t.indexTag(d)
			}
			return r
		}
	case *ast.BinaryExpr:
		// i+c, i-c, c+i with c not depending on a job/thread: injective in i
		if v.Op == token.ADD || v.Op == token.SUB {
			l, r := t.indexTag(v.X), t.indexTag(v.Y)
			if l != 0 && r == 0 && t.constLike(v.Y) {
				return l
			}
			if r != 0 && l == 0 && v.Op == token.ADD && t.constLike(v.X) {
				return r
			}
		}
	}
	return 0
}

// constLike: the expression is the same for all jobs of a group (literals, captured variables, len()).
func (t *tagCtx) constLike(e ast.Expr) bool {
	ok := true
	ast.Inspect(e, func(n ast.Node) bool {
		switch v := n.(type) {
		case *ast.Ident:
			if o, isVar := t.info.Uses[v].(*types.Var); isVar {
				if t.jobs[o] || t.pools[o] || (t.f.Declares(o) && !t.f.IsParam(o)) {
					ok = false
				}
			}
		case *ast.CallExpr:
			if id, isId := v.Fun.(*ast.Ident); !isId || (id.Name != "len" && id.Name != "int") {
				ok = false
			}
		}
		return true
	})
	return ok
}

// pathTags: union of the tags met on the access path of e, following local aliases.
func (t *tagCtx) pathTags(e ast.Expr) tagSet {
	var r tagSet
	for {
		switch v := ast.Unparen(e).(type) {
		case *ast.IndexExpr:
			r |= t.indexTag(v.Index)
			e = v.X
			continue
		case *ast.SliceExpr:
			e = v.X
			continue
		case *ast.SelectorExpr:
			e = v.X
			continue
		case *ast.StarExpr:
			e = v.X
			continue
		case *ast.UnaryExpr:
			e = v.X
			continue
		case *ast.TypeAssertExpr:
			e = v.X
			continue
		case *ast.CallExpr:
			if tv, ok := t.info.Types[v.Fun]; ok && tv.IsType() && len(v.Args) == 1 {
				e = v.Args[0]
				continue
			}
			if s, ok := v.Fun.(*ast.SelectorExpr); ok {
				// an accessor: its arguments select the element (At(i), AT(i,j), GetRecord(d), Slice(a,b) ...)
				for _, a := range v.Args {
					r |= t.indexTag(a)
				}
				e = s.X
				continue
			}
			return r
		case *ast.Ident:
			o := t.info.Uses[v]
			if o == nil {
				o = t.info.Defs[v]
			}
			if o == nil || t.busy[o] {
				return r
			}
			if t.f.Declares(o) && !t.f.IsParam(o) {
				ds := t.defs[o]
				if len(ds) == 0 {
					return r
				}
				t.busy[o] = true
				all := tagThread | tagJob
				for _, d := range ds {
					all &= t.pathTags(d)
				}
				delete(t.busy, o)
				return r | all
			}
			return r
		default:
			return r
		}
	}
}

func checkC17(c *core.Ctx) error {
	if err := c.Load(packages.LoadSyntax); err != nil {
		return err
	}
	c.Explanation = "All concurrency of the library goes through the thread pool (R0: no go statement, channel or sync primitive in any package). For every job submission the may-write summary of the job body " +
		"(engine eff, followed into callees and, through class-hierarchy resolution, into the implementations of the repository's interfaces) is computed and every written location reachable from a captured variable " +
		"must be reached through an access path that carries an ownership tag: THREAD (indexed by GetThreadId() of the job's own pool argument) or JOB (indexed by the job index or a per-iteration copy of the submitting loop's variable). " +
		"Thread-owned variables must be indexed the same way at every occurrence inside the job (R2), are touched by the submitter only before the submission or after Wait of the same group (R3), " +
		"every submission/Wait error is propagated as a non-nil error (R4), and per-thread slices are allocated with NumberOfThreads() elements (R5). The rules hold for every pool size and interleaving because they do not depend on either." +
		" (R9, R10) The mixture EM step and the Baum-Welch step are interpreted symbolically under several job-to-thread schedules with stale per-thread slots; the results must be the terms of the sequential run and free of stale symbols."
	c.Rule("C17.R0", "no go statement, channel operation or sync primitive in the library: the thread pool API is the only source of concurrency", 40)
	c.Rule("C17.R1", "every location a pool job may write through a captured variable is thread-owned ([p.GetThreadId()] of the job's pool), job-owned (job index / per-iteration copy) or local to the job", 60)
	c.Rule("C17.R2", "inside a job, a variable with thread-owned writes is only ever used through its [p.GetThreadId()] element (no read of another thread's accumulator)", 10)
	c.Rule("C17.R3", "the submitting function touches thread-owned accumulators, and writes variables the jobs use, only before the submission or after Wait of the same job group", 10)
	c.Rule("C17.R4", "the error results of AddJob/AddRangeJob/Wait/Job/RangeJob are never discarded and the branch taken on a non-nil error returns a non-nil error", 60)
	c.Rule("C17.R7", "in functions that submit jobs every counted loop outside the job bodies uses its induction variable (per-thread / per-component merge and reset loops visit every element)", 20)
	c.Rule("C17.R9", "the mixture EM step, interpreted symbolically under different job-to-thread schedules with stale thread slots, yields the result of the sequential run (no lost or doubly counted contribution, idle slots are not merged)", 4)
	checkEmStep(c, true)
	c.Rule("C17.R10", "the Baum-Welch step, interpreted symbolically under different record-to-thread schedules with stale thread slots, yields the result of the sequential run", 2)
	checkBaumWelch(c, true)
	c.Rule("C17.R8", "a job uses no pool handle other than its own pool argument (thread ids come from the executing worker)", 30)
	c.Rule("C17.R5", "slices and vectors indexed by GetThreadId() are allocated with NumberOfThreads() elements of a pool", 10)

	e := eff.New(c.LibPkgs(), c.Fset)
	c.Analysed["functions"] = len(e.All)

	// ---------------- R0 closed world
	nfiles := 0
	for _, p := range c.LibPkgs() {
		for _, file := range p.Syntax {
			nfiles++
			bad := ""
			var pos token.Pos
			for _, im := range file.Imports {
				if im.Path.Value == `"sync"` || im.Path.Value == `"sync/atomic"` {
					bad, pos = "imports "+im.Path.Value, im.Pos()
				}
			}
			ast.Inspect(file, func(n ast.Node) bool {
				switch v := n.(type) {
				case *ast.GoStmt:
					bad, pos = "go statement", v.Pos()
				case *ast.ChanType:
					bad, pos = "channel type", v.Pos()
				case *ast.SendStmt:
					bad, pos = "channel send", v.Pos()
				case *ast.SelectStmt:
					bad, pos = "select statement", v.Pos()
				case *ast.UnaryExpr:
					if v.Op == token.ARROW {
						bad, pos = "channel receive", v.Pos()
					}
				}
				return true
			})
			rel := c.PosStr(file.Pos())
			if i := strings.LastIndex(rel, ":"); i > 0 {
				rel = rel[:i]
			}
			c.Check(bad == "", "C17.R0", rel, "no concurrency outside the pool API", pos, "the file contains a "+bad+": goroutines or synchronisation outside the thread pool are not covered by the ownership rules")
		}
	}
	c.Analysed["files"] = nfiles

	// ---------------- job sites
	var sites []jobSite
	for _, f := range e.All {
		info := f.Pkg.TypesInfo
		f := f
		ast.Inspect(f.Body, func(n ast.Node) bool {
			if lit, ok := n.(*ast.FuncLit); ok && lit != f.Lit {
				return false // visited as its own eff.Func
			}
			call, ok := n.(*ast.CallExpr)
			if !ok {
				return true
			}
			m, _ := poolCall(info, call)
			ai, isSubmit := submitMethods[m]
			if !isSubmit || ai >= len(call.Args) {
				return true
			}
			js := jobSite{pkg: f.Pkg, fn: f, call: call, method: m}
			if gi, ok := groupedSubmit[m]; ok {
				js.group = call.Args[gi]
			}
			if lit, ok := ast.Unparen(call.Args[ai]).(*ast.FuncLit); ok {
				js.lit = lit
			}
			sites = append(sites, js)
			return true
		})
	}
	sort.Slice(sites, func(i, j int) bool { return sites[i].call.Pos() < sites[j].call.Pos() })
	c.Analysed["job_submissions"] = len(sites)

	for _, js := range sites {
		owner := js.fn
		if js.fn.Lit != nil && js.fn.Parent() != nil {
			owner = js.fn.Parent()
		}
		ord := 0
		for _, o := range sites {
			oo := o.fn
			if o.fn.Lit != nil && o.fn.Parent() != nil {
				oo = o.fn.Parent()
			}
			if oo == owner && o.call.Pos() < js.call.Pos() {
				ord++
			}
		}
		cons := fmt.Sprintf("%s job#%d", owner.Name, ord)
		if js.lit == nil {
			c.Unknown("C17.R1", cons, "job body is a function literal", js.call.Pos(), "the job is not a function literal: its captured state cannot be enumerated")
			continue
		}
		lf := e.Lits[js.lit]
		if lf == nil {
			c.Unknown("C17.R1", cons, "job body analysed", js.call.Pos(), "no effect summary for the job literal")
			continue
		}
		checkJobOwnership(c, e, js, lf, cons)
	}

	// ---------------- R7 merge/reset loops use their index
	seenF := map[*eff.Func]bool{}
	for _, js := range sites {
		F := js.fn
		for F.Parent() != nil {
			F = F.Parent()
		}
		if seenF[F] {
			continue
		}
		seenF[F] = true
		info := F.Pkg.TypesInfo
		ast.Inspect(F.Body, func(n ast.Node) bool {
			if lit, ok := n.(*ast.FuncLit); ok && isJobLit(info, F.Body, lit) {
				return false
			}
			fs, ok := n.(*ast.ForStmt)
			if !ok || fs.Init == nil {
				return true
			}
			as, ok := fs.Init.(*ast.AssignStmt)
			if !ok || len(as.Lhs) != 1 {
				return true
			}
			id, ok := as.Lhs[0].(*ast.Ident)
			if !ok {
				return true
			}
			o := info.Defs[id]
			if o == nil {
				return true
			}
			used := mentionsObj(info, fs.Body, o)
			c.Check(used, "C17.R7", F.Name, fmt.Sprintf("loop over %s#%d uses its index", id.Name, loopOrdinal(F.Body, fs)), fs.Pos(),
				"the body of the loop over "+id.Name+" never mentions "+id.Name+": every iteration does the same thing, so the per-thread or per-component elements the loop is meant to visit are not all reset/merged")
			return true
		})
	}
	checkThreadFields(c)
	// ---------------- R4 error propagation
	checkPoolErrors(c, e)
	// ---------------- R6 reads of shared data are reads
	c.Rule("C17.R6", "the methods of the const interface strata, which jobs call concurrently on the shared data (x.ConstAt(i), ConstIterator, ...), write nothing reachable from their receiver, caches included", 800)
	for _, f := range constStratumMethods(c, e) {
		if len(f.Params) == 0 || f.Params[0] == nil {
			c.OK("C17.R6", f.Name, "receiver not written", f.Decl.Pos(), "")
			continue
		}
		ws := f.WritesOf(f.Params[0])
		if len(ws) == 0 {
			c.OK("C17.R6", f.Name, "receiver not written", f.Decl.Pos(), "")
		} else {
			c.Fail("C17.R6", f.Name, "receiver not written", ws[0].Pos, "a read-typed method writes shared state: "+describeWrite(c, ws[0])+"; jobs that read the same container from different threads race on it")
		}
	}
	return nil
}

func shortPos(c *core.Ctx, p token.Pos) string {
	s := c.PosStr(p)
	if i := strings.LastIndex(s, "/"); i >= 0 {
		s = s[i+1:]
	}
	return s
}

// jobParams: pool parameter and job-index parameters of a job literal.
func jobParams(info *types.Info, lit *ast.FuncLit) (pools, jobs map[types.Object]bool) {
	pools, jobs = map[types.Object]bool{}, map[types.Object]bool{}
	for _, fl := range lit.Type.Params.List {
		for _, nm := range fl.Names {
			o := info.Defs[nm]
			if o == nil {
				continue
			}
			if isPoolType(o.Type()) {
				pools[o] = true
			} else if b, ok := o.Type().Underlying().(*types.Basic); ok && b.Kind() == types.Int {
				jobs[o] = true
			}
		}
	}
	return
}

// perIterationCopies: variables of the submitting function declared inside a loop body that contains the submission and
// defined exactly once (d := d_): each job captures its own copy.
func perIterationCopies(js jobSite) map[types.Object]bool {
	res := map[types.Object]bool{}
	info := js.pkg.TypesInfo
	var loops []*ast.BlockStmt
	ast.Inspect(js.fn.Body, func(n ast.Node) bool {
		switch l := n.(type) {
		case *ast.ForStmt:
			if l.Body.Pos() <= js.call.Pos() && js.call.End() <= l.Body.End() {
				loops = append(loops, l.Body)
			}
		case *ast.RangeStmt:
			if l.Body.Pos() <= js.call.Pos() && js.call.End() <= l.Body.End() {
				loops = append(loops, l.Body)
			}
		}
		return true
	})
	if len(loops) == 0 {
		return res
	}
	inner := loops[len(loops)-1]
	ndef := map[types.Object]int{}
	ast.Inspect(js.fn.Body, func(n ast.Node) bool {
		switch s := n.(type) {
		case *ast.AssignStmt:
			for _, l := range s.Lhs {
				if id, ok := l.(*ast.Ident); ok {
					if o := info.Defs[id]; o != nil {
						ndef[o]++
					} else if o := info.Uses[id]; o != nil {
						ndef[o]++
					}
				}
			}
		case *ast.IncDecStmt:
			if id, ok := s.X.(*ast.Ident); ok {
				if o := info.Uses[id]; o != nil {
					ndef[o]++
				}
			}
		}
		return true
	})
	for _, st := range inner.List {
		as, ok := st.(*ast.AssignStmt)
		if !ok || as.Tok != token.DEFINE || as.Pos() > js.call.Pos() {
			continue
		}
		for _, l := range as.Lhs {
			if id, ok := l.(*ast.Ident); ok {
				if o := info.Defs[id]; o != nil && ndef[o] == 1 {
					if b, ok := o.Type().Underlying().(*types.Basic); ok && b.Info()&types.IsInteger != 0 {
						res[o] = true
					}
				}
			}
		}
	}
	return res
}

type ownedRoot struct {
	tags tagSet
	pos  token.Pos
}

func checkJobOwnership(c *core.Ctx, e *eff.Engine, js jobSite, lf *eff.Func, cons string) {
	info := js.pkg.TypesInfo
	pools, jobs := jobParams(info, js.lit)
	for o := range perIterationCopies(js) {
		jobs[o] = true
	}
	tc := newTagCtx(e, lf, pools, jobs)
	writeTagsMemo = map[string]tagMemo{}
	jobAssignedFields = map[string]bool{}
	owned := map[types.Object]*ownedRoot{}
	var roots []types.Object
	for r := range lf.Writes {
		roots = append(roots, r)
	}
	sort.Slice(roots, func(i, j int) bool { return roots[i].Pos() < roots[j].Pos() })
	nW := 0
	for _, r := range roots {
		if lf.IsParam(r) {
			// the literal's own parameters: index (value), pool, erf
			continue
		}
		done := map[string]bool{}
		for _, w := range lf.Writes[r] {
			nW++
			tags, why, wpos := writeTags(e, tc, w, 0)
			detail := fmt.Sprintf("write to captured %s via %s", r.Name(), w.Path)
			if tags != 0 {
				if !done[detail] {
					c.OK("C17.R1", cons, detail, w.Pos, "owned: "+tags.String())
				}
				done[detail] = true
				// ownership established on the captured variable itself (tmp[p.GetThreadId()]...) makes it an accumulator array
				if w.Expr != nil && tc.pathTags(w.Expr) != 0 {
					if o := owned[r]; o == nil {
						owned[r] = &ownedRoot{tags, w.Pos}
					} else {
						o.tags &= tags
					}
				}
			} else {
				if done[detail+"!"] {
					continue
				}
				done[detail+"!"] = true
				if wpos == token.NoPos {
					wpos = w.Pos
				}
				c.Fail("C17.R1", cons, detail, wpos,
					fmt.Sprintf("the job may write %s, which it shares with the other jobs of the group, through %s without a thread- or job-owned index%s: two jobs running on different threads write the same location (data race; lost or doubly counted contributions)", r.Name(), describeWrite(c, w), why))
			}
		}
	}
	if nW == 0 {
		c.OK("C17.R1", cons, "no write to captured state", js.call.Pos(), "")
	}
	// ---------------- R2: thread-owned variables are used only through their own element inside the job
	var ownedRoots []types.Object
	for r := range owned {
		ownedRoots = append(ownedRoots, r)
	}
	sort.Slice(ownedRoots, func(i, j int) bool { return ownedRoots[i].Pos() < ownedRoots[j].Pos() })
	for _, r := range ownedRoots {
		if owned[r].tags&tagThread == 0 {
			continue
		}
		bad := token.NoPos
		var stack []ast.Node
		ast.Inspect(js.lit.Body, func(n ast.Node) bool {
			if n == nil {
				stack = stack[:len(stack)-1]
				return true
			}
			stack = append(stack, n)
			id, ok := n.(*ast.Ident)
			if !ok || info.Uses[id] != r || bad != token.NoPos {
				return true
			}
			// climb: the occurrence must sit under an index / accessor argument tagged THREAD, or be len(x)
			okUse := false
			for i := len(stack) - 2; i >= 0 && !okUse; i-- {
				switch p := stack[i].(type) {
				case *ast.IndexExpr:
					if tc.indexTag(p.Index)&tagThread != 0 {
						okUse = true
					}
				case *ast.CallExpr:
					if fid, isId := p.Fun.(*ast.Ident); isId && (fid.Name == "len" || fid.Name == "cap") {
						okUse = true
					}
					for _, a := range p.Args {
						if tc.indexTag(a)&tagThread != 0 {
							okUse = true
						}
					}
				case ast.Stmt:
					i = -1
				}
			}
			if !okUse {
				bad = id.Pos()
			}
			return true
		})
		c.Check(bad == token.NoPos, "C17.R2", cons, "thread-owned "+r.Name()+" used only through [GetThreadId()]", bad,
			"inside the job "+r.Name()+" is also used without the [p.GetThreadId()] index: the job can read or write another thread's accumulator while that thread is running")
	}
	// ---------------- R8: the job uses only its own pool handle
	{
		bad := token.NoPos
		name := ""
		ast.Inspect(js.lit.Body, func(n ast.Node) bool {
			if id, ok := n.(*ast.Ident); ok && bad == token.NoPos {
				if o, isVar := info.Uses[id].(*types.Var); isVar && isPoolType(o.Type()) && !pools[o] && !lf.Declares(o) {
					bad, name = id.Pos(), id.Name
				}
			}
			return true
		})
		c.Check(bad == token.NoPos, "C17.R8", cons, "only the job's own pool argument is used inside the job", bad,
			"the job uses the captured pool handle "+name+" instead of the pool argument it was given: GetThreadId() of that handle is the submitter's thread for every job, so per-thread state indexed through it (directly or in nested estimators) is shared by all workers")
	}
	// ---------------- R3: submitter touches thread-owned state only before submission or after Wait
	checkMergeAfterWait(c, e, js, lf, cons, owned)
	// ---------------- R5 sizes
	checkThreadSizes(c, e, js, lf, cons, tc)
}

// writeTags determines the ownership tags of one write of a function (job literal or callee).
func writeTags(e *eff.Engine, tc *tagCtx, w eff.Write, depth int) (tagSet, string, token.Pos) {
	if w.Expr == nil {
		return 0, " (no access path recorded)", w.Pos
	}
	if w.Callee == nil {
		if sel, ok := ast.Unparen(w.Expr).(*ast.SelectorExpr); ok {
			jobAssignedFields[sel.Sel.Name] = true
		}
	}
	tags := tc.pathTags(w.Expr)
	if tags != 0 && (w.Callee == nil || w.CalleeParam == nil) {
		return tags, "", w.Pos
	}
	if tags != 0 {
		// tagged at this level; still visit the callee to learn which fields it assigns directly (for R3)
		if w.Call != nil && depth <= 12 {
			if gws := w.Callee.Writes[w.CalleeParam]; len(gws) > 0 {
				vkey := fmt.Sprintf("F|%p|%p", w.Callee, w.CalleeParam)
				if !writeTagsBusy[vkey] {
					writeTagsBusy[vkey] = true
					gtc := newTagCtx(e, w.Callee, map[types.Object]bool{}, map[types.Object]bool{})
					for _, gw := range gws {
						writeTags(e, gtc, gw, depth+1)
					}
					delete(writeTagsBusy, vkey)
				}
			}
		}
		return tags, "", w.Pos
	}
	// not tagged at this level: follow the write into the callee
	if w.Callee == nil || w.CalleeParam == nil || w.Call == nil || depth > 12 {
		return 0, "", w.Pos
	}
	g := w.Callee
	ginfo := g.Pkg.TypesInfo
	_ = ginfo
	// pool parameters of the callee that receive the job's pool
	gpools := map[types.Object]bool{}
	k := 0
	if g.Decl != nil && g.Decl.Recv != nil {
		k = 1
	}
	for i, a := range w.Call.Args {
		if id, ok := ast.Unparen(a).(*ast.Ident); ok && tc.pools[tc.info.Uses[id]] {
			if k+i < len(g.Params) && g.Params[k+i] != nil {
				gpools[g.Params[k+i]] = true
			}
		}
	}
	gws := g.Writes[w.CalleeParam]
	if len(gws) == 0 {
		return 0, "", w.Pos
	}
	vkey := fmt.Sprintf("%p|%p|%v", g, w.CalleeParam, len(gpools) > 0)
	if writeTagsBusy[vkey] {
		return tagThread | tagJob, "", w.Pos // recursive cycle: decided by the other writes of the cycle
	}
	if r, ok := writeTagsMemo[vkey]; ok {
		return r.t, r.why, r.pos
	}
	writeTagsBusy[vkey] = true
	defer delete(writeTagsBusy, vkey)
	gtc := newTagCtx(e, g, gpools, map[types.Object]bool{})
	all := tagThread | tagJob
	for _, gw := range gws {
		t, why, p := writeTags(e, gtc, gw, depth+1)
		if t == 0 {
			res := fmt.Sprintf(" (in %s: %s is not indexed by the executing thread%s)", g.Name, gw.Path, why)
			writeTagsMemo[vkey] = tagMemo{0, res, p}
			return 0, res, p
		}
		all &= t
	}
	// tags established inside a callee can only be THREAD (the job index is not visible there)
	all &= tagThread
	writeTagsMemo[vkey] = tagMemo{all, "", w.Pos}
	return all, "", w.Pos
}

type tagMemo struct {
	t   tagSet
	why string
	pos token.Pos
}

var writeTagsBusy = map[string]bool{}

// jobAssignedFields: names of struct fields some write of the current job assigns directly (x.f = ...), at any call depth.
var jobAssignedFields = map[string]bool{}
var writeTagsMemo = map[string]tagMemo{}

// ---------------------------------------------------------------------------
// R3

func checkMergeAfterWait(c *core.Ctx, e *eff.Engine, js jobSite, lf *eff.Func, cons string, owned map[types.Object]*ownedRoot) {
	if js.group == nil {
		// Job/RangeJob wait internally: the submitter continues only after all jobs are done
		return
	}
	F := js.fn
	info := js.pkg.TypesInfo
	g := cfg.New(F.Body, func(*ast.CallExpr) bool { return true })
	// locate nodes
	type loc struct {
		b *cfg.Block
		i int
	}
	find := func(pos token.Pos) *loc {
		for _, b := range g.Blocks {
			for i, n := range b.Nodes {
				if n.Pos() <= pos && pos < n.End() {
					return &loc{b, i}
				}
			}
		}
		return nil
	}
	sub := find(js.call.Pos())
	if sub == nil {
		c.Unknown("C17.R3", cons, "submission located in the control-flow graph", js.call.Pos(), "submission not found in the CFG")
		return
	}
	gobj := identObj(info, js.group)
	isWait := func(n ast.Node) bool {
		found := false
		ast.Inspect(n, func(m ast.Node) bool {
			if _, ok := m.(*ast.FuncLit); ok {
				return false
			}
			if call, ok := m.(*ast.CallExpr); ok {
				if meth, _ := poolCall(info, call); meth == "Wait" && len(call.Args) == 1 && identObj(info, call.Args[0]) == gobj && gobj != nil {
					found = true
				}
			}
			return true
		})
		return found
	}
	// window: nodes reachable from the submission without passing a Wait(g)
	type key struct{ b, i int }
	inWindow := map[key]bool{}
	var window []ast.Node
	seenB := map[int]bool{}
	var walk func(b *cfg.Block, from int)
	walk = func(b *cfg.Block, from int) {
		for i := from; i < len(b.Nodes); i++ {
			if isWait(b.Nodes[i]) {
				return
			}
			if !inWindow[key{int(b.Index), i}] {
				inWindow[key{int(b.Index), i}] = true
				window = append(window, b.Nodes[i])
			}
		}
		for _, s := range b.Succs {
			if !seenB[int(s.Index)] {
				seenB[int(s.Index)] = true
				walk(s, 0)
			}
		}
	}
	walk(sub.b, sub.i+1)
	hasWait := false
	for _, b := range g.Blocks {
		for _, n := range b.Nodes {
			if isWait(n) {
				hasWait = true
			}
		}
	}
	c.Check(hasWait, "C17.R3", cons, "the job group is awaited in the submitting function", js.call.Pos(),
		"no Wait on the job group of this submission in the submitting function: results are read (or the function returns) while jobs may still be running")
	// (a) thread-owned roots must not be mentioned in the window (outside job literals)
	var rs []types.Object
	for r := range owned {
		rs = append(rs, r)
	}
	sort.Slice(rs, func(i, j int) bool { return rs[i].Pos() < rs[j].Pos() })
	mentions := func(n ast.Node, o types.Object) token.Pos {
		p := token.NoPos
		ast.Inspect(n, func(m ast.Node) bool {
			if lit, ok := m.(*ast.FuncLit); ok && isJobLit(info, F.Body, lit) {
				return false
			}
			// x[k].f == nil / != nil: reads only the reference stored in field f; harmless when no job assigns f itself
			if be, ok := m.(*ast.BinaryExpr); ok && (be.Op == token.EQL || be.Op == token.NEQ) {
				if tv, ok := info.Types[be.Y]; ok && tv.IsNil() {
					if sel, ok := ast.Unparen(be.X).(*ast.SelectorExpr); ok && !jobAssignedFields[sel.Sel.Name] {
						return false
					}
				}
			}
			if id, ok := m.(*ast.Ident); ok && info.Uses[id] == o && p == token.NoPos {
				p = id.Pos()
			}
			return true
		})
		return p
	}
	for _, r := range rs {
		if owned[r].tags&tagThread == 0 {
			continue
		}
		bad := token.NoPos
		for _, n := range window {
			if p := mentions(n, r); p != token.NoPos {
				// passing the accumulator array to the next submission of the same group is part of the job set-up
				bad = p
				break
			}
		}
		c.Check(bad == token.NoPos, "C17.R3", cons, "accumulator "+r.Name()+" untouched between submission and Wait", bad,
			"the submitting function uses the per-thread accumulator "+r.Name()+" after the jobs were submitted and before Wait of their group: it reads partial sums or resets state while worker threads are updating it")
	}
	// (d) a result read from one thread's accumulator (return tmp[0].likelihood) is preceded, on every path, by the loop
	// that merges that field over all threads
	{
		fcfg := core.NewFuncCFG(F.Body, info)
		for _, r := range rs {
			if owned[r].tags&tagThread == 0 {
				continue
			}
			// fields of the accumulator read in return statements through a constant index
			type retUse struct {
				field string
				pos   token.Pos
			}
			var uses []retUse
			ast.Inspect(F.Body, func(n ast.Node) bool {
				if lit, ok := n.(*ast.FuncLit); ok && isJobLit(info, F.Body, lit) {
					return false
				}
				rs, ok := n.(*ast.ReturnStmt)
				if !ok {
					return true
				}
				ast.Inspect(rs, func(m ast.Node) bool {
					sel, ok := m.(*ast.SelectorExpr)
					if !ok {
						return true
					}
					ix, ok := ast.Unparen(sel.X).(*ast.IndexExpr)
					if !ok || identObj(info, ix.X) != r {
						return true
					}
					if tv, ok := info.Types[ix.Index]; ok && tv.Value != nil && jobAssignedFields[sel.Sel.Name] {
						uses = append(uses, retUse{sel.Sel.Name, rs.Pos()})
					}
					return true
				})
				return true
			})
			for _, u := range uses {
				// merge loops: for k := ...; { ... r[k].field ... } with k the loop variable
				merged := false
				ast.Inspect(F.Body, func(n ast.Node) bool {
					fs, ok := n.(*ast.ForStmt)
					if !ok || fs.Cond == nil || fs.Init == nil {
						return true
					}
					as, ok := fs.Init.(*ast.AssignStmt)
					if !ok || len(as.Lhs) != 1 {
						return true
					}
					lv := identObj(info, as.Lhs[0])
					if lv == nil {
						if id, ok := as.Lhs[0].(*ast.Ident); ok {
							lv = info.Defs[id]
						}
					}
					reads := false
					ast.Inspect(fs.Body, func(m ast.Node) bool {
						sel, ok := m.(*ast.SelectorExpr)
						if !ok || sel.Sel.Name != u.field {
							return true
						}
						if ix, ok := ast.Unparen(sel.X).(*ast.IndexExpr); ok && identObj(info, ix.X) == r && lv != nil && identObj(info, ix.Index) == lv {
							reads = true
						}
						return true
					})
					if reads && fcfg.NodeDominates(fs.Cond.Pos(), u.pos) {
						merged = true
					}
					return true
				})
				c.Check(merged, "C17.R3", cons, "returned "+r.Name()+"[0]."+u.field+" follows the merge over all threads", u.pos,
					"the function returns "+r.Name()+"[·]."+u.field+" of one thread on a path that does not pass through the loop merging that field over all threads: the contributions of the other worker threads are lost, so the result depends on the pool size and on which thread ran which job")
			}
		}
	}
	// (c) local variables of the submitter assigned inside the window (loop counters included) must not be captured by the job
	{
		assigned := map[types.Object]token.Pos{}
		note := func(e ast.Expr, pos token.Pos) {
			if id, ok := ast.Unparen(e).(*ast.Ident); ok {
				o := info.Uses[id]
				if o == nil {
					o = info.Defs[id]
				}
				if v, ok := o.(*types.Var); ok && F.Declares(v) {
					if _, seen := assigned[v]; !seen {
						assigned[v] = pos
					}
				}
			}
		}
		for _, n := range window {
			ast.Inspect(n, func(m ast.Node) bool {
				if _, ok := m.(*ast.FuncLit); ok {
					return false
				}
				switch st := m.(type) {
				case *ast.AssignStmt:
					if st.Tok != token.DEFINE {
						for _, l := range st.Lhs {
							note(l, st.Pos())
						}
					}
				case *ast.IncDecStmt:
					note(st.X, st.Pos())
				}
				return true
			})
		}
		var as []types.Object
		for o := range assigned {
			as = append(as, o)
		}
		sort.Slice(as, func(i, j int) bool { return as[i].Pos() < as[j].Pos() })
		for _, o := range as {
			if mentionsObj(info, js.lit.Body, o) {
				c.Fail("C17.R3", cons, "job does not capture "+o.Name()+", which the submitter changes while jobs run", assigned[o],
					"the job captures the submitter's variable "+o.Name()+", which the submitter assigns again after the submission and before Wait (for example the submitting loop's own counter): which value a job sees depends on the schedule")
			}
		}
	}
	// (b) variables the submitter writes inside the window must not be used by the jobs
	var froots []types.Object
	for r := range F.Writes {
		froots = append(froots, r)
	}
	sort.Slice(froots, func(i, j int) bool { return froots[i].Pos() < froots[j].Pos() })
	for _, r := range froots {
		for _, w := range F.Writes[r] {
			if w.Node == nil {
				continue
			}
			in := false
			for _, n := range window {
				if n.Pos() <= w.Node.Pos() && w.Node.End() <= n.End() {
					in = true
				}
			}
			// writes performed by the job literal itself are not submitter writes
			if !in || (js.lit.Pos() <= w.Pos && w.Pos < js.lit.End()) {
				continue
			}
			if use := jobUses(e, js, r); use != "" {
				c.Fail("C17.R3", cons, "submitter write to "+r.Name()+" in the window is invisible to the jobs", w.Pos,
					"the submitting function writes "+r.Name()+" ("+w.Path+") after submitting the jobs and before Wait, and the jobs use it ("+use+"): the jobs see a schedule-dependent mixture of old and new values")
			} else {
				c.OK("C17.R3", cons, "submitter write to "+r.Name()+" in the window is invisible to the jobs", w.Pos, "")
			}
			break
		}
	}
}

func identObj(info *types.Info, e ast.Expr) types.Object {
	if id, ok := ast.Unparen(e).(*ast.Ident); ok {
		return info.Uses[id]
	}
	return nil
}

func isJobLit(info *types.Info, body ast.Node, lit *ast.FuncLit) bool {
	found := false
	ast.Inspect(body, func(n ast.Node) bool {
		if call, ok := n.(*ast.CallExpr); ok {
			if m, _ := poolCall(info, call); m != "" {
				if ai, ok := submitMethods[m]; ok && ai < len(call.Args) && ast.Unparen(call.Args[ai]) == ast.Expr(lit) {
					found = true
				}
			}
		}
		return true
	})
	return found
}

// jobUses: how the job literal uses the captured variable o ("" if it does not): any occurrence other than passing it
// to a callee parameter that the callee never mentions.
func jobUses(e *eff.Engine, js jobSite, o types.Object) string {
	info := js.pkg.TypesInfo
	use := ""
	var stack []ast.Node
	ast.Inspect(js.lit.Body, func(n ast.Node) bool {
		if n == nil {
			stack = stack[:len(stack)-1]
			return true
		}
		stack = append(stack, n)
		id, ok := n.(*ast.Ident)
		if !ok || info.Uses[id] != o || use != "" {
			return true
		}
		if len(stack) >= 2 {
			if call, ok := stack[len(stack)-2].(*ast.CallExpr); ok {
				if fn := core.Callee(info, call); fn != nil {
					if g, ok := e.Funcs[fn]; ok {
						k := 0
						if g.Decl != nil && g.Decl.Recv != nil {
							k = 1
						}
						for i, a := range call.Args {
							if a == ast.Expr(id) && k+i < len(g.Params) && g.Params[k+i] != nil {
								if !mentionsObj(g.Pkg.TypesInfo, g.Body, g.Params[k+i]) {
									return true // dead parameter
								}
							}
						}
					}
				}
			}
		}
		use = "used at " + js.pkg.Fset.Position(id.Pos()).String()
		return true
	})
	return use
}

func mentionsObj(info *types.Info, body ast.Node, o types.Object) bool {
	found := false
	ast.Inspect(body, func(n ast.Node) bool {
		if id, ok := n.(*ast.Ident); ok && info.Uses[id] == o {
			found = true
		}
		return true
	})
	return found
}

// ---------------------------------------------------------------------------
// R5: per-thread state sized by the pool

func checkThreadSizes(c *core.Ctx, e *eff.Engine, js jobSite, lf *eff.Func, cons string, tc *tagCtx) {
	info := js.pkg.TypesInfo
	F := js.fn
	// variables indexed by GetThreadId() inside the literal (directly)
	seen := map[types.Object]bool{}
	ast.Inspect(js.lit.Body, func(n ast.Node) bool {
		var base ast.Expr
		var idx ast.Expr
		switch v := n.(type) {
		case *ast.IndexExpr:
			base, idx = v.X, v.Index
		case *ast.CallExpr:
			if s, ok := v.Fun.(*ast.SelectorExpr); ok && len(v.Args) == 1 && (s.Sel.Name == "At" || s.Sel.Name == "AT") {
				base, idx = s.X, v.Args[0]
			}
		}
		if base == nil || tc.indexTag(idx)&tagThread == 0 {
			return true
		}
		id, ok := ast.Unparen(base).(*ast.Ident)
		if !ok {
			return true
		}
		o := info.Uses[id]
		if o == nil || seen[o] || lf.Declares(o) {
			return true
		}
		seen[o] = true
		// definition in the submitting function
		if F.IsParam(o) || !F.Declares(o) {
			// parameter or outer variable: allocation is in a caller; checked where it is a local (callers in the library)
			return true
		}
		var scope ast.Node = F.Body
		for pf := F; pf != nil; pf = pf.Parent() {
			scope = pf.Body
		}
		okAlloc, why := sizedByPool(info, scope, o)
		c.Check(okAlloc, "C17.R5", cons, "per-thread "+o.Name()+" has NumberOfThreads() elements", o.Pos(),
			"the variable "+o.Name()+" is indexed by GetThreadId() inside the job but "+why+": with more threads than elements the job indexes out of range, with a shared element two threads accumulate into the same slot")
		// the per-thread elements are distinct objects: every reference stored into the array is a fresh clone/allocation
		bad := token.NoPos
		what := ""
		ast.Inspect(scope, func(n ast.Node) bool {
			as, ok := n.(*ast.AssignStmt)
			if !ok || len(as.Lhs) != len(as.Rhs) {
				return true
			}
			for i, l := range as.Lhs {
				if _, isIdx := ast.Unparen(l).(*ast.IndexExpr); !isIdx {
					continue
				}
				b := l
				for {
					if ix, ok := ast.Unparen(b).(*ast.IndexExpr); ok {
						b = ix.X
						continue
					}
					break
				}
				if identObj(info, b) != o {
					continue
				}
				tv, ok := info.Types[as.Rhs[i]]
				if !ok || !refKindType(tv.Type) {
					continue
				}
				if !freshByForm(info, as.Rhs[i]) && bad == token.NoPos {
					bad, what = as.Pos(), types.ExprString(as.Rhs[i])
				}
			}
			return true
		})
		c.Check(bad == token.NoPos, "C17.R5", cons, "per-thread elements of "+o.Name()+" are distinct objects", bad,
			"the per-thread array "+o.Name()+" is filled with "+what+", which is not a fresh clone or allocation: the threads' elements are the same object, so writes that look thread-owned land in shared state")
		return true
	})
}

// freshByForm: the expression is make/new, a composite literal, or a call of a Clone*/New*/Null*/As* constructor.
func freshByForm(info *types.Info, x ast.Expr) bool {
	switch v := ast.Unparen(x).(type) {
	case *ast.CompositeLit:
		return true
	case *ast.UnaryExpr:
		if v.Op == token.AND {
			return freshByForm(info, v.X)
		}
	case *ast.CallExpr:
		nm := calleeName(v)
		return nm == "make" || nm == "new" || strings.HasPrefix(nm, "Clone") || strings.HasPrefix(nm, "New") || strings.HasPrefix(nm, "Null") || strings.HasPrefix(nm, "AsDense") || strings.HasPrefix(nm, "AsSparse")
	case *ast.Ident:
		return v.Name == "nil"
	}
	return false
}

// checkThreadFields (R5, library-wide): struct fields indexed by GetThreadId() anywhere (obj.sum_m[p.GetThreadId()],
// obj.y.At(p.GetThreadId())) are only ever assigned nil or an allocation sized by NumberOfThreads().
func checkThreadFields(c *core.Ctx) {
	fields := map[*types.Var]token.Pos{}
	// local variables defined (only) as X.GetThreadId()
	tidVars := map[types.Object]bool{}
	for _, p := range c.LibPkgs() {
		info := p.TypesInfo
		for _, file := range p.Syntax {
			ast.Inspect(file, func(n ast.Node) bool {
				as, ok := n.(*ast.AssignStmt)
				if !ok || len(as.Lhs) != len(as.Rhs) {
					return true
				}
				for i, l := range as.Lhs {
					id, ok := l.(*ast.Ident)
					if !ok {
						continue
					}
					o := info.Defs[id]
					if o == nil {
						o = info.Uses[id]
					}
					if o == nil {
						continue
					}
					isT := false
					if ic, ok := ast.Unparen(as.Rhs[i]).(*ast.CallExpr); ok {
						if m, _ := poolCall(info, ic); m == "GetThreadId" {
							isT = true
						}
					}
					if prev, seen := tidVars[o]; seen {
						tidVars[o] = prev && isT
					} else {
						tidVars[o] = isT
					}
				}
				return true
			})
		}
	}
	for _, p := range c.LibPkgs() {
		info := p.TypesInfo
		for _, file := range p.Syntax {
			ast.Inspect(file, func(n ast.Node) bool {
				var base, idx ast.Expr
				switch v := n.(type) {
				case *ast.IndexExpr:
					base, idx = v.X, v.Index
				case *ast.CallExpr:
					if s, ok := v.Fun.(*ast.SelectorExpr); ok && len(v.Args) == 1 && (s.Sel.Name == "At" || s.Sel.Name == "AT" || s.Sel.Name == "ConstAt") {
						base, idx = s.X, v.Args[0]
					}
				}
				if base == nil {
					return true
				}
				isTid := false
				if ic, ok := ast.Unparen(idx).(*ast.CallExpr); ok {
					if m, _ := poolCall(info, ic); m == "GetThreadId" {
						isTid = true
					}
				}
				if id, ok := ast.Unparen(idx).(*ast.Ident); ok && tidVars[info.Uses[id]] {
					isTid = true
				}
				if !isTid {
					return true
				}
				if sel, ok := ast.Unparen(base).(*ast.SelectorExpr); ok {
					if fv, ok := info.Uses[sel.Sel].(*types.Var); ok && fv.IsField() {
						if _, seen := fields[fv]; !seen {
							fields[fv] = sel.Pos()
						}
					}
				}
				return true
			})
		}
	}
	var fs []*types.Var
	for f := range fields {
		fs = append(fs, f)
	}
	sort.Slice(fs, func(i, j int) bool { return fs[i].Pos() < fs[j].Pos() })
	for _, fv := range fs {
		bad := token.NoPos
		what := ""
		nAssign := 0
		for _, p := range c.LibPkgs() {
			info := p.TypesInfo
			for _, file := range p.Syntax {
				ast.Inspect(file, func(n ast.Node) bool {
					as, ok := n.(*ast.AssignStmt)
					if !ok || len(as.Lhs) != len(as.Rhs) {
						return true
					}
					for i, l := range as.Lhs {
						sel, ok := ast.Unparen(l).(*ast.SelectorExpr)
						if !ok || info.Uses[sel.Sel] != types.Object(fv) {
							continue
						}
						nAssign++
						r := ast.Unparen(as.Rhs[i])
						if id, ok := r.(*ast.Ident); ok && id.Name == "nil" {
							continue
						}
						sized := false
						if call, ok := r.(*ast.CallExpr); ok {
							for _, a := range call.Args {
								if ac, ok := ast.Unparen(a).(*ast.CallExpr); ok {
									if m, _ := poolCall(info, ac); m == "NumberOfThreads" {
										sized = true
									}
								}
							}
						}
						if !sized && bad == token.NoPos {
							bad, what = as.Pos(), types.ExprString(as.Rhs[i])
						}
					}
					return true
				})
			}
		}
		owner := ""
		if fv.Pkg() != nil {
			owner = core.RelPkg(fv.Pkg().Path())
		}
		cons := fmt.Sprintf("field %s.%s of %s", owner, fv.Name(), structOwnerName(c, fv))
		c.Check(bad == token.NoPos && nAssign > 0, "C17.R5", cons, "thread-indexed field is sized by NumberOfThreads()", bad,
			func() string {
				if nAssign == 0 {
					return "the field is indexed by GetThreadId() but never allocated in the library"
				}
				return "the field is indexed by GetThreadId() but assigned " + what + ", whose length is not NumberOfThreads() of a pool: with more worker threads than elements the jobs index out of range or share a slot"
			}())
	}
}

// sizedByPool: every definition of the local o is make(T, X.NumberOfThreads()[, ...]) or a Null*/New* constructor whose
// size argument is X.NumberOfThreads() (directly or through a local integer defined from it).
func sizedByPool(info *types.Info, body ast.Node, o types.Object) (bool, string) {
	isNT := func(x ast.Expr) bool {
		var rec func(x ast.Expr, d int) bool
		rec = func(x ast.Expr, d int) bool {
			if d > 3 {
				return false
			}
			switch v := ast.Unparen(x).(type) {
			case *ast.CallExpr:
				if m, _ := poolCall(info, v); m == "NumberOfThreads" {
					return true
				}
			case *ast.Ident:
				vo := info.Uses[v]
				ok := false
				n := 0
				ast.Inspect(body, func(nn ast.Node) bool {
					if as, isAs := nn.(*ast.AssignStmt); isAs {
						for i, l := range as.Lhs {
							if lid, isId := l.(*ast.Ident); isId && (info.Defs[lid] == vo || info.Uses[lid] == vo) && i < len(as.Rhs) && len(as.Rhs) == len(as.Lhs) {
								n++
								ok = rec(as.Rhs[i], d+1)
							}
						}
					}
					return true
				})
				return ok && n == 1
			}
			return false
		}
		return rec(x, 0)
	}
	ndefs := 0
	why := ""
	ast.Inspect(body, func(n ast.Node) bool {
		as, ok := n.(*ast.AssignStmt)
		if !ok {
			return true
		}
		for i, l := range as.Lhs {
			lid, isId := l.(*ast.Ident)
			if !isId || (info.Defs[lid] != o && info.Uses[lid] != o) || i >= len(as.Rhs) || len(as.Rhs) != len(as.Lhs) {
				continue
			}
			ndefs++
			call, isCall := ast.Unparen(as.Rhs[i]).(*ast.CallExpr)
			if !isCall {
				why = "is defined as " + types.ExprString(as.Rhs[i])
				continue
			}
			sized := false
			for _, a := range call.Args {
				if isNT(a) {
					sized = true
				}
			}
			if !sized {
				why = "is allocated by " + types.ExprString(call) + " whose size is not NumberOfThreads()"
			}
		}
		return true
	})
	if ndefs == 0 {
		return false, "has no visible allocation"
	}
	return why == "", why
}

// ---------------------------------------------------------------------------
// R4: errors of the pool API

func checkPoolErrors(c *core.Ctx, e *eff.Engine) {
	for _, f := range e.All {
		if f.Lit != nil {
			continue // literals are visited as part of their declaring function
		}
		info := f.Pkg.TypesInfo
		var stack []ast.Node
		ast.Inspect(f.Body, func(n ast.Node) bool {
			if n == nil {
				stack = stack[:len(stack)-1]
				return true
			}
			stack = append(stack, n)
			call, ok := n.(*ast.CallExpr)
			if !ok {
				return true
			}
			m, _ := poolCall(info, call)
			if _, isSubmit := submitMethods[m]; !isSubmit && m != "Wait" {
				return true
			}
			ord := 0
			ast.Inspect(f.Body, func(x ast.Node) bool {
				if c2, ok := x.(*ast.CallExpr); ok && c2.Pos() < call.Pos() {
					if m2, _ := poolCall(info, c2); m2 == m {
						ord++
					}
				}
				return true
			})
			cons := fmt.Sprintf("%s %s#%d", f.Name, m, ord)
			parent := stack[len(stack)-2]
			switch p := parent.(type) {
			case *ast.ExprStmt:
				c.Fail("C17.R4", cons, "error result used", call.Pos(), "the error returned by "+m+" is discarded: a failed job (or a failed submission) goes unnoticed and the estimate is computed from partial contributions")
			case *ast.ReturnStmt:
				c.OK("C17.R4", cons, "error result used", call.Pos(), "returned")
			case *ast.AssignStmt:
				// err := p.M(...) as the Init of an if, or a plain statement followed by a test
				var errObj types.Object
				for i, r := range p.Rhs {
					if r == ast.Expr(call) && i < len(p.Lhs) {
						if id, ok := p.Lhs[i].(*ast.Ident); ok {
							if id.Name == "_" {
								c.Fail("C17.R4", cons, "error result used", call.Pos(), "the error returned by "+m+" is assigned to _")
								return true
							}
							errObj = info.Defs[id]
							if errObj == nil {
								errObj = info.Uses[id]
							}
						}
					}
				}
				if errObj == nil {
					c.Unknown("C17.R4", cons, "error result used", call.Pos(), "assignment form not recognised")
					return true
				}
				// find the if statement testing errObj != nil
				var ifs *ast.IfStmt
				if len(stack) >= 3 {
					if is, ok := stack[len(stack)-3].(*ast.IfStmt); ok && is.Init == ast.Stmt(p) {
						ifs = is
					}
				}
				if ifs == nil {
					// following statement in the same block
					ast.Inspect(f.Body, func(m ast.Node) bool {
						if is, ok := m.(*ast.IfStmt); ok && is.Pos() > p.End() && ifs == nil && condTestsNonNil(info, is.Cond, errObj) {
							ifs = is
						}
						return true
					})
				}
				if ifs == nil || !condTestsNonNil(info, ifs.Cond, errObj) {
					// returned later?
					ret := false
					ast.Inspect(f.Body, func(m ast.Node) bool {
						if rs, ok := m.(*ast.ReturnStmt); ok && rs.Pos() > p.End() {
							for _, r := range rs.Results {
								if identObj(info, r) == errObj {
									ret = true
								}
							}
						}
						return true
					})
					c.Check(ret, "C17.R4", cons, "error result used", call.Pos(), "the error returned by "+m+" is stored but neither tested nor returned")
					return true
				}
				// every return directly under the err != nil branch returns a non-nil error
				bad := token.NoPos
				nret := 0
				ast.Inspect(ifs.Body, func(m ast.Node) bool {
					if _, ok := m.(*ast.FuncLit); ok {
						return false
					}
					if rs, ok := m.(*ast.ReturnStmt); ok {
						nret++
						if len(rs.Results) == 0 {
							return true
						}
						last := rs.Results[len(rs.Results)-1]
						if tv, ok := info.Types[last]; ok && tv.IsNil() {
							bad = rs.Pos()
						}
					}
					return true
				})
				if bad != token.NoPos {
					c.Fail("C17.R4", cons, "error branch returns a non-nil error", bad, "when "+m+" reports an error the function returns a nil error: the caller continues with estimates computed from the jobs that happened to finish")
				} else if nret == 0 {
					c.Fail("C17.R4", cons, "error branch returns a non-nil error", ifs.Pos(), "the branch taken when "+m+" reports an error does not return: the error is swallowed")
				} else {
					c.OK("C17.R4", cons, "error branch returns a non-nil error", call.Pos(), "")
				}
			default:
				c.Unknown("C17.R4", cons, "error result used", call.Pos(), fmt.Sprintf("call appears in an unrecognised context (%T)", parent))
			}
			return true
		})
	}
}

func condTestsNonNil(info *types.Info, cond ast.Expr, o types.Object) bool {
	be, ok := ast.Unparen(cond).(*ast.BinaryExpr)
	if !ok || be.Op != token.NEQ {
		return false
	}
	if identObj(info, be.X) == o {
		if tv, ok := info.Types[be.Y]; ok && tv.IsNil() {
			return true
		}
	}
	return false
}

// concreteMethod resolves X.M(...) to an analysed method body: statically, or, when X is a local variable of interface
// type defined once by a call whose callee returns composite literals of one named type T, to T's method M.
func (t *tagCtx) concreteMethod(call *ast.CallExpr) *eff.Func {
	sel, ok := ast.Unparen(call.Fun).(*ast.SelectorExpr)
	if !ok {
		return nil
	}
	if fn := core.Callee(t.info, call); fn != nil {
		if g, ok := t.e.Funcs[fn]; ok {
			return g
		}
	}
	id, ok := ast.Unparen(sel.X).(*ast.Ident)
	if !ok {
		return nil
	}
	o := t.info.Uses[id]
	// definition: in this function or (captured per-iteration variable) in the enclosing one
	var defs []ast.Expr
	for f := t.f; f != nil && len(defs) == 0; f = f.Parent() {
		ast.Inspect(f.Body, func(n ast.Node) bool {
			if as, ok := n.(*ast.AssignStmt); ok {
				for i, l := range as.Lhs {
					if lid, ok := l.(*ast.Ident); ok && (f.Pkg.TypesInfo.Defs[lid] == o || f.Pkg.TypesInfo.Uses[lid] == o) && len(as.Lhs) == len(as.Rhs) {
						defs = append(defs, as.Rhs[i])
					}
				}
			}
			return true
		})
	}
	if len(defs) != 1 {
		return nil
	}
	dc, ok := ast.Unparen(defs[0]).(*ast.CallExpr)
	if !ok {
		return nil
	}
	fn := core.Callee(t.info, dc)
	if fn == nil {
		return nil
	}
	g, ok := t.e.Funcs[fn]
	if !ok {
		return nil
	}
	var T *types.Named
	same := true
	ast.Inspect(g.Body, func(n ast.Node) bool {
		if _, ok := n.(*ast.FuncLit); ok {
			return false
		}
		rs, ok := n.(*ast.ReturnStmt)
		if !ok || len(rs.Results) != 1 {
			return true
		}
		r := ast.Unparen(rs.Results[0])
		if u, ok := r.(*ast.UnaryExpr); ok && u.Op == token.AND {
			r = u.X
		}
		cl, ok := r.(*ast.CompositeLit)
		if !ok {
			same = false
			return true
		}
		tv, ok := g.Pkg.TypesInfo.Types[cl]
		if !ok {
			same = false
			return true
		}
		n2, _ := tv.Type.(*types.Named)
		if n2 == nil || (T != nil && T != n2) {
			same = false
		}
		T = n2
		return true
	})
	if !same || T == nil {
		return nil
	}
	for i := 0; i < T.NumMethods(); i++ {
		if m := T.Method(i); m.Name() == sel.Sel.Name {
			if mg, ok := t.e.Funcs[m]; ok {
				return mg
			}
		}
	}
	return nil
}

// injectiveInParam: the method body is a single `return e` with e = k, c + k or k + c for its only parameter k and c
// free of k (a receiver field or constant).
func injectiveInParam(g *eff.Func) bool {
	if g.Decl == nil || g.Body == nil || len(g.Body.List) != 1 || g.Decl.Type.Params.NumFields() != 1 {
		return false
	}
	rs, ok := g.Body.List[0].(*ast.ReturnStmt)
	if !ok || len(rs.Results) != 1 {
		return false
	}
	info := g.Pkg.TypesInfo
	var k types.Object
	for _, fl := range g.Decl.Type.Params.List {
		for _, nm := range fl.Names {
			k = info.Defs[nm]
		}
	}
	isK := func(e ast.Expr) bool {
		id, ok := ast.Unparen(e).(*ast.Ident)
		return ok && info.Uses[id] == k
	}
	freeOfK := func(e ast.Expr) bool {
		free := true
		ast.Inspect(e, func(n ast.Node) bool {
			if id, ok := n.(*ast.Ident); ok && info.Uses[id] == k {
				free = false
			}
			if _, ok := n.(*ast.CallExpr); ok {
				free = false
			}
			return true
		})
		return free
	}
	r := ast.Unparen(rs.Results[0])
	if isK(r) {
		return true
	}
	if be, ok := r.(*ast.BinaryExpr); ok && be.Op == token.ADD {
		return (isK(be.X) && freeOfK(be.Y)) || (isK(be.Y) && freeOfK(be.X))
	}
	return false
}

func loopOrdinal(body ast.Node, fs *ast.ForStmt) int {
	n := 0
	ast.Inspect(body, func(m ast.Node) bool {
		if l, ok := m.(*ast.ForStmt); ok && l.Pos() < fs.Pos() {
			n++
		}
		return true
	})
	return n
}

// structOwnerName: the struct type that declares field fv.
func structOwnerName(c *core.Ctx, fv *types.Var) string {
	for _, p := range c.LibPkgs() {
		if p.Types != fv.Pkg() {
			continue
		}
		sc := p.Types.Scope()
		for _, nm := range sc.Names() {
			tn, ok := sc.Lookup(nm).(*types.TypeName)
			if !ok {
				continue
			}
			if st, ok := tn.Type().Underlying().(*types.Struct); ok {
				for i := 0; i < st.NumFields(); i++ {
					if st.Field(i) == fv {
						return nm
					}
				}
			}
		}
	}
	return "?"
}
