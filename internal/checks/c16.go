package checks

import (
	"fmt"
	"go/ast"
	"math/big"
	"os"
	"strings"

	"golang.org/x/tools/go/packages"

	"verif/internal/core"
	"verif/internal/sym"
	"verif/internal/vn"
)

func init() { Registry["C16"] = checkC16 }

// ---------------------------------------------------------------------------
// C16 (one clause) — closed-form estimators return a stationary point of the weighted log-likelihood of their family
// ---------------------------------------------------------------------------
//
// The estimator is interpreted symbolically on a generic weighted data set of two observations (x_a, x_b with
// log-weights g_a, g_b) and a pool of one thread: constructor, Initialize, NewObservation twice, updateEstimate. The
// estimate is then a term over x_a, x_b, g_a, g_b. With the log-density f(x; theta) of the family (the reference table
// of C14) the weighted log-likelihood is L(theta) = e^{g_a} f(x_a; theta) + e^{g_b} f(x_b; theta), and the estimate must
// make every partial derivative dL/dtheta_j vanish identically. Two generic observations suffice to tell the maximiser
// from any other function of the sufficient statistics of these families (e.g. 1/mean from 1/(1+mean)).

type estEntry struct {
	T      string            // estimator type
	dist   string            // distribution type (entry of scalarDistTable) and name of the embedded field
	fields map[string]string // formula parameter -> field of the distribution object
	free   []string          // parameters the estimator estimates (others are held fixed)
	bounds []string          // estimator fields that cap the estimate (paths that hit a cap are not stationary points)
	ctor   []string          // symbol names of the constructor's parameters by position (independent of the source names)
}

var estTable = []estEntry{
	{T: "NormalEstimator", dist: "NormalDistribution", fields: map[string]string{"mu": "Mu", "sigma": "Sigma"}, free: []string{"mu", "sigma"}, bounds: []string{"sigmaMin"}, ctor: []string{"mu", "sigma", "sigmaMin"}},
	{T: "ExponentialEstimator", dist: "ExponentialDistribution", fields: map[string]string{"lambda": "Lambda"}, free: []string{"lambda"}, bounds: []string{"lambdaMax"}, ctor: []string{"lambda", "lambdaMax"}},
	{T: "PoissonEstimator", dist: "PoissonDistribution", fields: map[string]string{"lambda": "Lambda"}, free: []string{"lambda"}, ctor: []string{"lambda"}},
	{T: "GeometricEstimator", dist: "GeometricDistribution", fields: map[string]string{"p": "p"}, free: []string{"p"}, ctor: []string{"p"}},
	{T: "NegativeBinomialEstimator", dist: "NegativeBinomialDistribution", fields: map[string]string{"r": "R", "p": "P"}, free: []string{"p"}, ctor: []string{"r", "p"}},
}

// c16MethodSyms: positional symbol names for the parameters of the interpreted estimator methods.
var c16MethodSyms = map[string][]string{"Initialize": {"p"}, "NewObservation": {"x", "gamma", "p"}}

func checkC16(c *core.Ctx) error {
	if err := c.Load(packages.LoadSyntax); err != nil {
		return err
	}
	c.Explanation = "One clause of C16 is decided: the closed-form scalar estimators (normal, exponential, Poisson, geometric, negative binomial with fixed r) return a stationary point of the weighted log-likelihood of their own family. " +
		"The estimator code (constructor, Initialize, NewObservation, updateEstimate) is interpreted symbolically for a generic weighted data set of two observations and a pool of one thread; the resulting estimate, a term over the observations and log-weights, is substituted into the symbolic gradient of the weighted log-likelihood built from the family's log-density (the C14 reference table), which must vanish identically. " +
		"Nothing else of C16 (EM monotonicity, likelihood reported to hooks, numeric estimators, parameter bounds) is decided." +
		" (R1b) Configured bounds replace the estimate exactly on the paths on which the unconstrained estimate of the bounded parameter is beyond them. (R3, R4) The mixture EM step and the Baum-Welch step (with the float64 forward-backward recursion it calls) are interpreted symbolically on small models with a modelled thread pool; returned likelihood, responsibilities and re-estimated weights / initial and transition probabilities are compared, as normal forms, with the textbook E-step and M-step written down by explicit enumeration of components resp. hidden paths."
	c.Rule("C16.R1b", "a configured parameter bound replaces the estimate exactly on the paths on which the unconstrained estimate of that parameter is beyond it", 4)
	c.Rule("C16.R1", "the estimate computed by updateEstimate from the accumulated weighted statistics makes the gradient of the weighted log-likelihood of the estimator's own family vanish identically (interior case)", 4)
	p := c.Pkg("statistics/scalarEstimator")
	if p == nil {
		return fmt.Errorf("package statistics/scalarEstimator not found")
	}
	d := newDeclIndex(c)
	for _, e := range estTable {
		if only := os.Getenv("C16ONLY"); only != "" && only != e.T {
			continue
		}
		checkEstimator(c, p, d, e)
	}
	checkCategoricalEstimator(c, p, d)
	checkRescaleSurvives(c)
	checkRunningMaxInit(c)
	checkEmWiring(c)
	c.Analysed["closed_form_estimators"] = len(estTable) + 1
	// ---- R3 the mixture EM step is the textbook E-step / M-step
	c.Rule("C16.R3", "the mixture EM step, interpreted symbolically for two components: the returned likelihood is the data log-likelihood of the model of the iteration, the responsibilities are the component posteriors (times observation weight and multiplicity), the new weights are the normalised responsibility sums", 20)
	checkEmStep(c, false)
	c.Rule("C16.R4", "the Baum-Welch step, interpreted symbolically for two states and two records: the returned likelihood is the data log-likelihood of the model of the iteration, the responsibilities are the state posteriors, the new initial probabilities and transitions are the normalised expected counts", 20)
	checkBaumWelch(c, false)
	// ---- R2 the EM / Baum-Welch drivers report and test the likelihood returned by the step of the same iteration
	c.Rule("C16.R2", "the EM and Baum-Welch drivers hand their hooks the likelihood returned by Step in the same iteration and its difference to the previous one, test convergence on that difference, and only then remember it", 2)
	if g := c.Pkg("statistics/generic"); g != nil {
		for _, fn := range []string{"emAlgorithm", "baumWelchAlgorithm"} {
			fd := findFuncDecl(g, fn)
			cons := "statistics/generic." + fn
			if fd == nil {
				c.Unknown("C16.R2", cons, "driver found", 0, "function not found")
				continue
			}
			var newVar, oldVar string
			var stepPos, hookPos, testPos, updPos ast.Node
			hookOK, testOK := false, false
			ast.Inspect(fd.Body, func(n ast.Node) bool {
				switch v := n.(type) {
				case *ast.AssignStmt:
					if len(v.Rhs) == 1 {
						if call, ok := v.Rhs[0].(*ast.CallExpr); ok && calleeName(call) == "Step" && len(v.Lhs) == 2 {
							newVar = exprStr(v.Lhs[0])
							stepPos = v
						}
						if len(v.Lhs) == 1 && newVar != "" && exprStr(v.Rhs[0]) == newVar && v.Tok.String() == "=" {
							oldVar = exprStr(v.Lhs[0])
							updPos = v
						}
					}
				}
				return true
			})
			if newVar == "" || oldVar == "" {
				c.Fail("C16.R2", cons, "likelihood of the step is remembered for the next iteration", fd.Pos(), "no `new, err := obj.Step(...)` followed by `old = new` found in the driver")
				continue
			}
			delta := newVar + "-" + oldVar
			ast.Inspect(fd.Body, func(n ast.Node) bool {
				switch v := n.(type) {
				case *ast.CallExpr:
					if sel, ok := v.Fun.(*ast.SelectorExpr); ok && sel.Sel.Name == "Value" && exprStr(sel.X) == "hook" && len(v.Args) == 4 && stepPos != nil && v.Pos() > stepPos.Pos() {
						hookPos = v
						hookOK = linKey(fd, v.Args[2]) == linKeyStr(newVar) && linKey(fd, v.Args[3]) == linKeyStr2(newVar, oldVar)
					}
				case *ast.IfStmt:
					if be, ok := v.Cond.(*ast.BinaryExpr); ok && strings.Contains(exprStr(be.Y), "epsilon") {
						testPos = v
						testOK = linKey(fd, be.X) == linKeyStr2(newVar, oldVar)
					}
				}
				return true
			})
			order := hookPos != nil && testPos != nil && updPos != nil && stepPos.Pos() < hookPos.Pos() && hookPos.Pos() < updPos.Pos() && testPos.Pos() < updPos.Pos()
			c.Check(hookOK && testOK && order, "C16.R2", cons, "hook and convergence test use the likelihood of this iteration's step", fd.Pos(),
				fmt.Sprintf("expected hook.Value(model, k+1, %s, %s), a convergence test on %s and `%s = %s` after both (hook ok: %v, test ok: %v, order ok: %v): the likelihood or change reported to the hooks is not the one of the iteration it is reported for", newVar, delta, delta, oldVar, newVar, hookOK, testOK, order))
		}
	}
	return nil
}

// runOn interprets method name of type T on obj (in place semantics emulated: the object of the chosen path is
// returned). pick selects the path; returning nil means "no acceptable path".
func runOn(p *packages.Package, d *declIndex, T, name string, obj *vn.StructVal, pick func(pa *vn.Path) bool) (*vn.StructVal, string) {
	fd := findMethodDecl(p, T, name)
	if fd == nil {
		return nil, "method " + name + " not found"
	}
	cfg := vn.Config{Pkg: p, TypeName: "Real64", Spec: distSpec, InlineOps: inlineOps, Decl: d.find, ParamNames: true, MaxDepth: 6,
		RecvStruct: obj, RecvFresh: true, UnrollConst: true, ParamSyms: c16MethodSyms[name]}
	paths, und := vn.Run(cfg, fd)
	if und != nil {
		return nil, name + " left the interpreter's idiom set: " + und.Msg
	}
	for _, pa := range paths {
		if pa.Panic || pa.RecvObj == nil {
			continue
		}
		if _, isErr := pa.Ret.(*vn.ErrVal); isErr {
			continue
		}
		if pick == nil || pick(pa) {
			return pa.RecvObj, ""
		}
	}
	return nil, "no acceptable path of " + name
}

func checkEstimator(c *core.Ctx, p *packages.Package, d *declIndex, e estEntry) {
	cons := "statistics/scalarEstimator." + e.T
	ctor := findFuncDecl(p, "New"+e.T)
	if ctor == nil {
		c.Unknown("C16.R1", cons, "constructor found", 0, "no constructor New"+e.T)
		return
	}
	var entry *distEntry
	for i := range scalarDistTable {
		if scalarDistTable[i].T == e.dist {
			entry = &scalarDistTable[i]
		}
	}
	if entry == nil {
		c.Unknown("C16.R1", cons, "family has a reference log-density", ctor.Pos(), "no entry for "+e.dist+" in the reference table")
		return
	}
	// constructor (parameters get the suffix 0: they are the starting values, not the estimate)
	cfg := vn.Config{Pkg: p, TypeName: "Real64", Spec: distSpec, InlineOps: inlineOps, Decl: d.find, ParamNames: true, MaxDepth: 6, UnrollConst: true, ParamSyms: e.ctor}
	paths, und := vn.Run(cfg, ctor)
	if und != nil {
		c.Unknown("C16.R1", cons, "constructor interpreted", und.Pos, "constructor left the interpreter's idiom set: "+und.Msg)
		return
	}
	var obj *vn.StructVal
	for _, pa := range paths {
		if t, ok := pa.Ret.(vn.Tuple); ok && len(t) == 2 {
			if o, isObj := t[0].(*vn.StructVal); isObj {
				if _, isErr := t[1].(*vn.ErrVal); !isErr {
					obj = o
				}
			}
		}
	}
	if obj == nil {
		c.Unknown("C16.R1", cons, "constructor has a success path", ctor.Pos(), "no success path")
		return
	}
	// rename the constructor's symbols (start values) so that they cannot be confused with the estimate
	ren := map[*sym.Atom]*sym.Term{}
	k := 0
	for _, f := range ctor.Type.Params.List {
		for _, n := range f.Names {
			name := n.Name
			if k < len(e.ctor) {
				name = e.ctor[k]
			}
			ren[sym.SymAtom(name)] = sym.Sym(name + "_start")
			k++
		}
	}
	vn.SubstValue(obj, ren, nil)
	// Initialize, two observations
	var msg string
	if obj, msg = runOn(p, d, e.T, "Initialize", obj, nil); obj == nil {
		c.Unknown("C16.R1", cons, "Initialize interpreted", ctor.Pos(), msg)
		return
	}
	tags := []string{"a", "b"}
	// (a third observation makes the polynomial identities too large to normalise in reasonable time; two generic
	// observations already separate the maximiser from every other function of the sufficient statistics)
	for _, tag := range tags {
		if obj, msg = runOn(p, d, e.T, "NewObservation", obj, nil); obj == nil {
			c.Unknown("C16.R1", cons, "NewObservation interpreted", ctor.Pos(), msg)
			return
		}
		vn.SubstValue(obj, map[*sym.Atom]*sym.Term{sym.SymAtom("x"): sym.Sym("x_" + tag), sym.SymAtom("gamma"): sym.Sym("g_" + tag)}, nil)
	}
	// updateEstimate: interior paths only (no cap applied)
	ue := findMethodDecl(p, e.T, "updateEstimate")
	if ue == nil {
		c.Unknown("C16.R1", cons, "updateEstimate found", ctor.Pos(), "no updateEstimate method")
		return
	}
	cfg2 := vn.Config{Pkg: p, TypeName: "Real64", Spec: distSpec, InlineOps: inlineOps, Decl: d.find, ParamNames: true, MaxDepth: 6,
		RecvStruct: obj, RecvFresh: true, UnrollConst: true}
	upaths, und := vn.Run(cfg2, ue)
	if und != nil {
		c.Unknown("C16.R1", cons, "updateEstimate interpreted", und.Pos, "updateEstimate left the interpreter's idiom set: "+und.Msg)
		return
	}
	// weighted log-likelihood of two observations
	P := map[string]*sym.Term{}
	for _, n := range entry.params {
		P[n] = sym.Sym(n)
	}
	f := entry.variants[0].formula
	L := sym.Zero()
	for _, tag := range tags {
		L = sym.Add(L, sym.Mul(sym.Fn("exp", sym.Sym("g_"+tag)), f(P, sym.Sym("x_"+tag))))
	}
	nInterior := 0
	for _, pa := range upaths {
		if pa.Panic || pa.RecvObj == nil {
			continue
		}
		if _, isErr := pa.Ret.(*vn.ErrVal); isErr {
			continue
		}
		dobj, ok := pa.RecvObj.Fields[e.dist].(*vn.StructVal)
		if !ok {
			continue
		}
		// the estimate
		sub := map[*sym.Atom]*sym.Term{}
		capped := false
		for par, fld := range e.fields {
			l, ok := dobj.Fields[fld].(*vn.Loc)
			if !ok {
				continue
			}
			sub[sym.SymAtom(par)] = l.Val
			for _, b := range e.bounds {
				if l.Val.DependsOn(sym.SymAtom(b+"_start")) || l.Val.String() == b+"_start" {
					capped = true
				}
			}
		}
		if capped {
			continue // the estimate sits on a configured bound: not required to be stationary
		}
		nInterior++
		for _, par := range e.free {
			dL, err := sym.Diff(L, sym.SymAtom(par))
			if err != nil {
				c.Unknown("C16.R1", cons, "dL/d"+par+" computed", ue.Pos(), "symbolic derivative failed: "+err.Error())
				continue
			}
			at := sym.Subst(dL, sub)
			zero := at.IsZero() || sym.LogExpand(at).IsZero()
			if !zero {
				zero = zeroModuloRoots(dL, sub)
			}
			est := "?"
			if t, ok := sub[sym.SymAtom(par)]; ok {
				est = t.String()
			}
			c.Check(zero, "C16.R1", cons, "dL/d"+par+" = 0 at the estimate ["+shortConds(pa.CondString())+"]", ue.Pos(),
				fmt.Sprintf("the estimate %s = %s does not make the derivative of the weighted log-likelihood of %s with respect to %s vanish (it evaluates to %s for two generic observations x_a, x_b with log-weights g_a, g_b): the estimator does not return the weighted maximum-likelihood parameter of the density it is paired with",
					par, est, e.dist, par, shortTerm(at)))
		}
	}
	c.Check(nInterior > 0, "C16.R1", cons, "updateEstimate has an interior path", ue.Pos(), "no path of updateEstimate yields an estimate that is not capped or rejected")
	checkBounds(c, cons, e, upaths, ue)
}

// checkBounds (C16.R1b): a configured bound (minimum standard deviation, maximum rate) replaces the estimate exactly
// when the unconstrained estimate of that parameter lies beyond it. Every branch condition of updateEstimate that
// mentions the bound must compare it with the unconstrained estimate of the same parameter (both sides possibly under
// one monotone map: identity, square, logarithm), the capped paths are those on which the estimate is beyond the bound,
// and the interior paths those on which it is not.
func checkBounds(c *core.Ctx, cons string, e estEntry, upaths []*vn.Path, ue *ast.FuncDecl) {
	for _, b := range e.bounds {
		bsym := sym.Sym(b + "_start")
		lower := strings.HasSuffix(b, "Min")
		par := strings.TrimSuffix(strings.TrimSuffix(b, "Min"), "Max")
		fld, ok := e.fields[par]
		if !ok {
			c.Unknown("C16.R1b", cons, "bound "+b+" belongs to a parameter", ue.Pos(), "no parameter "+par)
			continue
		}
		value := func(pa *vn.Path) *sym.Term {
			if pa.Panic || pa.RecvObj == nil {
				return nil
			}
			if _, isErr := pa.Ret.(*vn.ErrVal); isErr {
				return nil
			}
			dobj, ok := pa.RecvObj.Fields[e.dist].(*vn.StructVal)
			if !ok {
				return nil
			}
			l, ok := dobj.Fields[fld].(*vn.Loc)
			if !ok {
				return nil
			}
			return l.Val
		}
		// the unconstrained estimates (interior paths)
		var free []*sym.Term
		for _, pa := range upaths {
			if v := value(pa); v != nil && !v.DependsOn(sym.SymAtom(b+"_start")) {
				dup := false
				for _, f := range free {
					dup = dup || sym.Equal(f, v)
				}
				if !dup {
					free = append(free, v)
				}
			}
		}
		maps := []func(t *sym.Term) *sym.Term{
			func(t *sym.Term) *sym.Term { return t },
			func(t *sym.Term) *sym.Term {
				// the square of a square root is its radicand (not folded by the normal form when the radicand is a quotient)
				for _, at := range t.Atoms() {
					if at.Kind == "pow" && len(at.Args) == 2 {
						if e, ok := at.Args[1].IsConst(); ok && e.Cmp(big.NewRat(1, 2)) == 0 && sym.Equal(t, sym.Fn("pow", at.Args[0], at.Args[1])) {
							return at.Args[0]
						}
					}
				}
				return sym.Mul(t, t)
			},
			func(t *sym.Term) *sym.Term { return sym.Fn("log", t) },
		}
		// beyond(cond, truth): +1 the condition says the estimate is beyond the bound, -1 it says it is not, 0 unrelated, 2 malformed
		beyond := func(cv vn.CondV) (int, string) {
			if cv.C.Op != "lt" || cv.C.A == nil || cv.C.B == nil {
				return 0, ""
			}
			ba := cv.C.A.DependsOn(sym.SymAtom(b + "_start"))
			bb := cv.C.B.DependsOn(sym.SymAtom(b + "_start"))
			if !ba && !bb {
				return 0, ""
			}
			if ba && bb {
				return 2, "compares two terms that both depend on the bound"
			}
			X, B := cv.C.A, cv.C.B // X < B
			estLess := true
			if ba {
				X, B = cv.C.B, cv.C.A // B < X
				estLess = false
			}
			if _, isConst := X.IsConst(); isConst {
				return 0, "" // validity test of the distribution's constructor on the capped value (bound against a constant)
			}
			okForm := false
			for _, g := range maps {
				if !sym.Equal(B, g(bsym)) {
					continue
				}
				for _, f := range free {
					if sym.Equal(X, g(f)) || sym.Equal(sym.LogExpand(X), sym.LogExpand(g(f))) {
						okForm = true
					}
				}
			}
			if !okForm && os.Getenv("C16DEBUG") != "" {
				for _, f := range free {
					fmt.Fprintln(os.Stderr, "FREE", f, "\nX", X)
					for gi, g := range maps {
						fmt.Fprintln(os.Stderr, " map", gi, "B ok:", sym.Equal(B, g(bsym)), "X ok:", sym.Equal(X, g(f)), "g(f)=", shortTerm(g(f)))
					}
				}
			}
			if !okForm {
				return 2, fmt.Sprintf("compares %s with %s, which is not the unconstrained estimate of %s against the bound (under identity, square or logarithm)", shortTerm(X), shortTerm(B), par)
			}
			// estLess && V: est < b ; estLess && !V: est >= b ; !estLess && V: b < est ; !estLess && !V: est <= b
			isBelow := (estLess && cv.V) || (!estLess && !cv.V) // est < b or est <= b
			if lower == isBelow {
				return 1, ""
			}
			return -1, ""
		}
		n := 0
		for _, pa := range upaths {
			v := value(pa)
			if v == nil {
				continue
			}
			capped := v.DependsOn(sym.SymAtom(b + "_start"))
			says, nan := 0, false
			bad := ""
			for _, cv := range pa.Conds {
				if cv.C.Op == "isnan" && cv.V {
					nan = true
				}
				k, why := beyond(cv)
				switch k {
				case 2:
					bad = why
				case 1, -1:
					says = k
				}
			}
			n++
			what := fmt.Sprintf("bound %s is applied exactly when the estimate of %s is beyond it [%s]", b, par, shortConds(pa.CondString()))
			switch {
			case bad != "":
				c.Fail("C16.R1b", cons, what, ue.Pos(), "a branch condition of updateEstimate "+bad+": the configured bound is not applied to the parameter it bounds")
			case capped && !(says == 1 || nan):
				c.Fail("C16.R1b", cons, what, ue.Pos(), fmt.Sprintf("%s is replaced by the bound %s on a path that does not establish that the unconstrained estimate is beyond the bound", par, b))
			case capped && !sym.Equal(v, bsym):
				c.Fail("C16.R1b", cons, what, ue.Pos(), fmt.Sprintf("on the capped path %s is set to %s instead of the bound %s", par, shortTerm(v), b))
			case !capped && says == 1:
				c.Fail("C16.R1b", cons, what, ue.Pos(), fmt.Sprintf("the unconstrained estimate of %s is returned on a path on which it is beyond the bound %s", par, b))
			case !capped && says == 0:
				c.Fail("C16.R1b", cons, what, ue.Pos(), fmt.Sprintf("the unconstrained estimate of %s is returned on a path that never compares it with the bound %s", par, b))
			default:
				c.OK("C16.R1b", cons, what, ue.Pos(), "")
			}
		}
		c.Check(n >= 2, "C16.R1b", cons, "bound "+b+" has a capped and an interior path", ue.Pos(), "fewer than two paths reach the bound test")
	}
}

func shortTerm(t *sym.Term) string {
	s := t.String()
	if len(s) > 300 {
		return s[:300] + "…"
	}
	return s
}

var _ = ast.Inspect
var _ = strings.Contains

// zeroModuloRoots: the estimates that are square roots pow(V, 1/2) are replaced by fresh symbols s with s^2 = V: the
// expression vanishes iff its even and odd parts in s vanish after s^2 -> V (one root at a time).
func zeroModuloRoots(dL *sym.Term, sub map[*sym.Atom]*sym.Term) bool {
	sub2 := map[*sym.Atom]*sym.Term{}
	var rootSym *sym.Atom
	var rootVal *sym.Term
	for a, t := range sub {
		isRoot := false
		if rootSym == nil {
			for _, at := range t.Atoms() {
				if at.Kind == "pow" && sym.Equal(t, sym.Fn("pow", at.Args[0], at.Args[1])) {
					if c, ok := at.Args[1].IsConst(); ok && c.Cmp(big.NewRat(1, 2)) == 0 {
						isRoot = true
						rootVal = at.Args[0]
					}
				}
			}
		}
		if isRoot {
			rootSym = sym.SymAtom("$root")
			sub2[a] = sym.Sym("$root")
		} else {
			sub2[a] = t
		}
	}
	if rootSym == nil {
		if os.Getenv("C16DEBUG") != "" {
			fmt.Fprintln(os.Stderr, "no root found")
		}
		return false
	}
	T := sym.Subst(dL, sub2)
	Tn := sym.Subst(T, map[*sym.Atom]*sym.Term{rootSym: sym.Neg(sym.Sym("$root"))})
	ev := sym.Add(T, Tn)
	od := sym.Div(sym.Sub(T, Tn), sym.Sym("$root"))
	back := map[*sym.Atom]*sym.Term{rootSym: sym.Fn("pow", rootVal, sym.Rat(1, 2))}
	if os.Getenv("C16DEBUG") != "" {
		fmt.Fprintln(os.Stderr, "EV", shortTerm(ev))
		fmt.Fprintln(os.Stderr, "OD", shortTerm(od))
		fmt.Fprintln(os.Stderr, "ODB", shortTerm(sym.Subst(od, back)))
	}
	// even powers only: $root -> sqrt($q) collapses $root^2 to the plain symbol $q, which is then replaced by V
	back1 := map[*sym.Atom]*sym.Term{rootSym: sym.Fn("pow", sym.Sym("$q"), sym.Rat(1, 2))}
	back2 := map[*sym.Atom]*sym.Term{sym.SymAtom("$q"): rootVal}
	z := func(t *sym.Term) bool {
		u := sym.Subst(sym.Subst(t, back1), back2)
		return u.IsZero()
	}
	_ = back
	return z(ev) && z(od)
}

// linKey renders an expression as a linear combination of identifiers after inlining locals that are defined exactly
// once by := (so `d := a - b; use(d)` and `use(a - b)` have the same key). Non-linear expressions render as text.
func linKey(fd *ast.FuncDecl, e ast.Expr) string {
	defs := map[string]ast.Expr{}
	cnt := map[string]int{}
	ast.Inspect(fd.Body, func(n ast.Node) bool {
		if as, ok := n.(*ast.AssignStmt); ok && len(as.Lhs) == 1 && len(as.Rhs) == 1 {
			if id, ok := as.Lhs[0].(*ast.Ident); ok {
				cnt[id.Name]++
				if as.Tok.String() == ":=" {
					defs[id.Name] = as.Rhs[0]
				}
			}
		}
		return true
	})
	var lin func(e ast.Expr, k int, out map[string]int, depth int) bool
	lin = func(e ast.Expr, k int, out map[string]int, depth int) bool {
		if depth > 6 {
			return false
		}
		switch v := ast.Unparen(e).(type) {
		case *ast.Ident:
			if d, ok := defs[v.Name]; ok && cnt[v.Name] == 1 {
				if _, isCall := ast.Unparen(d).(*ast.CallExpr); !isCall {
					return lin(d, k, out, depth+1)
				}
			}
			out[v.Name] += k
			return true
		case *ast.BinaryExpr:
			switch v.Op.String() {
			case "+":
				return lin(v.X, k, out, depth+1) && lin(v.Y, k, out, depth+1)
			case "-":
				return lin(v.X, k, out, depth+1) && lin(v.Y, -k, out, depth+1)
			}
		}
		return false
	}
	out := map[string]int{}
	if !lin(e, 1, out, 0) {
		return "text:" + exprStr(e)
	}
	var ks []string
	for name, c := range out {
		if c != 0 {
			ks = append(ks, fmt.Sprintf("%+d*%s", c, name))
		}
	}
	sortStringsC16(ks)
	return strings.Join(ks, " ")
}

func linKeyStr(a string) string { return fmt.Sprintf("%+d*%s", 1, a) }
func linKeyStr2(a, b string) string {
	ks := []string{fmt.Sprintf("%+d*%s", 1, a), fmt.Sprintf("%+d*%s", -1, b)}
	sortStringsC16(ks)
	return strings.Join(ks, " ")
}

func sortStringsC16(s []string) {
	for i := 1; i < len(s); i++ {
		for j := i; j > 0 && s[j] < s[j-1]; j-- {
			s[j], s[j-1] = s[j-1], s[j]
		}
	}
}

// checkCategoricalEstimator (C16.R1c): the categorical estimator on three categories and four weighted observations
// (categories 0, 1, 2, 0; log-weights g_0..g_3) returns the weighted relative frequencies, the constrained maximiser of
// the weighted log-likelihood sum_l e^{g_l} log theta_{x_l} on the simplex.
func checkCategoricalEstimator(c *core.Ctx, p *packages.Package, d *declIndex) {
	c.Rule("C16.R1c", "the categorical estimator returns the weighted relative frequencies of the categories (three categories, four weighted observations, symbolic weights)", 3)
	cons := "statistics/scalarEstimator.CategoricalEstimator"
	ctor := findFuncDecl(p, "NewCategoricalEstimator")
	if ctor == nil {
		c.Unknown("C16.R1c", cons, "constructor found", 0, "NewCategoricalEstimator not found")
		return
	}
	start := &vn.SliceVal{Len: sym.Int(3), Cells: map[string]*sym.Term{"0": sym.Sym("s_0"), "1": sym.Sym("s_1"), "2": sym.Sym("s_2")}}
	cfg := vn.Config{Pkg: p, TypeName: "Real64", Spec: distSpec, InlineOps: inlineOps, Decl: d.find, ParamNames: true, MaxDepth: 6, UnrollConst: true, FiniteSyms: true,
		ParamList: []vn.Value{start}}
	paths, und := vn.Run(cfg, ctor)
	if und != nil {
		c.Unknown("C16.R1c", cons, "constructor interpreted", und.Pos, "constructor left the interpreter's idiom set: "+und.Msg)
		return
	}
	var obj *vn.StructVal
	for _, pa := range paths {
		if t, ok := pa.Ret.(vn.Tuple); ok && len(t) == 2 {
			if o, isObj := t[0].(*vn.StructVal); isObj {
				if _, isErr := t[1].(*vn.ErrVal); !isErr && obj == nil {
					obj = o
				}
			}
		}
	}
	if obj == nil {
		c.Unknown("C16.R1c", cons, "constructor has a success path", ctor.Pos(), "no success path")
		return
	}
	run := func(name string, params []vn.Value) string {
		fd := findMethodDecl(p, "CategoricalEstimator", name)
		if fd == nil {
			return "method " + name + " not found"
		}
		cfg := vn.Config{Pkg: p, TypeName: "Real64", Spec: distSpec, InlineOps: inlineOps, Decl: d.find, ParamNames: true, MaxDepth: 6, UnrollConst: true, FiniteSyms: true,
			RecvStruct: obj, ParamList: params}
		ps, und := vn.Run(cfg, fd)
		if und != nil {
			return name + " left the interpreter's idiom set: " + und.Msg
		}
		// in-place: the receiver is shared between the paths, so exactly one non-error path is required
		n := 0
		for _, pa := range ps {
			if _, isErr := pa.Ret.(*vn.ErrVal); !isErr && !pa.Panic {
				n++
			}
		}
		if len(ps) != 1 || n != 1 {
			return fmt.Sprintf("%s has %d paths (%d successful) on a determined input", name, len(ps), n)
		}
		return ""
	}
	pool := &vn.OpaqueVal{What: "pool"}
	if msg := run("Initialize", []vn.Value{pool}); msg != "" {
		c.Unknown("C16.R1c", cons, "Initialize interpreted", ctor.Pos(), msg)
		return
	}
	cats := []int{0, 1, 2, 0}
	for l, k := range cats {
		x := &vn.Loc{Name: "x", Val: sym.Int(int64(k)), Consistent: true, Const: true}
		g := &vn.Loc{Name: "gamma", Val: symf("g_%d", l), Consistent: true}
		if msg := run("NewObservation", []vn.Value{x, g, pool}); msg != "" {
			c.Unknown("C16.R1c", cons, "NewObservation interpreted", ctor.Pos(), msg)
			return
		}
	}
	ue := findMethodDecl(p, "CategoricalEstimator", "updateEstimate")
	if ue == nil {
		c.Unknown("C16.R1c", cons, "updateEstimate found", ctor.Pos(), "not found")
		return
	}
	cfg2 := vn.Config{Pkg: p, TypeName: "Real64", Spec: distSpec, InlineOps: inlineOps, Decl: d.find, ParamNames: true, MaxDepth: 6, UnrollConst: true, FiniteSyms: true,
		RecvStruct: obj, RecvFresh: true}
	ups, und := vn.Run(cfg2, ue)
	if und != nil {
		c.Unknown("C16.R1c", cons, "updateEstimate interpreted", und.Pos, "updateEstimate left the interpreter's idiom set: "+und.Msg)
		return
	}
	W := []*sym.Term{sym.Zero(), sym.Zero(), sym.Zero()}
	tot := sym.Zero()
	for l, k := range cats {
		e := sym.Fn("exp", symf("g_%d", l))
		W[k] = sym.Add(W[k], e)
		tot = sym.Add(tot, e)
	}
	nGood := 0
	for _, pa := range ups {
		if pa.Panic || pa.RecvObj == nil {
			continue
		}
		if _, isErr := pa.Ret.(*vn.ErrVal); isErr {
			continue
		}
		dobj, ok := pa.RecvObj.Fields["CategoricalDistribution"].(*vn.StructVal)
		if !ok {
			continue
		}
		th, ok := dobj.Fields["Theta"].(*vn.LocalVec)
		if !ok {
			continue
		}
		nGood++
		for k := 0; k < 3; k++ {
			got := th.Cell(k)
			want := sym.Div(W[k], tot)
			okk := got != nil && sym.Equal(sym.Fn("exp", got), want)
			c.Check(okk, "C16.R1c", cons, fmt.Sprintf("estimated probability of category %d is its weighted relative frequency [%s]", k, shortConds(pa.CondString())), ue.Pos(),
				fmt.Sprintf("the estimated log-probability of category %d is %s; the weighted maximum-likelihood estimate is the logarithm of %s", k, shortTerm(got), want))
		}
	}
	c.Check(nGood > 0, "C16.R1c", cons, "updateEstimate has a successful path", ue.Pos(), "no successful path")
}

// checkRescaleSurvives (C16.R1d): state that Estimate prepares for its observation jobs (the maximum log-weight
// gamma_max by which NewObservation rescales every weight, so that extreme log-weights neither overflow nor underflow)
// must still be in place when the jobs are submitted: a store `obj.F = ...` in Estimate has to reach a job submission
// without an intervening call of a receiver method that assigns F again (Initialize resets gamma_max to 0). In real
// arithmetic the rescaling cancels, so the stationarity rule R1 cannot see its loss; the estimate for weights beyond
// the exponent range is then NaN instead of the weighted maximum-likelihood parameters.
func checkRescaleSurvives(c *core.Ctx) {
	c.Rule("C16.R1d", "a receiver field that Estimate sets up for its observation jobs (gamma_max) reaches the job submission without being reset by a receiver method called in between", 2)
	n := 0
	for _, rel := range []string{"statistics/scalarEstimator", "statistics/vectorEstimator", "statistics/matrixEstimator"} {
		p := c.Pkg(rel)
		if p == nil {
			continue
		}
		info := p.TypesInfo
		// fields assigned by each method of a type (direct assignments to the receiver)
		assigns := func(fd *ast.FuncDecl) map[string]bool {
			r := map[string]bool{}
			if fd == nil || fd.Recv == nil || len(fd.Recv.List) == 0 || len(fd.Recv.List[0].Names) == 0 {
				return r
			}
			recv := info.Defs[fd.Recv.List[0].Names[0]]
			ast.Inspect(fd.Body, func(x ast.Node) bool {
				if as, ok := x.(*ast.AssignStmt); ok {
					for _, l := range as.Lhs {
						if sel, ok := ast.Unparen(l).(*ast.SelectorExpr); ok {
							if id, ok := ast.Unparen(sel.X).(*ast.Ident); ok && info.Uses[id] == recv {
								r[sel.Sel.Name] = true
							}
						}
					}
				}
				return true
			})
			return r
		}
		core.EachFunc(p, func(_ *ast.File, fd *ast.FuncDecl) {
			if fd.Name.Name != "Estimate" || fd.Recv == nil || len(fd.Recv.List) == 0 || len(fd.Recv.List[0].Names) == 0 {
				return
			}
			T := core.RecvTypeName(fd)
			recv := info.Defs[fd.Recv.List[0].Names[0]]
			cf := core.NewFuncCFG(fd.Body, info)
			type site struct {
				b   int32
				idx int
			}
			// node classification
			isJob := func(nd ast.Node) bool {
				found := false
				ast.Inspect(nd, func(x ast.Node) bool {
					if _, isLit := x.(*ast.FuncLit); isLit {
						return false
					}
					if ce, ok := x.(*ast.CallExpr); ok {
						nm := calleeName(ce)
						if nm == "AddRangeJob" || nm == "AddJob" {
							found = true
						}
					}
					return true
				})
				return found
			}
			kills := func(nd ast.Node, F string) bool {
				k := false
				ast.Inspect(nd, func(x ast.Node) bool {
					if _, isLit := x.(*ast.FuncLit); isLit {
						return false
					}
					ce, ok := x.(*ast.CallExpr)
					if !ok {
						return true
					}
					sel, ok := ast.Unparen(ce.Fun).(*ast.SelectorExpr)
					if !ok {
						return true
					}
					if id, ok := ast.Unparen(sel.X).(*ast.Ident); !ok || info.Uses[id] != recv {
						return true
					}
					if assigns(findMethodDecl(p, T, sel.Sel.Name))[F] {
						k = true
					}
					return true
				})
				return k
			}
			stores := map[string][]site{}
			for _, b := range cf.G.Blocks {
				for i, nd := range b.Nodes {
					as, ok := nd.(*ast.AssignStmt)
					if !ok {
						continue
					}
					for _, l := range as.Lhs {
						if sel, ok := ast.Unparen(l).(*ast.SelectorExpr); ok {
							if id, ok := ast.Unparen(sel.X).(*ast.Ident); ok && info.Uses[id] == recv {
								stores[sel.Sel.Name] = append(stores[sel.Sel.Name], site{b.Index, i})
							}
						}
					}
				}
			}
			var fields []string
			for f := range stores {
				fields = append(fields, f)
			}
			sortStringsC16(fields)
			for _, F := range fields {
				// only fields the observation step reads matter
				no := findMethodDecl(p, T, "NewObservation")
				reads := false
				if no != nil {
					ast.Inspect(no.Body, func(x ast.Node) bool {
						if sel, ok := x.(*ast.SelectorExpr); ok && sel.Sel.Name == F {
							reads = true
						}
						return true
					})
				}
				if !reads {
					continue
				}
				n++
				reached := false
				for _, st := range stores[F] {
					seen := map[int32]bool{}
					var walk func(b int32, from int) bool
					walk = func(b int32, from int) bool {
						blk := cf.G.Blocks[b]
						for i := from; i < len(blk.Nodes); i++ {
							if kills(blk.Nodes[i], F) {
								return false
							}
							if isJob(blk.Nodes[i]) {
								return true
							}
						}
						for _, s := range blk.Succs {
							if seen[s.Index] {
								continue
							}
							seen[s.Index] = true
							if walk(s.Index, 0) {
								return true
							}
						}
						return false
					}
					if walk(st.b, st.idx+1) {
						reached = true
					}
				}
				c.Check(reached, "C16.R1d", c.FuncName(p, fd), "value stored in "+F+" reaches the observation jobs", fd.Pos(),
					"Estimate computes "+F+" (read by NewObservation) but every path from that store to the job submission calls a receiver method that assigns "+F+" again: the prepared value is lost before the observations are accumulated (weights are no longer rescaled, so extreme log-weights overflow or underflow to NaN estimates)")
			}
		})
	}
	c.Analysed["estimate_prepared_fields"] = n
}
