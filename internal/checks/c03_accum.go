package checks

import (
	"go/ast"
	"go/token"
	"go/types"
	"strings"

	"verif/internal/core"
)

// C03.R6 — accumulating products of sparse containers. MdotV, VdotM and MdotM of the sparse containers build the
// result by adding products into elements of the receiver; a dense receiver is overwritten, so the sparse one has to be
// cleared first, over its OWN extent: either r.Reset(), or a counted loop r.AT(i).Reset() whose bound is the variable
// the function's dimension guard compares with r.Dim() (for VdotM that is the column count of the matrix, not the row
// count).
func checkSparseAccumulation(c *core.Ctx) {
	c.Rule("C03.R6", "sparse MdotV/VdotM/MdotM clear the receiver over its own extent before they accumulate products into it", 27)
	pkg := c.Root
	info := pkg.TypesInfo
	core.EachFunc(pkg, func(_ *ast.File, fd *ast.FuncDecl) {
		T := core.RecvTypeName(fd)
		if !strings.HasPrefix(T, "Sparse") || strings.Contains(T, "Const") || strings.Contains(T, "Iterator") || fd.Recv == nil || fd.Body == nil || len(fd.Recv.List[0].Names) == 0 {
			return
		}
		switch fd.Name.Name {
		case "MdotV", "VdotM", "MdotM":
		default:
			return
		}
		cons := "(*" + T + ")." + fd.Name.Name
		recv := info.Defs[fd.Recv.List[0].Names[0]]
		isRecv := func(e ast.Expr) bool {
			id, ok := ast.Unparen(e).(*ast.Ident)
			return ok && info.Uses[id] == recv
		}
		// accumulation: X.Add(X, ..) / X.ADD(X, ..) with X a local taken from r.At/AT(..)
		accum := token.NoPos
		fromRecv := map[types.Object]bool{}
		ast.Inspect(fd.Body, func(n ast.Node) bool {
			switch x := n.(type) {
			case *ast.AssignStmt:
				if len(x.Lhs) == 1 && len(x.Rhs) == 1 {
					if ce, ok := ast.Unparen(x.Rhs[0]).(*ast.CallExpr); ok {
						if sel, ok := ast.Unparen(ce.Fun).(*ast.SelectorExpr); ok && isRecv(sel.X) && strings.EqualFold(sel.Sel.Name, "at") {
							if id, ok := x.Lhs[0].(*ast.Ident); ok {
								o := info.Defs[id]
								if o == nil {
									o = info.Uses[id]
								}
								fromRecv[o] = true
							}
						}
					}
				}
			case *ast.CallExpr:
				if sel, ok := ast.Unparen(x.Fun).(*ast.SelectorExpr); ok && strings.EqualFold(sel.Sel.Name, "add") && len(x.Args) == 2 {
					if id, ok := ast.Unparen(sel.X).(*ast.Ident); ok && fromRecv[info.Uses[id]] {
						if a0, ok := ast.Unparen(x.Args[0]).(*ast.Ident); ok && info.Uses[a0] == info.Uses[id] && accum == token.NoPos {
							accum = x.Pos()
						}
					}
				}
			}
			return true
		})
		if accum == token.NoPos {
			c.OK("C03.R6", cons, "no accumulation into the receiver", fd.Pos(), "")
			return
		}
		// the extent variable: r.Dim() != B in a guard (vectors); for matrices r.Reset() is required
		extent := map[types.Object]bool{}
		ast.Inspect(fd.Body, func(n ast.Node) bool {
			be, ok := n.(*ast.BinaryExpr)
			if !ok || be.Op != token.NEQ {
				return true
			}
			for _, pr := range [][2]ast.Expr{{be.X, be.Y}, {be.Y, be.X}} {
				if ce, ok := ast.Unparen(pr[0]).(*ast.CallExpr); ok {
					if sel, ok := ast.Unparen(ce.Fun).(*ast.SelectorExpr); ok && sel.Sel.Name == "Dim" && isRecv(sel.X) {
						if id, ok := ast.Unparen(pr[1]).(*ast.Ident); ok {
							extent[info.Uses[id]] = true
						}
					}
				}
			}
			return true
		})
		good := false
		why := "the receiver is not cleared before the products are added to its elements: the result is (old content) + product, where a dense receiver holds the product"
		for _, st := range fd.Body.List {
			if st.Pos() >= accum {
				break
			}
			switch x := st.(type) {
			case *ast.ExprStmt:
				if ce, ok := x.X.(*ast.CallExpr); ok && len(ce.Args) == 0 {
					if sel, ok := ast.Unparen(ce.Fun).(*ast.SelectorExpr); ok && sel.Sel.Name == "Reset" && isRecv(sel.X) {
						good = true
					}
				}
			case *ast.ForStmt:
				// for i := 0; i < B; i++ { r.AT(i).Reset() }
				resets := false
				ast.Inspect(x.Body, func(n ast.Node) bool {
					if ce, ok := n.(*ast.CallExpr); ok && len(ce.Args) == 0 {
						if sel, ok := ast.Unparen(ce.Fun).(*ast.SelectorExpr); ok && sel.Sel.Name == "Reset" {
							if inner, ok := ast.Unparen(sel.X).(*ast.CallExpr); ok {
								if s2, ok := ast.Unparen(inner.Fun).(*ast.SelectorExpr); ok && isRecv(s2.X) && strings.EqualFold(s2.Sel.Name, "at") {
									resets = true
								}
							}
						}
					}
					return true
				})
				if !resets {
					continue
				}
				if be, ok := ast.Unparen(x.Cond).(*ast.BinaryExpr); ok && be.Op == token.LSS {
					if id, ok := ast.Unparen(be.Y).(*ast.Ident); ok && extent[info.Uses[id]] {
						good = true
					} else {
						why = "the receiver is cleared up to " + types.ExprString(be.Y) + ", which is not the extent the dimension guard compares with the receiver's own dimension: entries beyond it keep their old values (or the loop leaves the receiver's range)"
					}
				}
			}
		}
		c.Check(good, "C03.R6", cons, "receiver cleared over its own extent before accumulation", accum, why)
	})
}
