package checks

import (
	"fmt"
	"go/ast"
	"go/token"
	"go/types"
	"strings"

	"golang.org/x/tools/go/packages"

	"verif/internal/core"
	"verif/internal/sym"
	"verif/internal/vn"
)

// ---- R3: LogAdd / LogSub ------------------------------------------------------------------------------------------

func checkLogArith(c *core.Ctx) {
	c.Rule("C13.R3", "LogAdd(a,b) = log(e^a + e^b) and LogSub(a,b) = log(e^a - e^b) as term identities on every path; a -Inf operand returns the other operand", 6)
	p := c.Pkg("logarithmetic")
	if p == nil {
		c.Unknown("C13.R3", "logarithmetic", "package loaded", token.NoPos, "not loaded")
		return
	}
	d := newDeclIndex(c)
	for _, v := range []struct {
		fn   string
		sign int64
	}{{"LogAdd", 1}, {"LogSub", -1}} {
		fd := findFuncDecl(p, v.fn)
		cons := "logarithmetic." + v.fn
		if fd == nil {
			c.Unknown("C13.R3", cons, "function found", token.NoPos, "not found")
			continue
		}
		a, b := sym.Sym("a"), sym.Sym("b")
		// the function itself must be interpreted, not replaced by its specification
		hook := func(fn *types.Func) func([]vn.Value) vn.Value { return nil }
		run := func(params []vn.Value) ([]*vn.Path, *vn.Undecided) {
			cfg := vn.Config{Pkg: p, TypeName: "Real64", Spec: distSpec, InlineOps: inlineOps, Decl: d.find, MaxDepth: 4, FiniteSyms: true,
				ParamSyms: []string{"a", "b"}, ParamList: params, CallHook: hook}
			return vn.Run(cfg, fd)
		}
		// finite operands
		paths, und := run(nil)
		if und != nil {
			c.Unknown("C13.R3", cons, "interpreted", und.Pos, v.fn+" left the interpreter's idiom set: "+und.Msg)
			continue
		}
		want := sym.Add(sym.Fn("exp", a), sym.Mul(sym.Int(v.sign), sym.Fn("exp", b)))
		for i, pa := range paths {
			detail := fmt.Sprintf("finite operands, path [%s]", pa.CondString())
			if pa.Panic {
				c.Fail("C13.R3", cons, detail, fd.Pos(), "the path panics")
				continue
			}
			rt, ok := pa.Ret.(*sym.Term)
			if !ok {
				c.Unknown("C13.R3", cons, detail, fd.Pos(), fmt.Sprintf("path %d returns no number", i))
				continue
			}
			got := sym.Fn("exp", rt)
			c.Check(sym.Equal(got, want), "C13.R3", cons, detail, fd.Pos(),
				fmt.Sprintf("exp(result) = %s, expected %s", got, want))
		}
		if len(paths) == 0 {
			c.Unknown("C13.R3", cons, "interpreted", fd.Pos(), "no path")
		}
		// -Inf operands
		minf := sym.Sym("-Inf")
		type inf struct {
			params []vn.Value
			want   *sym.Term
			what   string
		}
		cases := []inf{{[]vn.Value{a, minf}, a, "b = -Inf returns a"}}
		if v.sign > 0 {
			cases = append(cases, inf{[]vn.Value{minf, b}, b, "a = -Inf returns b"})
		}
		for _, cs := range cases {
			paths, und := run(cs.params)
			if und != nil {
				c.Unknown("C13.R3", cons, cs.what, und.Pos, und.Msg)
				continue
			}
			good := len(paths) > 0
			msg := ""
			for _, pa := range paths {
				rt, ok := pa.Ret.(*sym.Term)
				if pa.Panic || !ok || !sym.Equal(rt, cs.want) {
					good = false
					msg = fmt.Sprintf("on path [%s] the result is %v", pa.CondString(), pa.Ret)
				}
			}
			c.Check(good, "C13.R3", cons, cs.what, fd.Pos(), "with an operand equal to log 0 the result must be the other operand: "+msg)
		}
	}
}

// ---- R4: log-domain twins ------------------------------------------------------------------------------------------

// specialHook models the routines that the twins call as opaque atoms; a log-domain routine f_log(args) is log(f(args)).
// math.Lgamma(u) is log(gamma(u)) with sign 1 (the arguments of the Bessel routines are positive).
func specialHook(opaque map[string]string) func(fn *types.Func) func([]vn.Value) vn.Value {
	return func(fn *types.Func) func([]vn.Value) vn.Value {
		if fn.Pkg() == nil {
			return nil
		}
		if fn.Pkg().Path() == "math" && fn.Name() == "Lgamma" {
			return func(args []vn.Value) vn.Value {
				u, _ := args[0].(*sym.Term)
				return vn.Tuple{sym.Fn("log", sym.Fn("gamma", u)), sym.One()}
			}
		}
		base, ok := opaque[fn.Name()]
		if !ok {
			return nil
		}
		if strings.HasPrefix(base, "SumSeries") {
			// SumSeries(terms, init, factor, max) = init + sum(terms; factor); SumLogSeries(terms, init, logfactor, max) =
			// log(sum(terms; exp(logfactor))) (its start value is the log-domain zero)
			isLog := strings.HasSuffix(base, ":log")
			return func(args []vn.Value) vn.Value {
				terms, _ := args[0].(*sym.Term)
				init, _ := args[1].(*sym.Term)
				factor, _ := args[2].(*sym.Term)
				if terms == nil || init == nil || factor == nil {
					return sym.Sym("opaque-series")
				}
				if isLog {
					return sym.Fn("log", sym.Fn("sumseries", terms, sym.Fn("exp", factor)))
				}
				return sym.Add(init, sym.Fn("sumseries", terms, factor))
			}
		}
		isLog := strings.HasSuffix(fn.Name(), "_log")
		if strings.HasSuffix(base, ":same") {
			base = strings.TrimSuffix(base, ":same")
			isLog = false
		}
		nres := fn.Type().(*types.Signature).Results().Len()
		return func(args []vn.Value) vn.Value {
			var ts []*sym.Term
			for _, a := range args {
				if t, ok := a.(*sym.Term); ok {
					ts = append(ts, t)
				} else {
					ts = append(ts, sym.Sym(fmt.Sprintf("opaque<%T>", a)))
				}
			}
			mkres := func(k int) *sym.Term {
				name := base
				if nres > 1 {
					name = fmt.Sprintf("%s#%d", base, k)
				}
				t := sym.Fn(name, ts...)
				if isLog {
					t = sym.Fn("log", t)
				}
				return t
			}
			if nres == 1 {
				return mkres(0)
			}
			var tu vn.Tuple
			for k := 0; k < nres; k++ {
				tu = append(tu, mkres(k))
			}
			return tu
		}
	}
}

type logTwin struct {
	lin, log string
	// globals: package-level variables bound to constants (iteration limits, so that loops unroll)
	globals map[string]int64
	// opaque: callee name -> name of the linear-domain routine it stands for (a log routine maps to its linear twin)
	opaque map[string]string
}

var logTwins = []logTwin{
	{lin: "asymptotic_bessel_i_large_x", log: "asymptotic_bessel_i_large_x_log"},
	{lin: "bessel_i0", log: "bessel_i0_log"},
	{lin: "bessel_i1", log: "bessel_i1_log"},
	{lin: "CF1_ik", log: "CF1_ik_log", globals: map[string]int64{"SeriesIterationsMax": 3}},
	{lin: "CF2_ik", log: "CF2_ik_log", globals: map[string]int64{"SeriesIterationsMax": 4}},
	{lin: "bessel_i_small_z_series", log: "bessel_i_small_z_series_log", opaque: map[string]string{
		"new_cyl_bessel_i_small_z": "small_z_terms", "new_cyl_bessel_i_small_z_log": "small_z_terms:same",
		"SumSeries": "SumSeries", "SumLogSeries": "SumSeries:log"}},
	{lin: "bessel_i_imp", log: "bessel_i_log", opaque: map[string]string{
		"bessel_i0": "bessel_i0", "bessel_i0_log": "bessel_i0", "bessel_i1": "bessel_i1", "bessel_i1_log": "bessel_i1",
		"bessel_i_small_z_series": "bessel_i_small_z_series", "bessel_i_small_z_series_log": "bessel_i_small_z_series",
		"bessel_ik": "bessel_ik", "bessel_ik_log": "bessel_ik", "bessel_i_imp": "bessel_i_imp", "bessel_i_log": "bessel_i_imp",
		"iround": "iround"}},
}

func checkLogTwins(c *core.Ctx) {
	c.Rule("C13.R4", "every log-domain Bessel routine returns, path by path (paths paired by their guards), the logarithm of what its linear-domain twin returns (term identity; callees related the same way)", 40)
	p := c.Pkg("special")
	if p == nil {
		c.Unknown("C13.R4", "special", "package loaded", token.NoPos, "not loaded")
		return
	}
	d := newDeclIndex(c)
	for _, tw := range logTwins {
		cons := "special." + tw.log
		fl, fg := findFuncDecl(p, tw.lin), findFuncDecl(p, tw.log)
		if fl == nil || fg == nil {
			c.Unknown("C13.R4", cons, "twins found", token.NoPos, "linear or log routine not found")
			continue
		}
		run := func(fd *ast.FuncDecl) ([]*vn.Path, *vn.Undecided) {
			n := 0
			for _, f := range fd.Type.Params.List {
				n += len(f.Names)
			}
			names := []string{"v", "x", "k"}
			if n == 1 {
				names = []string{"x"}
			}
			cfg := vn.Config{Pkg: p, TypeName: "Real64", Spec: distSpec, InlineOps: inlineOps, Decl: d.find, MaxDepth: 6, FiniteSyms: true, UnrollConst: true,
				ParamSyms: names, CallHook: specialHook(tw.opaque), GlobalSyms: true}
			if tw.globals != nil {
				cfg.GlobalVals = map[string]*sym.Term{}
				for k, v := range tw.globals {
					if c.Tier == "thorough" {
						v++ // one more iteration of the continued fractions
					}
					cfg.GlobalVals[k] = sym.Int(v)
				}
			}
			return vn.Run(cfg, fd)
		}
		pl, und := run(fl)
		if und != nil {
			c.Unknown("C13.R4", cons, "linear twin interpreted", und.Pos, tw.lin+" left the interpreter's idiom set: "+und.Msg)
			continue
		}
		pg, und := run(fg)
		if und != nil {
			c.Unknown("C13.R4", cons, "interpreted", und.Pos, tw.log+" left the interpreter's idiom set: "+und.Msg)
			continue
		}
		// pairing: a path of the linear routine belongs to the log path whose guards are a subset of its own (the linear
		// routine may split further, e.g. by a table bound). Degenerate linear paths (an equality with zero taken: the log
		// twin tests the same thing as IsInf(., -1), decided false for finite symbols) are not compared.
		hit := map[*vn.Path]bool{}
		for _, lp := range pl {
			detail := "path [" + clip(lp.CondString(), 400) + "]"
			var cands []*vn.Path
			degenerate := false
			for _, gp := range pg {
				ok, deg := condsCompatible(lp.Conds, gp.Conds)
				if ok {
					cands = append(cands, gp)
					degenerate = deg
				}
			}
			if len(cands) == 1 && degenerate {
				hit[cands[0]] = hit[cands[0]] || false
				continue
			}
			if len(cands) == 0 && linOnlyDegenerate(lp.Conds) {
				continue
			}
			if len(cands) != 1 {
				c.Fail("C13.R4", cons, detail, fg.Pos(), fmt.Sprintf("%d paths of %s have guards compatible with this path of %s: the two routines select their evaluation method differently", len(cands), tw.log, tw.lin))
				continue
			}
			pa := cands[0]
			hit[pa] = true
			if pa.Panic || lp.Panic {
				c.Check(pa.Panic == lp.Panic, "C13.R4", cons, detail, fg.Pos(), "one twin panics on this path and the other returns")
				continue
			}
			gt, ok1 := pa.Ret.(*sym.Term)
			lt, ok2 := lp.Ret.(*sym.Term)
			if tu, ok := pa.Ret.(vn.Tuple); ok && len(tu) > 0 {
				gt, ok1 = tu[0].(*sym.Term)
			}
			if tu, ok := lp.Ret.(vn.Tuple); ok && len(tu) > 0 {
				lt, ok2 = tu[0].(*sym.Term)
			}
			if !ok1 || !ok2 {
				c.Unknown("C13.R4", cons, detail, fg.Pos(), "a twin returns no number on this path")
				continue
			}
			good := logOfTerm(gt, lt)
			c.Check(good, "C13.R4", cons, detail, fg.Pos(),
				fmt.Sprintf("%s returns %s where %s returns %s: the first is not the logarithm of the second", tw.log, clip(gt.String(), 300), tw.lin, clip(lt.String(), 300)))
		}
		for _, pa := range pg {
			if !hit[pa] {
				c.Fail("C13.R4", cons, "log path ["+pa.CondString()+"]", fg.Pos(), "no path of "+tw.lin+" has guards compatible with this path of the log-domain routine")
			}
		}
	}
	checkSeriesTwins(c, p, d)
	trips := int64(2)
	if c.Tier == "thorough" {
		trips = 3
	}
	checkLoopTwin(c, p, d, "bessel_ik", "bessel_ik_log", trips, nil)
	ikOpaque := map[string]string{
		"asymptotic_bessel_i_large_x": "asym_i", "asymptotic_bessel_i_large_x_log": "asym_i",
		"bessel_i_small_z_series": "small_z", "bessel_i_small_z_series_log": "small_z",
		"CF1_ik": "cf1", "CF1_ik_log": "cf1", "SinPi": "sinpi:same",
		"temme_ik": "temme:same", "CF2_ik": "cf2", "CF2_ik_log": "cf2"}
	rel := checkTailTwin(c, p, d, "bessel_ik", "bessel_ik_log", ikOpaque)
	checkHeadTwin(c, p, d, "bessel_ik", "bessel_ik_log", ikOpaque, rel)
}

// checkSeriesTwins: the term generators of the small-argument series. The k-th term of the log-domain generator is the
// logarithm of the k-th term of the linear one (k = 0..3, generic v and z).
func checkSeriesTwins(c *core.Ctx, p *packages.Package, d *declIndex) {
	cons := "special.(*cyl_bessel_i_small_z_log).Eval"
	mk := func(ctor string) (*vn.StructVal, *vn.Undecided, token.Pos) {
		fd := findFuncDecl(p, ctor)
		if fd == nil {
			return nil, &vn.Undecided{Msg: ctor + " not found"}, token.NoPos
		}
		cfg := vn.Config{Pkg: p, TypeName: "Real64", Spec: distSpec, InlineOps: inlineOps, Decl: d.find, MaxDepth: 4, FiniteSyms: true, ParamSyms: []string{"v", "z"}}
		paths, und := vn.Run(cfg, fd)
		if und != nil {
			return nil, und, fd.Pos()
		}
		if len(paths) != 1 {
			return nil, &vn.Undecided{Msg: "constructor has more than one path", Pos: fd.Pos()}, fd.Pos()
		}
		obj, _ := paths[0].Ret.(*vn.StructVal)
		if obj == nil {
			return nil, &vn.Undecided{Msg: fmt.Sprintf("constructor returns %T", paths[0].Ret), Pos: fd.Pos()}, fd.Pos()
		}
		return obj, nil, fd.Pos()
	}
	lin, und, _ := mk("new_cyl_bessel_i_small_z")
	if und != nil {
		c.Unknown("C13.R4", cons, "series constructors interpreted", und.Pos, und.Msg)
		return
	}
	lg, und, _ := mk("new_cyl_bessel_i_small_z_log")
	if und != nil {
		c.Unknown("C13.R4", cons, "series constructors interpreted", und.Pos, und.Msg)
		return
	}
	el := core.FindMethod(p, "cyl_bessel_i_small_z", "Eval")
	eg := core.FindMethod(p, "cyl_bessel_i_small_z_log", "Eval")
	if el == nil || eg == nil {
		c.Unknown("C13.R4", cons, "Eval methods found", token.NoPos, "not found")
		return
	}
	step := func(fd *ast.FuncDecl, obj *vn.StructVal) (*sym.Term, *vn.Undecided) {
		cfg := vn.Config{Pkg: p, TypeName: "Real64", Spec: distSpec, InlineOps: inlineOps, Decl: d.find, MaxDepth: 4, FiniteSyms: true, RecvStruct: obj}
		paths, und := vn.Run(cfg, fd)
		if und != nil {
			return nil, und
		}
		if len(paths) != 1 {
			return nil, &vn.Undecided{Msg: "Eval has more than one path", Pos: fd.Pos()}
		}
		t, _ := paths[0].Ret.(*sym.Term)
		if t == nil {
			return nil, &vn.Undecided{Msg: "Eval returns no number", Pos: fd.Pos()}
		}
		return t, nil
	}
	for k := 0; k < 4; k++ {
		detail := fmt.Sprintf("term %d", k)
		tl, und := step(el, lin)
		if und != nil {
			c.Unknown("C13.R4", cons, detail, und.Pos, und.Msg)
			return
		}
		tg, und := step(eg, lg)
		if und != nil {
			c.Unknown("C13.R4", cons, detail, und.Pos, und.Msg)
			return
		}
		c.Check(logOfTerm(tg, tl), "C13.R4", cons, detail, eg.Pos(),
			fmt.Sprintf("term %d of the log-domain series is %s, of the linear series %s: the first is not the logarithm of the second", k, clip(tg.String(), 200), clip(tl.String(), 200)))
	}
}

// condEquiv: a guard of the log routine and a guard of the linear routine decide the same thing: same comparison and
// outcome, and the operands are equal terms, or (order comparisons of positive quantities) the log routine's operands are
// the logarithms of the linear routine's.
func condEquiv(l, g vn.CondV) bool {
	if l.V != g.V || l.C.Op != g.C.Op {
		return false
	}
	eq := func(a, b *sym.Term) bool {
		if a == nil || b == nil {
			return a == b
		}
		if sym.Equal(a, b) {
			return true
		}
		u := sym.UnifyExp(sym.NormExp(a), sym.NormExp(b))
		return sym.Equal(u[0], u[1])
	}
	if eq(l.C.A, g.C.A) && eq(l.C.B, g.C.B) && l.C.Arg == g.C.Arg {
		return true
	}
	switch l.C.Op {
	case "lt", "le", "gt", "ge":
		if l.C.A != nil && l.C.B != nil && g.C.A != nil && g.C.B != nil {
			return logOfTerm(g.C.A, l.C.A) && logOfTerm(g.C.B, l.C.B)
		}
	}
	return false
}

func isZeroTest(cv vn.CondV) bool {
	return cv.C.Op == "eq" && cv.C.B != nil && cv.C.B.IsZero()
}

// condsCompatible: the guards of the log path occur, in order, among the guards of the linear path; every other guard of
// the linear path is a test for exact zero (the log routine tests IsInf(., -1), decided for finite symbols). degenerate
// reports that one of those zero tests was taken.
func condsCompatible(lin, lg []vn.CondV) (ok, degenerate bool) {
	j := 0
	for _, lc := range lin {
		if j < len(lg) && condEquiv(lc, lg[j]) {
			j++
			continue
		}
		if isZeroTest(lc) {
			if lc.V {
				degenerate = true
			}
			continue
		}
		if lc.C.Op == "lt" || lc.C.Op == "le" || lc.C.Op == "gt" || lc.C.Op == "ge" {
			// a guard only the linear routine has (a table bound such as v < MaxFactorial): allowed when the log routine has
			// no guard left to pair it with at this point that mentions the same quantities
			if j >= len(lg) || !sharesAtoms(lc, lg[j]) {
				continue
			}
		}
		return false, false
	}
	return j == len(lg), degenerate
}

func sharesAtoms(a, b vn.CondV) bool {
	names := func(cv vn.CondV) map[string]bool {
		m := map[string]bool{}
		for _, t := range []*sym.Term{cv.C.A, cv.C.B} {
			if t == nil {
				continue
			}
			for _, at := range t.Atoms() {
				m[at.Key()] = true
			}
		}
		return m
	}
	na, nb := names(a), names(b)
	for k := range na {
		if nb[k] {
			return true
		}
	}
	return false
}

// linOnlyDegenerate: the linear path took a test for exact zero.
func linOnlyDegenerate(conds []vn.CondV) bool {
	for _, cv := range conds {
		if isZeroTest(cv) && cv.V {
			return true
		}
	}
	return false
}

// logOfTerm: g == log(l) as terms. Special values: log 0 = -Inf, log 1 = 0, log of a negated positive atom is NaN.
func logOfTerm(g, l *sym.Term) bool {
	switch g.String() {
	case "-Inf":
		return l.IsZero()
	case "+Inf":
		return l.String() == "+Inf"
	case "NaN":
		if l.String() == "NaN" {
			return true
		}
		// -(something positive): the linear twin is the negation of an opaque routine value
		n := sym.Neg(l)
		return len(n.Atoms()) == 1 && n.String() == n.Atoms()[0].Key()
	}
	if sym.Equal(sym.Fn("exp", g), l) {
		return true
	}
	u := sym.UnifyExp(sym.NormExp(sym.ExpPow(sym.NormExp(g))), sym.NormExp(l))
	if sym.Equal(u[0], u[1]) {
		return true
	}
	if sym.Equal(sym.SplitPow(u[0]), sym.SplitPow(u[1])) {
		return true
	}
	return sym.Equal(sym.LogExpand(g), sym.LogExpand(sym.Fn("log", l)))
}

func clip(s string, n int) string {
	if len(s) > n {
		return s[:n] + "..."
	}
	return s
}
