package checks

import (
	"fmt"
	"go/token"
	"go/types"
	"math/big"
	"sort"
	"strings"

	"golang.org/x/tools/go/packages"

	"verif/internal/core"
	"verif/internal/sym"
	"verif/internal/vn"
)

// ---- R7: incomplete gamma dispatcher --------------------------------------------------------------------------------
//
// gamma_incomplete_imp(a, x, normalised, invert) is interpreted for the four flag combinations with its evaluation
// routines opaque:
//
//	lower_gamma_series(a, z, init)   = init + lgs(a, z)            (SumSeries starts from its init value: R1 + series.go)
//	full_igamma_prefix(a, z)         = gamma(a) * rgp(a, z)        (definition: z^a e^-z versus z^a e^-z / Gamma(a))
//	tgamma1pm1(a)                    = a*gamma(a) - 1              (Gamma(1+a) - 1)
//	gamma(u + 1)                     = u * gamma(u)
//
// and the results must satisfy, for every selection of the evaluation method (paths paired by their guards on a and x):
// P + Q = 1, Lower + Upper = Gamma(a) (a below the factorial limit), Lower = Gamma(a) * P and Upper = Gamma(a) * Q.

func gammaHook(p *types.Package) func(fn *types.Func) func([]vn.Value) vn.Value {
	term := func(v vn.Value) *sym.Term {
		if t, ok := v.(*sym.Term); ok {
			return t
		}
		if b, ok := v.(*vn.BoolVal); ok && b.Known {
			if b.V {
				return sym.One()
			}
			return sym.Zero()
		}
		return sym.Sym(fmt.Sprintf("opaque<%T>", v))
	}
	gamma := func(u *sym.Term) *sym.Term {
		// gamma(v + 1) = v * gamma(v) when the constant part of the argument is 1
		if dc := sym.Sub(u, sym.One()); len(dc.Atoms()) > 0 {
			if c, ok := sym.Subst(u, zeroAll(u)).IsConst(); ok && c.Cmp(big.NewRat(1, 1)) == 0 {
				return sym.Mul(dc, sym.Fn("gamma", dc))
			}
		}
		return sym.Fn("gamma", u)
	}
	return func(fn *types.Func) func([]vn.Value) vn.Value {
		if fn.Pkg() == nil {
			return nil
		}
		if fn.Pkg().Path() == "math" {
			switch fn.Name() {
			case "Gamma":
				return func(args []vn.Value) vn.Value { return gamma(term(args[0])) }
			case "Lgamma":
				return func(args []vn.Value) vn.Value { return vn.Tuple{sym.Fn("log", gamma(term(args[0]))), sym.One()} }
			}
			return nil
		}
		if fn.Pkg() != p {
			return nil
		}
		switch fn.Name() {
		case "lower_gamma_series":
			return func(args []vn.Value) vn.Value {
				return sym.Add(term(args[2]), sym.Fn("lgs", term(args[0]), term(args[1])))
			}
		case "full_igamma_prefix":
			return func(args []vn.Value) vn.Value {
				return sym.Mul(gamma(term(args[0])), sym.Fn("rgp", term(args[0]), term(args[1])))
			}
		case "regularised_gamma_prefix":
			return func(args []vn.Value) vn.Value { return sym.Fn("rgp", term(args[0]), term(args[1])) }
		case "tgamma1pm1":
			return func(args []vn.Value) vn.Value {
				a := term(args[0])
				return sym.Sub(sym.Mul(a, gamma(a)), sym.One())
			}
		case "SumSeries":
			return func(args []vn.Value) vn.Value {
				return sym.Add(term(args[1]), sym.Fn("sumseries", term(args[0]), term(args[2])))
			}
		case "gamma_incomplete_imp":
			// the recursive call (regularised result used for large a): P, and Q = 1 - P
			return func(args []vn.Value) vn.Value {
				pr := sym.Fn("gammaP", term(args[0]), term(args[1]))
				if b, ok := args[3].(*vn.BoolVal); ok && b.Known {
					if b.V {
						return sym.Sub(sym.One(), pr)
					}
					return pr
				}
				return sym.Sym("opaque-recursion")
			}
		case "finite_gamma_q", "finite_half_gamma_q", "upper_gamma_fraction", "igamma_temme_large", "Powm1", "NewSmallGamma2Series":
			name := fn.Name()
			return func(args []vn.Value) vn.Value {
				var ts []*sym.Term
				for _, a := range args {
					ts = append(ts, term(a))
				}
				return sym.Fn(name, ts...)
			}
		}
		return nil
	}
}

func zeroAll(u *sym.Term) map[*sym.Atom]*sym.Term {
	m := map[*sym.Atom]*sym.Term{}
	for _, a := range u.Atoms() {
		m[a] = sym.Zero()
	}
	return m
}

type gammaPath struct {
	pure   map[string]bool // guards that mention only a, x and constants: text -> outcome
	guards string          // the same, sorted and joined
	data   map[string]bool // data-dependent guards (mention an evaluation routine): text -> outcome
	ret    *sym.Term
	text   string
}

func checkGammaDispatcher(c *core.Ctx) {
	c.Rule("C13.R7", "incomplete gamma dispatcher: for every selection of the evaluation method P + Q = 1, Lower + Upper = Gamma(a), Lower = Gamma(a) P and Upper = Gamma(a) Q as term identities (evaluation routines opaque); Temme's expansion uses y = x - a - a log(x/a)", 500)
	p := c.Pkg("special")
	if p == nil {
		c.Unknown("C13.R7", "special", "package loaded", token.NoPos, "not loaded")
		return
	}
	d := newDeclIndex(c)
	fd := findFuncDecl(p, "gamma_incomplete_imp")
	cons := "special.gamma_incomplete_imp"
	if fd == nil {
		c.Unknown("C13.R7", cons, "function found", token.NoPos, "not found")
		return
	}
	a, x := sym.Sym("a"), sym.Sym("x")
	run := func(normalised, invert bool) ([]gammaPath, *vn.Undecided) {
		cfg := vn.Config{Pkg: p, TypeName: "Real64", Spec: distSpec, InlineOps: inlineOps, Decl: d.find, MaxDepth: 6, FiniteSyms: true, GlobalSyms: true,
			ParamSyms:  []string{"a", "x"},
			ParamList:  []vn.Value{nil, nil, &vn.BoolVal{Known: true, V: normalised}, &vn.BoolVal{Known: true, V: invert}},
			CallHook:   gammaHook(p.Types),
			GlobalVals: map[string]*sym.Term{"PrecisionFloat64": sym.Int(53)}}
		paths, und := vn.Run(cfg, fd)
		if und != nil {
			return nil, und
		}
		var out []gammaPath
		for _, pa := range paths {
			rt, _ := pa.Ret.(*sym.Term)
			if pa.Panic || rt == nil {
				continue
			}
			gp := gammaPath{data: map[string]bool{}, pure: map[string]bool{}, ret: rt, text: pa.CondString()}
			var pure []string
			skip := false
			for _, cv := range pa.Conds {
				isPure := true
				for _, t := range []*sym.Term{cv.C.A, cv.C.B} {
					if t == nil {
						continue
					}
					var visit func(t *sym.Term)
					visit = func(t *sym.Term) {
						for _, at := range t.Atoms() {
							switch at.Kind {
							case "sym", "log", "fabs", "floor", "trunc", "pow", "exp":
								for _, ar := range at.Args {
									visit(ar)
								}
							default:
								isPure = false
							}
						}
					}
					visit(t)
				}
				if isPure {
					pure = append(pure, cv.String())
					gp.pure[cv.C.String()] = cv.V
					continue
				}
				// the saturation of a regularised result at 1 (rounding): not compared
				if cv.C.Op == "gt" || cv.C.Op == "lt" {
					one := cv.C.B
					if cv.C.Op == "lt" {
						one = cv.C.A
					}
					if cc, ok := one.IsConst(); ok && cc.Cmp(big.NewRat(1, 1)) == 0 {
						if cv.V {
							skip = true
						}
						continue
					}
				}
				gp.data[cv.C.String()] = cv.V
			}
			if skip {
				continue
			}
			sort.Strings(pure)
			gp.guards = strings.Join(pure, " && ")
			out = append(out, gp)
		}
		return out, nil
	}
	type key struct{ n, i bool }
	res := map[key][]gammaPath{}
	for _, n := range []bool{true, false} {
		for _, i := range []bool{true, false} {
			ps, und := run(n, i)
			if und != nil {
				c.Unknown("C13.R7", cons, fmt.Sprintf("interpreted (normalised=%v, invert=%v)", n, i), und.Pos, "gamma_incomplete_imp left the interpreter's idiom set: "+und.Msg)
				return
			}
			res[key{n, i}] = ps
		}
	}
	gam := sym.Fn("gamma", a)
	agree := func(m1, m2 map[string]bool) bool {
		for k, v := range m1 {
			if w, ok := m2[k]; ok && w != v {
				return false
			}
		}
		return true
	}
	// routines: the evaluation routines a result is built from
	routines := func(t *sym.Term) string {
		set := map[string]bool{}
		var visit func(t *sym.Term)
		visit = func(t *sym.Term) {
			for _, at := range t.Atoms() {
				switch at.Kind {
				case "sym", "log", "exp", "pow", "gamma", "fabs", "floor", "trunc":
				default:
					set[at.Kind] = true
				}
				for _, ar := range at.Args {
					visit(ar)
				}
			}
		}
		visit(t)
		var ks []string
		for k := range set {
			ks = append(ks, k)
		}
		sort.Strings(ks)
		return strings.Join(ks, ",")
	}
	type relation struct {
		name       string
		k1, k2     key
		sameMethod bool // the pair is compared only where both requests use the same evaluation routines
		holds      func(r1, r2 *sym.Term) bool
	}
	rels := []relation{
		{"P + Q = 1", key{true, false}, key{true, true}, false, func(r1, r2 *sym.Term) bool { return sym.Equal(sym.Add(r1, r2), sym.One()) }},
		{"Lower + Upper = Gamma(a)", key{false, false}, key{false, true}, false, func(r1, r2 *sym.Term) bool { return sym.Equal(sym.Add(r1, r2), gam) }},
		{"Lower = Gamma(a) * P", key{true, false}, key{false, false}, true, func(r1, r2 *sym.Term) bool { return sym.Equal(sym.Mul(gam, r1), r2) }},
		{"Upper = Gamma(a) * Q", key{true, true}, key{false, true}, true, func(r1, r2 *sym.Term) bool { return sym.Equal(sym.Mul(gam, r1), r2) }},
	}
	_ = x
	bigA := func(g gammaPath) bool {
		v, ok := g.pure["lt(trunc(a), MaxFactorial)"]
		return ok && !v
	}
	for _, rl := range rels {
		classes := map[string]bool{}
		for _, p1 := range res[rl.k1] {
			classes[p1.guards] = true
		}
		var names []string
		for g := range classes {
			names = append(names, g)
		}
		sort.Strings(names)
		for _, g := range names {
			detail := rl.name + " on [" + clip(g, 300) + "]"
			n, bad := 0, ""
			skipped := false
			for _, p1 := range res[rl.k1] {
				if p1.guards != g {
					continue
				}
				// the large-a logarithmic block of the non-normalised requests mixes different methods: not compared
				if bigA(p1) && (!rl.k1.n || !rl.k2.n) {
					skipped = true
					continue
				}
				for _, p2 := range res[rl.k2] {
					if bigA(p2) && (!rl.k1.n || !rl.k2.n) {
						continue
					}
					if !agree(p1.data, p2.data) {
						continue
					}
					if rl.sameMethod {
						if !agree(p1.pure, p2.pure) {
							continue
						}
						if routines(sym.Mul(gam, p1.ret)) != routines(sym.Mul(gam, p2.ret)) {
							continue
						}
					} else if p1.guards != p2.guards {
						continue
					}
					n++
					if !rl.holds(p1.ret, p2.ret) && bad == "" {
						bad = fmt.Sprintf("the two results are %s and %s", clip(p1.ret.String(), 200), clip(p2.ret.String(), 200))
					}
					if rl.name == "P + Q = 1" && bad == "" {
						if msg := tailAnchor(p1, p2); msg != "" {
							bad = msg
						}
					}
				}
			}
			if n == 0 {
				if rl.sameMethod || skipped {
					continue // no region where both requests use the same routines
				}
				c.Fail("C13.R7", cons, detail, fd.Pos(), "the other member of the pair has no path with these guards on a and x: the two requests select their evaluation method differently")
				continue
			}
			c.Check(bad == "", "C13.R7", cons, detail, fd.Pos(), rl.name+" fails as a term identity: "+bad)
		}
	}
	checkTemmeArgument(c, p, d)
	c.Assume("C13.R7: full_igamma_prefix = Gamma(a) * regularised_gamma_prefix, lower_gamma_series(a, z, init) = init + series, tgamma1pm1(a) = Gamma(1+a) - 1 and Gamma(u+1) = u Gamma(u) are taken as the definitions of the evaluation routines; their accuracy is not decided")
}

// tailAnchor: of the two complementary results the one that is the routine's value itself (it vanishes when the routine
// values are set to zero) must be the tail that routine computes: the series of the lower function gives P, the finite
// sums and the continued fraction give Q, Temme's expansion gives Q for x >= a and P below, the leading term for tiny x
// gives P. Returns a message when the roles are exchanged.
func tailAnchor(pP, pQ gammaPath) string {
	zero := func(t *sym.Term) *sym.Term {
		m := map[*sym.Atom]*sym.Term{}
		var visit func(t *sym.Term)
		visit = func(t *sym.Term) {
			for _, at := range t.Atoms() {
				switch at.Kind {
				case "sym", "log", "exp", "gamma", "fabs", "floor", "trunc":
					for _, ar := range at.Args {
						visit(ar)
					}
				default:
					m[at] = sym.Zero()
				}
			}
		}
		visit(t)
		return sym.Subst(t, m)
	}
	kinds := func(t *sym.Term) map[string]bool {
		set := map[string]bool{}
		var visit func(t *sym.Term)
		visit = func(t *sym.Term) {
			for _, at := range t.Atoms() {
				set[at.Kind] = true
				for _, ar := range at.Args {
					visit(ar)
				}
			}
		}
		visit(t)
		return set
	}
	zp, zq := zero(pP.ret), zero(pQ.ret)
	direct := ""
	switch {
	case zp.IsZero() && sym.Equal(zq, sym.One()):
		direct = "P"
	case zq.IsZero() && sym.Equal(zp, sym.One()):
		direct = "Q"
	default:
		return ""
	}
	// the complement 1 - (routine value) is accurate only where the routine's tail is the small one: the method must
	// have been selected by a comparison of a with x (or of x with a power/logarithm bound on a), not by a alone
	related := false
	for g := range pP.pure {
		hasA, hasX := false, false
		for _, tok := range strings.FieldsFunc(g, func(r rune) bool {
			return !(r == '_' || r >= 'a' && r <= 'z' || r >= 'A' && r <= 'Z' || r >= '0' && r <= '9')
		}) {
			if tok == "a" {
				hasA = true
			}
			if tok == "x" {
				hasX = true
			}
		}
		if hasA && hasX {
			related = true
		}
		// a routine that computes P may also be selected by an upper bound on x alone (P is the small tail for small x)
		if direct == "P" && pP.pure[g] && strings.HasPrefix(g, "lt(x, ") && !hasA {
			related = true
		}
	}
	if !related {
		return "one tail is obtained as 1 - (value of the evaluation routine) on a path whose guards never compare a with x: the routine is used where its tail is close to 1 and the complement loses all accuracy"
	}
	ks := kinds(pP.ret)
	// the finite sums start from exp(-x) (resp. erfc(sqrt x)): they may only be selected below the underflow bound
	if (ks["finite_gamma_q"] || ks["finite_half_gamma_q"]) && !pP.pure["lt(x, MaxLogFloat64)"] {
		return "a finite-sum method, which scales its terms by exp(-x), is selected on a path without the guard x < MaxLogFloat64: beyond it the factor underflows and the upper tail is returned as 0"
	}
	// Temme's uniform expansion is accurate only near the transition x ~ a: its selection has to bound the distance
	// |x - a| relative to a (a test of the modulus), not the signed difference, which admits the whole lower tail
	if ks["igamma_temme_large"] {
		twoSided := false
		for g, v := range pP.pure {
			if v && strings.Contains(g, "fabs(") && strings.Contains(g, "a") && strings.Contains(g, "x") {
				twoSided = true
			}
		}
		if !twoSided {
			return "Temme's expansion is selected on a path without a bound on |x - a| (no guard on a modulus of x and a holds): a one-sided test admits arguments far in the lower tail, where the expansion loses its relative accuracy"
		}
	}
	want := ""
	switch {
	case ks["lgs"]:
		want = "P"
	case ks["finite_gamma_q"] || ks["finite_half_gamma_q"] || ks["upper_gamma_fraction"]:
		want = "Q"
	case ks["igamma_temme_large"]:
		// the expansion itself switches sign on x < a: the dispatcher has to decide with the same predicate
		if v, ok := pP.pure["lt(x, a)"]; ok {
			want = map[bool]string{true: "P", false: "Q"}[v]
		} else if v, ok := pP.pure["le(a, x)"]; ok {
			want = map[bool]string{true: "Q", false: "P"}[v]
		} else {
			return "the dispatcher does not decide which tail Temme's expansion returns with the predicate x < a that the expansion itself uses: at x = a the two disagree and P and Q are exchanged"
		}
	case ks["pow"] && !ks["sumseries"] && !ks["Powm1"]:
		want = "P"
	}
	if want == "" || want == direct {
		return ""
	}
	return "the evaluation routine of this method computes " + want + ", but its value is returned for the request of " + direct + " and subtracted from 1 for the other: the two tails are exchanged"
}

// checkTemmeArgument: Temme's uniform expansion is erfc(sqrt(y))/2 plus a correction, with y = a*(lambda - 1 - log lambda),
// lambda = x/a, that is y = x - a - a*log(x/a). The argument of the error function in the interpreted result is compared
// with that definition.
func checkTemmeArgument(c *core.Ctx, p *packages.Package, d *declIndex) {
	cons := "special.igamma_temme_large"
	detail := "argument of the error function is sqrt(x - a - a log(x/a))"
	fd := findFuncDecl(p, "igamma_temme_large")
	if fd == nil {
		c.Unknown("C13.R7", cons, detail, token.NoPos, "not found")
		return
	}
	cfg := vn.Config{Pkg: p, TypeName: "Real64", Spec: distSpec, InlineOps: inlineOps, Decl: d.find, MaxDepth: 6, FiniteSyms: true, GlobalSyms: true, UnrollConst: true,
		ParamSyms: []string{"a", "x"}}
	paths, und := vn.Run(cfg, fd)
	if und != nil {
		c.Unknown("C13.R7", cons, detail, und.Pos, "igamma_temme_large left the interpreter's idiom set: "+und.Msg)
		return
	}
	a, x := sym.Sym("a"), sym.Sym("x")
	want := sym.Sub(sym.Sub(x, a), sym.Mul(a, sym.Fn("log", sym.Div(x, a))))
	n := 0
	for _, pa := range paths {
		rt, _ := pa.Ret.(*sym.Term)
		if pa.Panic || rt == nil {
			continue
		}
		var found *sym.Term
		for _, at := range rt.Atoms() {
			if at.Kind == "erf" && len(at.Args) == 1 {
				arg := at.Args[0]
				found = sym.Mul(arg, arg)
			}
		}
		n++
		ok := found != nil && (sym.Equal(found, want) || sym.Equal(foldRoots(found), want))
		got := "no error-function term"
		if found != nil {
			got = clip(foldRoots(found).String(), 200)
		}
		c.Check(ok, "C13.R7", cons, detail+" ["+clip(pa.CondString(), 80)+"]", fd.Pos(),
			"the expansion evaluates erfc at the square root of "+got+" instead of x - a - a*log(x/a): the uniform expansion is taken at the wrong point (NaN for x > a when the sign is wrong)")
	}
	if n == 0 {
		c.Unknown("C13.R7", cons, detail, fd.Pos(), "no path returns a number")
	}
}
