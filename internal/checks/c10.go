package checks

import (
	"fmt"
	"go/ast"
	"go/token"
	"go/types"
	"sort"
	"strings"

	"golang.org/x/tools/go/packages"

	"verif/internal/core"
	"verif/internal/sym"
)

func init() { Registry["C10"] = checkC10 }

var geomFields = map[string]bool{"values": true, "rowOffset": true, "rowMax": true, "colOffset": true, "colMax": true, "transposed": true}

// header is a symbolic matrix header.
type header struct {
	f          map[string]*sym.Term // rows cols rowOffset rowMax colOffset colMax
	transposed bool
	hasT       bool
	// tmp: role of the scratch vectors tmp1/tmp2: "R" (the receiver's row scratch, at least rows elements), "C" (its
	// column scratch), "fresh" (allocated for the new header's own dimensions), "" (not set: nil)
	tmp map[string]string
}

func symHeader(transposed bool) *header {
	h := &header{f: map[string]*sym.Term{}, transposed: transposed, hasT: true, tmp: map[string]string{"tmp1": "R", "tmp2": "C"}}
	for _, n := range []string{"rows", "cols", "rowOffset", "rowMax", "colOffset", "colMax"} {
		h.f[n] = sym.Sym("h." + n)
	}
	return h
}

func (h *header) clone() *header {
	r := &header{f: map[string]*sym.Term{}, transposed: h.transposed, hasT: h.hasT, tmp: map[string]string{}}
	for k, v := range h.f {
		r.f[k] = v
	}
	for k, v := range h.tmp {
		r.tmp[k] = v
	}
	return r
}

// hdrInterp interprets index / T / SLICE style methods over symbolic headers.
type hdrInterp struct {
	pkg    *packages.Package
	info   *types.Info
	recv   types.Object
	self   *header
	ints   map[types.Object]*sym.Term
	hdrs   map[types.Object]*header
	ret    []interface{} // *sym.Term or *header
	done   bool
	err    string
	guards []string
	depth  int
	// lenient: skip statements outside the header language (loops, allocations), record storage sub-slices
	lenient bool
	slices  []sliceRec
}

func (it *hdrInterp) fail(f string, a ...interface{}) {
	if it.err == "" {
		it.err = fmt.Sprintf(f, a...)
	}
}

func (it *hdrInterp) hdrOf(e ast.Expr) *header {
	switch x := ast.Unparen(e).(type) {
	case *ast.Ident:
		o := it.info.Uses[x]
		if o == it.recv {
			return it.self
		}
		if h, ok := it.hdrs[o]; ok {
			return h
		}
	case *ast.StarExpr:
		return it.hdrOf(x.X)
	case *ast.UnaryExpr:
		if x.Op == token.AND {
			return it.hdrOf(x.X)
		}
	}
	return nil
}

func (it *hdrInterp) evalInt(e ast.Expr) *sym.Term {
	if tv, ok := it.info.Types[e]; ok && tv.Value != nil {
		var n int64
		if _, err := fmt.Sscanf(tv.Value.ExactString(), "%d", &n); err == nil {
			return sym.Int(n)
		}
	}
	switch x := ast.Unparen(e).(type) {
	case *ast.Ident:
		o := it.info.Uses[x]
		if v, ok := it.ints[o]; ok {
			return v
		}
		it.fail("unbound integer %s", x.Name)
	case *ast.SelectorExpr:
		if h := it.hdrOf(x.X); h != nil {
			if v, ok := h.f[x.Sel.Name]; ok {
				return v
			}
		}
		it.fail("selector %s", types.ExprString(e))
	case *ast.BinaryExpr:
		l, r := it.evalInt(x.X), it.evalInt(x.Y)
		if l == nil || r == nil {
			return nil
		}
		switch x.Op {
		case token.ADD:
			return sym.Add(l, r)
		case token.SUB:
			return sym.Sub(l, r)
		case token.MUL:
			return sym.Mul(l, r)
		case token.QUO:
			return sym.Fn("idiv", l, r)
		case token.REM:
			return sym.Fn("imod", l, r)
		}
		it.fail("operator %s", x.Op)
	case *ast.CallExpr:
		// matrix.index(i,j) on self or a local header
		if s, ok := ast.Unparen(x.Fun).(*ast.SelectorExpr); ok && s.Sel.Name == "index" && len(x.Args) == 2 {
			if h := it.hdrOf(s.X); h != nil {
				i, j := it.evalInt(x.Args[0]), it.evalInt(x.Args[1])
				if i == nil || j == nil {
					return nil
				}
				return it.callIndex(h, i, j)
			}
		}
		if id, ok := x.Fun.(*ast.Ident); ok && id.Name == "len" {
			return sym.Sym("len(values)")
		}
		it.fail("call %s", types.ExprString(e))
	default:
		it.fail("expression %s", types.ExprString(e))
	}
	return nil
}

// callIndex evaluates the type's own index() on header h.
func (it *hdrInterp) callIndex(h *header, i, j *sym.Term) *sym.Term {
	T := core.NamedOf(it.recv.Type()).Obj().Name()
	fd := core.FindMethod(it.pkg, T, "index")
	if fd == nil || it.depth > 3 {
		it.fail("index() not found")
		return nil
	}
	sub := &hdrInterp{pkg: it.pkg, info: it.info, self: h, ints: map[types.Object]*sym.Term{}, hdrs: map[types.Object]*header{}, depth: it.depth + 1}
	sub.recv = it.info.Defs[fd.Recv.List[0].Names[0]]
	k := 0
	for _, p := range fd.Type.Params.List {
		for _, n := range p.Names {
			if k == 0 {
				sub.ints[it.info.Defs[n]] = i
			} else {
				sub.ints[it.info.Defs[n]] = j
			}
			k++
		}
	}
	sub.block(fd.Body.List)
	if sub.err != "" {
		it.fail("index(): %s", sub.err)
		return nil
	}
	if len(sub.ret) != 1 {
		it.fail("index(): no result")
		return nil
	}
	t, _ := sub.ret[0].(*sym.Term)
	return t
}

func (it *hdrInterp) block(list []ast.Stmt) {
	for _, s := range list {
		if it.done || it.err != "" {
			return
		}
		it.stmt(s)
	}
}

func (it *hdrInterp) stmt(s ast.Stmt) {
	switch x := s.(type) {
	case *ast.IfStmt:
		// bool field test
		cond := ast.Unparen(x.Cond)
		negated := false
		if u, ok := cond.(*ast.UnaryExpr); ok && u.Op == token.NOT {
			cond, negated = ast.Unparen(u.X), true
		}
		if be, ok := cond.(*ast.BinaryExpr); ok && (be.Op == token.EQL || be.Op == token.NEQ) {
			// x.transposed == false / != true ...
			if lit := types.ExprString(be.Y); lit == "true" || lit == "false" {
				cond = ast.Unparen(be.X)
				if (be.Op == token.EQL) != (lit == "true") {
					negated = !negated
				}
			}
		}
		if se, ok := cond.(*ast.SelectorExpr); ok && se.Sel.Name == "transposed" {
			if h := it.hdrOf(se.X); h != nil {
				if h.transposed != negated {
					it.block(x.Body.List)
				} else if x.Else != nil {
					if b, ok := x.Else.(*ast.BlockStmt); ok {
						it.block(b.List)
					} else {
						it.stmt(x.Else)
					}
				}
				return
			}
		}
		if blockPanics(it.info, x.Body) {
			it.guards = append(it.guards, types.ExprString(x.Cond))
			return
		}
		if it.lenient {
			return
		}
		it.fail("data-dependent branch %s", types.ExprString(x.Cond))
	case *ast.ReturnStmt:
		for _, r := range x.Results {
			r = ast.Unparen(r)
			// &T{...} | &m | int expr
			if ue, ok := r.(*ast.UnaryExpr); ok && ue.Op == token.AND {
				if cl, ok := ue.X.(*ast.CompositeLit); ok {
					it.ret = append(it.ret, it.compositeHeader(cl))
					continue
				}
				if h := it.hdrOf(ue.X); h != nil {
					it.ret = append(it.ret, h)
					continue
				}
			}
			if tv, ok := it.info.Types[r]; ok {
				if b, ok := tv.Type.Underlying().(*types.Basic); ok && b.Info()&types.IsInteger != 0 {
					it.ret = append(it.ret, it.evalInt(r))
					continue
				}
			}
			if h := it.hdrOf(r); h != nil {
				it.ret = append(it.ret, h)
				continue
			}
			if it.lenient {
				it.ret = append(it.ret, nil)
				continue
			}
			it.fail("return %s", types.ExprString(r))
		}
		it.done = true
	case *ast.AssignStmt:
		if len(x.Lhs) == 2 && len(x.Rhs) == 1 {
			if ce, ok := ast.Unparen(x.Rhs[0]).(*ast.CallExpr); ok && calleeName(ce) == "Dims" {
				if se, ok := ce.Fun.(*ast.SelectorExpr); ok {
					if h := it.hdrOf(se.X); h != nil {
						for k, fld := range []string{"rows", "cols"} {
							if id, ok := x.Lhs[k].(*ast.Ident); ok && id.Name != "_" {
								o := it.info.Defs[id]
								if o == nil {
									o = it.info.Uses[id]
								}
								it.ints[o] = h.f[fld]
							}
						}
						return
					}
				}
			}
		}
		if len(x.Lhs) != len(x.Rhs) {
			if it.lenient {
				return
			}
			it.fail("tuple assignment")
			return
		}
		// evaluate all right-hand sides first
		type rv struct {
			t *sym.Term
			h *header
			b *bool
		}
		var vals []rv
		for i, r := range x.Rhs {
			l := x.Lhs[i]
			if it.lenient {
				// v = matrix.values[lo:hi]  |  v = matrix.values.Slice(lo, hi)  |  v = make(...) | var v ...
				if se, ok := ast.Unparen(r).(*ast.SliceExpr); ok {
					if sel, ok := ast.Unparen(se.X).(*ast.SelectorExpr); ok && sel.Sel.Name == "values" && se.Low != nil && se.High != nil {
						lo, hi := it.evalInt(se.Low), it.evalInt(se.High)
						if lo != nil && hi != nil {
							it.slices = append(it.slices, sliceRec{lo, hi, se.Pos()})
						}
						vals = append(vals, rv{})
						continue
					}
				}
				var ce *ast.CallExpr
				if ta, ok := ast.Unparen(r).(*ast.TypeAssertExpr); ok {
					ce, _ = ast.Unparen(ta.X).(*ast.CallExpr)
				} else {
					ce, _ = ast.Unparen(r).(*ast.CallExpr)
				}
				if ce != nil {
					nm := calleeName(ce)
					if (nm == "Slice" || nm == "SLICE" || nm == "ConstSlice") && len(ce.Args) == 2 {
						lo, hi := it.evalInt(ce.Args[0]), it.evalInt(ce.Args[1])
						if lo != nil && hi != nil {
							it.slices = append(it.slices, sliceRec{lo, hi, ce.Pos()})
						}
						vals = append(vals, rv{})
						continue
					}
					if nm != "index" {
						vals = append(vals, rv{})
						continue
					}
				}
			}
			// struct copy m := *matrix
			if st, ok := ast.Unparen(r).(*ast.StarExpr); ok {
				if h := it.hdrOf(st.X); h != nil {
					vals = append(vals, rv{h: h.clone()})
					continue
				}
			}
			if cl, ok := ast.Unparen(r).(*ast.CompositeLit); ok {
				vals = append(vals, rv{h: it.compositeHeader(cl)})
				continue
			}
			// bool field
			if ls, ok := ast.Unparen(l).(*ast.SelectorExpr); ok && ls.Sel.Name == "transposed" {
				b := it.evalBool(r)
				vals = append(vals, rv{b: b})
				continue
			}
			if ls, ok := ast.Unparen(l).(*ast.SelectorExpr); ok && strings.HasPrefix(ls.Sel.Name, "tmp") {
				if h := it.hdrOf(ls.X); h != nil && h.tmp != nil {
					defer func(h *header, k, role string) { h.tmp[k] = role }(h, ls.Sel.Name, it.tmpRole(r))
				}
				vals = append(vals, rv{})
				continue
			}
			if ls, ok := ast.Unparen(l).(*ast.SelectorExpr); ok && ls.Sel.Name == "values" {
				vals = append(vals, rv{})
				continue
			}
			t := it.evalInt(r)
			if x.Tok == token.ADD_ASSIGN {
				if cur := it.evalInt(l); cur != nil && t != nil {
					t = sym.Add(cur, t)
				}
			} else if x.Tok == token.SUB_ASSIGN {
				if cur := it.evalInt(l); cur != nil && t != nil {
					t = sym.Sub(cur, t)
				}
			} else if x.Tok != token.ASSIGN && x.Tok != token.DEFINE {
				it.fail("assignment operator %s", x.Tok)
			}
			vals = append(vals, rv{t: t})
		}
		if it.err != "" {
			return
		}
		for i, l := range x.Lhs {
			v := vals[i]
			switch lx := ast.Unparen(l).(type) {
			case *ast.Ident:
				o := it.info.Defs[lx]
				if o == nil {
					o = it.info.Uses[lx]
				}
				if v.h != nil {
					it.hdrs[o] = v.h
				} else if v.t != nil {
					it.ints[o] = v.t
				}
			case *ast.SelectorExpr:
				h := it.hdrOf(lx.X)
				if h == nil {
					it.fail("assignment to %s", types.ExprString(l))
					return
				}
				switch {
				case lx.Sel.Name == "transposed" && v.b != nil:
					h.transposed = *v.b
				case v.t != nil:
					h.f[lx.Sel.Name] = v.t
				}
			default:
				it.fail("assignment target %s", types.ExprString(l))
			}
		}
	case *ast.ExprStmt:
		if it.lenient {
			return
		}
		// m.initTmp() etc: no effect on geometry
		if ce, ok := x.X.(*ast.CallExpr); ok && calleeName(ce) == "initTmp" {
			if se, ok := ast.Unparen(ce.Fun).(*ast.SelectorExpr); ok {
				if h := it.hdrOf(se.X); h != nil && h.tmp != nil {
					h.tmp["tmp1"], h.tmp["tmp2"] = "fresh", "fresh"
				}
			}
			return
		}
		it.fail("statement %s", types.ExprString(x.X))
	case *ast.DeclStmt:
	case *ast.ForStmt:
		if !it.lenient {
			it.fail("loop")
		}
	default:
		if !it.lenient {
			it.fail("statement %T", s)
		}
	}
}

func (it *hdrInterp) evalBool(e ast.Expr) *bool {
	switch x := ast.Unparen(e).(type) {
	case *ast.UnaryExpr:
		if x.Op == token.NOT {
			if b := it.evalBool(x.X); b != nil {
				r := !*b
				return &r
			}
		}
	case *ast.SelectorExpr:
		if h := it.hdrOf(x.X); h != nil && x.Sel.Name == "transposed" {
			r := h.transposed
			return &r
		}
	case *ast.Ident:
		if x.Name == "true" || x.Name == "false" {
			r := x.Name == "true"
			return &r
		}
	}
	it.fail("boolean %s", types.ExprString(e))
	return nil
}

func (it *hdrInterp) compositeHeader(cl *ast.CompositeLit) *header {
	h := &header{f: map[string]*sym.Term{}, hasT: it.self.hasT, tmp: map[string]string{}}
	for _, n := range []string{"rows", "cols", "rowOffset", "rowMax", "colOffset", "colMax"} {
		h.f[n] = sym.Zero()
	}
	for _, el := range cl.Elts {
		kv, ok := el.(*ast.KeyValueExpr)
		if !ok {
			it.fail("positional composite literal")
			return h
		}
		k := kv.Key.(*ast.Ident).Name
		switch {
		case k == "transposed":
			if b := it.evalBool(kv.Value); b != nil {
				h.transposed = *b
			}
		case strings.HasPrefix(k, "tmp"):
			h.tmp[k] = it.tmpRole(kv.Value)
		case k == "values":
		default:
			if t := it.evalInt(kv.Value); t != nil {
				h.f[k] = t
			}
		}
	}
	return h
}

// tmpRole classifies the expression stored into a scratch field: the receiver's tmp1/tmp2 (possibly cloned or
// re-sliced) keep their role, anything else is a fresh allocation.
func (it *hdrInterp) tmpRole(e ast.Expr) string {
	role := "fresh"
	ast.Inspect(e, func(n ast.Node) bool {
		if se, ok := n.(*ast.SelectorExpr); ok && strings.HasPrefix(se.Sel.Name, "tmp") {
			if h := it.hdrOf(se.X); h != nil && h.tmp != nil {
				role = h.tmp[se.Sel.Name]
			}
		}
		return true
	})
	if id, ok := ast.Unparen(e).(*ast.Ident); ok && id.Name == "nil" {
		role = ""
	}
	return role
}

func newHdrInterp(pkg *packages.Package, fd *ast.FuncDecl, self *header, args []*sym.Term) *hdrInterp {
	it := &hdrInterp{pkg: pkg, info: pkg.TypesInfo, self: self, ints: map[types.Object]*sym.Term{}, hdrs: map[types.Object]*header{}}
	it.recv = it.info.Defs[fd.Recv.List[0].Names[0]]
	k := 0
	if fd.Type.Params != nil {
		for _, p := range fd.Type.Params.List {
			for _, n := range p.Names {
				if k < len(args) {
					it.ints[it.info.Defs[n]] = args[k]
				}
				k++
			}
		}
	}
	return it
}

func matrixTypes(pkg *packages.Package) (dense, sparse []string) {
	for _, n := range pkg.Types.Scope().Names() {
		if !strings.HasSuffix(n, "Matrix") {
			continue
		}
		tn, ok := pkg.Types.Scope().Lookup(n).(*types.TypeName)
		if !ok {
			continue
		}
		if _, ok := tn.Type().Underlying().(*types.Struct); !ok {
			continue
		}
		if strings.HasPrefix(n, "Dense") {
			dense = append(dense, n)
		} else if strings.HasPrefix(n, "Sparse") {
			sparse = append(sparse, n)
		}
	}
	sort.Strings(dense)
	sort.Strings(sparse)
	return
}

func checkC10(c *core.Ctx) error {
	if err := c.Load(packages.LoadSyntax); err != nil {
		return err
	}
	c.Explanation = "The view header arithmetic is evaluated symbolically from the source (index, T/MagicT, SLICE/ConstSlice/MagicSlice, row/column accessors) and the index identities " +
		"idx_T(h)(i,j) = idx_h(j,i), idx_Slice(h)(i,j) = idx_h(r0+i,c0+j) and the accessor element identities are decided as polynomial identities over the header fields for both values of the transposed flag; " +
		"the bounds test of index() dominates the offset computation; the storage-geometry fields are used only by the indexing layer or in the form values[index(..)] (who-may-access), so every operation built on Dims/At is view-correct; " +
		"encoders emit raw storage only under a test implying the receiver owns its whole storage; copying accessors allocate."
	c.Level = "other"
	c.Rule("C10.R1", "header identities: T() transposes the index map and the dimensions; SLICE shifts it by (r0,c0) and sets the dimensions (r1-r0, c1-c0); for both values of transposed", 72)
	c.Rule("C10.R2", "row/column/diagonal accessors address element k at idx_h(i,k) / idx_h(k,j) / idx_h(k,k); contiguous sub-slices start at index() and are used only in the branch of transposed where they are contiguous; copying accessors allocate", 100)
	c.Rule("C10.R3", "index() tests 0<=i<rows and 0<=j<cols and the test dominates the offset computation", 18)
	c.Rule("C10.R4", "storage geometry (values, offsets, maxima, transposed) is used only in the indexing layer or as values[index(i,j)]; any other use cannot be correct for a sliced or transposed receiver", 170)
	c.Rule("C10.R5", "encoders (MarshalJSON/Export) emit raw storage only under a test that implies the receiver owns its whole storage (not transposed, rows = rowMax, cols = colMax)", 18)
	pkg := c.Root
	dense, sparse := matrixTypes(pkg)
	c.Analysed["dense_matrix_types"] = len(dense)
	c.Analysed["sparse_matrix_types"] = len(sparse)
	for _, T := range append(append([]string{}, dense...), sparse...) {
		checkHeaderIdentities(c, pkg, T, strings.HasPrefix(T, "Dense"))
		checkIndexBounds(c, pkg, T)
		checkAccessors(c, pkg, T, strings.HasPrefix(T, "Dense"))
	}
	checkGeometryAccess(c, pkg, dense, sparse)
	checkEncoders(c, pkg, dense, sparse)
	return nil
}

func checkHeaderIdentities(c *core.Ctx, pkg *packages.Package, T string, hasT bool) {
	i, j := sym.Sym("i"), sym.Sym("j")
	index := core.FindMethod(pkg, T, "index")
	if index == nil {
		c.Unknown("C10.R1", "(*"+T+").index", "present", token.NoPos, "index() not found")
		return
	}
	flags := []bool{false}
	if hasT {
		flags = []bool{false, true}
	}
	idxOf := func(h *header, a, b *sym.Term) (*sym.Term, string) {
		it := newHdrInterp(pkg, index, h, []*sym.Term{a, b})
		it.block(index.Body.List)
		if it.err != "" {
			return nil, it.err
		}
		if len(it.ret) != 1 {
			return nil, "no result"
		}
		t, _ := it.ret[0].(*sym.Term)
		return t, ""
	}
	for _, tr := range flags {
		tag := fmt.Sprintf("transposed=%v", tr)
		// transposes
		for _, name := range []string{"T", "MagicT"} {
			fd := core.FindMethod(pkg, T, name)
			if fd == nil {
				continue
			}
			cons := "(*" + T + ")." + name
			if name == "T" && delegatesTo(fd, "MagicT") {
				c.OK("C10.R1", cons, tag+": delegates to MagicT", fd.Pos(), "")
				continue
			}
			if !hasT {
				// sparse T() builds a new key map: checked by R1s below
				checkSparseTranspose(c, pkg, T, fd, cons)
				continue
			}
			h := symHeader(tr)
			it := newHdrInterp(pkg, fd, h, nil)
			it.block(fd.Body.List)
			if it.err != "" || len(it.ret) != 1 {
				c.Unknown("C10.R1", cons, tag, fd.Pos(), "cannot evaluate the derived header: "+it.err)
				continue
			}
			h2, ok := it.ret[0].(*header)
			if !ok {
				c.Unknown("C10.R1", cons, tag, fd.Pos(), "result is not a header")
				continue
			}
			lhs, e1 := idxOf(h2, i, j)
			rhs, e2 := idxOf(h, j, i)
			if e1 != "" || e2 != "" {
				c.Unknown("C10.R1", cons, tag, fd.Pos(), "index(): "+e1+e2)
				continue
			}
			c.Check(sym.Equal(lhs, rhs), "C10.R1", cons, tag+": T().index(i,j) = index(j,i)", fd.Pos(),
				fmt.Sprintf("transposed view addresses %s but element (j,i) of the receiver is at %s", lhs, rhs))
			c.Check(sym.Equal(h2.f["rows"], h.f["cols"]) && sym.Equal(h2.f["cols"], h.f["rows"]), "C10.R1", cons, tag+": Dims swapped", fd.Pos(), "T() must have dimensions (cols, rows)")
			if hasScratch(pkg, T) {
				okT := (h2.tmp["tmp1"] == "C" || h2.tmp["tmp1"] == "fresh") && (h2.tmp["tmp2"] == "R" || h2.tmp["tmp2"] == "fresh")
				c.Check(okT, "C10.R1", cons, tag+": scratch vectors follow the swapped dimensions", fd.Pos(),
					fmt.Sprintf("the transposed view has %s rows but its row scratch tmp1 is %s and its column scratch tmp2 is %s: operations that use the view as receiver (MdotM, MdotV) index the scratch vectors with the view's dimensions and run past their end for a non-square matrix", h.f["cols"], roleText(h2.tmp["tmp1"]), roleText(h2.tmp["tmp2"])))
			}
		}
		for _, name := range []string{"SLICE", "ConstSlice", "MagicSlice", "Slice"} {
			fd := core.FindMethod(pkg, T, name)
			if fd == nil {
				continue
			}
			cons := "(*" + T + ")." + name
			// delegating wrappers: return matrix.SLICE(a,b,c,d)
			if delegatesTo(fd, "SLICE") || delegatesTo(fd, "Slice") || delegatesTo(fd, "MagicSlice") {
				c.OK("C10.R1", cons, tag+": delegates to a slice constructor with the same arguments", fd.Pos(), "")
				continue
			}
			h := symHeader(tr)
			h.hasT = hasT
			r0, r1, c0, c1 := sym.Sym("r0"), sym.Sym("r1"), sym.Sym("c0"), sym.Sym("c1")
			it := newHdrInterp(pkg, fd, h, []*sym.Term{r0, r1, c0, c1})
			it.block(fd.Body.List)
			if it.err != "" || len(it.ret) != 1 {
				c.Unknown("C10.R1", cons, tag, fd.Pos(), "cannot evaluate the derived header: "+it.err)
				continue
			}
			h2, ok := it.ret[0].(*header)
			if !ok {
				c.Unknown("C10.R1", cons, tag, fd.Pos(), "result is not a header")
				continue
			}
			lhs, e1 := idxOf(h2, i, j)
			rhs, e2 := idxOf(h, sym.Add(r0, i), sym.Add(c0, j))
			if e1 != "" || e2 != "" {
				c.Unknown("C10.R1", cons, tag, fd.Pos(), "index(): "+e1+e2)
				continue
			}
			c.Check(sym.Equal(lhs, rhs), "C10.R1", cons, tag+": Slice.index(i,j) = index(r0+i,c0+j)", fd.Pos(),
				fmt.Sprintf("slice addresses %s but element (r0+i,c0+j) of the receiver is at %s", lhs, rhs))
			c.Check(sym.Equal(h2.f["rows"], sym.Sub(r1, r0)) && sym.Equal(h2.f["cols"], sym.Sub(c1, c0)), "C10.R1", cons, tag+": Dims = (r1-r0, c1-c0)", fd.Pos(),
				fmt.Sprintf("slice has dimensions (%s,%s)", h2.f["rows"], h2.f["cols"]))
			c.Check(h2.transposed == h.transposed, "C10.R1", cons, tag+": orientation kept", fd.Pos(), "slice changes the transposed flag")
			if hasScratch(pkg, T) {
				okS := (h2.tmp["tmp1"] == "R" || h2.tmp["tmp1"] == "fresh") && (h2.tmp["tmp2"] == "C" || h2.tmp["tmp2"] == "fresh")
				c.Check(okS, "C10.R1", cons, tag+": scratch vectors keep their roles", fd.Pos(),
					fmt.Sprintf("the slice's row scratch tmp1 is %s and its column scratch tmp2 is %s", roleText(h2.tmp["tmp1"]), roleText(h2.tmp["tmp2"])))
			}
		}
	}
}

func delegatesTo(fd *ast.FuncDecl, target string) bool {
	if len(fd.Body.List) != 1 {
		return false
	}
	rs, ok := fd.Body.List[0].(*ast.ReturnStmt)
	if !ok || len(rs.Results) != 1 {
		return false
	}
	ce, ok := ast.Unparen(rs.Results[0]).(*ast.CallExpr)
	if !ok || calleeName(ce) != target {
		return false
	}
	// same arguments in order
	k := 0
	for _, p := range fd.Type.Params.List {
		for _, n := range p.Names {
			if k >= len(ce.Args) {
				return false
			}
			id, ok := ce.Args[k].(*ast.Ident)
			if !ok || id.Name != n.Name {
				return false
			}
			k++
		}
	}
	return k == len(ce.Args)
}

// sparse T(): for k1, value := range values { i1,j1 := matrix.ij(k1); k2 := m.index(j1,i1); m.values[k2] = value }
func checkSparseTranspose(c *core.Ctx, pkg *packages.Package, T string, fd *ast.FuncDecl, cons string) {
	info := pkg.TypesInfo
	// header literal: swapped dims/offsets/maxima
	var lit *ast.CompositeLit
	ast.Inspect(fd.Body, func(n ast.Node) bool {
		if cl, ok := n.(*ast.CompositeLit); ok && lit == nil {
			if nm := core.NamedOf(info.Types[cl].Type); nm != nil && nm.Obj().Name() == T {
				lit = cl
			}
		}
		return true
	})
	if lit == nil {
		c.Unknown("C10.R1", cons, "transposed header literal", fd.Pos(), "no composite literal of the matrix type")
		return
	}
	want := map[string]string{"rows": "cols", "cols": "rows", "rowOffset": "colOffset", "colOffset": "rowOffset", "rowMax": "colMax", "colMax": "rowMax"}
	bad := ""
	seen := 0
	for _, el := range lit.Elts {
		kv, ok := el.(*ast.KeyValueExpr)
		if !ok {
			continue
		}
		k := kv.Key.(*ast.Ident).Name
		if w, ok := want[k]; ok {
			seen++
			if s, ok := ast.Unparen(kv.Value).(*ast.SelectorExpr); !ok || s.Sel.Name != w {
				bad = k + " is not the receiver's " + w
			}
		}
		// scratch vectors follow the swapped dimensions: tmp1 (row scratch) from the receiver's tmp2 or fresh
		if k == "tmp1" || k == "tmp2" {
			other := map[string]string{"tmp1": "tmp2", "tmp2": "tmp1"}[k]
			ast.Inspect(kv.Value, func(n ast.Node) bool {
				if se, ok := n.(*ast.SelectorExpr); ok && se.Sel.Name == k {
					bad = k + " of the transpose is the receiver's " + k + " (sized for the other dimension) instead of its " + other
				}
				return true
			})
		}
	}
	c.Check(bad == "" && seen == 6, "C10.R1", cons, "header of the transpose swaps rows/cols, offsets and maxima", lit.Pos(), bad)
	// key map: k2 := m.index(j1, i1) with (i1,j1) := matrix.ij(k1)
	ok := false
	ast.Inspect(fd.Body, func(n ast.Node) bool {
		rs, isR := n.(*ast.RangeStmt)
		if !isR {
			return true
		}
		var i1, j1 types.Object
		for _, st := range rs.Body.List {
			as, isA := st.(*ast.AssignStmt)
			if !isA {
				continue
			}
			if len(as.Lhs) == 2 && len(as.Rhs) == 1 {
				if ce, isC := as.Rhs[0].(*ast.CallExpr); isC && calleeName(ce) == "ij" && len(ce.Args) == 1 {
					if key, isK := rs.Key.(*ast.Ident); isK {
						if a, isI := ce.Args[0].(*ast.Ident); isI && info.Uses[a] == info.Defs[key] {
							i1 = info.Defs[as.Lhs[0].(*ast.Ident)]
							j1 = info.Defs[as.Lhs[1].(*ast.Ident)]
						}
					}
				}
			}
			if len(as.Lhs) == 1 && len(as.Rhs) == 1 && i1 != nil {
				if ce, isC := as.Rhs[0].(*ast.CallExpr); isC && calleeName(ce) == "index" && len(ce.Args) == 2 {
					a0, ok0 := ce.Args[0].(*ast.Ident)
					a1, ok1 := ce.Args[1].(*ast.Ident)
					if ok0 && ok1 && info.Uses[a0] == j1 && info.Uses[a1] == i1 {
						ok = true
					}
				}
			}
		}
		return true
	})
	c.Check(ok, "C10.R1", cons, "key map k -> T.index(j,i) with (i,j) = ij(k)", fd.Pos(), "the transposed key of a stored element must be index'(j,i) of its view coordinates (i,j) = ij(k)")
}

func checkIndexBounds(c *core.Ctx, pkg *packages.Package, T string) {
	fd := core.FindMethod(pkg, T, "index")
	cons := "(*" + T + ").index"
	if fd == nil {
		return
	}
	f := newFnCtx(pkg, fd)
	ok := false
	if len(fd.Body.List) > 0 {
		if is, isIf := fd.Body.List[0].(*ast.IfStmt); isIf && blockPanics(pkg.TypesInfo, is.Body) {
			disj := map[string]bool{}
			var split func(e ast.Expr)
			split = func(e ast.Expr) {
				if be, ok := ast.Unparen(e).(*ast.BinaryExpr); ok && be.Op == token.LOR {
					split(be.X)
					split(be.Y)
					return
				}
				disj[f.norm(e)] = true
			}
			split(is.Cond)
			lo0 := disj["P0 < 0"] || disj["0 > P0"]
			lo1 := disj["P1 < 0"] || disj["0 > P1"]
			hi0 := disj["P0 >= R.rows"] || disj["R.rows <= P0"]
			hi1 := disj["P1 >= R.cols"] || disj["R.cols <= P1"]
			ok = lo0 && lo1 && hi0 && hi1
		}
	}
	c.Check(ok, "C10.R3", cons, "bounds test first", fd.Pos(), "index(i,j) must start with 'if i < 0 || j < 0 || i >= rows || j >= cols { panic }' (reads outside the view's bounds would land in the parent's storage)")
}

// ---------------------------------------------------------------------------
// R2 accessors

type elemAccess struct {
	loopVar  types.Object
	hi       string
	tgtIdx   ast.Expr // index of the written result element
	idxArgs  []ast.Expr
	pos      token.Pos
	viaCopy  bool // sparse: v.AT(k).SET(s)
	rawStore bool
}

func collectElemAccesses(f *fnCtx) []elemAccess {
	var res []elemAccess
	var walk func(n ast.Node, loops []*ast.ForStmt)
	walk = func(n ast.Node, loops []*ast.ForStmt) {
		ast.Inspect(n, func(x ast.Node) bool {
			switch s := x.(type) {
			case *ast.ForStmt:
				if s == n {
					return true
				}
				walk(s.Body, append(append([]*ast.ForStmt{}, loops...), s))
				return false
			case *ast.CallExpr:
				if calleeName(s) == "index" && len(s.Args) == 2 && len(loops) > 0 {
					if r, _ := f.baseOf(s); r {
						l := loops[len(loops)-1]
						ea := elemAccess{idxArgs: s.Args, pos: s.Pos()}
						if as, ok := l.Init.(*ast.AssignStmt); ok && len(as.Lhs) == 1 {
							if id, ok := as.Lhs[0].(*ast.Ident); ok {
								ea.loopVar = f.info.Defs[id]
							}
						}
						if be, ok := l.Cond.(*ast.BinaryExpr); ok && be.Op == token.LSS {
							ea.hi = f.norm(be.Y)
						}
						res = append(res, ea)
					}
				}
			}
			return true
		})
	}
	walk(f.fd.Body, nil)
	return res
}

func checkAccessors(c *core.Ctx, pkg *packages.Package, T string, dense bool) {
	info := pkg.TypesInfo
	type spec struct {
		name string
		kind string // row col diag
	}
	specs := []spec{{"ROW", "row"}, {"COL", "col"}, {"DIAG", "diag"}, {"ConstRow", "row"}, {"ConstCol", "col"}, {"ConstDiag", "diag"},
		{"Row", "row"}, {"Col", "col"}, {"Diag", "diag"}, {"MagicRow", "row"}, {"MagicCol", "col"}, {"MagicDiag", "diag"}}
	for _, sp := range specs {
		fd := core.FindMethod(pkg, T, sp.name)
		if fd == nil {
			continue
		}
		cons := "(*" + T + ")." + sp.name
		f := newFnCtx(pkg, fd)
		// pure delegation (Row -> ROW etc.)
		if len(fd.Body.List) == 1 {
			if rs, ok := fd.Body.List[0].(*ast.ReturnStmt); ok && len(rs.Results) == 1 {
				if ce, ok := ast.Unparen(rs.Results[0]).(*ast.CallExpr); ok {
					if r, _ := f.baseOf(ce); r {
						tgt := calleeName(ce)
						okT := strings.EqualFold(tgt, sp.name) || strings.EqualFold(tgt, strings.TrimPrefix(strings.TrimPrefix(sp.name, "Const"), "Magic"))
						sameArgs := true
						for k, a := range ce.Args {
							if !mentionsParam(f, a, k) {
								sameArgs = false
							}
						}
						c.Check(okT && sameArgs, "C10.R2", cons, "delegates to the "+sp.kind+" accessor with the same argument", fd.Pos(), "delegates to "+tgt)
						continue
					}
				}
			}
		}
		// element accesses in loops
		accs := collectElemAccesses(f)
		isLoopVar := func(e ast.Expr, lv types.Object) bool {
			id, ok := ast.Unparen(e).(*ast.Ident)
			return ok && lv != nil && f.info.Uses[id] == lv
		}
		isP0 := func(e ast.Expr) bool {
			id, ok := ast.Unparen(e).(*ast.Ident)
			return ok && len(f.params) > 0 && f.info.Uses[id] == f.params[0]
		}
		bad := ""
		for _, a := range accs {
			switch sp.kind {
			case "row":
				if !isP0(a.idxArgs[0]) || !isLoopVar(a.idxArgs[1], a.loopVar) {
					bad = "element k of row i must come from index(i,k), found index(" + types.ExprString(a.idxArgs[0]) + "," + types.ExprString(a.idxArgs[1]) + ")"
				}
				if a.hi != "R.cols" && a.hi != "m" && !strings.HasSuffix(a.hi, "cols") {
					bad = "row accessor loops up to " + a.hi + " instead of the number of columns"
				}
			case "col":
				if !isLoopVar(a.idxArgs[0], a.loopVar) || !isP0(a.idxArgs[1]) {
					bad = "element k of column j must come from index(k,j), found index(" + types.ExprString(a.idxArgs[0]) + "," + types.ExprString(a.idxArgs[1]) + ")"
				}
				if a.hi != "R.rows" && a.hi != "n" && !strings.HasSuffix(a.hi, "rows") {
					bad = "column accessor loops up to " + a.hi + " instead of the number of rows"
				}
			case "diag":
				if !isLoopVar(a.idxArgs[0], a.loopVar) || !isLoopVar(a.idxArgs[1], a.loopVar) {
					bad = "element k of the diagonal must come from index(k,k)"
				}
			}
		}
		// sub-slices of raw storage (contiguous direction): lo + k == idx_h(...)
		flags := []bool{false}
		if dense {
			flags = []bool{false, true}
		}
		nSlices := 0
		for _, tr := range flags {
			h := symHeader(tr)
			h.hasT = dense
			pi := sym.Sym("i")
			it := newHdrInterp(pkg, fd, h, []*sym.Term{pi})
			it.lenient = true
			it.block(fd.Body.List)
			if it.err != "" {
				c.Unknown("C10.R2", cons, fmt.Sprintf("transposed=%v", tr), fd.Pos(), it.err)
				continue
			}
			for _, sl := range it.slices {
				nSlices++
				k := sym.Sym("k")
				var want *sym.Term
				idx := core.FindMethod(pkg, T, "index")
				sub := newHdrInterp(pkg, idx, h, nil)
				switch sp.kind {
				case "row":
					want = sub.callIndexOn(h, pi, k)
				case "col":
					want = sub.callIndexOn(h, k, pi)
				}
				got := sym.Add(sl.lo, k)
				length := sym.Sub(sl.hi, sl.lo)
				wantLen := h.f["cols"]
				if sp.kind == "col" {
					wantLen = h.f["rows"]
				}
				if want == nil {
					c.Unknown("C10.R2", cons, fmt.Sprintf("transposed=%v sub-slice", tr), sl.pos, "cannot evaluate index()")
					continue
				}
				c.Check(sym.Equal(got, want) && sym.Equal(length, wantLen), "C10.R2", cons, fmt.Sprintf("transposed=%v: storage sub-slice element k = idx(%s)", tr, sp.kind), sl.pos,
					fmt.Sprintf("sub-slice element k is at %s (length %s) but the %s element k is at %s (length %s)", got, length, sp.kind, want, wantLen))
			}
		}
		if len(accs) == 0 && nSlices == 0 {
			c.Unknown("C10.R2", cons, "element addressing", fd.Pos(), "no element access through index() and no storage sub-slice recognised")
			continue
		}
		c.Check(bad == "", "C10.R2", cons, "loop addressing", fd.Pos(), bad)
		// copying accessors allocate: ROW/COL/DIAG of dense float/int types use make; sparse copy through SET/Set
		if sp.name == "ROW" || sp.name == "COL" || sp.name == "DIAG" {
			alloc := false
			raw := false
			ast.Inspect(fd.Body, func(n ast.Node) bool {
				switch x := n.(type) {
				case *ast.CallExpr:
					nm := calleeName(x)
					if nm == "make" || strings.HasPrefix(nm, "nilSparse") || strings.HasPrefix(nm, "NullSparse") || strings.HasPrefix(nm, "NullDense") || strings.HasPrefix(nm, "nilDense") {
						alloc = true
					}
				case *ast.AssignStmt:
					for li, l := range x.Lhs {
						if ix, ok := ast.Unparen(l).(*ast.IndexExpr); ok {
							if tv, ok := info.Types[ix.X]; ok && scalarMap(tv.Type) {
								raw = true
							}
							// pointer elements (Real types) must be cloned, not shared
							if tv, ok := info.Types[l]; ok && li < len(x.Rhs) {
								if _, isPtr := tv.Type.(*types.Pointer); isPtr {
									if ce, ok := ast.Unparen(x.Rhs[li]).(*ast.CallExpr); !ok || !strings.HasPrefix(calleeName(ce), "Clone") {
										raw = true
									}
								}
							}
						}
					}
				}
				return true
			})
			c.Check(alloc && !raw, "C10.R2", cons, "copying accessor allocates its result", fd.Pos(),
				"the copying accessor must build a fresh vector and copy element values (a shared element would write through to the matrix)")
		}
	}
}

type sliceRec struct {
	lo, hi *sym.Term
	pos    token.Pos
}

func (it *hdrInterp) callIndexOn(h *header, i, j *sym.Term) *sym.Term {
	return it.callIndex(h, i, j)
}

// ---------------------------------------------------------------------------
// R4 who-may-access storage geometry

// reviewed functions that legitimately compute with the storage geometry (one line of reason each)
var geomAllowed = map[string]string{
	"index":           "the indexing function itself",
	"ij":              "inverse of index()",
	"SLICE":           "derives a view header",
	"ConstSlice":      "derives a view header",
	"MagicSlice":      "derives a view header",
	"T":               "derives the transposed header",
	"MagicT":          "derives the transposed header",
	"Clone":           "copies header and storage",
	"storageLocation": "identity of the storage block",
	"initTmp":         "sizes scratch vectors",
	"UnmarshalJSON":   "decoder: installs a fresh compact header",
	"Tip":             "in-place transposition of a matrix that owns its storage (reviewed; not an addressing identity)",
}

func checkGeometryAccess(c *core.Ctx, pkg *packages.Package, dense, sparse []string) {
	info := pkg.TypesInfo
	isMat := map[string]bool{}
	for _, t := range append(append([]string{}, dense...), sparse...) {
		isMat[t] = true
	}
	nUses := 0
	type key struct{ fn, field string }
	reported := map[key]bool{}
	core.EachFunc(pkg, func(_ *ast.File, fd *ast.FuncDecl) {
		fname := c.FuncName(pkg, fd)
		f := newFnCtx(pkg, fd)
		// parent map for the values[index(..)] form
		parents := map[ast.Node]ast.Node{}
		var stack []ast.Node
		ast.Inspect(fd.Body, func(n ast.Node) bool {
			if n == nil {
				stack = stack[:len(stack)-1]
				return true
			}
			if len(stack) > 0 {
				parents[n] = stack[len(stack)-1]
			}
			stack = append(stack, n)
			return true
		})
		ast.Inspect(fd.Body, func(n ast.Node) bool {
			s, ok := n.(*ast.SelectorExpr)
			if !ok || !geomFields[s.Sel.Name] {
				return true
			}
			fv := core.FieldOf(info, s)
			nm := core.SelRecvNamed(info, s)
			if fv == nil || nm == nil || !isMat[nm.Obj().Name()] {
				return true
			}
			nUses++
			T := nm.Obj().Name()
			// under construction: base is a local variable (not receiver/parameter)
			if id, ok := ast.Unparen(s.X).(*ast.Ident); ok {
				if v, ok := info.Uses[id].(*types.Var); ok && !isRecvOrParam(info, fd, v) {
					// locals holding a *copy of the receiver header* still denote a view; only fresh literals are exempt
					if freshLocal(info, fd, v) {
						return true
					}
				}
			}
			if _, ok := geomAllowed[fd.Name.Name]; ok && (core.RecvTypeName(fd) == T) {
				return true
			}
			if fd.Recv == nil {
				return true // constructors New*/Null*/As*
			}
			// justified by other rules of this check (reviewed, one line each)
			switch fd.Name.Name {
			case "ConstRow", "ConstCol":
				return true // contiguous-direction sub-slice: start, length and branch of 'transposed' decided by C10.R2
			case "MarshalJSON":
				return true // view test and re-pack decided by C10.R5
			case "AsDenseReal64Vector", "AsDenseReal32Vector", "AsSparseFloat64Vector", "AsSparseFloat32Vector", "AsSparseIntVector", "AsSparseInt8Vector",
				"AsSparseInt16Vector", "AsSparseInt32Vector", "AsSparseInt64Vector", "AsSparseReal32Vector", "AsSparseReal64Vector",
				"AsVector", "AsConstVector":
				// the raw storage is handed out only in the else-branch of a complete view test (same predicate as the encoders, R5)
				if asVectorViewTestComplete(pkg, fd, strings.HasPrefix(T, "Dense")) {
					return true
				}
			case "Variables":
				// sparse real matrices seed their stored entries; right for a view when entries outside the view are skipped
				// and the rest is numbered through ij() (the exact form is decided by C01.R4)
				if strings.HasPrefix(T, "Sparse") && s.Sel.Name == "values" {
					usesIJ, skips := false, false
					ast.Inspect(fd.Body, func(m ast.Node) bool {
						switch x := m.(type) {
						case *ast.CallExpr:
							if calleeName(x) == "ij" {
								usesIJ = true
							}
						case *ast.BranchStmt:
							if x.Tok == token.CONTINUE {
								skips = true
							}
						}
						return true
					})
					if usesIJ && skips {
						return true
					}
				}
			case "ITERATOR", "ITERATOR_FROM":
				// sparse matrices iterate their delegate vector; that is right for a view exactly when the wrapper skips the
				// entries outside the view: the constructor calls skipOutside() on the result, and skipOutside compares
				// the view coordinates with the view extents
				if strings.HasPrefix(T, "Sparse") && s.Sel.Name == "values" && sparseIteratorSkipsOutside(pkg, fd, T) {
					return true
				}
			}
			// values[index(...)] / values.AT(index(...)) forms
			if s.Sel.Name == "values" {
				p := parents[s]
				switch px := p.(type) {
				case *ast.IndexExpr:
					if px.X == ast.Expr(s) {
						if ce, ok := ast.Unparen(px.Index).(*ast.CallExpr); ok && calleeName(ce) == "index" {
							return true
						}
						if id, ok := ast.Unparen(px.Index).(*ast.Ident); ok && definedByIndexCall(info, fd, id) {
							return true
						}
					}
				case *ast.SelectorExpr:
					// values.AT(index(..)) etc.
					if gp, ok := parents[px].(*ast.CallExpr); ok && gp.Fun == ast.Expr(px) && len(gp.Args) >= 1 {
						all := true
						for _, a := range gp.Args {
							if ce, ok := ast.Unparen(a).(*ast.CallExpr); ok && calleeName(ce) == "index" {
								continue
							}
							if id, ok := ast.Unparen(a).(*ast.Ident); ok && definedByIndexCall(info, fd, id) {
								continue
							}
							all = false
						}
						if all {
							return true
						}
					}
				}
			}
			k := key{fname, s.Sel.Name}
			if reported[k] {
				return true
			}
			reported[k] = true
			_ = f
			c.Fail("C10.R4", fname, "uses "+s.Sel.Name, s.Pos(),
				"storage geometry field "+s.Sel.Name+" is used outside the indexing layer and not as values[index(i,j)]: the computation is relative to the storage block, not to the view, and is wrong for a sliced or transposed receiver")
			return true
		})
	})
	c.Analysed["geometry_field_uses"] = nUses
	// count discharged obligations: one per (type, allowed function) present
	for _, T := range append(append([]string{}, dense...), sparse...) {
		for fn := range geomAllowed {
			if fd := core.FindMethod(pkg, T, fn); fd != nil {
				c.OK("C10.R4", "(*"+T+")."+fn, "reviewed user of storage geometry", fd.Pos(), "")
			}
		}
	}
}

// asVectorViewTestComplete: the body is `if <view test> { gather element by element } else { return raw storage }` with a
// view test that covers transposed (dense), rows < rowMax and cols < colMax, and the raw storage is read in the else-branch only.
func asVectorViewTestComplete(pkg *packages.Package, fd *ast.FuncDecl, isDense bool) bool {
	if len(fd.Body.List) == 0 {
		return false
	}
	is, ok := fd.Body.List[0].(*ast.IfStmt)
	if !ok || is.Else == nil {
		return false
	}
	f := newFnCtx(pkg, fd)
	disj := map[string]bool{}
	var split func(e ast.Expr)
	split = func(e ast.Expr) {
		if be, ok := ast.Unparen(e).(*ast.BinaryExpr); ok && be.Op == token.LOR {
			split(be.X)
			split(be.Y)
			return
		}
		disj[f.norm(e)] = true
	}
	split(is.Cond)
	rowsT := disj["R.rowMax > R.rows"] || disj["R.rows < R.rowMax"] || disj["R.rowMax != R.rows"] || disj["R.rows != R.rowMax"]
	colsT := disj["R.colMax > R.cols"] || disj["R.cols < R.colMax"] || disj["R.colMax != R.cols"] || disj["R.cols != R.colMax"]
	trT := !isDense || disj["R.transposed"]
	if !rowsT || !colsT || !trT {
		return false
	}
	// no use of the raw storage in the view branch
	raw := false
	ast.Inspect(is.Body, func(n ast.Node) bool {
		if ix, ok := n.(*ast.IndexExpr); ok {
			if se, ok := ast.Unparen(ix.X).(*ast.SelectorExpr); ok && se.Sel.Name == "values" {
				if ce, ok := ast.Unparen(ix.Index).(*ast.CallExpr); ok && calleeName(ce) == "index" {
					return false // values[X.index(i, j)]: addressed through the indexing layer
				}
			}
		}
		if se, ok := n.(*ast.SelectorExpr); ok && se.Sel.Name == "values" {
			raw = true
		}
		return true
	})
	return !raw
}

// sparseIteratorSkipsOutside: fd (ITERATOR / ITERATOR_FROM of sparse matrix type T) calls r.skipOutside() on the iterator
// it returns, and (*TIterator).skipOutside advances while Index() lies outside [0,rows) x [0,cols).
func sparseIteratorSkipsOutside(pkg *packages.Package, fd *ast.FuncDecl, T string) bool {
	calls := false
	ast.Inspect(fd.Body, func(n ast.Node) bool {
		if ce, ok := n.(*ast.CallExpr); ok && calleeName(ce) == "skipOutside" && len(ce.Args) == 0 {
			calls = true
		}
		return true
	})
	if !calls {
		return false
	}
	sk := core.FindMethod(pkg, T+"Iterator", "skipOutside")
	nx := core.FindMethod(pkg, T+"Iterator", "Next")
	if sk == nil || nx == nil {
		return false
	}
	// Next re-establishes the invariant
	nextSkips := false
	ast.Inspect(nx.Body, func(n ast.Node) bool {
		if ce, ok := n.(*ast.CallExpr); ok && calleeName(ce) == "skipOutside" {
			nextSkips = true
		}
		return true
	})
	// skipOutside: a loop that reads Index() and compares with rows and cols and 0
	readsIndex, cmpRows, cmpCols, cmpZero, advances := false, false, false, 0, false
	ast.Inspect(sk.Body, func(n ast.Node) bool {
		switch x := n.(type) {
		case *ast.CallExpr:
			switch calleeName(x) {
			case "Index":
				readsIndex = true
			case "Next":
				advances = true
			}
		case *ast.BinaryExpr:
			if x.Op == token.LSS || x.Op == token.GEQ || x.Op == token.GTR || x.Op == token.LEQ {
				for _, e := range []ast.Expr{x.X, x.Y} {
					if se, ok := ast.Unparen(e).(*ast.SelectorExpr); ok {
						if se.Sel.Name == "rows" {
							cmpRows = true
						}
						if se.Sel.Name == "cols" {
							cmpCols = true
						}
					}
					if bl, ok := ast.Unparen(e).(*ast.BasicLit); ok && bl.Value == "0" {
						cmpZero++
					}
				}
			}
		}
		return true
	})
	return nextSkips && readsIndex && cmpRows && cmpCols && cmpZero >= 2 && advances
}

// freshLocal: v is initialised from a composite literal / zero value, not from a copy of a header.
func freshLocal(info *types.Info, fd *ast.FuncDecl, v *types.Var) bool {
	fresh := false
	ast.Inspect(fd.Body, func(n ast.Node) bool {
		switch x := n.(type) {
		case *ast.AssignStmt:
			for i, l := range x.Lhs {
				id, ok := l.(*ast.Ident)
				if !ok || (info.Defs[id] != v && info.Uses[id] != v) || i >= len(x.Rhs) {
					continue
				}
				r := ast.Unparen(x.Rhs[i])
				if ue, ok := r.(*ast.UnaryExpr); ok && ue.Op == token.AND {
					r = ue.X
				}
				switch r.(type) {
				case *ast.CompositeLit:
					fresh = true
				case *ast.CallExpr:
					fresh = true // constructor result
				}
			}
		case *ast.ValueSpec:
			for _, nme := range x.Names {
				if info.Defs[nme] == v && len(x.Values) == 0 {
					fresh = true
				}
			}
		}
		return true
	})
	return fresh
}

// ---------------------------------------------------------------------------
// R5 encoders

func checkEncoders(c *core.Ctx, pkg *packages.Package, dense, sparse []string) {
	for _, T := range append(append([]string{}, dense...), sparse...) {
		isDense := strings.HasPrefix(T, "Dense")
		for _, name := range []string{"MarshalJSON"} {
			fd := core.FindMethod(pkg, T, name)
			if fd == nil {
				continue
			}
			cons := "(*" + T + ")." + name
			f := newFnCtx(pkg, fd)
			// first statement: if <view test> { repack through Set into a fresh compact matrix; a = tmp }
			ok := false
			msg := "no leading 'if <receiver is a view> { repack }' before raw storage is encoded"
			if len(fd.Body.List) > 0 {
				if is, isIf := fd.Body.List[0].(*ast.IfStmt); isIf {
					disj := map[string]bool{}
					var split func(e ast.Expr)
					split = func(e ast.Expr) {
						if be, ok := ast.Unparen(e).(*ast.BinaryExpr); ok && be.Op == token.LOR {
							split(be.X)
							split(be.Y)
							return
						}
						disj[f.norm(e)] = true
					}
					split(is.Cond)
					rowsT := disj["R.rowMax > R.rows"] || disj["R.rows < R.rowMax"] || disj["R.rowMax != R.rows"] || disj["R.rows != R.rowMax"]
					colsT := disj["R.colMax > R.cols"] || disj["R.cols < R.colMax"] || disj["R.colMax != R.cols"] || disj["R.cols != R.colMax"]
					trT := !isDense || disj["R.transposed"]
					// repack: a fresh matrix Set from the receiver and assigned to the receiver variable
					repack := false
					ast.Inspect(is.Body, func(n ast.Node) bool {
						if ce, ok := n.(*ast.CallExpr); ok && (calleeName(ce) == "Set" || calleeName(ce) == "SET") && len(ce.Args) == 1 && mentionsRecv(f, ce.Args[0]) {
							repack = true
						}
						return true
					})
					switch {
					case !rowsT || !colsT || !trT:
						msg = "the view test does not cover transposed / rows < rowMax / cols < colMax: a view anchored at the origin with fewer rows or columns than its storage would be encoded with the parent's stride"
					case !repack:
						msg = "the view branch does not re-pack the receiver into a compact matrix"
					default:
						ok = true
					}
				}
			}
			c.Check(ok, "C10.R5", cons, "raw storage encoded only for a matrix that owns its storage", fd.Pos(), msg)
		}
	}
}

func mentionsRecv(f *fnCtx, e ast.Expr) bool {
	found := false
	ast.Inspect(e, func(n ast.Node) bool {
		if id, ok := n.(*ast.Ident); ok && f.info.Uses[id] == f.recv {
			found = true
		}
		return true
	})
	return found
}

// definedByIndexCall: identifier is a local whose only definition is X.index(...).
func definedByIndexCall(info *types.Info, fd *ast.FuncDecl, id *ast.Ident) bool {
	o := info.Uses[id]
	if o == nil {
		return false
	}
	n, ok := 0, true
	ast.Inspect(fd.Body, func(x ast.Node) bool {
		as, isA := x.(*ast.AssignStmt)
		if !isA {
			return true
		}
		for i, l := range as.Lhs {
			lid, isI := l.(*ast.Ident)
			if !isI || (info.Defs[lid] != o && info.Uses[lid] != o) {
				continue
			}
			n++
			if i >= len(as.Rhs) {
				ok = false
				continue
			}
			if ce, isC := ast.Unparen(as.Rhs[i]).(*ast.CallExpr); !isC || calleeName(ce) != "index" {
				ok = false
			}
		}
		return true
	})
	return n >= 1 && ok
}

func hasScratch(pkg *packages.Package, T string) bool {
	o := pkg.Types.Scope().Lookup(T)
	if o == nil {
		return false
	}
	st, ok := o.Type().Underlying().(*types.Struct)
	if !ok {
		return false
	}
	n := 0
	for i := 0; i < st.NumFields(); i++ {
		if st.Field(i).Name() == "tmp1" || st.Field(i).Name() == "tmp2" {
			n++
		}
	}
	return n == 2
}

func roleText(r string) string {
	switch r {
	case "R":
		return "the receiver's row scratch (sized for the receiver's rows)"
	case "C":
		return "the receiver's column scratch (sized for the receiver's columns)"
	case "fresh":
		return "freshly allocated"
	}
	return "unset"
}
