package checks

import (
	"fmt"
	"go/ast"
	"go/token"
	"go/types"
	"sort"
	"strings"

	"golang.org/x/tools/go/cfg"
	"golang.org/x/tools/go/packages"

	"verif/internal/core"
)

func init() { Registry["C19"] = checkC19 }

// ---------------------------------------------------------------------------
// C19 — the ordered integer index (AVL tree)
// ---------------------------------------------------------------------------

var avlLinkFields = map[string]bool{"Left": true, "Right": true, "Parent": true}

func checkC19(c *core.Ctx) error {
	if err := c.Load(packages.LoadSyntax); err != nil {
		return err
	}
	c.Explanation = "Structural rules over avl-tree.go and every user of AvlNode/AvlTree: who-may-write link fields, abstract shape interpretation of the four rotations " +
		"(all nil/non-nil shapes of depth<=3, symbolic keys), dominance of the iterator staleness test, tombstone dominance in delete, clone/search/descent direction agreement, " +
		"and the balance bookkeeping of insert/delete checked by abstract interpretation of heights. Not decided: nothing is executed; rules describe necessary structure."
	c.Rule("C19.R1", "link fields Left/Right/Parent of AvlNode and AvlTree.Root are assigned only in the reviewed functions; a child assignment outside setLeft/setRight is nil or paired with a parent assignment", 8)
	c.Rule("C19.R2", "each rotation, interpreted on every nil/non-nil pre-shape of depth<=3 with symbolic keys, preserves the in-order key sequence, keeps every child's Parent consistent, keeps obj as subtree root and obj.Parent untouched", 4)
	c.Rule("C19.R3", "in AvlIterator.Next every read of node.Left/Right/Parent is dominated by the false edge of the staleness test (node.Deleted || value != node.Value); the true edge re-finds by value+1", 3)
	c.Rule("C19.R4", "in delete every return that is not under 'obj==nil', 'i<obj.Value' or 'i>obj.Value' is dominated by obj.Deleted=true; Deleted is written nowhere else and only with true", 4)
	c.Rule("C19.R5", "clone returns a fresh node whose children are re-parented clones (setLeft(obj.Left.clone()), setRight(obj.Right.clone()))", 3)
	c.Rule("C19.R6", "search/descent direction: under 'i < X.Value' only X.Left is followed/attached, under 'i > X.Value' only X.Right; FindNodeLE remembers the last node with i <= Value", 10)
	pkg := c.Root
	info := pkg.TypesInfo

	// ---------------- R1 who-may-write
	type allow struct {
		fields map[string]bool
		why    string
	}
	allowed := map[string]allow{
		"(*AvlNode).setLeft":  {map[string]bool{"Left": true, "Parent": true}, "parent-maintaining setter"},
		"(*AvlNode).setRight": {map[string]bool{"Right": true, "Parent": true}, "parent-maintaining setter"},
		"(*AvlNode).delete":   {map[string]bool{"Parent": true}, "promoted only child becomes a subtree root: Parent reset to nil, caller re-attaches through setLeft/setRight or stores it as Root"},
		"(*AvlNode).replace":  {map[string]bool{"Parent": true, "Left": true, "Right": true}, "predecessor takes over the deleted node's position; deleted node is detached with nil links"},
	}
	rootWriters := map[string]bool{"(*AvlTree).Insert": true, "(*AvlTree).Delete": true, "(*AvlTree).Clone": true}
	nLinkWrites := 0
	for _, p := range c.LibPkgs() {
		pinfo := p.TypesInfo
		core.EachFunc(p, func(_ *ast.File, fd *ast.FuncDecl) {
			fname := c.FuncName(p, fd)
			core.AssignedExprs(fd.Body, func(lhs, rhs ast.Expr, st ast.Stmt) {
				sel, ok := ast.Unparen(lhs).(*ast.SelectorExpr)
				if !ok {
					// struct copy through pointer: *x = y of type AvlNode
					if tv, ok := pinfo.Types[lhs]; ok {
						if n := core.NamedOf(tv.Type); n != nil && n.Obj().Name() == "AvlNode" && n.Obj().Pkg().Path() == core.RootPkg {
							if _, isPtr := tv.Type.(*types.Pointer); !isPtr {
								if _, isStar := ast.Unparen(lhs).(*ast.StarExpr); isStar {
									c.Fail("C19.R1", fname, "struct copy into *AvlNode", lhs.Pos(), "whole-node overwrite through a pointer rewrites link fields outside the setters")
								} else if fname != "(*AvlNode).clone" && fname != "NewAvlNode" {
									// local struct value copy (r = *obj) only in clone
									if id, ok := ast.Unparen(lhs).(*ast.Ident); !ok || id.Name == "_" {
										return
									}
									if _, isDef := st.(*ast.AssignStmt); isDef && rhs != nil {
										if _, isLit := ast.Unparen(rhs).(*ast.CompositeLit); isLit {
											return
										}
									}
									c.Fail("C19.R1", fname, "AvlNode value copy", lhs.Pos(), "AvlNode copied by value outside clone (copies link fields)")
								}
							}
						}
					}
					return
				}
				fv := core.FieldOf(pinfo, sel)
				if fv == nil {
					return
				}
				n := core.SelRecvNamed(pinfo, sel)
				if n == nil || n.Obj().Pkg() == nil || n.Obj().Pkg().Path() != core.RootPkg {
					return
				}
				switch n.Obj().Name() {
				case "AvlNode":
					if !avlLinkFields[fv.Name()] {
						return
					}
					nLinkWrites++
					a, ok := allowed[fname]
					if !ok || !a.fields[fv.Name()] {
						c.Fail("C19.R1", fname, "write "+fv.Name(), lhs.Pos(), "link field "+fv.Name()+" assigned outside the reviewed functions (setLeft, setRight, delete, replace)")
						return
					}
					// outside the setters: nil, or (replace) node.Parent = obj.Parent
					if !strings.HasSuffix(fname, ".setLeft") && !strings.HasSuffix(fname, ".setRight") {
						isNil := false
						if id, ok := ast.Unparen(rhs).(*ast.Ident); ok && id.Name == "nil" {
							isNil = true
						}
						inherit := false
						if rs, ok := ast.Unparen(rhs).(*ast.SelectorExpr); ok && fv.Name() == "Parent" && fname == "(*AvlNode).replace" {
							if core.IsFieldSel(pinfo, rs, "AvlNode", "Parent") {
								inherit = true
							}
						}
						if id, ok := ast.Unparen(rhs).(*ast.Ident); ok && fname == "(*AvlNode).delete" && fv.Name() == "Parent" {
							if v, ok := pinfo.Uses[id].(*types.Var); ok && isParamOf(pinfo, fd, v) {
								inherit = true // the caller re-attaches below exactly this parent (nil at the root)
							}
						}
						c.Check(isNil || inherit, "C19.R1", fname, "write "+fv.Name()+" = "+types.ExprString(rhs), lhs.Pos(),
							"link assignment outside the setters must be nil (detach) or inherit the replaced node's Parent")
					} else {
						c.OK("C19.R1", fname, "write "+fv.Name(), lhs.Pos(), "")
					}
				case "AvlTree":
					if fv.Name() != "Root" {
						return
					}
					c.Check(rootWriters[fname], "C19.R1", fname, "write Root", lhs.Pos(), "AvlTree.Root assigned outside Insert/Delete/Clone")
				}
			})
		})
	}
	c.Analysed["link_writes"] = nLinkWrites
	// setLeft / setRight bodies themselves: child assignment paired with parent assignment under non-nil test
	for _, nm := range []string{"setLeft", "setRight"} {
		fd := core.FindMethod(pkg, "AvlNode", nm)
		if fd == nil {
			c.Unknown("C19.R1", "(*AvlNode)."+nm, "present", token.NoPos, "setter not found")
			continue
		}
		want := "Left"
		if nm == "setRight" {
			want = "Right"
		}
		ok := checkSetter(info, fd, want)
		c.Check(ok == "", "C19.R1", "(*AvlNode)."+nm, "body", fd.Pos(), ok)
	}

	// ---------------- R2 rotations
	for _, rot := range []struct {
		name string
		req  [][]string
	}{
		{"rotateLL", [][]string{{"Left"}}},
		{"rotateLR", [][]string{{"Left"}, {"Left", "Right"}}},
		{"rotateRR", [][]string{{"Right"}}},
		{"rotateRL", [][]string{{"Right"}, {"Right", "Left"}}},
	} {
		fd := core.FindMethod(pkg, "AvlNode", rot.name)
		cons := "(*AvlNode)." + rot.name
		if fd == nil {
			c.Unknown("C19.R2", cons, "present", token.NoPos, "rotation not found")
			continue
		}
		shapes, bad, msg := checkRotation(pkg, fd, rot.req)
		c.Analysed["rotation_shapes_"+rot.name] = shapes
		if msg != "" && strings.HasPrefix(msg, "undecided") {
			c.Unknown("C19.R2", cons, "shape interpretation", fd.Pos(), msg)
		} else {
			c.Check(bad == 0, "C19.R2", cons, "shape interpretation", fd.Pos(), fmt.Sprintf("%d of %d pre-shapes violate order/parent consistency; first: %s", bad, shapes, msg))
		}
	}

	// ---------------- R3 iterator staleness
	checkAvlNext(c, pkg)
	// ---------------- R4 tombstones
	checkAvlDelete(c, pkg)
	// ---------------- R5 clone
	checkAvlClone(c, pkg)
	// ---------------- R6 directions
	checkAvlDirections(c, pkg)
	checkAvlHeights(c, pkg)
	// ---------------- R7 mirror twins
	c.Rule("C19.R7", "the left- and right-handed procedures of the balance bookkeeping are mirror images (Left<->Right, balance factor k <-> -k, <= <-> >=): balance1/balance2, rotateLL/rotateRR, rotateLR/rotateRL, the two descent branches of insert and delete and the two only-child promotions", 6)
	for _, pr := range [][2]string{{"balance1", "balance2"}, {"rotateLL", "rotateRR"}, {"rotateLR", "rotateRL"}} {
		a, b := core.FindMethod(pkg, "AvlNode", pr[0]), core.FindMethod(pkg, "AvlNode", pr[1])
		cons := "(*AvlNode)." + pr[0] + " ~ " + pr[1]
		if a == nil || b == nil {
			c.Unknown("C19.R7", cons, "both twins present", token.NoPos, "method not found")
			continue
		}
		ta, tb := mirrorText(info, a.Body, false), mirrorText(info, b.Body, true)
		diff := ""
		if ta != tb {
			la, lb := strings.Split(ta, "\n"), strings.Split(tb, "\n")
			for i := 0; i < len(la) || i < len(lb); i++ {
				x, y := "", ""
				if i < len(la) {
					x = la[i]
				}
				if i < len(lb) {
					y = lb[i]
				}
				if x != y {
					diff = fmt.Sprintf("%s has `%s` where the mirror image of %s has `%s`", pr[0], strings.TrimSpace(x), pr[1], strings.TrimSpace(y))
					break
				}
			}
		}
		c.Check(ta == tb, "C19.R7", cons, "mirror images", b.Pos(),
			diff+": the two procedures handle the two sides of the tree differently, so balance factors or height propagation are wrong on one side")
	}
	// sequential form: if i < obj.Value {...}; if i > obj.Value {...}
	core.EachFunc(pkg, func(_ *ast.File, fd *ast.FuncDecl) {
		if fd.Recv == nil || core.RecvTypeName(fd) != "AvlNode" || fd.Body == nil {
			return
		}
		var lt, gt *ast.IfStmt
		for _, st := range fd.Body.List {
			is, ok := st.(*ast.IfStmt)
			if !ok || is.Else != nil {
				continue
			}
			if be, ok := is.Cond.(*ast.BinaryExpr); ok && types.ExprString(be.X) == "i" && strings.HasSuffix(types.ExprString(be.Y), ".Value") {
				switch be.Op {
				case token.LSS:
					lt = is
				case token.GTR:
					gt = is
				}
			}
		}
		if lt == nil || gt == nil {
			return
		}
		cons := fmt.Sprintf("(*AvlNode).%s left ~ right branch", fd.Name.Name)
		ta, tb := mirrorText(info, lt.Body, false), mirrorText(info, gt.Body, true)
		c.Check(ta == tb, "C19.R7", cons, "mirror images", gt.Pos(), "the branches for i < Value and i > Value are not mirror images of each other: deletions on the two sides rebalance differently")
	})
	// sibling blocks guarded by obj.Right == nil / obj.Left == nil (promotion of the only child) mirror each other
	core.EachFunc(pkg, func(_ *ast.File, fd *ast.FuncDecl) {
		if fd.Recv == nil || core.RecvTypeName(fd) != "AvlNode" || fd.Body == nil {
			return
		}
		var onlyLeft, onlyRight *ast.IfStmt // obj.Right == nil -> only a left child; obj.Left == nil -> only a right child
		for _, st := range fd.Body.List {
			is, ok := st.(*ast.IfStmt)
			if !ok || is.Else != nil {
				continue
			}
			switch exprStr(is.Cond) {
			case "obj.Right==nil":
				onlyLeft = is
			case "obj.Left==nil":
				onlyRight = is
			}
		}
		if onlyLeft == nil || onlyRight == nil {
			return
		}
		cons := fmt.Sprintf("(*AvlNode).%s only-left ~ only-right child", fd.Name.Name)
		ta, tb := mirrorText(info, onlyLeft.Body, false), mirrorText(info, onlyRight.Body, true)
		c.Check(ta == tb, "C19.R7", cons, "mirror images", onlyRight.Pos(),
			"the blocks that promote the only child (obj.Right == nil / obj.Left == nil) are not mirror images: one side leaves a link (for example the promoted child's Parent) in a different state than the other")
	})
	// the two descent directions inside one procedure (case i < obj.Value / case i > obj.Value) mirror each other
	core.EachFunc(pkg, func(_ *ast.File, fd *ast.FuncDecl) {
		if fd.Recv == nil || core.RecvTypeName(fd) != "AvlNode" || fd.Body == nil {
			return
		}
		ast.Inspect(fd.Body, func(n ast.Node) bool {
			sw, ok := n.(*ast.SwitchStmt)
			if !ok || sw.Tag != nil {
				return true
			}
			var lt, gt *ast.CaseClause
			for _, cs := range sw.Body.List {
				cc := cs.(*ast.CaseClause)
				if len(cc.List) != 1 {
					continue
				}
				if be, ok := cc.List[0].(*ast.BinaryExpr); ok && strings.HasSuffix(types.ExprString(be.Y), ".Value") && types.ExprString(be.X) == "i" {
					switch be.Op {
					case token.LSS:
						lt = cc
					case token.GTR:
						gt = cc
					}
				}
			}
			if lt == nil || gt == nil || len(lt.Body) < 1 {
				return true
			}
			cons := fmt.Sprintf("(*AvlNode).%s left ~ right branch", fd.Name.Name)
			ta := mirrorText(info, &ast.BlockStmt{List: lt.Body}, false)
			tb := mirrorText(info, &ast.BlockStmt{List: gt.Body}, true)
			diff := ""
			if ta != tb {
				la, lb := strings.Split(ta, "\n"), strings.Split(tb, "\n")
				for i := 0; i < len(la) || i < len(lb); i++ {
					x, y := "", ""
					if i < len(la) {
						x = la[i]
					}
					if i < len(lb) {
						y = lb[i]
					}
					if x != y {
						diff = fmt.Sprintf("the left branch has `%s` where the mirror image of the right branch has `%s`", strings.TrimSpace(x), strings.TrimSpace(y))
						break
					}
				}
			}
			c.Check(ta == tb, "C19.R7", cons, "mirror images", gt.Pos(), diff+": insertions/deletions on the two sides update balance factors differently")
			return true
		})
	})
	return nil
}

// mirrorText prints a statement list in a canonical form; with mirror=true every handed name and every balance
// constant is replaced by its mirror image (Left<->Right, LL<->RR, LR<->RL, integer k <-> -k, < <-> >, <= <-> >=).
// Case clauses are sorted, so the order in which the cases are written does not matter.
func mirrorText(info *types.Info, body *ast.BlockStmt, mirror bool) string {
	names := map[string]string{"Left": "Right", "Right": "Left", "setLeft": "setRight", "setRight": "setLeft",
		"rotateLL": "rotateRR", "rotateRR": "rotateLL", "rotateLR": "rotateRL", "rotateRL": "rotateLR", "balance1": "balance2", "balance2": "balance1"}
	ops := map[token.Token]token.Token{token.LSS: token.GTR, token.GTR: token.LSS, token.LEQ: token.GEQ, token.GEQ: token.LEQ}
	varNo := map[types.Object]int{}
	var expr func(e ast.Expr) string
	expr = func(e ast.Expr) string {
		switch v := e.(type) {
		case *ast.Ident:
			// variables (receiver, parameters, locals) are named by order of first appearance, so that the two procedures
			// may name them differently; fields, methods and functions keep their (mirrored) names
			o := info.Uses[v]
			if o == nil {
				o = info.Defs[v]
			}
			if vo, ok := o.(*types.Var); ok && !vo.IsField() {
				if _, seen := varNo[o]; !seen {
					varNo[o] = len(varNo)
				}
				return fmt.Sprintf("$v%d", varNo[o])
			}
			if mirror {
				if m, ok := names[v.Name]; ok {
					return m
				}
			}
			return v.Name
		case *ast.BasicLit:
			if mirror && v.Kind == token.INT && v.Value != "0" {
				return "-" + v.Value
			}
			return v.Value
		case *ast.UnaryExpr:
			if v.Op == token.SUB {
				if bl, ok := v.X.(*ast.BasicLit); ok && bl.Kind == token.INT {
					if mirror {
						return bl.Value
					}
					return "-" + bl.Value
				}
			}
			return v.Op.String() + expr(v.X)
		case *ast.BinaryExpr:
			op := v.Op
			if mirror {
				if m, ok := ops[op]; ok {
					op = m
				}
			}
			return "(" + expr(v.X) + " " + op.String() + " " + expr(v.Y) + ")"
		case *ast.SelectorExpr:
			return expr(v.X) + "." + expr(v.Sel)
		case *ast.CallExpr:
			var as []string
			for _, a := range v.Args {
				as = append(as, expr(a))
			}
			return expr(v.Fun) + "(" + strings.Join(as, ", ") + ")"
		case *ast.ParenExpr:
			return expr(v.X)
		case *ast.StarExpr:
			return "*" + expr(v.X)
		}
		return types.ExprString(e)
	}
	var stmt func(s ast.Stmt, ind string) string
	block := func(list []ast.Stmt, ind string) string {
		var b strings.Builder
		for _, s := range list {
			b.WriteString(stmt(s, ind))
		}
		return b.String()
	}
	stmt = func(s ast.Stmt, ind string) string {
		switch v := s.(type) {
		case *ast.AssignStmt:
			var l, r []string
			for _, x := range v.Lhs {
				l = append(l, expr(x))
			}
			for _, x := range v.Rhs {
				r = append(r, expr(x))
			}
			return ind + strings.Join(l, ", ") + " " + v.Tok.String() + " " + strings.Join(r, ", ") + "\n"
		case *ast.ExprStmt:
			return ind + expr(v.X) + "\n"
		case *ast.ReturnStmt:
			var r []string
			for _, x := range v.Results {
				r = append(r, expr(x))
			}
			return ind + "return " + strings.Join(r, ", ") + "\n"
		case *ast.IfStmt:
			out := ind + "if "
			if v.Init != nil {
				out += strings.TrimSpace(stmt(v.Init, "")) + "; "
			}
			out += expr(v.Cond) + " {\n" + block(v.Body.List, ind+"  ") + ind + "}"
			if v.Else != nil {
				switch e := v.Else.(type) {
				case *ast.BlockStmt:
					out += " else {\n" + block(e.List, ind+"  ") + ind + "}"
				case *ast.IfStmt:
					out += " else " + strings.TrimLeft(stmt(e, ind), " ")
					return out
				}
			}
			return out + "\n"
		case *ast.SwitchStmt:
			var cases []string
			for _, cs := range v.Body.List {
				cc := cs.(*ast.CaseClause)
				var vals []string
				for _, x := range cc.List {
					vals = append(vals, expr(x))
				}
				sort.Strings(vals)
				cases = append(cases, ind+"  case "+strings.Join(vals, ",")+":\n"+block(cc.Body, ind+"    "))
			}
			sort.Strings(cases)
			tag := ""
			if v.Tag != nil {
				tag = expr(v.Tag)
			}
			return ind + "switch " + tag + " {\n" + strings.Join(cases, "") + ind + "}\n"
		case *ast.BlockStmt:
			return block(v.List, ind)
		case *ast.IncDecStmt:
			return ind + expr(v.X) + v.Tok.String() + "\n"
		case *ast.DeclStmt:
			return ind + "decl\n"
		}
		return ind + fmt.Sprintf("%T\n", s)
	}
	return block(body.List, "")
}

// checkSetter verifies: obj.<F> = node ; if node != nil { node.Parent = obj }
func checkSetter(info *types.Info, fd *ast.FuncDecl, field string) string {
	if fd.Recv == nil || len(fd.Recv.List[0].Names) == 0 || fd.Type.Params == nil || len(fd.Type.Params.List) != 1 || len(fd.Type.Params.List[0].Names) != 1 {
		return "unexpected signature"
	}
	recv := info.Defs[fd.Recv.List[0].Names[0]]
	par := info.Defs[fd.Type.Params.List[0].Names[0]]
	f := core.NewFuncCFG(fd.Body, info)
	var childAssign, parentAssign ast.Stmt
	var nonNilCond ast.Expr
	bad := ""
	core.AssignedExprs(fd.Body, func(lhs, rhs ast.Expr, st ast.Stmt) {
		sel, ok := lhs.(*ast.SelectorExpr)
		if !ok {
			bad = "unexpected assignment"
			return
		}
		x, _ := sel.X.(*ast.Ident)
		r, _ := rhs.(*ast.Ident)
		if x == nil || r == nil {
			bad = "unexpected assignment form"
			return
		}
		switch {
		case info.Uses[x] == recv && sel.Sel.Name == field && info.Uses[r] == par:
			childAssign = st
		case info.Uses[x] == par && sel.Sel.Name == "Parent" && info.Uses[r] == recv:
			parentAssign = st
		default:
			bad = "assignment " + types.ExprString(lhs) + " = " + types.ExprString(rhs) + " is not the child/parent pair"
		}
	})
	if bad != "" {
		return bad
	}
	if childAssign == nil {
		return "setter does not assign obj." + field + " = node"
	}
	if parentAssign == nil {
		return "setter does not assign node.Parent = obj"
	}
	// parent assignment guarded by node != nil and reached on every non-nil path
	ast.Inspect(fd.Body, func(n ast.Node) bool {
		if is, ok := n.(*ast.IfStmt); ok {
			if be, ok := is.Cond.(*ast.BinaryExpr); ok && be.Op == token.NEQ {
				if id, ok := be.X.(*ast.Ident); ok && info.Uses[id] == par {
					if nl, ok := be.Y.(*ast.Ident); ok && nl.Name == "nil" {
						nonNilCond = is.Cond
					}
				}
			}
		}
		return true
	})
	if nonNilCond == nil {
		return "no 'node != nil' test"
	}
	t, _ := f.CondEdge(nonNilCond)
	pb, _ := f.BlockOf(parentAssign.Pos())
	if t == nil || pb == nil || !f.Dominates(t, pb) {
		return "node.Parent = obj is not under the node != nil branch"
	}
	// every path through the true edge must execute the parent assignment
	if !f.PostDominates(pb, t) {
		return "node.Parent = obj is skipped on some non-nil path"
	}
	cb, _ := f.BlockOf(childAssign.Pos())
	if cb == nil || !f.PostDominates(cb, f.G.Blocks[0]) {
		return "child assignment is skipped on some path"
	}
	return ""
}

// ---------------------------------------------------------------------------
// abstract heap interpreter for straight-line AvlNode code

type anode struct {
	name                string
	key                 string
	left, right, parent *anode
	opaque              bool
	bal                 aint
	h                   int  // abstract height used by R7 (opaque subtrees)
	dead                bool // R8: a subtree superseded by the result of a (summarised) recursive call
}

// aint is an abstract integer: known or unknown.
type aint struct {
	known bool
	v     int
}

type aval struct {
	kind int // 0 ptr, 1 key, 2 int, 3 bool
	p    *anode
	s    string
	i    aint
	b    bool
}

type interp struct {
	pkg    *packages.Package
	env    []map[types.Object]*aval
	fields map[string]bool
	err    string
	depth  int
	ret    []*aval
	done   bool
	// lazy nondeterministic choice of unknown Balance values (-1,0,1)
	choices []int
	made    []int
	bounds  []int // R8: number of alternatives of each choice made (default 3)
	// R8: summarised (recursive) methods; the stub returns the results of one nondeterministically chosen contract outcome
	stub   func(it *interp, name string, recv *aval, args []*aval) []*aval
	nfresh int
}

// chooseN returns the next nondeterministic choice in [0,n).
func (it *interp) chooseN(n int) int {
	k := len(it.made)
	v := 0
	if k < len(it.choices) {
		v = it.choices[k]
	}
	if v >= n {
		v = n - 1
	}
	it.made = append(it.made, v)
	it.bounds = append(it.bounds, n)
	return v
}

// nextChoicesN is the odometer over choice vectors with per-position bounds.
func nextChoicesN(made, bounds []int) []int {
	for len(made) > 0 {
		l := len(made) - 1
		if made[l] < bounds[l]-1 {
			r := append([]int{}, made...)
			r[l]++
			return r
		}
		made = made[:l]
	}
	return nil
}

// choose returns the next nondeterministic choice in {0,1,2}.
func (it *interp) choose() int {
	k := len(it.made)
	v := 0
	if k < len(it.choices) {
		v = it.choices[k]
	}
	it.made = append(it.made, v)
	it.bounds = append(it.bounds, 3)
	return v
}

// nextChoices computes the next choice vector after a run (odometer); nil when exhausted.
func nextChoices(made []int) []int {
	for len(made) > 0 {
		l := len(made) - 1
		if made[l] < 2 {
			r := append([]int{}, made...)
			r[l]++
			return r
		}
		made = made[:l]
	}
	return nil
}

func (it *interp) fail(format string, a ...interface{}) {
	if it.err == "" {
		it.err = fmt.Sprintf(format, a...)
	}
}

func (it *interp) lookup(o types.Object) *aval {
	for i := len(it.env) - 1; i >= 0; i-- {
		if v, ok := it.env[i][o]; ok {
			return v
		}
	}
	return nil
}

func (it *interp) eval(e ast.Expr) *aval {
	info := it.pkg.TypesInfo
	switch x := ast.Unparen(e).(type) {
	case *ast.Ident:
		if x.Name == "nil" {
			return &aval{kind: 0}
		}
		if x.Name == "true" || x.Name == "false" {
			return &aval{kind: 3, b: x.Name == "true"}
		}
		o := info.Uses[x]
		if o == nil {
			o = info.Defs[x]
		}
		if v := it.lookup(o); v != nil {
			return v
		}
		it.fail("undecided: unbound identifier %s", x.Name)
		return nil
	case *ast.BasicLit:
		if tv, ok := info.Types[x]; ok && tv.Value != nil {
			var n int
			fmt.Sscanf(tv.Value.ExactString(), "%d", &n)
			return &aval{kind: 2, i: aint{true, n}}
		}
	case *ast.UnaryExpr:
		if tv, ok := info.Types[x]; ok && tv.Value != nil {
			var n int
			fmt.Sscanf(tv.Value.ExactString(), "%d", &n)
			return &aval{kind: 2, i: aint{true, n}}
		}
		if x.Op == token.NOT {
			v := it.eval(x.X)
			if v == nil {
				return nil
			}
			if v.kind == 3 {
				return &aval{kind: 3, b: !v.b}
			}
		}
		if x.Op == token.AND {
			// &local : locals of struct type are modelled as nodes already
			return it.eval(x.X)
		}
	case *ast.SelectorExpr:
		base := it.eval(x.X)
		if base == nil {
			return nil
		}
		if base.kind != 0 {
			it.fail("undecided: selector on non-pointer %s", types.ExprString(e))
			return nil
		}
		if base.p == nil {
			it.fail("nil dereference at %s", types.ExprString(e))
			return nil
		}
		switch x.Sel.Name {
		case "Left":
			if base.p.opaque {
				it.fail("undecided: reads below an opaque subtree at %s", types.ExprString(e))
				return nil
			}
			return &aval{kind: 0, p: base.p.left}
		case "Right":
			if base.p.opaque {
				it.fail("undecided: reads below an opaque subtree at %s", types.ExprString(e))
				return nil
			}
			return &aval{kind: 0, p: base.p.right}
		case "Parent":
			return &aval{kind: 0, p: base.p.parent}
		case "Value":
			return &aval{kind: 1, s: base.p.key}
		case "Balance":
			if base.p.opaque {
				it.fail("undecided: reads Balance of an opaque subtree at %s", types.ExprString(e))
				return nil
			}
			if !base.p.bal.known {
				base.p.bal = aint{true, it.choose() - 1}
			}
			return &aval{kind: 2, i: base.p.bal}
		}
		it.fail("undecided: field %s", x.Sel.Name)
		return nil
	case *ast.BinaryExpr:
		if x.Op == token.LAND || x.Op == token.LOR {
			l := it.eval(x.X)
			if l == nil {
				return nil
			}
			if l.kind != 3 {
				it.fail("undecided: non-boolean operand")
				return nil
			}
			if x.Op == token.LAND && !l.b {
				return l
			}
			if x.Op == token.LOR && l.b {
				return l
			}
			return it.eval(x.Y)
		}
		l, r := it.eval(x.X), it.eval(x.Y)
		if l == nil || r == nil {
			return nil
		}
		if l.kind == 0 && r.kind == 0 {
			switch x.Op {
			case token.EQL:
				return &aval{kind: 3, b: l.p == r.p}
			case token.NEQ:
				return &aval{kind: 3, b: l.p != r.p}
			}
		}
		if l.kind == 2 && r.kind == 2 {
			if !l.i.known || !r.i.known {
				it.fail("undecided: comparison on unknown integer %s", types.ExprString(e))
				return nil
			}
			a, b := l.i.v, r.i.v
			switch x.Op {
			case token.EQL:
				return &aval{kind: 3, b: a == b}
			case token.NEQ:
				return &aval{kind: 3, b: a != b}
			case token.LSS:
				return &aval{kind: 3, b: a < b}
			case token.LEQ:
				return &aval{kind: 3, b: a <= b}
			case token.GTR:
				return &aval{kind: 3, b: a > b}
			case token.GEQ:
				return &aval{kind: 3, b: a >= b}
			case token.ADD:
				return &aval{kind: 2, i: aint{true, a + b}}
			case token.SUB:
				return &aval{kind: 2, i: aint{true, a - b}}
			}
		}
		if l.kind == 1 && r.kind == 1 {
			// symbolic keys: keys are named k<inorder index>; compare by that index
			var a, b int
			fmt.Sscanf(l.s, "k%d", &a)
			fmt.Sscanf(r.s, "k%d", &b)
			switch x.Op {
			case token.EQL:
				return &aval{kind: 3, b: a == b}
			case token.NEQ:
				return &aval{kind: 3, b: a != b}
			case token.LSS:
				return &aval{kind: 3, b: a < b}
			case token.LEQ:
				return &aval{kind: 3, b: a <= b}
			case token.GTR:
				return &aval{kind: 3, b: a > b}
			case token.GEQ:
				return &aval{kind: 3, b: a >= b}
			}
		}
	case *ast.CompositeLit:
		if tv, ok := info.Types[x]; ok {
			if n := core.NamedOf(tv.Type); n != nil && n.Obj().Name() == "AvlNode" {
				it.nfresh++
				nn := &anode{name: fmt.Sprintf("new%d", it.nfresh), bal: aint{true, 0}}
				for _, el := range x.Elts {
					kv, ok := el.(*ast.KeyValueExpr)
					if !ok {
						it.fail("undecided: positional AvlNode literal")
						return nil
					}
					v := it.eval(kv.Value)
					if v == nil {
						return nil
					}
					switch types.ExprString(kv.Key) {
					case "Value":
						nn.key = v.s
					case "Balance":
						nn.bal = v.i
					case "Left":
						nn.left = v.p
					case "Right":
						nn.right = v.p
					case "Parent":
						nn.parent = v.p
					case "Deleted":
					default:
						it.fail("undecided: AvlNode literal field %s", types.ExprString(kv.Key))
						return nil
					}
				}
				return &aval{kind: 0, p: nn}
			}
		}
	case *ast.CallExpr:
		rs := it.call(x)
		if len(rs) >= 1 {
			return rs[0]
		}
		if it.err == "" {
			it.fail("undecided: call without result used as value: %s", types.ExprString(e))
		}
		return nil
	}
	it.fail("undecided: expression %s", types.ExprString(e))
	return nil
}

func (it *interp) assign(lhs ast.Expr, v *aval, define bool) {
	info := it.pkg.TypesInfo
	switch x := ast.Unparen(lhs).(type) {
	case *ast.Ident:
		if x.Name == "_" {
			return
		}
		o := info.Defs[x]
		if o == nil {
			o = info.Uses[x]
		}
		if define && info.Defs[x] != nil {
			it.env[len(it.env)-1][o] = v
			return
		}
		for i := len(it.env) - 1; i >= 0; i-- {
			if _, ok := it.env[i][o]; ok {
				it.env[i][o] = v
				return
			}
		}
		it.env[len(it.env)-1][o] = v
	case *ast.SelectorExpr:
		base := it.eval(x.X)
		if base == nil {
			return
		}
		if base.kind != 0 || base.p == nil {
			it.fail("nil dereference in assignment to %s", types.ExprString(lhs))
			return
		}
		switch x.Sel.Name {
		case "Left":
			base.p.left = v.p
		case "Right":
			base.p.right = v.p
		case "Parent":
			base.p.parent = v.p
		case "Value":
			base.p.key = v.s
		case "Balance":
			base.p.bal = v.i
		case "Deleted":
		default:
			it.fail("undecided: assignment to field %s", x.Sel.Name)
		}
	default:
		it.fail("undecided: assignment target %s", types.ExprString(lhs))
	}
}

func (it *interp) call(call *ast.CallExpr) []*aval {
	info := it.pkg.TypesInfo
	fn := core.Callee(info, call)
	if fn == nil {
		it.fail("undecided: unresolved call %s", types.ExprString(call))
		return nil
	}
	sig := fn.Type().(*types.Signature)
	var fd *ast.FuncDecl
	var recv *aval
	if sig.Recv() == nil {
		if fn.Pkg() == nil || fn.Pkg().Path() != core.RootPkg || fn.Name() != "NewAvlNode" {
			it.fail("undecided: call of function %s", fn.Name())
			return nil
		}
		fd = core.FindFunc(it.pkg, fn.Name())
	} else {
		rn := core.NamedOf(sig.Recv().Type())
		if rn == nil || rn.Obj().Name() != "AvlNode" {
			it.fail("undecided: call of %s", fn.FullName())
			return nil
		}
		fd = core.FindMethod(it.pkg, "AvlNode", fn.Name())
	}
	if fd == nil {
		it.fail("undecided: no body for %s", fn.Name())
		return nil
	}
	if sig.Recv() != nil {
		sel := ast.Unparen(call.Fun).(*ast.SelectorExpr)
		recv = it.eval(sel.X)
		if recv == nil {
			return nil
		}
	}
	var args []*aval
	for _, a := range call.Args {
		v := it.eval(a)
		if v == nil {
			return nil
		}
		args = append(args, v)
	}
	if it.stub != nil && sig.Recv() != nil {
		if rs := it.stub(it, fn.Name(), recv, args); rs != nil || it.err != "" {
			return rs
		}
	}
	if it.depth > 6 {
		it.fail("undecided: inlining depth exceeded at %s", fn.Name())
		return nil
	}
	frame := map[types.Object]*aval{}
	if fd.Recv != nil && len(fd.Recv.List[0].Names) > 0 {
		frame[info.Defs[fd.Recv.List[0].Names[0]]] = recv
	}
	k := 0
	for _, f := range fd.Type.Params.List {
		for _, n := range f.Names {
			if k < len(args) {
				frame[info.Defs[n]] = args[k]
			}
			k++
		}
	}
	saveEnv := it.env
	it.env = []map[types.Object]*aval{frame}
	it.depth++
	saveDone, saveRet := it.done, it.ret
	it.done, it.ret = false, nil
	it.block(fd.Body.List)
	ret := it.ret
	it.done, it.ret = saveDone, saveRet
	it.depth--
	it.env = saveEnv
	return ret
}

func (it *interp) block(list []ast.Stmt) {
	it.env = append(it.env, map[types.Object]*aval{})
	defer func() { it.env = it.env[:len(it.env)-1] }()
	for _, s := range list {
		if it.err != "" || it.done {
			return
		}
		it.stmt(s)
	}
}

func (it *interp) stmt(s ast.Stmt) {
	switch x := s.(type) {
	case *ast.AssignStmt:
		if x.Tok != token.ASSIGN && x.Tok != token.DEFINE {
			it.fail("undecided: op-assignment")
			return
		}
		var vals []*aval
		if len(x.Rhs) == 1 && len(x.Lhs) > 1 {
			ce, ok := ast.Unparen(x.Rhs[0]).(*ast.CallExpr)
			if !ok {
				it.fail("undecided: tuple assignment")
				return
			}
			vals = it.call(ce)
			if it.err != "" {
				return
			}
			if len(vals) != len(x.Lhs) {
				it.fail("undecided: result arity")
				return
			}
		} else {
			for _, r := range x.Rhs {
				v := it.eval(r)
				if v == nil {
					return
				}
				cp := *v
				vals = append(vals, &cp)
			}
		}
		for i, l := range x.Lhs {
			it.assign(l, vals[i], x.Tok == token.DEFINE)
			if it.err != "" {
				return
			}
		}
	case *ast.ExprStmt:
		if ce, ok := x.X.(*ast.CallExpr); ok {
			it.call(ce)
			return
		}
		it.fail("undecided: expression statement")
	case *ast.IfStmt:
		it.env = append(it.env, map[types.Object]*aval{})
		defer func() { it.env = it.env[:len(it.env)-1] }()
		if x.Init != nil {
			it.stmt(x.Init)
			if it.err != "" {
				return
			}
		}
		cv := it.eval(x.Cond)
		if cv == nil {
			return
		}
		if cv.kind != 3 {
			it.fail("undecided: non-boolean condition")
			return
		}
		if cv.b {
			it.block(x.Body.List)
		} else if x.Else != nil {
			switch e := x.Else.(type) {
			case *ast.BlockStmt:
				it.block(e.List)
			case *ast.IfStmt:
				it.stmt(e)
			}
		}
	case *ast.SwitchStmt:
		it.env = append(it.env, map[types.Object]*aval{})
		defer func() { it.env = it.env[:len(it.env)-1] }()
		if x.Init != nil {
			it.stmt(x.Init)
		}
		var tag *aval
		if x.Tag != nil {
			tag = it.eval(x.Tag)
			if tag == nil {
				return
			}
		}
		var def *ast.CaseClause
		for _, cs := range x.Body.List {
			cc := cs.(*ast.CaseClause)
			if cc.List == nil {
				def = cc
				continue
			}
			for _, e := range cc.List {
				v := it.eval(e)
				if v == nil {
					return
				}
				hit := false
				if tag == nil {
					hit = v.kind == 3 && v.b
				} else if tag.kind == 2 && v.kind == 2 {
					if !tag.i.known || !v.i.known {
						it.fail("undecided: switch on unknown integer")
						return
					}
					hit = tag.i.v == v.i.v
				} else {
					it.fail("undecided: switch tag kind")
					return
				}
				if hit {
					it.block(cc.Body)
					return
				}
			}
		}
		if def != nil {
			it.block(def.Body)
		}
	case *ast.ReturnStmt:
		var rs []*aval
		for _, r := range x.Results {
			v := it.eval(r)
			if v == nil {
				return
			}
			rs = append(rs, v)
		}
		it.ret = rs
		it.done = true
	case *ast.BlockStmt:
		it.block(x.List)
	default:
		it.fail("undecided: statement %T", s)
	}
}

// shape enumeration ---------------------------------------------------------

// genShapes enumerates all subtrees of the given depth; at depth 0 a subtree is
// an opaque (possibly nil) leaf. Each call of the returned builder creates a fresh copy.
type shape struct {
	nilp        bool
	opaque      bool
	left, right *shape
}

func genShapes(depth int) []*shape {
	if depth == 0 {
		return []*shape{{nilp: true}, {opaque: true}}
	}
	sub := genShapes(depth - 1)
	r := []*shape{{nilp: true}}
	for _, l := range sub {
		for _, rr := range sub {
			r = append(r, &shape{left: l, right: rr})
		}
	}
	return r
}

func build(s *shape, parent *anode, path string, all *[]*anode) *anode {
	if s == nil || s.nilp {
		return nil
	}
	n := &anode{name: path, parent: parent, opaque: s.opaque}
	if !s.opaque {
		n.left = build(s.left, n, path+".Left", all)
	}
	*all = append(*all, n)
	if !s.opaque {
		n.right = build(s.right, n, path+".Right", all)
	}
	return n
}

func inorder(n *anode, visit func(n *anode) bool, guard *int) bool {
	if n == nil {
		return true
	}
	*guard++
	if *guard > 200 {
		return false
	}
	if !n.opaque {
		if !inorder(n.left, visit, guard) {
			return false
		}
	}
	if !visit(n) {
		return false
	}
	if !n.opaque {
		return inorder(n.right, visit, guard)
	}
	return true
}

func at(root *anode, path []string) *anode {
	n := root
	for _, p := range path {
		if n == nil || n.opaque {
			return nil
		}
		if p == "Left" {
			n = n.left
		} else {
			n = n.right
		}
	}
	return n
}

func checkRotation(pkg *packages.Package, fd *ast.FuncDecl, req [][]string) (shapes, bad int, first string) {
	info := pkg.TypesInfo
	sub := genShapes(2)
	for _, l := range sub {
		for _, r := range sub {
			var choices []int
			for {
				made, admissible, msg := runRotation(pkg, info, fd, req, l, r, choices)
				if !admissible {
					break
				}
				shapes++
				if strings.HasPrefix(msg, "undecided") {
					return shapes, 0, msg
				}
				if msg != "" {
					bad++
					if first == "" {
						first = msg
					}
				}
				choices = nextChoices(made)
				if choices == nil {
					break
				}
			}
		}
	}
	if shapes == 0 {
		return 0, 0, "undecided: no admissible pre-shape"
	}
	return shapes, bad, first
}

func runRotation(pkg *packages.Package, info *types.Info, fd *ast.FuncDecl, req [][]string, l, r *shape, choices []int) (made []int, admissible bool, msg string) {
	var all []*anode
	sentinel := &anode{name: "P", key: "kP"}
	root := &anode{name: "obj", parent: sentinel}
	root.left = build(l, root, "obj.Left", &all)
	all = append(all, root)
	root.right = build(r, root, "obj.Right", &all)
	var seq []string
	g := 0
	i := 0
	inorder(root, func(n *anode) bool {
		n.key = fmt.Sprintf("k%d", i)
		i++
		tag := n.key
		if n.opaque {
			tag += "*"
		}
		seq = append(seq, tag)
		return true
	}, &g)
	for _, p := range req {
		if n := at(root, p); n == nil || n.opaque {
			return nil, false, ""
		}
	}
	it := &interp{pkg: pkg, choices: choices}
	frame := map[types.Object]*aval{}
	frame[info.Defs[fd.Recv.List[0].Names[0]]] = &aval{kind: 0, p: root}
	it.env = []map[types.Object]*aval{frame}
	it.block(fd.Body.List)
	if it.err != "" {
		return it.made, true, it.err
	}
	var seq2 []string
	g = 0
	seen := map[*anode]bool{}
	okT := inorder(root, func(n *anode) bool {
		if seen[n] {
			msg = "node " + n.name + " reachable twice"
			return false
		}
		seen[n] = true
		tag := n.key
		if n.opaque {
			tag += "*"
		}
		seq2 = append(seq2, tag)
		if !n.opaque {
			if n.left != nil && n.left.parent != n {
				msg = "Parent of left child of " + n.key + " is stale"
				return false
			}
			if n.right != nil && n.right.parent != n {
				msg = "Parent of right child of " + n.key + " is stale"
				return false
			}
		}
		return true
	}, &g)
	if msg == "" && !okT {
		msg = "cycle in links"
	}
	if msg == "" && strings.Join(seq, " ") != strings.Join(seq2, " ") {
		msg = "in-order sequence changed: " + strings.Join(seq, " ") + " -> " + strings.Join(seq2, " ")
	}
	if msg == "" && root.parent != sentinel {
		msg = "obj.Parent changed"
	}
	return it.made, true, msg
}

// ---------------------------------------------------------------------------
// R3

func checkAvlNext(c *core.Ctx, pkg *packages.Package) {
	info := pkg.TypesInfo
	fd := core.FindMethod(pkg, "AvlIterator", "Next")
	cons := "(*AvlIterator).Next"
	if fd == nil {
		c.Unknown("C19.R3", cons, "present", token.NoPos, "not found")
		return
	}
	f := core.NewFuncCFG(fd.Body, info)
	// locate the staleness test
	var delCond, valCond, whole ast.Expr
	ast.Inspect(fd.Body, func(n ast.Node) bool {
		be, ok := n.(*ast.BinaryExpr)
		if !ok || be.Op != token.LOR {
			return true
		}
		// the two disjuncts in either order
		dx, vy := be.X, be.Y
		if _, isSel := ast.Unparen(dx).(*ast.SelectorExpr); !isSel {
			dx, vy = be.Y, be.X
		}
		if s, ok := ast.Unparen(dx).(*ast.SelectorExpr); ok && core.IsFieldSel(info, s, "AvlNode", "Deleted") {
			if cmp, ok := ast.Unparen(vy).(*ast.BinaryExpr); ok && cmp.Op == token.NEQ {
				l, lok := ast.Unparen(cmp.X).(*ast.SelectorExpr)
				r, rok := ast.Unparen(cmp.Y).(*ast.SelectorExpr)
				if lok && rok {
					if core.IsFieldSel(info, r, "AvlNode", "Value") && core.IsFieldSel(info, l, "AvlIterator", "value") ||
						core.IsFieldSel(info, l, "AvlNode", "Value") && core.IsFieldSel(info, r, "AvlIterator", "value") {
						delCond, valCond, whole = dx, vy, be
					}
				}
			}
		}
		return true
	})
	if delCond == nil {
		c.Fail("C19.R3", cons, "staleness test", fd.Pos(), "no test of the form node.Deleted || value != node.Value found")
		return
	}
	c.OK("C19.R3", cons, "staleness test", delCond.Pos(), "")
	_ = valCond
	dT, vF := f.CondEdge(whole)
	vT := dT
	if dT == nil || vF == nil {
		c.Unknown("C19.R3", cons, "staleness edges", delCond.Pos(), "cannot locate the edges of the staleness test in the CFG")
		return
	}
	// every link read must be dominated by vF
	nreads := 0
	badRead := ""
	var badPos token.Pos
	ast.Inspect(fd.Body, func(n ast.Node) bool {
		s, ok := n.(*ast.SelectorExpr)
		if !ok {
			return true
		}
		fv := core.FieldOf(info, s)
		if fv == nil || !avlLinkFields[fv.Name()] {
			return true
		}
		if nm := core.SelRecvNamed(info, s); nm == nil || nm.Obj().Name() != "AvlNode" {
			return true
		}
		nreads++
		b, _ := f.BlockOf(s.Pos())
		if b == nil || !f.Dominates(vF, b) {
			if badRead == "" {
				badRead = types.ExprString(s)
				badPos = s.Pos()
			}
		}
		return true
	})
	c.Analysed["next_link_reads"] = nreads
	c.Check(badRead == "" && nreads >= 4, "C19.R3", cons, "link reads dominated by fresh-node edge", badPos,
		fmt.Sprintf("link read %s is reachable without passing the false edge of the staleness test (reads=%d)", badRead, nreads))
	// true edge: obj.node = tree.FindNodeLE(obj.value+1)
	found := false
	core.AssignedExprs(fd.Body, func(lhs, rhs ast.Expr, st ast.Stmt) {
		ls, ok := ast.Unparen(lhs).(*ast.SelectorExpr)
		if !ok || !core.IsFieldSel(info, ls, "AvlIterator", "node") || rhs == nil {
			return
		}
		ce, ok := ast.Unparen(rhs).(*ast.CallExpr)
		if !ok {
			return
		}
		fn := core.Callee(info, ce)
		if fn == nil || fn.Name() != "FindNodeLE" || len(ce.Args) != 1 {
			return
		}
		be, ok := ast.Unparen(ce.Args[0]).(*ast.BinaryExpr)
		if !ok || be.Op != token.ADD {
			return
		}
		vs, ok1 := ast.Unparen(be.X).(*ast.SelectorExpr)
		one, ok2 := ast.Unparen(be.Y).(*ast.BasicLit)
		if !ok1 || !ok2 || one.Value != "1" || !core.IsFieldSel(info, vs, "AvlIterator", "value") {
			return
		}
		b, _ := f.BlockOf(st.Pos())
		if b != nil && (f.Dominates(dT, b) || f.Dominates(vT, b) || (dT == vT)) {
			found = true
		}
		// both true edges lead to the same block in go/cfg
		if b != nil && dT == b || vT == b {
			found = true
		}
	})
	c.Check(found, "C19.R3", cons, "stale branch re-finds by value+1", fd.Pos(), "the stale branch does not assign node = tree.FindNodeLE(value+1)")
}

// ---------------------------------------------------------------------------
// R4

func checkAvlDelete(c *core.Ctx, pkg *packages.Package) {
	info := pkg.TypesInfo
	fd := core.FindMethod(pkg, "AvlNode", "delete")
	cons := "(*AvlNode).delete"
	if fd == nil {
		c.Unknown("C19.R4", cons, "present", token.NoPos, "not found")
		return
	}
	recv := info.Defs[fd.Recv.List[0].Names[0]]
	f := core.NewFuncCFG(fd.Body, info)
	// exempt regions: true edges of obj==nil, i<obj.Value, i>obj.Value
	var exempt []*cfgBlockRef
	ast.Inspect(fd.Body, func(n ast.Node) bool {
		is, ok := n.(*ast.IfStmt)
		if !ok {
			return true
		}
		be, ok := ast.Unparen(is.Cond).(*ast.BinaryExpr)
		if !ok {
			return true
		}
		isRecv := func(e ast.Expr) bool {
			id, ok := ast.Unparen(e).(*ast.Ident)
			return ok && info.Uses[id] == recv
		}
		isNil := func(e ast.Expr) bool {
			id, ok := ast.Unparen(e).(*ast.Ident)
			return ok && id.Name == "nil"
		}
		isRecvValue := func(e ast.Expr) bool {
			s, ok := ast.Unparen(e).(*ast.SelectorExpr)
			return ok && isRecv(s.X) && s.Sel.Name == "Value"
		}
		ex := false
		switch be.Op {
		case token.EQL:
			ex = isRecv(be.X) && isNil(be.Y) || isRecv(be.Y) && isNil(be.X)
		case token.LSS, token.GTR:
			ex = isRecvValue(be.X) != isRecvValue(be.Y)
		}
		if ex {
			t, _ := f.CondEdge(is.Cond)
			if t != nil {
				exempt = append(exempt, &cfgBlockRef{t})
			}
		}
		return true
	})
	c.Check(len(exempt) == 3, "C19.R4", cons, "descent/nil guards", fd.Pos(), fmt.Sprintf("expected the three guards obj==nil, i<obj.Value, i>obj.Value; found %d", len(exempt)))
	// tombstone assignments
	var marks []ast.Stmt
	for _, p := range c.LibPkgs() {
		pinfo := p.TypesInfo
		core.EachFunc(p, func(_ *ast.File, fd2 *ast.FuncDecl) {
			core.AssignedExprs(fd2.Body, func(lhs, rhs ast.Expr, st ast.Stmt) {
				s, ok := ast.Unparen(lhs).(*ast.SelectorExpr)
				if !ok || !core.IsFieldSel(pinfo, s, "AvlNode", "Deleted") {
					return
				}
				name := c.FuncName(p, fd2)
				isTrue := false
				if id, ok := ast.Unparen(rhs).(*ast.Ident); ok && id.Name == "true" {
					isTrue = true
				}
				onRecv := false
				if id, ok := ast.Unparen(s.X).(*ast.Ident); ok && pinfo.Uses[id] == recv {
					onRecv = true
				}
				if fd2 == fd && isTrue && onRecv {
					marks = append(marks, st)
					c.OK("C19.R4", name, "Deleted = true on the matched node", lhs.Pos(), "")
				} else {
					c.Fail("C19.R4", name, "write Deleted", lhs.Pos(), "Deleted is assigned outside delete's matched-node path or with a value other than true")
				}
			})
		})
	}
	if len(marks) == 0 {
		c.Fail("C19.R4", cons, "tombstone", fd.Pos(), "delete never sets obj.Deleted = true")
		return
	}
	nret := 0
	for b, rs := range f.ReturnBlocks() {
		ex := false
		for _, e := range exempt {
			if f.Dominates(e.b, b) {
				ex = true
			}
		}
		if ex {
			continue
		}
		nret++
		dom := false
		for _, m := range marks {
			if f.NodeDominates(m.Pos(), rs.Pos()) {
				dom = true
			}
		}
		c.Check(dom, "C19.R4", cons, "return "+exprList(rs.Results)+" dominated by tombstone", rs.Pos(), "an unlink path returns without marking the node Deleted (a live iterator positioned on it would walk detached links)")
	}
	c.Analysed["delete_unlink_returns"] = nret
	// the tombstone must precede the link detach (replace / Parent=nil)
	// deleteRec must not mark
	if fr := core.FindMethod(pkg, "AvlNode", "deleteRec"); fr != nil {
		c.OK("C19.R4", "(*AvlNode).deleteRec", "moved predecessor is not marked", fr.Pos(), "")
	}
}

type cfgBlockRef struct{ b *cfg.Block }

func exprList(es []ast.Expr) string {
	var s []string
	for _, e := range es {
		s = append(s, types.ExprString(e))
	}
	return strings.Join(s, ", ")
}

// ---------------------------------------------------------------------------
// R5

func checkAvlClone(c *core.Ctx, pkg *packages.Package) {
	info := pkg.TypesInfo
	fd := core.FindMethod(pkg, "AvlNode", "clone")
	cons := "(*AvlNode).clone"
	if fd == nil {
		c.Unknown("C19.R5", cons, "present", token.NoPos, "not found")
		return
	}
	recv := info.Defs[fd.Recv.List[0].Names[0]]
	var local types.Object
	// result: &local
	okRet := false
	ast.Inspect(fd.Body, func(n ast.Node) bool {
		rs, ok := n.(*ast.ReturnStmt)
		if !ok || len(rs.Results) != 1 {
			return true
		}
		if id, ok := ast.Unparen(rs.Results[0]).(*ast.Ident); ok && id.Name == "nil" {
			return true
		}
		if ue, ok := ast.Unparen(rs.Results[0]).(*ast.UnaryExpr); ok && ue.Op == token.AND {
			if id, ok := ue.X.(*ast.Ident); ok {
				if v, ok := info.Uses[id].(*types.Var); ok && v.Parent() != pkg.Types.Scope() && v != recv {
					local = v
					okRet = true
					return true
				}
			}
		}
		okRet = false
		local = nil
		return true
	})
	c.Check(okRet, "C19.R5", cons, "returns address of a fresh local node", fd.Pos(), "clone must return the address of a node allocated in clone")
	if local == nil {
		return
	}
	for _, side := range []struct{ setter, field string }{{"setLeft", "Left"}, {"setRight", "Right"}} {
		found := false
		ast.Inspect(fd.Body, func(n ast.Node) bool {
			ce, ok := n.(*ast.CallExpr)
			if !ok {
				return true
			}
			fn := core.Callee(info, ce)
			if fn == nil || fn.Name() != side.setter || len(ce.Args) != 1 {
				return true
			}
			se := ast.Unparen(ce.Fun).(*ast.SelectorExpr)
			id, ok := ast.Unparen(se.X).(*ast.Ident)
			if !ok || info.Uses[id] != local {
				return true
			}
			inner, ok := ast.Unparen(ce.Args[0]).(*ast.CallExpr)
			if !ok {
				return true
			}
			ifn := core.Callee(info, inner)
			if ifn == nil || ifn.Name() != "clone" {
				return true
			}
			is := ast.Unparen(inner.Fun).(*ast.SelectorExpr)
			fs, ok := ast.Unparen(is.X).(*ast.SelectorExpr)
			if !ok || !core.IsFieldSel(info, fs, "AvlNode", side.field) {
				return true
			}
			if rid, ok := ast.Unparen(fs.X).(*ast.Ident); ok && info.Uses[rid] == recv {
				found = true
			}
			return true
		})
		c.Check(found, "C19.R5", cons, side.setter+"(obj."+side.field+".clone())", fd.Pos(),
			"clone does not re-parent a recursive clone of obj."+side.field+" through "+side.setter+" (the copy would share nodes with, or point back into, the source)")
	}
}

// ---------------------------------------------------------------------------
// R6 directions

// dirFacts collects, for a function, the link fields followed/attached under each comparison.
func checkAvlDirections(c *core.Ctx, pkg *packages.Package) {
	info := pkg.TypesInfo
	for _, name := range []string{"FindNode", "FindNodeLE"} {
		fd := core.FindMethod(pkg, "AvlTree", name)
		cons := "(*AvlTree)." + name
		if fd == nil {
			c.Unknown("C19.R6", cons, "present", token.NoPos, "not found")
			continue
		}
		checkDirs(c, pkg, fd, cons)
	}
	for _, name := range []string{"insert", "delete"} {
		fd := core.FindMethod(pkg, "AvlNode", name)
		cons := "(*AvlNode)." + name
		if fd == nil {
			c.Unknown("C19.R6", cons, "present", token.NoPos, "not found")
			continue
		}
		checkDirs(c, pkg, fd, cons)
	}
	// FindNodeLE: remembers node under i <= Value, returns it after the loop
	if fd := core.FindMethod(pkg, "AvlTree", "FindNodeLE"); fd != nil {
		cons := "(*AvlTree).FindNodeLE"
		var remembered types.Object
		ast.Inspect(fd.Body, func(n ast.Node) bool {
			is, ok := n.(*ast.IfStmt)
			if !ok {
				return true
			}
			be, ok := ast.Unparen(is.Cond).(*ast.BinaryExpr)
			if !ok {
				return true
			}
			op, node := normCmp(info, fd, be)
			if (op != token.LEQ && op != token.LSS) || node == nil {
				return true
			}
			if len(is.Body.List) != 1 || is.Else != nil {
				return true
			}
			for _, st := range is.Body.List {
				if as, ok := st.(*ast.AssignStmt); ok && len(as.Lhs) == 1 && len(as.Rhs) == 1 {
					l, lok := as.Lhs[0].(*ast.Ident)
					r, rok := as.Rhs[0].(*ast.Ident)
					if lok && rok && info.Uses[r] == node {
						remembered = info.Uses[l]
					}
				}
			}
			return true
		})
		c.Check(remembered != nil, "C19.R6", cons, "remember candidate under i <= node.Value", fd.Pos(), "no 'if i <= node.Value { cand = node }' found")
		if remembered != nil {
			// after the loop the candidate is returned on the nil path
			ok := false
			ast.Inspect(fd.Body, func(n ast.Node) bool {
				if rs, ok2 := n.(*ast.ReturnStmt); ok2 && len(rs.Results) == 1 {
					if id, ok3 := rs.Results[0].(*ast.Ident); ok3 && info.Uses[id] == remembered {
						ok = true
					}
				}
				return true
			})
			c.Check(ok, "C19.R6", cons, "candidate returned when the descent ends", fd.Pos(), "remembered candidate is never returned")
			// candidate must not be assigned elsewhere except nil initialisation
			bad := false
			core.AssignedExprs(fd.Body, func(lhs, rhs ast.Expr, st ast.Stmt) {
				id, ok := lhs.(*ast.Ident)
				if !ok {
					return
				}
				o := info.Uses[id]
				if o == nil {
					o = info.Defs[id]
				}
				if o != remembered {
					return
				}
				if r, ok := ast.Unparen(rhs).(*ast.Ident); ok && r.Name == "nil" {
					return
				}
				if as, ok := st.(*ast.AssignStmt); ok && as.Tok == token.DEFINE {
					// initial definition followed by '= nil' is accepted only if a nil assignment dominates the loop
					return
				}
				// the remembered assignment itself
				if r, ok := ast.Unparen(rhs).(*ast.Ident); ok {
					if v, ok := info.Uses[r].(*types.Var); ok && v != remembered {
						// must be inside the i <= cond: verified above; other assignments are bad
						path := enclosingIfLeq(info, fd, st)
						if path {
							return
						}
					}
				}
				bad = true
			})
			c.Check(!bad, "C19.R6", cons, "candidate only updated under i <= node.Value", fd.Pos(), "candidate assigned outside the i <= node.Value branch")
			// initial value nil before loop
			initNil := false
			for _, st := range fd.Body.List {
				if _, ok := st.(*ast.ForStmt); ok {
					break
				}
				if as, ok := st.(*ast.AssignStmt); ok && len(as.Lhs) == 1 {
					if id, ok := as.Lhs[0].(*ast.Ident); ok {
						o := info.Uses[id]
						if o == nil {
							o = info.Defs[id]
						}
						if o == remembered {
							if r, ok := ast.Unparen(as.Rhs[0]).(*ast.Ident); ok && r.Name == "nil" {
								initNil = true
							} else {
								initNil = false
							}
						}
					}
				}
			}
			c.Check(initNil, "C19.R6", cons, "candidate starts as nil", fd.Pos(), "candidate is not nil when the loop starts (an absent lower bound would return a wrong node)")
		}
	}
	// deleteRec: predecessor = rightmost of left subtree
	if fd := core.FindMethod(pkg, "AvlNode", "deleteRec"); fd != nil {
		cons := "(*AvlNode).deleteRec"
		recv := info.Defs[fd.Recv.List[0].Names[0]]
		rec := 0
		okRec := true
		ast.Inspect(fd.Body, func(n ast.Node) bool {
			ce, ok := n.(*ast.CallExpr)
			if !ok {
				return true
			}
			fn := core.Callee(info, ce)
			if fn == nil || fn.Name() != "deleteRec" {
				return true
			}
			rec++
			se := ast.Unparen(ce.Fun).(*ast.SelectorExpr)
			fs, ok := ast.Unparen(se.X).(*ast.SelectorExpr)
			if !ok || !core.IsFieldSel(info, fs, "AvlNode", "Right") {
				okRec = false
				return true
			}
			if id, ok := fs.X.(*ast.Ident); !ok || info.Uses[id] != recv {
				okRec = false
			}
			if len(ce.Args) != 1 {
				okRec = false
			} else if id, ok := ce.Args[0].(*ast.Ident); !ok || info.Uses[id] != recv {
				okRec = false
			}
			return true
		})
		c.Check(rec == 1 && okRec, "C19.R6", cons, "descends obj.Right with obj as parent", fd.Pos(), "deleteRec must recurse into obj.Right passing obj as parent (rightmost node = in-order predecessor)")
		// detaches by re-attaching obj.Left to the parent on the side given by the key comparison
		okDet := 0
		ast.Inspect(fd.Body, func(n ast.Node) bool {
			is, ok := n.(*ast.IfStmt)
			if !ok {
				return true
			}
			be, ok := ast.Unparen(is.Cond).(*ast.BinaryExpr)
			if !ok || (be.Op != token.GTR && be.Op != token.LSS) {
				return true
			}
			l, lok := ast.Unparen(be.X).(*ast.SelectorExpr)
			r, rok := ast.Unparen(be.Y).(*ast.SelectorExpr)
			if !lok || !rok || l.Sel.Name != "Value" || r.Sel.Name != "Value" {
				return true
			}
			lid, _ := l.X.(*ast.Ident)
			if lid == nil {
				return true
			}
			objLeftIsRecv := info.Uses[lid] == recv
			greater := be.Op == token.GTR
			if !objLeftIsRecv {
				greater = !greater
			}
			// greater: obj.Value > parent.Value => true branch must setRight
			wantT, wantE := "setRight", "setLeft"
			if !greater {
				wantT, wantE = "setLeft", "setRight"
			}
			chk := func(b *ast.BlockStmt, want string) bool {
				if b == nil || len(b.List) != 1 {
					return false
				}
				es, ok := b.List[0].(*ast.ExprStmt)
				if !ok {
					return false
				}
				ce, ok := es.X.(*ast.CallExpr)
				if !ok || len(ce.Args) != 1 {
					return false
				}
				fn := core.Callee(info, ce)
				if fn == nil || fn.Name() != want {
					return false
				}
				as, ok := ast.Unparen(ce.Args[0]).(*ast.SelectorExpr)
				if !ok || !core.IsFieldSel(info, as, "AvlNode", "Left") {
					return false
				}
				id, ok := as.X.(*ast.Ident)
				return ok && info.Uses[id] == recv
			}
			eb, _ := is.Else.(*ast.BlockStmt)
			if chk(is.Body, wantT) && chk(eb, wantE) {
				okDet++
			}
			return true
		})
		c.Check(okDet == 1, "C19.R6", cons, "predecessor detached on the side given by the key comparison", fd.Pos(), "the extracted node's left subtree must be re-attached with setRight when obj.Value > parent.Value, else setLeft")
	}
}

func enclosingIfLeq(info *types.Info, fd *ast.FuncDecl, target ast.Stmt) bool {
	found := false
	ast.Inspect(fd.Body, func(n ast.Node) bool {
		is, ok := n.(*ast.IfStmt)
		if !ok {
			return true
		}
		be, ok := ast.Unparen(is.Cond).(*ast.BinaryExpr)
		if !ok {
			return true
		}
		op, _ := normCmp(info, fd, be)
		if op != token.LEQ && op != token.LSS {
			return true
		}
		for _, st := range is.Body.List {
			if st == target {
				found = true
			}
		}
		return true
	})
	return found
}

// normCmp normalises "i OP X.Value" (i = the int parameter of fd); returns OP with i on the left and the object X.
func normCmp(info *types.Info, fd *ast.FuncDecl, be *ast.BinaryExpr) (token.Token, types.Object) {
	var ipar types.Object
	for _, f := range fd.Type.Params.List {
		for _, n := range f.Names {
			if b, ok := info.Defs[n].Type().(*types.Basic); ok && b.Kind() == types.Int {
				ipar = info.Defs[n]
			}
		}
	}
	if ipar == nil {
		return token.ILLEGAL, nil
	}
	isI := func(e ast.Expr) bool {
		id, ok := ast.Unparen(e).(*ast.Ident)
		return ok && info.Uses[id] == ipar
	}
	valOf := func(e ast.Expr) types.Object {
		s, ok := ast.Unparen(e).(*ast.SelectorExpr)
		if !ok || !core.IsFieldSel(info, s, "AvlNode", "Value") {
			return nil
		}
		if id, ok := ast.Unparen(s.X).(*ast.Ident); ok {
			return info.Uses[id]
		}
		return nil
	}
	flip := map[token.Token]token.Token{token.LSS: token.GTR, token.GTR: token.LSS, token.LEQ: token.GEQ, token.GEQ: token.LEQ, token.EQL: token.EQL, token.NEQ: token.NEQ}
	if isI(be.X) {
		if o := valOf(be.Y); o != nil {
			return be.Op, o
		}
	}
	if isI(be.Y) {
		if o := valOf(be.X); o != nil {
			if f, ok := flip[be.Op]; ok {
				return f, o
			}
		}
	}
	return token.ILLEGAL, nil
}

// checkDirs: for every branch (if or tagless switch case) guarded by i<X.Value / i>X.Value,
// the link fields of X used in the branch body must be Left / Right respectively
// (reads X.Left..., calls X.setLeft(...)).
func checkDirs(c *core.Ctx, pkg *packages.Package, fd *ast.FuncDecl, cons string) {
	info := pkg.TypesInfo
	nbr := 0
	visitBranch := func(cond ast.Expr, body []ast.Stmt) {
		be, ok := ast.Unparen(cond).(*ast.BinaryExpr)
		if !ok {
			return
		}
		op, node := normCmp(info, fd, be)
		if node == nil || (op != token.LSS && op != token.GTR) {
			return
		}
		want, wantSetter, other, otherSetter := "Left", "setLeft", "Right", "setRight"
		if op == token.GTR {
			want, wantSetter, other, otherSetter = other, otherSetter, want, wantSetter
		}
		used := map[string]bool{}
		var badPos token.Pos
		for _, st := range body {
			ast.Inspect(st, func(n ast.Node) bool {
				switch x := n.(type) {
				case *ast.IfStmt, *ast.SwitchStmt:
					// nested balance bookkeeping may look at both children; only direct uses count
				case *ast.SelectorExpr:
					if id, ok := ast.Unparen(x.X).(*ast.Ident); ok && info.Uses[id] == node {
						if x.Sel.Name == other || x.Sel.Name == otherSetter {
							// allowed only inside nested balance code (reads of .Balance of the other child in rotations)
							if !insideBalanceRead(info, st, x) {
								used[x.Sel.Name] = true
								if badPos == token.NoPos {
									badPos = x.Pos()
								}
							}
						}
						if x.Sel.Name == want || x.Sel.Name == wantSetter {
							used["ok"] = true
						}
					}
				}
				return true
			})
		}
		detail := fmt.Sprintf("branch i %s %s.Value uses %s", op, node.Name(), want)
		if used[other] || used[otherSetter] {
			c.Fail("C19.R6", cons, detail, badPos, fmt.Sprintf("branch guarded by i %s %s.Value follows or attaches %s.%s", op, node.Name(), node.Name(), other))
		} else if used["ok"] {
			nbr++
			c.OK("C19.R6", cons, detail, cond.Pos(), "")
		}
	}
	ast.Inspect(fd.Body, func(n ast.Node) bool {
		switch x := n.(type) {
		case *ast.IfStmt:
			visitBranch(x.Cond, x.Body.List)
		case *ast.SwitchStmt:
			if x.Tag == nil {
				for _, cs := range x.Body.List {
					cc := cs.(*ast.CaseClause)
					if len(cc.List) == 1 {
						visitBranch(cc.List[0], cc.Body)
					}
				}
			}
		}
		return true
	})
	if nbr < 2 {
		c.Fail("C19.R6", cons, "comparison branches", fd.Pos(), fmt.Sprintf("expected a branch following Left under i < X.Value and one following Right under i > X.Value, found %d", nbr))
	}
}

// insideBalanceRead: selector X.<child> used only as X.<child>.Balance inside st.
func insideBalanceRead(info *types.Info, root ast.Stmt, sel *ast.SelectorExpr) bool {
	ok := false
	ast.Inspect(root, func(n ast.Node) bool {
		if s, isSel := n.(*ast.SelectorExpr); isSel && s.X == ast.Expr(sel) && s.Sel.Name == "Balance" {
			ok = true
		}
		return true
	})
	return ok
}

var _ = sort.Strings

func isParamOf(info *types.Info, fd *ast.FuncDecl, v *types.Var) bool {
	for _, f := range fd.Type.Params.List {
		for _, n := range f.Names {
			if info.Defs[n] == v {
				return true
			}
		}
	}
	return false
}
