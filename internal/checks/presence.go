package checks

import (
	"fmt"
	"go/ast"
	"go/token"
	"go/types"
	"math/big"
	"strings"

	"golang.org/x/tools/go/packages"

	"verif/internal/core"
	"verif/internal/sym"
)

// Presence-mode interpretation of sparse element-wise kernels: at one position the receiver
// entry and each container operand entry is either present (symbolic value) or absent (zero).
// The loop body is interpreted once per presence case; the resulting receiver element value is
// compared with op(a,b) where absent operands count as 0.

type pelem struct {
	role    string // r a b s tmp
	present bool
	val     *sym.Term
	typed   bool // typed element (X.ptr == nil tests); false: interface (== nil tests; absent operands are zero substitutes)
	subst   bool // zero substitute of an absent generic operand
}

type pval struct {
	kind string // elem bool cont iter int
	e    *pelem
	b    bool
	bk   bool // bool known
	role string
	cond string
}

type pcase struct {
	present map[string]bool // role -> present
}

type presInterp struct {
	pkg     *packages.Package
	info    *types.Info
	fd      *ast.FuncDecl
	recv    types.Object
	roles   map[types.Object]string // container/scalar params -> role
	typed   bool
	locals  map[types.Object]*pval
	cur     pcase
	relem   *pelem // receiver element at the current position (existing or created)
	created bool
	err     string
	stop    bool            // continue / return in body
	assume  map[string]bool // value assumptions: role -> value is zero
	forks   []bool
	nfork   int
	conds   []string
}

func (p *presInterp) fail(f string, a ...interface{}) {
	if p.err == "" {
		p.err = fmt.Sprintf(f, a...)
	}
}

func (p *presInterp) elemFor(role string) *pelem {
	pr := p.cur.present[role]
	e := &pelem{role: role, present: pr, typed: p.typed || role == "r"}
	if pr {
		e.val = sym.Sym(role)
		if p.assume[role] {
			e.val = sym.Zero()
		}
	} else {
		e.val = sym.Zero()
		if !e.typed {
			e.subst = true
		}
	}
	return e
}

func (p *presInterp) recvElem(create bool) *pelem {
	if p.relem == nil {
		p.relem = p.elemFor("r")
	}
	if !p.relem.present && create {
		p.relem.present = true
		p.relem.val = sym.Zero()
		p.created = true
	}
	return p.relem
}

func (p *presInterp) fork(cond string) bool {
	k := p.nfork
	p.nfork++
	v := false
	if k < len(p.forks) {
		v = p.forks[k]
	} else {
		p.forks = append(p.forks, false)
	}
	if v {
		p.conds = append(p.conds, cond)
	} else {
		p.conds = append(p.conds, "!"+cond)
	}
	return v
}

func (p *presInterp) eval(e ast.Expr) *pval {
	e = ast.Unparen(e)
	switch x := e.(type) {
	case *ast.Ident:
		if x.Name == "nil" {
			return &pval{kind: "nil"}
		}
		o := p.info.Uses[x]
		if v, ok := p.locals[o]; ok {
			return v
		}
		if r, ok := p.roles[o]; ok {
			if isScalarType(o.Type()) {
				return &pval{kind: "elem", e: &pelem{role: r, present: true, val: sym.Sym(r)}}
			}
			return &pval{kind: "cont", role: r}
		}
		if o == p.recv {
			return &pval{kind: "cont", role: "r"}
		}
		if tv, ok := p.info.Types[e]; ok && tv.Value != nil {
			return &pval{kind: "int"}
		}
		return &pval{kind: "int"}
	case *ast.BasicLit:
		return &pval{kind: "int"}
	case *ast.SelectorExpr:
		base := p.eval(x.X)
		if base == nil {
			return nil
		}
		if base.kind == "iter" {
			switch x.Sel.Name {
			case "s1":
				return &pval{kind: "elem", e: p.recvElem(false)}
			case "s2":
				return &pval{kind: "elem", e: p.elemFor("a")}
			case "s3":
				return &pval{kind: "elem", e: p.elemFor("b")}
			}
		}
		if base.kind == "elem" && x.Sel.Name == "ptr" {
			return &pval{kind: "ptr", e: base.e}
		}
		p.fail("selector %s", types.ExprString(e))
	case *ast.BinaryExpr:
		if x.Op == token.LAND || x.Op == token.LOR {
			l := p.evalBool(x.X)
			if l == nil {
				return nil
			}
			if (x.Op == token.LAND && !l.b) || (x.Op == token.LOR && l.b) {
				return l
			}
			return p.evalBool(x.Y)
		}
		if x.Op == token.EQL || x.Op == token.NEQ {
			l, r := p.eval(x.X), p.eval(x.Y)
			if l == nil || r == nil {
				return nil
			}
			var o *pval
			if r.kind == "nil" {
				o = l
			} else if l.kind == "nil" {
				o = r
			}
			if o != nil {
				var isNil bool
				switch o.kind {
				case "ptr":
					isNil = !o.e.present
				case "elem":
					// interface-typed: nil only if absent and not substituted
					isNil = !o.e.present && !o.e.subst
				default:
					p.fail("nil comparison on %s", o.kind)
					return nil
				}
				if x.Op == token.NEQ {
					isNil = !isNil
				}
				return &pval{kind: "bool", b: isNil, bk: true}
			}
			// value comparison with constant zero: X.GetFloat64() ==/!= 0.0
			if l.kind == "num" || r.kind == "num" {
				n := l
				if l.kind != "num" {
					n = r
				}
				if n.e != nil {
					isZero := false
					if c, ok := n.e.val.IsConst(); ok {
						isZero = c.Sign() == 0
					} else {
						role := n.e.role
						isZero = p.fork("zero(" + role + ")")
						if isZero {
							p.assume[role] = true
							n.e.val = sym.Zero()
						}
					}
					if x.Op == token.NEQ {
						isZero = !isZero
					}
					return &pval{kind: "bool", b: isZero, bk: true}
				}
			}
		}
		// dimension comparisons etc.: unknown ints
		return &pval{kind: "bool", bk: false, cond: types.ExprString(e)}
	case *ast.UnaryExpr:
		if x.Op == token.NOT {
			v := p.evalBool(x.X)
			if v == nil {
				return nil
			}
			return &pval{kind: "bool", b: !v.b, bk: v.bk}
		}
	case *ast.CallExpr:
		return p.call(x)
	}
	if p.err == "" {
		p.fail("expression %s", types.ExprString(e))
	}
	return nil
}

func (p *presInterp) evalBool(e ast.Expr) *pval {
	v := p.eval(e)
	if v == nil {
		return nil
	}
	if v.kind != "bool" {
		p.fail("boolean expected in %s", types.ExprString(e))
		return nil
	}
	if !v.bk {
		p.fail("undecided condition %s", types.ExprString(e))
		return nil
	}
	return v
}

func (p *presInterp) call(x *ast.CallExpr) *pval {
	if tv, ok := p.info.Types[x.Fun]; ok && tv.IsType() {
		// ConstFloat64(0.0) etc
		return &pval{kind: "elem", e: &pelem{role: "const", present: true, val: sym.Zero()}}
	}
	s, ok := ast.Unparen(x.Fun).(*ast.SelectorExpr)
	if !ok {
		if id, ok := x.Fun.(*ast.Ident); ok {
			if strings.HasPrefix(id.Name, "Null") || strings.HasPrefix(id.Name, "New") {
				return &pval{kind: "elem", e: &pelem{role: "tmp", present: true, val: sym.Zero(), typed: true}}
			}
			if id.Name == "panic" {
				p.stop = true
				return &pval{kind: "int"}
			}
		}
		return &pval{kind: "int"}
	}
	base := p.eval(s.X)
	if base == nil {
		return nil
	}
	name := s.Sel.Name
	switch base.kind {
	case "cont":
		switch name {
		case "Dim", "Dims", "ElementType":
			return &pval{kind: "int"}
		case "AT", "At", "MagicAt":
			if base.role == "r" {
				return &pval{kind: "elem", e: p.recvElem(true)}
			}
			e := p.elemFor(base.role)
			return &pval{kind: "elem", e: e}
		case "AT_":
			if base.role == "r" {
				return &pval{kind: "elem", e: p.recvElem(false)}
			}
			return &pval{kind: "elem", e: p.elemFor(base.role)}
		case "ConstAt", "ValueAt":
			if base.role == "r" {
				e := p.recvElem(false)
				return &pval{kind: "elem", e: &pelem{role: "r", present: true, val: e.val}}
			}
			e := p.elemFor(base.role)
			e.subst = !e.present
			e.typed = false
			return &pval{kind: "elem", e: e}
		}
		p.fail("container method %s", name)
	case "iter":
		switch name {
		case "Ok", "Next":
			return &pval{kind: "bool", b: true, bk: true}
		case "Index":
			return &pval{kind: "int"}
		case "GET", "Get", "GetConst":
			return &pval{kind: "tuple"}
		}
		p.fail("iterator method %s", name)
	case "elem":
		return p.elemOp(base.e, name, x)
	}
	if p.err == "" {
		p.fail("call %s", types.ExprString(x))
	}
	return nil
}

func (p *presInterp) elemOp(recv *pelem, name string, x *ast.CallExpr) *pval {
	lname := strings.ToLower(name)
	if strings.HasPrefix(name, "GetFloat") || strings.HasPrefix(name, "GetInt") {
		if !recv.present && recv.typed {
			p.fail("value of an absent typed element is read")
			return nil
		}
		return &pval{kind: "num", e: recv}
	}
	if name == "nullScalar" {
		return &pval{kind: "bool", b: !recv.present, bk: true}
	}
	if !recv.present && recv.typed {
		p.fail("operation %s on an absent (nil) element", name)
		return nil
	}
	var args []*pelem
	for _, a := range x.Args {
		v := p.eval(a)
		if v == nil {
			return nil
		}
		switch v.kind {
		case "elem":
			if !v.e.present && v.e.typed {
				p.fail("absent (nil) operand %s passed to %s", v.e.role, name)
				return nil
			}
			args = append(args, v.e)
		case "int":
			args = append(args, &pelem{role: "const", present: true, val: sym.Zero()})
		default:
			p.fail("argument kind %s", v.kind)
			return nil
		}
	}
	switch {
	case lname == "reset":
		recv.val = sym.Zero()
	case lname == "set":
		if len(args) != 1 {
			p.fail("Set arity")
			return nil
		}
		recv.val = args[0].val
	case strings.HasPrefix(lname, "setfloat") || strings.HasPrefix(lname, "setint"):
		// constant argument
		if tv, ok := p.info.Types[x.Args[0]]; ok && tv.Value != nil {
			if r, ok2 := ratOf(tv.Value.ExactString()); ok2 {
				recv.val = sym.Const(r)
				break
			}
		}
		p.fail("SetFloat64 of a non-constant")
		return nil
	default:
		var ts []*sym.Term
		for _, a := range args {
			ts = append(ts, a.val)
		}
		v, ok := scalarSpec(lname, ts, nil)
		if !ok {
			p.fail("no specification for %s", name)
			return nil
		}
		recv.val = v
	}
	return &pval{kind: "elem", e: recv}
}

func (p *presInterp) block(list []ast.Stmt) {
	for _, s := range list {
		if p.err != "" || p.stop {
			return
		}
		p.stmt(s)
	}
}

func (p *presInterp) stmt(s ast.Stmt) {
	switch x := s.(type) {
	case *ast.AssignStmt:
		// tuple from it.GET()
		if len(x.Lhs) >= 2 && len(x.Rhs) == 1 {
			v := p.eval(x.Rhs[0])
			if v == nil {
				return
			}
			if v.kind == "tuple" {
				roles := []string{"r", "a", "b"}
				for i, l := range x.Lhs {
					id, ok := l.(*ast.Ident)
					if !ok || id.Name == "_" {
						continue
					}
					o := p.info.Defs[id]
					if o == nil {
						o = p.info.Uses[id]
					}
					if roles[i] == "r" {
						p.locals[o] = &pval{kind: "elem", e: p.recvElem(false)}
					} else {
						p.locals[o] = &pval{kind: "elem", e: p.elemFor(roles[i])}
					}
				}
				return
			}
			for _, l := range x.Lhs {
				if id, ok := l.(*ast.Ident); ok && id.Name != "_" {
					o := p.info.Defs[id]
					if o == nil {
						o = p.info.Uses[id]
					}
					p.locals[o] = &pval{kind: "int"}
				}
			}
			return
		}
		for i, l := range x.Lhs {
			if i >= len(x.Rhs) {
				break
			}
			v := p.eval(x.Rhs[i])
			if v == nil {
				return
			}
			if id, ok := l.(*ast.Ident); ok && id.Name != "_" {
				o := p.info.Defs[id]
				if o == nil {
					o = p.info.Uses[id]
				}
				p.locals[o] = v
			}
		}
	case *ast.ExprStmt:
		p.eval(x.X)
	case *ast.IfStmt:
		if x.Init != nil {
			p.stmt(x.Init)
		}
		c := p.evalBool(x.Cond)
		if c == nil {
			return
		}
		if c.b {
			p.block(x.Body.List)
		} else if x.Else != nil {
			if b, ok := x.Else.(*ast.BlockStmt); ok {
				p.block(b.List)
			} else {
				p.stmt(x.Else)
			}
		}
	case *ast.SwitchStmt:
		if x.Tag != nil {
			p.fail("tagged switch")
			return
		}
		var def *ast.CaseClause
		for _, cs := range x.Body.List {
			cc := cs.(*ast.CaseClause)
			if cc.List == nil {
				def = cc
				continue
			}
			for _, e := range cc.List {
				c := p.evalBool(e)
				if c == nil {
					return
				}
				if c.b {
					p.block(cc.Body)
					return
				}
			}
		}
		if def != nil {
			p.block(def.Body)
		}
	case *ast.BranchStmt:
		p.stop = true
	case *ast.ReturnStmt:
		p.stop = true
	case *ast.BlockStmt:
		p.block(x.List)
	default:
		p.fail("statement %T", s)
	}
}

func ratOf(s string) (*big.Rat, bool) {
	r, ok := new(big.Rat).SetString(s)
	return r, ok
}

// kernelLoop describes one element loop of a kernel method.
type kernelLoop struct {
	body    []ast.Stmt
	iterVar types.Object
	joint   bool     // joint iterator over supports
	counted bool     // for i := 0; i < n; i++
	roles   []string // container roles visited by the joint iterator (in order r, a[, b])
	typed   bool
	pos     token.Pos
	branch  string // enclosing top-level branch condition (VdivS)
}

// findKernelLoops finds the element loops of a kernel (top level or inside a top-level if/else).
func findKernelLoops(p *presInterp, list []ast.Stmt, branch string) []kernelLoop {
	var res []kernelLoop
	for _, st := range list {
		switch x := st.(type) {
		case *ast.ForStmt:
			kl := kernelLoop{body: x.Body.List, pos: x.Pos(), branch: branch}
			if as, ok := x.Init.(*ast.AssignStmt); ok && len(as.Lhs) == 1 && len(as.Rhs) == 1 {
				id, _ := as.Lhs[0].(*ast.Ident)
				if ce, ok := as.Rhs[0].(*ast.CallExpr); ok && id != nil {
					nm := calleeName(ce)
					if nm == "ConstIterator" || nm == "Iterator" || nm == "ITERATOR" || nm == "MagicIterator" {
						// plain iterator over one container only
						kl.joint = true
						kl.iterVar = p.info.Defs[id]
						kl.roles = []string{"single"}
					} else if strings.Contains(nm, "JOINT") || strings.Contains(nm, "Joint") {
						kl.joint = true
						kl.iterVar = p.info.Defs[id]
						kl.typed = strings.HasSuffix(nm, "_")
						kl.roles = []string{"r"}
						for k := range ce.Args {
							kl.roles = append(kl.roles, []string{"a", "b"}[k])
						}
						// the joint iterator must be the receiver's over the operands in order
						if se, ok := ce.Fun.(*ast.SelectorExpr); ok {
							if b := p.eval(se.X); b == nil || b.kind != "cont" || b.role != "r" {
								p.fail("joint iterator is not taken from the receiver")
							}
						}
						for k, a := range ce.Args {
							if v := p.eval(a); v == nil || v.kind != "cont" || v.role != []string{"a", "b"}[k] {
								p.fail("joint iterator operand %d is not the %d-th container operand", k, k)
							}
						}
					}
				} else if id != nil {
					kl.counted = true
					kl.iterVar = p.info.Defs[id]
					// nested counted loops (matrix): descend
					if len(x.Body.List) == 1 {
						if inner, ok := x.Body.List[0].(*ast.ForStmt); ok {
							kl.body = inner.Body.List
						}
					}
				}
			}
			res = append(res, kl)
		case *ast.IfStmt:
			if blockPanics(p.info, x.Body) {
				continue
			}
			res = append(res, findKernelLoops(p, x.Body.List, types.ExprString(x.Cond))...)
			if eb, ok := x.Else.(*ast.BlockStmt); ok {
				res = append(res, findKernelLoops(p, eb.List, "!("+types.ExprString(x.Cond)+")")...)
			}
		}
	}
	return res
}

// checkSparseKernel decides one sparse arithmetic method; opname in {add,sub,mul,div}; scalarB: second operand is a scalar.
func checkSparseKernel(c *core.Ctx, pkg *packages.Package, rule string, fd *ast.FuncDecl, cons, opname string, scalarB bool) {
	info := pkg.TypesInfo
	mk := func() *presInterp {
		p := &presInterp{pkg: pkg, info: info, fd: fd, roles: map[types.Object]string{}, locals: map[types.Object]*pval{}, assume: map[string]bool{}}
		p.recv = info.Defs[fd.Recv.List[0].Names[0]]
		k := 0
		for _, f := range fd.Type.Params.List {
			for _, n := range f.Names {
				role := []string{"a", "b", "c"}[k]
				if scalarB && k == 1 {
					role = "s"
				}
				p.roles[info.Defs[n]] = role
				k++
			}
		}
		return p
	}
	// delegation: r.VaddS(a, b); return r
	if tgt, ok := kernelDelegates(info, fd); ok {
		c.Check(strings.EqualFold(tgt, fd.Name.Name), rule, cons, "delegates to its twin", fd.Pos(), "delegates to "+tgt)
		return
	}
	p0 := mk()
	loops := findKernelLoops(p0, fd.Body.List, "")
	if p0.err != "" {
		c.Unknown(rule, cons, "kernel shape", fd.Pos(), p0.err)
		return
	}
	if len(loops) == 0 {
		c.Unknown(rule, cons, "kernel shape", fd.Pos(), "no element loop recognised")
		return
	}
	expected := func(a, b *sym.Term) *sym.Term {
		v, _ := scalarSpec(opname, []*sym.Term{a, b}, nil)
		return v
	}
	zeroPreserving := opname != "div" || scalarB // op(0,0) = 0 (div by a scalar assumed non-zero in the support-restricted branch)
	if scalarB && (opname == "add" || opname == "sub") {
		zeroPreserving = false
	}
	for _, kl := range loops {
		roles := []string{"r", "a"}
		if !scalarB {
			roles = append(roles, "b")
		}
		if kl.joint {
			if len(kl.roles) != len(roles) {
				c.Fail(rule, cons, "joint iterator covers the receiver and all container operands", kl.pos, fmt.Sprintf("the kernel iterates over %d container(s) but the receiver and %d operand(s) take part: entries of the containers left out (e.g. stale receiver entries where the operand has none) are never visited", len(kl.roles), len(roles)-1))
				continue
			}
			if !zeroPreserving && !strings.Contains(kl.branch, "== 0") {
				c.Fail(rule, cons, "iteration domain", kl.pos, "the kernel iterates over the joint support only, but "+opname+" of two absent (zero) entries is not zero, so positions outside the support get the wrong value")
				continue
			}
		}
		n := len(roles)
		for mask := 0; mask < 1<<n; mask++ {
			pc := pcase{present: map[string]bool{}}
			var desc []string
			for i, r := range roles {
				pc.present[r] = mask&(1<<i) != 0
				if pc.present[r] {
					desc = append(desc, r+" present")
				} else {
					desc = append(desc, r+" absent")
				}
			}
			visited := true
			if kl.joint && mask == 0 {
				visited = false
			}
			detail := "case " + strings.Join(desc, ", ")
			if kl.branch != "" {
				detail = "[" + kl.branch + "] " + detail
			}
			if !visited {
				// unvisited: result stays absent = 0 ; op(0,0) must be 0
				c.Check(zeroPreserving || strings.Contains(kl.branch, "== 0"), rule, cons, detail+" (not visited)", kl.pos, "position outside every support is skipped although op(0,0) != 0")
				continue
			}
			// run with forks
			var forks []bool
			for iter := 0; iter < 16; iter++ {
				p := mk()
				p.typed = kl.typed
				p.cur = pc
				p.forks = forks
				p.locals[kl.iterVar] = &pval{kind: "iter"}
				if kl.counted {
					p.locals[kl.iterVar] = &pval{kind: "int"}
				}
				p.block(kl.body)
				fdetail := detail
				if len(p.conds) > 0 {
					fdetail += " {" + strings.Join(p.conds, ",") + "}"
				}
				if p.err != "" {
					if strings.Contains(p.err, "absent (nil)") || strings.Contains(p.err, "absent typed") {
						c.Fail(rule, cons, fdetail, kl.pos, p.err)
					} else {
						c.Unknown(rule, cons, fdetail, kl.pos, p.err)
					}
				} else {
					a, b := sym.Zero(), sym.Zero()
					if pc.present["a"] && !p.assume["a"] {
						a = sym.Sym("a")
					}
					if scalarB {
						b = sym.Sym("s")
						if p.assume["s"] {
							b = sym.Zero()
						}
					} else if pc.present["b"] && !p.assume["b"] {
						b = sym.Sym("b")
					}
					want := expected(a, b)
					got := sym.Zero()
					if p.relem != nil && p.relem.present {
						got = p.relem.val
					} else if pc.present["r"] {
						got = sym.Sym("r")
					}
					if p.relem == nil && pc.present["r"] {
						got = sym.Sym("r")
					}
					if p.assume["r"] {
						got = sym.Subst(got, map[*sym.Atom]*sym.Term{sym.SymAtom("r"): sym.Zero()})
					}
					ok := sym.Equal(got, want)
					// division by an absent/zero entry is undefined either way
					if opname == "div" && (want.String() == "divzero(0)" || strings.Contains(want.String(), "divzero")) {
						ok = true
					}
					c.Check(ok, rule, cons, fdetail, kl.pos, fmt.Sprintf("receiver element becomes %s, expected %s(a,b) = %s with absent entries counting as zero", got, opname, want))
				}
				// next fork vector
				f := p.forks
				for len(f) > 0 && f[len(f)-1] {
					f = f[:len(f)-1]
				}
				if len(f) == 0 {
					break
				}
				forks = append(append([]bool{}, f[:len(f)-1]...), true)
			}
		}
	}
}

// kernelDelegates: body is "r.X(a, b); return r" or "return r.X(a,b)".
func kernelDelegates(info *types.Info, fd *ast.FuncDecl) (string, bool) {
	if len(fd.Body.List) > 2 || len(fd.Body.List) == 0 {
		return "", false
	}
	var ce *ast.CallExpr
	switch x := fd.Body.List[0].(type) {
	case *ast.ExprStmt:
		ce, _ = x.X.(*ast.CallExpr)
	case *ast.ReturnStmt:
		if len(x.Results) == 1 {
			ce, _ = ast.Unparen(x.Results[0]).(*ast.CallExpr)
		}
	}
	if ce == nil {
		return "", false
	}
	if s, ok := ce.Fun.(*ast.SelectorExpr); ok {
		if id, ok := s.X.(*ast.Ident); ok && fd.Recv != nil && len(fd.Recv.List[0].Names) > 0 && id.Name == fd.Recv.List[0].Names[0].Name {
			return s.Sel.Name, true
		}
	}
	return "", false
}

var _ = core.RootPkg

func isScalarType(t types.Type) bool {
	n := core.NamedOf(t)
	if n == nil {
		return false
	}
	switch n.Obj().Name() {
	case "Scalar", "ConstScalar", "MagicScalar":
		return true
	}
	return isScalarTypeName(n.Obj().Name())
}
