package checks

import (
	"fmt"
	"go/ast"
	"go/constant"
	"go/token"
	"go/types"
	"math/big"
	"os"
	"strings"

	"golang.org/x/tools/go/packages"

	"verif/internal/core"
)

func init() { Registry["C13"] = checkC13 }

// ---------------------------------------------------------------------------
// C13 (structural clauses only)
// ---------------------------------------------------------------------------
//
// Accuracy over the float64 domain is not decided. What is decided are necessary conditions whose truth is in the source:
//
//	R1  no input of a special-function routine is dropped (every parameter is read, or every call passes the neutral
//	    constant the body starts from);
//	R2  the factorial table holds k! exactly and is guarded by its own length;
//	R3  LogAdd/LogSub return log(e^a +- e^b) on every path (term identity) and pass -Inf operands through;
//	R4  the log-domain Bessel routines are the logarithm of their linear-domain twins (term identity per path, twins
//	    paired by guard);
//	R5  LogErfc: the three pieces partition the real line, the middle piece is log(erfc(x)), the series coefficients
//	    are the Taylor coefficients of log erfc;
//	R6  the mathematical constants have the value their name says.

var specialPkgs = []string{"special", "logarithmetic"}

func checkC13(c *core.Ctx) error {
	if err := c.Load(packages.LoadSyntax); err != nil {
		return err
	}
	c.Explanation = "Accuracy of the special functions over the float64 domain is a numerical statement and is NOT decided. Decided are structural necessary conditions: no routine of the special-function packages drops one of its inputs (R1); the factorial table holds k! exactly (R2); LogAdd/LogSub are log(e^a +- e^b) as term identities on every path (R3); every log-domain Bessel routine is, path by path, the logarithm of its linear-domain twin (R4); LogErfc's pieces partition the line, its middle piece is log(erfc x) and its series coefficients are the Taylor coefficients of log erfc (R5); the named mathematical constants carry the value of their name (R6); the incomplete gamma dispatcher satisfies P + Q = 1, Lower + Upper = Gamma(a) and the scaling between regularised and full results for every selection of its evaluation method, with the evaluation routines opaque, and Temme's expansion is taken at its defining argument (R7); the shift loops of digamma/lgamma and the shift and reflection paths of trigamma follow the recurrences of those functions, and Mgamma/Mlgamma their definition (R8)."
	c.Rule("C13.R1", "every parameter of a routine of special/ and logarithmetic/ is read by its body; a parameter that is not read is accepted only when every call site passes the neutral constant", 150)
	c.Rule("C13.R2", "factorialList[k] == k! exactly; Factorial indexes the table only below its length", 22)
	c.Rule("C13.R6", "M_PI, M_SQRTPI, M_ROOT_TWO_PI, M_EULER round to the float64 nearest to the value of their name", 4)
	checkUnusedInputs(c)
	checkFactorialTable(c)
	checkNamedConstants(c)
	checkLogArith(c)
	checkLogTwins(c)
	checkLogErfc(c)
	checkGammaDispatcher(c)
	checkRecurrences(c)
	checkMgamma(c)
	checkPolygammaSeries(c)
	checkRangeGuards(c)
	checkParityTests(c)
	return nil
}

// ---- R1 ---------------------------------------------------------------------------------------------------------

func checkUnusedInputs(c *core.Ctx) {
	var pkgs []*packages.Package
	for _, rel := range specialPkgs {
		p := c.Pkg(rel)
		if p == nil {
			c.Unknown("C13.R1", rel, "package loaded", token.NoPos, "not loaded")
			continue
		}
		pkgs = append(pkgs, p)
	}
	if os.Getenv("C13_SURVEY") != "" { // dev-time survey over the whole library
		pkgs = c.LibPkgs()
	}
	for _, p := range pkgs {
		paramsAreRead(c, "C13.R1", p, func(*ast.FuncDecl) bool { return true },
			"an input of the routine (a start value, an argument, a flag) is silently dropped")
	}
}

// paramsAreRead: every named parameter of the selected functions of p is read by the body. A parameter of a plain function
// that is not read is accepted only when every call site in the library passes the constant 0 (a neutral start value).
func paramsAreRead(c *core.Ctx, rule string, p *packages.Package, sel func(*ast.FuncDecl) bool, consequence string) {
	info := p.TypesInfo
	calls := map[*types.Func][]*ast.CallExpr{}
	callInfo := map[*ast.CallExpr]*types.Info{}
	for _, q := range c.LibPkgs() {
		qi := q.TypesInfo
		for _, f := range q.Syntax {
			ast.Inspect(f, func(n ast.Node) bool {
				if ce, ok := n.(*ast.CallExpr); ok {
					if fn := core.Callee(qi, ce); fn != nil && fn.Pkg() == p.Types {
						calls[fn] = append(calls[fn], ce)
						callInfo[ce] = qi
					}
				}
				return true
			})
		}
	}
	core.EachFunc(p, func(_ *ast.File, fd *ast.FuncDecl) {
		if fd.Body == nil || !sel(fd) {
			return
		}
		fn, _ := info.Defs[fd.Name].(*types.Func)
		used := map[types.Object]bool{}
		ast.Inspect(fd.Body, func(n ast.Node) bool {
			if id, ok := n.(*ast.Ident); ok {
				if o := info.Uses[id]; o != nil {
					used[o] = true
				}
			}
			return true
		})
		idx := 0
		for _, fl := range fd.Type.Params.List {
			if len(fl.Names) == 0 {
				idx++
				continue
			}
			for _, nm := range fl.Names {
				k := idx
				idx++
				if nm.Name == "_" {
					continue
				}
				o := info.Defs[nm]
				if o == nil {
					continue
				}
				cons := c.FuncName(p, fd)
				detail := fmt.Sprintf("parameter %d is read", k)
				if used[o] {
					c.OK(rule, cons, detail, nm.Pos(), "")
					continue
				}
				neutral := fn != nil && len(calls[fn]) > 0 && fd.Recv == nil
				for _, ce := range calls[fn] {
					if k >= len(ce.Args) {
						neutral = false
						continue
					}
					tv, ok := callInfo[ce].Types[ce.Args[k]]
					if !ok || tv.Value == nil || constant.Sign(constant.ToFloat(tv.Value)) != 0 {
						neutral = false
					}
				}
				c.Check(neutral, rule, cons, detail, nm.Pos(),
					"parameter "+nm.Name+" is never read (and no set of call sites that all pass the constant 0 excuses it): "+consequence)
			}
		}
	})
}

// ---- R2 ---------------------------------------------------------------------------------------------------------

func checkFactorialTable(c *core.Ctx) {
	p := c.Pkg("special")
	if p == nil {
		return
	}
	info := p.TypesInfo
	var table *ast.CompositeLit
	var tableObj types.Object
	for _, f := range p.Syntax {
		for _, d := range f.Decls {
			gd, ok := d.(*ast.GenDecl)
			if !ok {
				continue
			}
			for _, s := range gd.Specs {
				vs, ok := s.(*ast.ValueSpec)
				if !ok || len(vs.Names) != 1 || len(vs.Values) != 1 || vs.Names[0].Name != "factorialList" {
					continue
				}
				if cl, ok := vs.Values[0].(*ast.CompositeLit); ok {
					table = cl
					tableObj = info.Defs[vs.Names[0]]
				}
			}
		}
	}
	if table == nil {
		c.Unknown("C13.R2", "special.factorialList", "table found", token.NoPos, "the factorial table was not found")
		return
	}
	f := big.NewInt(1)
	for k, e := range table.Elts {
		if k > 0 {
			f.Mul(f, big.NewInt(int64(k)))
		}
		tv, ok := info.Types[e]
		good := false
		if ok && tv.Value != nil {
			if v := constant.ToInt(tv.Value); v.Kind() == constant.Int {
				if bi, ok := constant.Val(v).(*big.Int); ok {
					good = bi.Cmp(f) == 0
				} else if i64, ok := constant.Val(v).(int64); ok {
					good = big.NewInt(i64).Cmp(f) == 0
				}
			}
		}
		c.Check(good, "C13.R2", "special.factorialList", fmt.Sprintf("entry %d is %d!", k, k), e.Pos(),
			fmt.Sprintf("entry %d of the factorial table is not %d! = %s", k, k, f.String()))
	}
	// Factorial: the table is indexed only under a guard index < len(table) (or a variable initialised with it)
	fd := findFuncDecl(p, "Factorial")
	if fd == nil {
		c.Unknown("C13.R2", "special.Factorial", "function found", token.NoPos, "not found")
		return
	}
	lenVars := map[types.Object]bool{}
	for _, f := range p.Syntax {
		for _, d := range f.Decls {
			gd, ok := d.(*ast.GenDecl)
			if !ok {
				continue
			}
			for _, s := range gd.Specs {
				vs, ok := s.(*ast.ValueSpec)
				if !ok || len(vs.Names) != 1 || len(vs.Values) != 1 {
					continue
				}
				if ce, ok := vs.Values[0].(*ast.CallExpr); ok && len(ce.Args) == 1 {
					if id, ok := ce.Fun.(*ast.Ident); ok && id.Name == "len" {
						if a, ok := ce.Args[0].(*ast.Ident); ok && info.Uses[a] == tableObj {
							lenVars[info.Defs[vs.Names[0]]] = true
						}
					}
				}
			}
		}
	}
	// a len variable must not be assigned anywhere else
	for _, f := range p.Syntax {
		ast.Inspect(f, func(n ast.Node) bool {
			if as, ok := n.(*ast.AssignStmt); ok {
				for _, l := range as.Lhs {
					if id, ok := l.(*ast.Ident); ok && lenVars[info.Uses[id]] {
						delete(lenVars, info.Uses[id])
					}
				}
			}
			return true
		})
	}
	isLen := func(e ast.Expr) bool {
		e = ast.Unparen(e)
		if id, ok := e.(*ast.Ident); ok {
			return lenVars[info.Uses[id]]
		}
		if ce, ok := e.(*ast.CallExpr); ok && len(ce.Args) == 1 {
			if id, ok := ce.Fun.(*ast.Ident); ok && id.Name == "len" {
				if a, ok := ce.Args[0].(*ast.Ident); ok {
					return info.Uses[a] == tableObj
				}
			}
		}
		return false
	}
	g := core.NewFuncCFG(fd.Body, info)
	nIdx := 0
	ast.Inspect(fd.Body, func(n ast.Node) bool {
		ix, ok := n.(*ast.IndexExpr)
		if !ok {
			return true
		}
		id, ok := ast.Unparen(ix.X).(*ast.Ident)
		if !ok || info.Uses[id] != tableObj {
			return true
		}
		nIdx++
		idxText := types.ExprString(ix.Index)
		guarded := false
		ast.Inspect(fd.Body, func(m ast.Node) bool {
			is, ok := m.(*ast.IfStmt)
			if !ok {
				return true
			}
			be, ok := ast.Unparen(is.Cond).(*ast.BinaryExpr)
			if !ok {
				return true
			}
			okCond := (be.Op == token.LSS && types.ExprString(be.X) == idxText && isLen(be.Y)) ||
				(be.Op == token.GTR && types.ExprString(be.Y) == idxText && isLen(be.X))
			if okCond && is.Body.Pos() <= ix.Pos() && ix.End() <= is.Body.End() {
				guarded = true
			}
			return true
		})
		_ = g
		c.Check(guarded, "C13.R2", "special.Factorial", "table index is below the table length", ix.Pos(),
			"the factorial table is indexed outside a guard `index < len(table)`: arguments beyond the table panic or read the wrong entry")
		return true
	})
	if nIdx == 0 {
		c.Unknown("C13.R2", "special.Factorial", "table index is below the table length", fd.Pos(), "Factorial does not index the table")
	}
}

// ---- R6 ---------------------------------------------------------------------------------------------------------

// reference digits (independent of the source): pi, sqrt(pi), sqrt(2 pi), Euler-Mascheroni
var namedConstants = map[string]string{
	"M_PI":          "3.14159265358979323846264338327950288419716939937510",
	"M_SQRTPI":      "1.77245385090551602729816748334114518279754945612238",
	"M_ROOT_TWO_PI": "2.50662827463100050241576528481104525300698674060993",
	"M_EULER":       "0.57721566490153286060651209008240243104215933593992",
}

func checkNamedConstants(c *core.Ctx) {
	p := c.Pkg("special")
	if p == nil {
		return
	}
	found := map[string]bool{}
	for _, name := range p.Types.Scope().Names() {
		ref, ok := namedConstants[name]
		if !ok {
			continue
		}
		cn, ok := p.Types.Scope().Lookup(name).(*types.Const)
		if !ok {
			continue
		}
		found[name] = true
		want, _, _ := big.ParseFloat(ref, 10, 300, big.ToNearestEven)
		got, _, err := big.ParseFloat(cn.Val().ExactString(), 10, 300, big.ToNearestEven)
		if err != nil {
			// ExactString may be a fraction a/b
			if r, ok := new(big.Rat).SetString(cn.Val().ExactString()); ok {
				got = new(big.Float).SetPrec(300).SetRat(r)
				err = nil
			}
		}
		good := false
		if err == nil {
			// the constant is used as a float64: it must round to the float64 nearest to the true value
			g64, _ := got.Float64()
			w64, _ := want.Float64()
			good = g64 == w64
		}
		c.Check(good, "C13.R6", "special."+name, "value of the named constant", cn.Pos(),
			"the constant "+name+" = "+cn.Val().String()+" differs from "+ref[:32]+"... : every routine that uses it inherits the error")
	}
	for name := range namedConstants {
		if !found[name] {
			c.Unknown("C13.R6", "special."+name, "value of the named constant", token.NoPos, "constant not found")
		}
	}
}

var _ = strings.Contains
